//! The *view* of a file that Trace_FaultModel judges the container level from
//! (FaultModel!ViewOf, re-implemented with own readers; MC_FaultModel's FILE cases check that both
//! cuts agree), plus hashes of the byte ranges the directory records name.
use super::wrap;
use serde_json::{json, Value};

pub const HUGE: u64 = 1 << 30;
const CAP: usize = 4096;

fn r16(d: &[u8], p: usize) -> usize {
    ((d[p] as usize) << 8) | d[p + 1] as usize
}
fn r32(d: &[u8], p: usize) -> u64 {
    let v = u32::from_be_bytes([d[p], d[p + 1], d[p + 2], d[p + 3]]) as u64;
    if v >= HUGE {
        HUGE
    } else {
        v
    }
}

const SFNT_MAGICS: [&[u8; 4]; 3] = [&[0, 1, 0, 0], b"true", b"OTTO"];

fn head_need(d: &[u8]) -> usize {
    let n = d.len();
    if n < 4 {
        return n;
    }
    let m: &[u8] = &d[0..4];
    if SFNT_MAGICS.iter().any(|x| &x[..] == m) {
        if n < 6 {
            n
        } else {
            12 + 16 * r16(d, 4)
        }
    } else if m == b"ttcf" {
        if n < 12 {
            n
        } else {
            let k = r32(d, 8);
            if k >= 16_777_216 || 12 + 4 * k as usize > n {
                12
            } else {
                12 + 4 * k as usize
            }
        }
    } else if m == b"wOFF" {
        if n < 14 {
            n
        } else {
            44 + 20 * r16(d, 12)
        }
    } else if m == b"wOF2" {
        48
    } else {
        4
    }
}

fn ints(d: &[u8]) -> Value {
    Value::Array(d.iter().map(|b| json!(*b)).collect())
}

pub fn fnv(d: &[u8]) -> String {
    let mut h: u64 = 0xcbf29ce484222325;
    for &b in d {
        h ^= b as u64;
        h = h.wrapping_mul(0x100000001b3);
    }
    format!("{:016x}", h)
}

/// (view, big, slices, inflated, indep)
pub fn view_of(d: &[u8]) -> (Value, bool, Value, Value, &'static str) {
    let need = head_need(d).min(d.len());
    if need > CAP {
        return (json!({"flen": d.len(), "hd": [], "members": []}), true, json!([]), json!([]), "");
    }
    let hd = &d[..need];
    let mut members = Vec::new();
    let mut big = false;
    // directory records of provider 0: (offset, length, orig, woff?)
    let mut recs: Vec<(u64, u64, u64, bool)> = Vec::new();
    let is_sfnt = |p: usize| d.len() >= p + 4 && SFNT_MAGICS.iter().any(|x| &x[..] == &d[p..p + 4]);
    let mut sfnt_recs = |p: usize, avail: usize, recs: &mut Vec<(u64, u64, u64, bool)>| {
        if avail >= 12 {
            let n = r16(d, p + 4);
            if 12 + 16 * n <= avail {
                for k in 0..n {
                    let r = p + 12 + 16 * k;
                    recs.push((r32(d, r + 8), r32(d, r + 12), r32(d, r + 12), false));
                }
            }
        }
    };
    if d.len() >= 12 && &d[0..4] == b"ttcf" && need > 12 && (r16(d, 4) == 1 || r16(d, 4) == 2) {
        let k = (need - 12) / 4;
        for i in 0..k.min(3) {
            let o = r32(d, 12 + 4 * i);
            if o == HUGE || o as usize > d.len() {
                members.push(json!({"o": o, "hd": []}));
            } else {
                let rest = &d[o as usize..];
                let mneed = if rest.len() < 6 { rest.len() } else { 12 + 16 * r16(rest, 4) };
                let mneed = mneed.min(rest.len());
                if mneed > CAP {
                    big = true;
                }
                members.push(json!({"o": o, "hd": ints(&rest[..mneed.min(CAP)])}));
                if i == 0 && is_sfnt(o as usize) {
                    sfnt_recs(o as usize, rest.len(), &mut recs);
                }
            }
        }
    } else if is_sfnt(0) {
        sfnt_recs(0, d.len(), &mut recs);
    } else if d.len() >= 44 && &d[0..4] == b"wOFF" {
        let n = r16(d, 12);
        if 44 + 20 * n <= d.len() {
            for k in 0..n {
                let r = 44 + 20 * k;
                recs.push((r32(d, r + 4), r32(d, r + 8), r32(d, r + 12), true));
            }
        }
    }
    let mut slices = Vec::new();
    let mut inflated = Vec::new();
    for (off, len, orig, woff) in recs {
        let range: Option<&[u8]> = if len == 0 {
            Some(&[])
        } else if off == HUGE || len == HUGE {
            None
        } else {
            d.get(off as usize..(off + len) as usize)
        };
        slices.push(json!(range.map(fnv).unwrap_or_default()));
        inflated.push(match range {
            Some(r) if woff && len != orig => match wrap::unzlib(r) {
                Some(z) => json!(["Ok", fnv(&z), z.len().min(1 << 30)]),
                None => json!(["Err", "", 0]),
            },
            _ => json!(["", "", 0]),
        });
    }
    let indep = if d.len() >= 4 && &d[0..4] == b"wOF2" {
        if wrap::woff2_open(d).is_some() {
            "Ok"
        } else {
            "Err"
        }
    } else {
        ""
    };
    (json!({"flen": d.len(), "hd": ints(hd), "members": members}), big, Value::Array(slices), Value::Array(inflated), indep)
}
