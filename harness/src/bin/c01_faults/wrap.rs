//! Inputs of the fault model: repository fonts as they are, the same fonts re-wrapped as TTC /
//! WOFF / WOFF2 by writers of this harness, and "inner" views of WOFF / WOFF2 files where the fault
//! is applied to the decompressed bytes and the file is re-assembled around them.
use flate2::write::ZlibEncoder;
use flate2::Compression;
use std::io::{Read, Write};
use vh::fontgen::{be16, be32, W};

pub const KNOWN_TAGS: [&str; 63] = [
    "cmap", "head", "hhea", "hmtx", "maxp", "name", "OS/2", "post", "cvt ", "fpgm", "glyf", "loca", "prep", "CFF ", "VORG", "EBDT",
    "EBLC", "gasp", "hdmx", "kern", "LTSH", "PCLT", "VDMX", "vhea", "vmtx", "BASE", "GDEF", "GPOS", "GSUB", "EBSC", "JSTF", "MATH",
    "CBDT", "CBLC", "COLR", "CPAL", "SVG ", "sbix", "acnt", "avar", "bdat", "bloc", "bsln", "cvar", "fdsc", "feat", "fmtx", "fvar",
    "gvar", "hsty", "just", "lcar", "mort", "morx", "opbd", "prop", "trak", "Zapf", "Silf", "Glat", "Gloc", "Feat", "Sill",
];

// ---- brotli: stored meta-blocks only (RFC 7932 section 9.2) ----------------------------------------

struct BitW {
    out: Vec<u8>,
    acc: u64,
    n: u32,
}
impl BitW {
    fn bits(&mut self, v: u32, n: u32) {
        self.acc |= (v as u64) << self.n;
        self.n += n;
        while self.n >= 8 {
            self.out.push((self.acc & 0xFF) as u8);
            self.acc >>= 8;
            self.n -= 8;
        }
    }
    fn align(&mut self) {
        if self.n > 0 {
            self.out.push((self.acc & 0xFF) as u8);
            self.acc = 0;
            self.n = 0;
        }
    }
}

pub fn brotli_stored(data: &[u8]) -> Vec<u8> {
    let mut w = BitW { out: Vec::new(), acc: 0, n: 0 };
    w.bits(0, 1); // WBITS = 16
    for c in data.chunks(1 << 16) {
        let len = c.len();
        w.bits(0, 1); // ISLAST
        w.bits(0, 2); // MNIBBLES = 4
        w.bits((len - 1) as u32, 16);
        w.bits(1, 1); // ISUNCOMPRESSED
        w.align();
        w.out.extend_from_slice(c);
    }
    w.bits(1, 1);
    w.bits(1, 1);
    w.align();
    w.out
}

pub fn brotli_decode(data: &[u8]) -> Option<Vec<u8>> {
    let mut out = Vec::new();
    brotli_decompressor::Decompressor::new(std::io::Cursor::new(data), 4096).read_to_end(&mut out).ok()?;
    Some(out)
}

fn b128(v: u32) -> Vec<u8> {
    let mut out = Vec::new();
    let mut started = false;
    for shift in [28, 21, 14, 7, 0] {
        let b = ((v >> shift) & 0x7f) as u8;
        if b != 0 || started || shift == 0 {
            started = true;
            out.push(if shift == 0 { b } else { b | 0x80 });
        }
    }
    out
}

// ---- independent sfnt reader (tables of a bare sfnt) ---------------------------------------------------

pub fn sfnt_tables(d: &[u8]) -> Option<(u32, Vec<(String, Vec<u8>)>)> {
    let ver = be32(d, 0)?;
    if ![0x0001_0000, 0x4F54_544F, 0x7472_7565].contains(&ver) {
        return None;
    }
    let n = be16(d, 4)? as usize;
    let mut out = Vec::new();
    for i in 0..n {
        let r = 12 + 16 * i;
        let tag: String = d.get(r..r + 4)?.iter().map(|&c| c as char).collect();
        let off = be32(d, r + 8)? as usize;
        let len = be32(d, r + 12)? as usize;
        out.push((tag, d.get(off..off.checked_add(len)?)?.to_vec()));
    }
    Some((ver, out))
}

// ---- writers -------------------------------------------------------------------------------------------------

pub fn build_ttc(members: &[&[u8]]) -> Option<Vec<u8>> {
    let fonts: Vec<(u32, Vec<(String, Vec<u8>)>)> = members.iter().map(|m| sfnt_tables(m)).collect::<Option<_>>()?;
    let mut w = W::new();
    w.tag("ttcf").u16(1).u16(0).u32(fonts.len() as u32);
    let mut dir_at = 12 + 4 * fonts.len();
    for f in &fonts {
        w.u32(dir_at as u32);
        dir_at += 12 + 16 * f.1.len();
    }
    // directories, then bodies
    let mut body_at = dir_at;
    let mut bodies = Vec::new();
    for (ver, tables) in &fonts {
        w.u32(*ver).u16(tables.len() as u16).u16(0).u16(0).u16(0);
        for (tag, data) in tables {
            w.tag(tag).u32(vh::fontgen::checksum(data)).u32(body_at as u32).u32(data.len() as u32);
            body_at += (data.len() + 3) & !3;
            bodies.push(data);
        }
    }
    for b in bodies {
        w.bytes(b);
        w.pad4();
    }
    Some(w.done())
}

fn zlib(data: &[u8]) -> Vec<u8> {
    let mut e = ZlibEncoder::new(Vec::new(), Compression::default());
    e.write_all(data).unwrap();
    e.finish().unwrap()
}

pub fn unzlib(data: &[u8]) -> Option<Vec<u8>> {
    let mut out = Vec::new();
    flate2::read::ZlibDecoder::new(data).read_to_end(&mut out).ok()?;
    Some(out)
}

/// WOFF 1 file from tables; `compress[i]` asks for a zlib stream (kept only when it is shorter)
pub fn build_woff(flavor: u32, tables: &[(String, Vec<u8>)], compress: &[bool]) -> Vec<u8> {
    let mut stored: Vec<Vec<u8>> = Vec::new();
    for (i, (_, d)) in tables.iter().enumerate() {
        let z = if compress[i] { zlib(d) } else { d.clone() };
        stored.push(if z.len() < d.len() { z } else { d.clone() });
    }
    let hdr = 44 + 20 * tables.len();
    let mut total_sfnt = 12 + 16 * tables.len();
    let mut at = hdr;
    let mut dir = W::new();
    for (i, (tag, d)) in tables.iter().enumerate() {
        dir.tag(tag).u32(at as u32).u32(stored[i].len() as u32).u32(d.len() as u32).u32(vh::fontgen::checksum(d));
        at += (stored[i].len() + 3) & !3;
        total_sfnt += (d.len() + 3) & !3;
    }
    let mut w = W::new();
    w.tag("wOFF").u32(flavor).u32(at as u32).u16(tables.len() as u16).u16(0).u32(total_sfnt as u32).u16(1).u16(0);
    w.u32(0).u32(0).u32(0).u32(0).u32(0);
    w.bytes(&dir.done());
    for s in &stored {
        w.bytes(s);
        w.pad4();
    }
    w.done()
}

/// WOFF2 file with null transforms (glyf / loca carry transform version 3)
pub fn build_woff2_null(flavor: u32, tables: &[(String, Vec<u8>)]) -> Vec<u8> {
    build_woff2(flavor, tables, None)
}

/// WOFF2 file whose hmtx table is stored with transform version 1 (flag byte `flags`: bit 0 / bit 1 set = the lsb
/// array of the long metrics / the trailing leftSideBearing array is left out, to be taken from the glyphs' xMin)
/// while glyf / loca keep the null transform - the directory flag combination an encoder does not write but a
/// file may carry.  None when the font has no hhea / maxp / hmtx to take the counts from.
pub fn build_woff2_hmtx(flavor: u32, tables: &[(String, Vec<u8>)], flags: u8) -> Option<Vec<u8>> {
    let get = |t: &str| tables.iter().find(|x| x.0 == t).map(|x| &x.1);
    let nh = be16(get("hhea")?, 34)? as usize;
    let ng = be16(get("maxp")?, 4)? as usize;
    let hmtx = get("hmtx")?;
    if nh == 0 || nh > ng || hmtx.len() < 4 * nh + 2 * (ng - nh) {
        return None;
    }
    let mut x = vec![flags];
    for k in 0..nh {
        x.extend_from_slice(&hmtx[4 * k..4 * k + 2]);
    }
    if flags & 1 == 0 {
        for k in 0..nh {
            x.extend_from_slice(&hmtx[4 * k + 2..4 * k + 4]);
        }
    }
    if flags & 2 == 0 {
        x.extend_from_slice(&hmtx[4 * nh..4 * nh + 2 * (ng - nh)]);
    }
    Some(build_woff2(flavor, tables, Some(x)))
}

fn build_woff2(flavor: u32, tables: &[(String, Vec<u8>)], xhmtx: Option<Vec<u8>>) -> Vec<u8> {
    let mut dir = Vec::new();
    let mut block = Vec::new();
    let mut total = 12 + 16 * tables.len();
    for (tag, d) in tables {
        let idx = KNOWN_TAGS.iter().position(|t| t == tag).unwrap_or(63) as u8;
        let transformed = if tag == "hmtx" { xhmtx.as_ref() } else { None };
        let ver: u8 = if tag == "glyf" || tag == "loca" {
            3
        } else if transformed.is_some() {
            1
        } else {
            0
        };
        dir.push(idx | (ver << 6));
        if idx == 63 {
            dir.extend(tag.bytes());
        }
        dir.extend(b128(d.len() as u32));
        match transformed {
            Some(x) => {
                dir.extend(b128(x.len() as u32));
                block.extend_from_slice(x);
            }
            None => block.extend_from_slice(d),
        }
        total += (d.len() + 3) & !3;
    }
    woff2_file(flavor, tables.len() as u16, &dir, &brotli_stored(&block), total as u32)
}

fn woff2_file(flavor: u32, n: u16, dir: &[u8], compressed: &[u8], total: u32) -> Vec<u8> {
    let mut w = W::new();
    let len = 48 + dir.len() + compressed.len();
    w.tag("wOF2").u32(flavor).u32(((len + 3) & !3) as u32).u16(n).u16(0).u32(total).u32(compressed.len() as u32);
    w.u16(1).u16(0).u32(0).u32(0).u32(0).u32(0).u32(0);
    w.bytes(dir).bytes(compressed);
    w.pad4();
    w.done()
}

// ---- inner views ---------------------------------------------------------------------------------------------

#[derive(Clone, Debug)]
pub enum Carrier {
    Plain,
    /// buf = decompressed table stream; prefix = header + directories, up to the compressed block
    Woff2Stream { prefix: Vec<u8> },
    /// buf = concatenated (decompressed) tables of a WOFF file
    WoffTables { flavor: u32, tables: Vec<(String, usize, usize, bool)> },
}

impl Carrier {
    /// file bytes for the (faulted) buffer
    pub fn assemble(&self, buf: &[u8]) -> Vec<u8> {
        match self {
            Carrier::Plain => buf.to_vec(),
            Carrier::Woff2Stream { prefix } => {
                let comp = brotli_stored(buf);
                let mut out = prefix.clone();
                let len = prefix.len() + comp.len();
                out[8..12].copy_from_slice(&(((len + 3) & !3) as u32).to_be_bytes());
                out[20..24].copy_from_slice(&(comp.len() as u32).to_be_bytes());
                out.extend_from_slice(&comp);
                while out.len() % 4 != 0 {
                    out.push(0);
                }
                out
            }
            Carrier::WoffTables { flavor, tables } => {
                let mut ts = Vec::new();
                let mut cs = Vec::new();
                for (tag, start, len, compressed) in tables {
                    let a = (*start).min(buf.len());
                    let b = (start + len).min(buf.len());
                    ts.push((tag.clone(), buf[a..b].to_vec()));
                    cs.push(*compressed);
                }
                build_woff(*flavor, &ts, &cs)
            }
        }
    }
}

/// (tag, offset in stream, stored length, transformed?) per directory entry of a WOFF2 file, the
/// end of header + directories, and the decompressed stream.  None when the file is not a
/// single-font WOFF2 this reader understands.
pub fn woff2_open(d: &[u8]) -> Option<(Vec<(String, usize, usize, bool)>, usize, Vec<u8>)> {
    if d.len() < 48 || &d[0..4] != b"wOF2" || &d[4..8] == b"ttcf" {
        return None;
    }
    let n = be16(d, 12)? as usize;
    let comp = be32(d, 20)? as usize;
    let mut p = 48usize;
    let mut entries = Vec::new();
    let mut off = 0usize;
    let rd128 = |p: &mut usize| -> Option<usize> {
        let mut v = 0usize;
        for _ in 0..5 {
            let b = *d.get(*p)?;
            *p += 1;
            v = (v << 7) | (b & 0x7f) as usize;
            if b & 0x80 == 0 {
                return Some(v);
            }
        }
        None
    };
    for _ in 0..n {
        let flags = *d.get(p)?;
        p += 1;
        let tag: String = if flags & 63 == 63 {
            let t = d.get(p..p + 4)?.iter().map(|&c| c as char).collect();
            p += 4;
            t
        } else {
            KNOWN_TAGS[(flags & 63) as usize].to_string()
        };
        let ver = flags >> 6;
        let orig = rd128(&mut p)?;
        let two = match (ver, tag.as_str()) {
            (3, "glyf") | (3, "loca") => false,
            (_, "glyf") | (_, "loca") => true,
            (1, "hmtx") => true,
            (0, _) => false,
            _ => true,
        };
        let stored = if two { rd128(&mut p)? } else { orig };
        entries.push((tag, off, stored, two));
        off += stored;
    }
    let stream = brotli_decode(d.get(p..p.checked_add(comp)?)?)?;
    Some((entries, p, stream))
}

/// tables of a WOFF file, decompressed: (tag, data, was compressed), flavor
pub fn woff_open(d: &[u8]) -> Option<(u32, Vec<(String, Vec<u8>, bool)>)> {
    if d.len() < 44 || &d[0..4] != b"wOFF" {
        return None;
    }
    let flavor = be32(d, 4)?;
    let n = be16(d, 12)? as usize;
    let mut out = Vec::new();
    for i in 0..n {
        let r = 44 + 20 * i;
        let tag: String = d.get(r..r + 4)?.iter().map(|&c| c as char).collect();
        let off = be32(d, r + 4)? as usize;
        let comp = be32(d, r + 8)? as usize;
        let orig = be32(d, r + 12)? as usize;
        let raw = d.get(off..off.checked_add(comp)?)?;
        if comp != orig {
            out.push((tag, unzlib(raw)?, true));
        } else {
            out.push((tag, raw.to_vec(), false));
        }
    }
    Some((flavor, out))
}

// ---- a font with a "seac" glyph ---------------------------------------------------------------------

/// CFF INDEX at `p`: (count, offSize, position of the offset array, position of the data - 1 + offset, end)
fn cff_index(d: &[u8], p: usize) -> Option<(usize, usize, usize, usize, usize)> {
    let count = be16(d, p)? as usize;
    if count == 0 {
        return Some((0, 0, p + 2, p + 2, p + 2));
    }
    let os = *d.get(p + 2)? as usize;
    if os == 0 || os > 4 {
        return None;
    }
    let oa = p + 3;
    let rd = |k: usize| -> Option<usize> {
        let s = d.get(oa + os * k..oa + os * (k + 1))?;
        Some(s.iter().fold(0usize, |a, &b| (a << 8) | b as usize))
    };
    let data = oa + os * (count + 1) - 1;
    Some((count, os, oa, data, data + rd(count)?))
}

fn cff_index_item(d: &[u8], p: usize, k: usize) -> Option<(usize, usize)> {
    let (count, os, oa, data, _) = cff_index(d, p)?;
    if k >= count {
        return None;
    }
    let rd = |k: usize| -> Option<usize> {
        let s = d.get(oa + os * k..oa + os * (k + 1))?;
        Some(s.iter().fold(0usize, |a, &b| (a << 8) | b as usize))
    };
    let (a, b) = (rd(k)?, rd(k + 1)?);
    if a == 0 || b < a {
        return None;
    }
    Some((data + a, data + b))
}

/// A copy of a (not CID-keyed) CFF font in which the charstring of the glyph for a letter is an accented
/// character made with the four-argument endchar ("seac") of Type 2 charstrings: base `B`, accent
/// `C` (codes of the standard encoding).  The bytes before it are stem hints without effect, so that
/// the charstring keeps its length.  None when the font is not of that kind.
pub fn seac_variant(src: &[u8]) -> Option<Vec<u8>> {
    let mut d = src.to_vec();
    let n = be16(&d, 4)? as usize;
    let mut cff = None;
    for i in 0..n {
        let r = 12 + 16 * i;
        if d.get(r..r + 4)? == b"CFF " {
            cff = Some((be32(&d, r + 8)? as usize, be32(&d, r + 12)? as usize));
        }
    }
    let (t, tl) = cff?;
    let hdr = *d.get(t + 2)? as usize;
    let (_, _, _, _, name_end) = cff_index(&d, t + hdr)?;
    let (top_a, top_b) = cff_index_item(&d, name_end, 0)?;
    // Top DICT: charset (15), CharStrings (17); ROS (12 30) = CID-keyed
    let (mut charset, mut charstrings) = (0usize, None);
    let mut ops: Vec<i64> = Vec::new();
    let mut p = top_a;
    while p < top_b {
        let b0 = d[p] as usize;
        match b0 {
            12 => {
                if d.get(p + 1) == Some(&30) {
                    return None;
                }
                ops.clear();
                p += 2;
            }
            0..=21 => {
                if b0 == 15 {
                    charset = *ops.last()? as usize;
                } else if b0 == 17 {
                    charstrings = Some(*ops.last()? as usize);
                }
                ops.clear();
                p += 1;
            }
            28 => {
                ops.push(be16(&d, p + 1)? as i16 as i64);
                p += 3;
            }
            29 => {
                ops.push(be32(&d, p + 1)? as i32 as i64);
                p += 5;
            }
            30 => {
                p += 1;
                while p < top_b {
                    let x = d[p];
                    p += 1;
                    if x & 0x0f == 0x0f || x >> 4 == 0x0f {
                        break;
                    }
                }
                ops.push(0);
            }
            32..=246 => {
                ops.push(b0 as i64 - 139);
                p += 1;
            }
            247..=250 => {
                ops.push((b0 as i64 - 247) * 256 + *d.get(p + 1)? as i64 + 108);
                p += 2;
            }
            251..=254 => {
                ops.push(-(b0 as i64 - 251) * 256 - *d.get(p + 1)? as i64 - 108);
                p += 2;
            }
            _ => p += 1,
        }
    }
    let cs = t + charstrings?;
    let (nglyphs, ..) = cff_index(&d, cs)?;
    // glyph of SID 34 ('A'); 'B' and 'C' must be there as well
    let gid_of = |sid: usize| -> Option<usize> {
        if charset <= 2 {
            return if charset == 0 && sid < nglyphs { Some(sid) } else { None };
        }
        let c = t + charset;
        match *d.get(c)? {
            0 => (1..nglyphs).find(|g| be16(&d, c + 1 + 2 * (g - 1)).map(|s| s as usize) == Some(sid)),
            f => {
                let lw = if f == 1 { 1 } else { 2 };
                let (mut g, mut q) = (1usize, c + 1);
                while g < nglyphs {
                    let first = be16(&d, q)? as usize;
                    let left = if lw == 1 { *d.get(q + 2)? as usize } else { be16(&d, q + 2)? as usize };
                    if sid >= first && sid <= first + left {
                        return Some(g + sid - first);
                    }
                    g += left + 1;
                    q += 2 + lw;
                }
                None
            }
        }
    };
    // the first letter whose charstring has room for the five bytes (and is one of the first 64 glyphs: the
    // outlines group visits those); base 'B' and accent 'C' must exist
    gid_of(35)?;
    gid_of(36)?;
    let (a, b) = (34..=95usize).filter(|s| *s != 35 && *s != 36).find_map(|sid| {
        let g = gid_of(sid)?;
        let (a, b) = cff_index_item(&d, cs, g)?;
        if g < 64 && b <= t + tl && b >= a + 5 {
            Some((a, b))
        } else {
            None
        }
    })?;
    // filler: groups of zeros closed by hstem, then  0 0 'B' 'C' endchar
    let mut code: Vec<u8> = Vec::new();
    let mut rest = b - a - 5;
    while rest > 0 {
        let k = (rest - 1).min(40);
        code.extend(std::iter::repeat(139u8).take(k));
        code.push(1);
        rest -= k + 1;
    }
    code.extend_from_slice(&[139, 139, 66 + 139, 67 + 139, 14]);
    d[a..b].copy_from_slice(&code);
    Some(d)
}
