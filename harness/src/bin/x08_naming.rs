//! X08 harness: name selection (`fontcode_get_name`, `NameTable::string_for_id`), STAT axis value
//! names (`StatTable::name_for_axis_value`), `variations::axis_names` and the name / OS/2 / head / post
//! attributes `variations::instance` writes into an instanced font.
//!
//!   x08_naming replay <cases.ndjson> <pending.ndjson> <stats.json>
//!       every CASE of MC_Naming: build real table bytes / a real variable TrueType font from the abstract
//!       input, call allsorts, project the result to the abstract vocabulary and compare with the
//!       expectation `e` by JSON equality. A case whose observation differs is written as an event
//!       (full observation) for Trace_Naming, which decides whether it is another conformant reading.
//!   x08_naming record <seed> <n-synthetic> <tuples-per-font> <trace.ndjson>
//!       repository fonts (every name id, STAT tables at named / seeded values, variable fonts at named
//!       instances and seeded tuples), seeded random name / STAT tables, the Mac Roman table.
//!   x08_naming one <event.json> <trace.ndjson>      re-run the input of one event (for --replay)
//!
//! The harness decides nothing: it builds bytes, calls allsorts and records what came back. Output
//! fonts are read with the reader in x08_naming/rd.rs, not with allsorts.
use allsorts::binary::read::ReadScope;
use allsorts::font_data::FontData;
use allsorts::tables::variable_fonts::stat::{ElidableName, StatTable};
use allsorts::tables::{Fixed, FontTableProvider, NameTable};
use rand::rngs::StdRng;
use rand::{Rng, SeedableRng};
use serde_json::{json, Value};
use std::collections::BTreeMap;
use vh::fontgen::tag_u32;
use vh::sup::{guarded, panic_key, Outcome};
use vh::util::{repo_fonts, NdWriter};

#[path = "x08_naming/gen.rs"]
mod gen;
#[path = "x08_naming/rd.rs"]
mod rd;

use gen::*;
use rd::*;

fn cps(s: &str) -> Vec<i64> {
    s.chars().map(|c| c as i64).collect()
}

// ---- calls ----------------------------------------------------------------------------------------

fn call_get_name(name: &[u8], id: u16) -> Value {
    match guarded(|| allsorts::get_name::fontcode_get_name(name, id)) {
        Outcome::Returned(Ok(Some(c))) => match c.to_str() {
            Ok(s) => json!(cps(s)),
            Err(_) => json!([-3]),
        },
        Outcome::Returned(Ok(None)) => json!([-1]),
        Outcome::Returned(Err(_)) => json!([-2]),
        Outcome::Panicked(m) => json!([-4, panic_key(&m)]),
    }
}

fn call_string_for_id(name: &[u8], id: u16) -> Value {
    match guarded(|| ReadScope::new(name).read::<NameTable<'_>>().map(|t| t.string_for_id(id))) {
        Outcome::Returned(Ok(Some(s))) => json!(cps(&s)),
        Outcome::Returned(Ok(None)) => json!([-1]),
        Outcome::Returned(Err(_)) => json!([-2]),
        Outcome::Panicked(m) => json!([-4, panic_key(&m)]),
    }
}

fn call_nav(stat: &[u8], axis: u16, value: i64, pol: i64) -> Value {
    let r = guarded(|| -> Result<Option<u16>, allsorts::error::ParseError> {
        let t = ReadScope::new(stat).read::<StatTable<'_>>()?;
        let pol = if pol == 1 { ElidableName::Exclude } else { ElidableName::Include };
        let n = t.name_for_axis_value(axis, Fixed::from_raw(value as i32), pol);
        Ok(n)
    });
    match r {
        Outcome::Returned(Ok(Some(n))) => json!(n),
        Outcome::Returned(Ok(None)) => json!(-1),
        Outcome::Returned(Err(_)) => json!(-2),
        Outcome::Panicked(_) => json!(-4),
    }
}

/// instance + axis_names on a font file; the observation for Trace_Naming.
fn call_instance(font: &[u8], tuple: &[i64]) -> Value {
    let user: Vec<Fixed> = tuple.iter().map(|v| Fixed::from_raw(*v as i32)).collect();
    let r = guarded(|| -> Result<(Vec<u8>, Value), String> {
        let fd = ReadScope::new(font).read::<FontData<'_>>().map_err(|e| format!("read:{:?}", e))?;
        let provider = fd.table_provider(0).map_err(|e| format!("provider:{:?}", e))?;
        let an = match allsorts::variations::axis_names(&provider) {
            Ok(v) => Value::Array(
                v.iter().map(|a| json!([cps(&vh::fontgen::tag_str(a.tag)), cps(&a.name), a.ordering])).collect(),
            ),
            Err(_) => json!([[-1]]),
        };
        let (out, _) = allsorts::variations::instance(&provider, &user).map_err(|e| format!("{:?}", e))?;
        Ok((out, an))
    });
    match r {
        Outcome::Returned(Ok((out, an))) => match read_instance_output(&out) {
            Some(mut o) => {
                o["err"] = json!([]);
                o["an"] = an;
                o
            }
            None => json!({"err": cps("unreadable output")}),
        },
        Outcome::Returned(Err(e)) => json!({"err": cps(&e)}),
        Outcome::Panicked(m) => json!({"err": cps(&format!("Panic:{}", panic_key(&m)))}),
    }
}

/// The projection compared with the primary expectation of MC_Naming.
fn project_instance(o: &Value) -> Value {
    if o["err"].as_array().map(|a| !a.is_empty()).unwrap_or(true) {
        return json!({"err": 1});
    }
    let mut p = serde_json::Map::new();
    p.insert("err".into(), json!(0));
    for id in [1u64, 2, 3, 4, 6, 16, 17] {
        let recs: Vec<&Value> = o["names"].as_array().unwrap().iter().filter(|r| r[3].as_u64() == Some(id)).collect();
        let v = if recs.len() == 1 {
            let d: Vec<u8> = recs[0][4].as_array().unwrap().iter().map(|b| b.as_u64().unwrap() as u8).collect();
            let units: Vec<u16> = d.chunks(2).filter(|c| c.len() == 2).map(|c| u16::from_be_bytes([c[0], c[1]])).collect();
            match (d.len() % 2, String::from_utf16(&units)) {
                (0, Ok(s)) if recs[0][0].as_u64() != Some(1) => json!(cps(&s)),
                _ => json!([-2]),
            }
        } else {
            json!([-2])
        };
        p.insert(format!("n{}", id), v);
    }
    for k in ["wc", "wdc", "fs", "mac", "ia", "ord", "kept", "an"] {
        p.insert(k.into(), o[k].clone());
    }
    Value::Object(p)
}

// ---- replay ---------------------------------------------------------------------------------------

fn bump(m: &mut BTreeMap<String, u64>, k: &str) {
    *m.entry(k.to_string()).or_insert(0) += 1;
}

fn observe(kind: &str, c: &Value) -> (&'static str, Value, Value, Value) {
    // (event name, event input, full observation, projection)
    match kind {
        "gn" => {
            let name = name_table(&c["recs"]);
            let id = c["id"].as_u64().unwrap() as u16;
            let o = json!({"g": call_get_name(&name, id), "s": call_string_for_id(&name, id)});
            ("GetName", json!({"recs": c["recs"], "id": id}), o.clone(), o)
        }
        "nav" => {
            let stat = stat_table(&json!({"ver": 1, "fb": 2, "axes": (0..c["nax"].as_u64().unwrap()).map(|k| json!([cps(["wght", "wdth", "slnt"][k as usize]), 256 + k, k])).collect::<Vec<_>>(), "tabs": c["tabs"]}));
            let q = &c["q"];
            let o = json!({"n": call_nav(&stat, q[0].as_u64().unwrap() as u16, q[1].as_i64().unwrap(), q[2].as_i64().unwrap())});
            ("Nav", json!({"tabs": c["tabs"], "q": q}), o.clone(), o)
        }
        "inst" => {
            let a = &c["a"];
            let font = build_var_font(a);
            let tuple: Vec<i64> = a["tuple"].as_array().unwrap().iter().map(|v| v.as_i64().unwrap()).collect();
            let o = call_instance(&font, &tuple);
            let p = project_instance(&o);
            ("Inst", a.clone(), o, p)
        }
        _ => panic!("unknown case kind {}", kind),
    }
}

fn replay(cases: &str, pending: &str, stats_path: &str) {
    let mut w = NdWriter::create(pending);
    let mut st: BTreeMap<String, u64> = BTreeMap::new();
    let mut n = 0u64;
    use std::io::BufRead;
    let f = std::io::BufReader::new(std::fs::File::open(cases).expect("cases"));
    for line in f.lines() {
        let line = line.expect("line");
        if line.trim().is_empty() {
            continue;
        }
        let c: Value = serde_json::from_str(&line).expect("case json");
        let kind = c["k"].as_str().unwrap().to_string();
        let (ev, a, o, p) = observe(&kind, &c);
        n += 1;
        bump(&mut st, &format!("cases|{}", kind));
        if p == c["e"] {
            bump(&mut st, &format!("ok_primary|{}", kind));
        } else {
            bump(&mut st, &format!("pending|{}", kind));
            let case = c.get("cid").and_then(|v| v.as_str()).map(|s| s.to_string()).unwrap_or(format!("gen-{}-{}", kind, n));
            w.write(&json!({"i": n, "case": case, "ev": ev, "a": a, "o": o, "e": c["e"], "p": p}));
        }
        // vacuity counters, from the generated data only
        match kind.as_str() {
            "gn" => {
                bump(&mut st, if c["e"]["g"] == json!([-1]) { "gn|expect-none" } else { "gn|expect-name" });
                bump(&mut st, if c["e"]["s"] == json!([-1]) { "sfi|expect-none" } else { "sfi|expect-name" });
                if c["e"]["s"].as_array().unwrap().contains(&json!(65533)) {
                    bump(&mut st, "sfi|expect-replacement-char");
                }
            }
            "nav" => bump(&mut st, if c["e"]["n"] == json!(-1) { "nav|expect-none" } else { "nav|expect-name" }),
            _ => {
                bump(&mut st, if c["e"]["err"] == json!(1) { "inst|expect-error" } else { "inst|expect-font" });
                if c["e"]["n6"].as_array().map(|a| a.len() == 63).unwrap_or(false) {
                    bump(&mut st, "inst|expect-last-resort-name");
                }
                if c["e"]["an"].as_array().map(|a| a.iter().any(|x| x[1] == json!(cps("Unknown")))).unwrap_or(false) {
                    bump(&mut st, "inst|expect-unknown-axis-name");
                }
            }
        }
    }
    w.finish();
    let mut m = serde_json::Map::new();
    m.insert("cases".into(), json!(n));
    for (k, v) in st {
        m.insert(k, json!(v));
    }
    std::fs::write(stats_path, serde_json::to_string(&Value::Object(m.clone())).unwrap()).expect("stats");
    println!("{}", Value::Object(m));
}

// ---- record ---------------------------------------------------------------------------------------

struct Rec {
    w: NdWriter,
    i: u64,
    st: BTreeMap<String, u64>,
}
impl Rec {
    fn ev(&mut self, case: &str, ev: &str, a: Value, o: Value) {
        self.i += 1;
        bump(&mut self.st, &format!("events|{}", ev));
        self.w.write(&json!({"i": self.i, "case": case, "ev": ev, "a": a, "o": o}));
    }
}

fn record_name_table(r: &mut Rec, case: &str, name: &[u8], rng: &mut StdRng, max_ids: usize) {
    let Some(recs) = read_name_records(name) else { return };
    let mut ids: Vec<u16> = recs.iter().map(|x| x.3).collect();
    ids.sort();
    ids.dedup();
    let mut pick: Vec<u16> = ids.iter().cloned().filter(|i| [1, 2, 3, 4, 6, 16, 17, 25].contains(i)).collect();
    let mut rest: Vec<u16> = ids.iter().cloned().filter(|i| !pick.contains(i)).collect();
    while pick.len() < max_ids && !rest.is_empty() {
        let k = rng.gen_range(0..rest.len());
        pick.push(rest.swap_remove(k));
    }
    pick.push(rng.gen_range(300..400)); // usually absent
    for id in pick {
        let mine: Vec<&NameRec> = recs.iter().filter(|x| x.3 == id).collect();
        if mine.iter().any(|x| x.4.len() > 300) || mine.len() > 40 {
            bump(&mut r.st, "skipped|long-name");
            continue;
        }
        let jr: Vec<Value> = mine.iter().map(|x| json!([x.0, x.1, x.2, x.3, x.4])).collect();
        let o = json!({"g": call_get_name(name, id), "s": call_string_for_id(name, id)});
        r.ev(case, "GetName", json!({"recs": jr, "id": id}), o);
    }
}

fn record_stat(r: &mut Rec, case: &str, stat: &[u8], rng: &mut StdRng, n: usize) {
    let Some(s) = read_stat(stat) else { return };
    let tabs = s["tabs"].as_array().unwrap();
    if tabs.is_empty() || tabs.len() > 120 {
        return;
    }
    let nax = s["axes"].as_array().unwrap().len() as i64;
    for _ in 0..n {
        let t = &tabs[rng.gen_range(0..tabs.len())];
        let f = t[0].as_i64().unwrap();
        let (axis, base) = if f == 4 {
            let av = t[8].as_array().unwrap();
            if av.is_empty() {
                continue;
            }
            let e = &av[rng.gen_range(0..av.len())];
            (e[0].as_i64().unwrap(), e[1].as_i64().unwrap())
        } else {
            (t[1].as_i64().unwrap(), t[4].as_i64().unwrap())
        };
        if axis >= nax.max(1) + 1 {
            continue;
        }
        let v = match rng.gen_range(0..4) {
            0 => base,
            1 => base + 65536 * rng.gen_range(-60..60),
            2 => base + rng.gen_range(-3..4),
            _ => base + 32768 * rng.gen_range(-9..10),
        };
        let pol = rng.gen_range(0..2);
        let q = json!([axis, v, pol]);
        let o = json!({"n": call_nav(stat, axis as u16, v, pol)});
        r.ev(case, "Nav", json!({"tabs": s["tabs"], "q": q}), o);
    }
}

/// The abstract input of a variable font read with the harness' own readers; None if not variable /
/// not readable.
fn abstract_font(tables: &dyn Fn(&str) -> Option<Vec<u8>>) -> Option<Value> {
    let fvar = read_fvar(&tables("fvar")?)?;
    let name = tables("name")?;
    let recs = read_name_records(&name)?;
    let stat = match tables("STAT") {
        Some(d) => {
            let mut s = read_stat(&d)?;
            s["has"] = json!(1);
            s
        }
        None => json!({"has": 0, "ver": 0, "fb": 0, "axes": [], "tabs": []}),
    };
    let os2 = tables("OS/2")?;
    let head = tables("head")?;
    let post = tables("post")?;
    let src = read_style(&os2, &head, &post)?;
    // the name ids that matter
    let mut want: Vec<i64> = vec![1, 2, 3, 4, 6, 16, 17, 25, stat["fb"].as_i64().unwrap_or(0)];
    for a in stat["axes"].as_array().unwrap() {
        want.push(a[1].as_i64().unwrap());
    }
    for t in stat["tabs"].as_array().unwrap() {
        want.push(t[3].as_i64().unwrap());
    }
    for n in fvar["insts"].as_array().unwrap() {
        want.push(n[0].as_i64().unwrap());
        want.push(n[1].as_i64().unwrap());
    }
    let names: Vec<Value> =
        recs.iter().filter(|x| want.contains(&(x.3 as i64)) && x.4.len() <= 400).map(|x| json!([x.0, x.1, x.2, x.3, x.4])).collect();
    if recs.iter().any(|x| want.contains(&(x.3 as i64)) && x.4.len() > 400) {
        return None;
    }
    Some(json!({"axes": fvar["axes"], "stat": stat, "names": names, "kept": kept_compact(&recs), "src": src,
                "insts": fvar["insts"]}))
}

fn record(seed: u64, n_syn: usize, per_font: usize, out: &str) {
    let mut r = Rec { w: NdWriter::create(out), i: 0, st: BTreeMap::new() };
    let mut rng = StdRng::seed_from_u64(seed ^ 0x5808);
    // the Mac Roman table of macroman.rs
    let m: Vec<i64> = (0..=255u8).map(|b| allsorts::macroman::macroman_to_char(b).map(|c| c as i64).unwrap_or(-1)).collect();
    r.ev("macroman", "MacTable", json!({}), json!({"m": m}));

    let mut fonts_var = 0u64;
    for path in repo_fonts() {
        let Ok(bytes) = std::fs::read(&path) else { continue };
        let short = path.rsplit("/tests/").next().unwrap_or(&path).to_string();
        // table bytes through allsorts' provider (containers are C10 / C11's subject); parsing is ours
        let tabs = guarded(|| -> Option<BTreeMap<String, Vec<u8>>> {
            let fd = ReadScope::new(&bytes).read::<FontData<'_>>().ok()?;
            let p = fd.table_provider(0).ok()?;
            let mut m = BTreeMap::new();
            for t in ["name", "STAT", "fvar", "OS/2", "head", "post", "gvar", "CFF2"] {
                if let Ok(Some(d)) = p.table_data(tag_u32(t)) {
                    m.insert(t.to_string(), d.to_vec());
                }
            }
            Some(m)
        });
        let Outcome::Returned(Some(tabs)) = tabs else {
            bump(&mut r.st, "fonts|unreadable");
            continue;
        };
        bump(&mut r.st, "fonts|read");
        if let Some(name) = tabs.get("name") {
            record_name_table(&mut r, &short, name, &mut rng, 10);
        }
        if let Some(stat) = tabs.get("STAT") {
            record_stat(&mut r, &short, stat, &mut rng, 16);
        }
        if tabs.contains_key("fvar") && (tabs.contains_key("gvar") || tabs.contains_key("CFF2")) {
            let get = |t: &str| tabs.get(t).cloned();
            let Some(a) = abstract_font(&get) else {
                bump(&mut r.st, "fonts|variable-not-abstracted");
                continue;
            };
            fonts_var += 1;
            let axes = a["axes"].as_array().unwrap().clone();
            let mut tuples: Vec<Vec<i64>> = vec![axes.iter().map(|x| x[2].as_i64().unwrap()).collect()];
            for n in a["insts"].as_array().unwrap().iter().take(3) {
                tuples.push(n[2].as_array().unwrap().iter().map(|v| v.as_i64().unwrap()).collect());
            }
            // seeded: per axis the default, an end, a named STAT value, or anything in range
            while tuples.len() < per_font {
                let t: Vec<i64> = axes
                    .iter()
                    .map(|x| {
                        let (lo, de, hi) = (x[1].as_i64().unwrap(), x[2].as_i64().unwrap(), x[3].as_i64().unwrap());
                        match rng.gen_range(0..6) {
                            0 => de,
                            1 => lo,
                            2 => hi,
                            3 => (lo + rng.gen_range(0..=((hi - lo) / 65536).max(0)) * 65536).min(hi),
                            4 => (lo + rng.gen_range(0..=((hi - lo) / 32768).max(0)) * 32768).min(hi),
                            _ => rng.gen_range(lo..=hi.max(lo)),
                        }
                    })
                    .collect();
                tuples.push(t);
            }
            for t in tuples {
                let mut ai = a.clone();
                ai["tuple"] = json!(t);
                let o = call_instance(&bytes, &t);
                r.ev(&short, "Inst", ai, o);
            }
        }
    }
    r.st.insert("fonts|variable".into(), fonts_var);

    // seeded random name tables
    let encs: [(u16, u16, u16); 14] = [
        (3, 10, 0x409), (3, 1, 0x409), (3, 1, 0x40C), (0, 3, 0), (0, 4, 0), (0, 6, 0), (0, 0, 0), (1, 0, 0), (1, 0, 2), (3, 0, 0x409),
        (0, 4, 7), (2, 1, 0), (3, 1, 0x809), (0, 1, 0),
    ];
    for k in 0..n_syn {
        let nrec = rng.gen_range(0..6);
        let id = 1 + rng.gen_range(0..3) as u16;
        let mut recs: Vec<Value> = Vec::new();
        for _ in 0..nrec {
            let e = encs[rng.gen_range(0..encs.len())];
            let len = rng.gen_range(0..7);
            let d: Vec<u8> = (0..len)
                .map(|_| match rng.gen_range(0..8) {
                    0 => 0u8,
                    1 => 0xD8,
                    2 => 0xDC,
                    3 => 0xFE,
                    4 => 0xFF,
                    5 => rng.gen_range(0x41..0x5B),
                    _ => rng.gen(),
                })
                .collect();
            recs.push(json!([e.0, e.1, e.2, if rng.gen_range(0..5) == 0 { id + 1 } else { id }, d]));
        }
        let name = name_table(&json!(recs));
        let o = json!({"g": call_get_name(&name, id), "s": call_string_for_id(&name, id)});
        r.ev(&format!("syn-name-{}", k), "GetName", json!({"recs": recs, "id": id}), o);
    }
    // seeded random STAT tables
    for k in 0..n_syn {
        let nt = rng.gen_range(0..7);
        let mut tabs: Vec<Value> = Vec::new();
        let val = |rng: &mut StdRng| -> i64 { 65536 * rng.gen_range(0..9) + if rng.gen_range(0..4) == 0 { 32768 } else { 0 } };
        for j in 0..nt {
            let f = rng.gen_range(1..6);
            let a = rng.gen_range(0..2);
            let fl = rng.gen_range(0..4);
            let v = val(&mut rng);
            let (mut lo, mut hi) = (v - 65536 * rng.gen_range(0..4), v + 65536 * rng.gen_range(0..4));
            if rng.gen_range(0..6) == 0 {
                lo = -2147483647;
            }
            if rng.gen_range(0..6) == 0 {
                hi = 2147483647;
            }
            let av: Vec<Value> = if f == 4 { (0..rng.gen_range(1..3)).map(|x| json!([(a + x) % 2, val(&mut rng)])).collect() } else { vec![] };
            tabs.push(json!([f, if f == 4 { 0 } else { a }, fl, 300 + j, if f == 4 { 0 } else { v }, if f == 2 { lo } else { 0 }, if f == 2 { hi } else { 0 },
                             if f == 3 { val(&mut rng) } else { 0 }, av]));
        }
        let stat = stat_table(&json!({"ver": 1, "fb": 2, "axes": [[cps("wght"), 256, 0], [cps("wdth"), 257, 1]], "tabs": tabs}));
        let q = json!([rng.gen_range(0..2), val(&mut rng), rng.gen_range(0..2)]);
        let o = json!({"n": call_nav(&stat, q[0].as_u64().unwrap() as u16, q[1].as_i64().unwrap(), q[2].as_i64().unwrap())});
        r.ev(&format!("syn-stat-{}", k), "Nav", json!({"tabs": tabs, "q": q}), o);
    }
    let n = r.i;
    r.w.finish();
    let mut m = serde_json::Map::new();
    m.insert("events".into(), json!(n));
    for (k, v) in r.st {
        m.insert(k, json!(v));
    }
    println!("{}", Value::Object(m));
}

/// Re-run the input of one event (written by the driver from a replay file).
fn one(event: &str, out: &str) {
    let e: Value = serde_json::from_str(&std::fs::read_to_string(event).expect("event")).expect("json");
    let mut w = NdWriter::create(out);
    let ev = e["ev"].as_str().unwrap();
    let a = &e["a"];
    let o = match ev {
        "GetName" => {
            let name = name_table(&a["recs"]);
            let id = a["id"].as_u64().unwrap() as u16;
            json!({"g": call_get_name(&name, id), "s": call_string_for_id(&name, id)})
        }
        "Nav" => {
            let stat = stat_table(&json!({"ver": 1, "fb": 2, "axes": [[cps("wght"), 256, 0], [cps("wdth"), 257, 1]], "tabs": a["tabs"]}));
            json!({"n": call_nav(&stat, a["q"][0].as_u64().unwrap() as u16, a["q"][1].as_i64().unwrap(), a["q"][2].as_i64().unwrap())})
        }
        "Inst" => {
            let tuple: Vec<i64> = a["tuple"].as_array().unwrap().iter().map(|v| v.as_i64().unwrap()).collect();
            let font = match e.get("font").and_then(|f| f.as_str()) {
                Some(p) => std::fs::read(format!("{}/tests/{}", vh::util::repo_root(), p)).expect("font"),
                None => build_var_font(a),
            };
            call_instance(&font, &tuple)
        }
        _ => {
            let m: Vec<i64> = (0..=255u8).map(|b| allsorts::macroman::macroman_to_char(b).map(|c| c as i64).unwrap_or(-1)).collect();
            json!({"m": m})
        }
    };
    w.write(&json!({"i": 1, "case": "replay", "ev": ev, "a": a, "o": o}));
    w.finish();
    println!("{}", json!({"events": 1}));
}

fn main() {
    let args: Vec<String> = std::env::args().collect();
    match args.get(1).map(|s| s.as_str()) {
        Some("replay") => replay(&args[2], &args[3], &args[4]),
        Some("record") => record(args[2].parse().expect("seed"), args[3].parse().expect("n"), args[4].parse().expect("per font"), &args[5]),
        Some("one") => one(&args[2], &args[3]),
        Some("font") => {
            // x08_naming font <case.json> <out.ttf>: the synthesized font of an inst case (probe)
            let c: Value = serde_json::from_str(&std::fs::read_to_string(&args[2]).expect("case")).expect("json");
            std::fs::write(&args[3], build_var_font(&c["a"])).expect("write");
        }
        _ => {
            eprintln!("usage: x08_naming replay|record|one|font ...");
            std::process::exit(2);
        }
    }
}
