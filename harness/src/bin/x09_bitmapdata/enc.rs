//! Encoders of the X09 harness: abstract EBLC / CBLC location tables (the vocabulary of
//! x03_images/enc.rs, from which `encode_loc` and its helpers are copied unchanged) and sbix
//! strikes to real table bytes, laid out as the OpenType chapters describe them.  Nothing here
//! calls allsorts.
use serde_json::Value;
use vh::fontgen::W;

fn i(v: &Value) -> i64 {
    v.as_i64().unwrap_or_else(|| panic!("integer expected, got {}", v))
}
fn arr(v: &Value) -> &Vec<Value> {
    v.as_array().unwrap_or_else(|| panic!("array expected, got {}", v))
}
pub fn bytes_of(v: &Value) -> Vec<u8> {
    arr(v).iter().map(|x| i(x) as u8).collect()
}

fn big_metrics(w: &mut W, bm: &Value) {
    w.u8(i(&bm["h"]) as u8)
        .u8(i(&bm["w"]) as u8)
        .i8(i(&bm["hbx"]) as i8)
        .i8(i(&bm["hby"]) as i8)
        .u8(i(&bm["hadv"]) as u8)
        .i8(i(&bm["vbx"]) as i8)
        .i8(i(&bm["vby"]) as i8)
        .u8(i(&bm["vadv"]) as u8);
}

fn line_metrics(w: &mut W, asc: i64, desc: i64) {
    // ascender, descender, widthMax, caretSlopeNumerator, caretSlopeDenominator, caretOffset,
    // minOriginSB, minAdvanceSB, maxBeforeBL, minAfterBL, pad1, pad2
    w.i8(asc as i8).i8(desc as i8).u8(40).i8(1).i8(0).i8(0).i8(-1).i8(-2).i8(9).i8(-3).i8(0).i8(0);
}

/// One index sub-table (header + body), 4-byte aligned.
fn index_sub_table(sub: &Value) -> Vec<u8> {
    let mut w = W::new();
    let ifmt = i(&sub["ifmt"]);
    w.u16(ifmt as u16).u16(i(&sub["imf"]) as u16).u32(i(&sub["ido"]) as u32);
    match ifmt {
        1 => {
            for o in arr(&sub["offs"]) {
                w.u32(i(o) as u32);
            }
        }
        2 => {
            w.u32(i(&sub["size"]) as u32);
            big_metrics(&mut w, &sub["bm"]);
        }
        3 => {
            for o in arr(&sub["offs"]) {
                w.u16(i(o) as u16);
            }
        }
        4 => {
            let pairs = arr(&sub["pairs"]);
            w.u32((pairs.len() - 1) as u32);
            for p in pairs {
                w.u16(i(&p[0]) as u16).u16(i(&p[1]) as u16);
            }
        }
        5 => {
            w.u32(i(&sub["size"]) as u32);
            big_metrics(&mut w, &sub["bm"]);
            let gids = arr(&sub["gids"]);
            w.u32(gids.len() as u32);
            for g in gids {
                w.u16(i(g) as u16);
            }
        }
        _ => panic!("index format {}", ifmt),
    }
    w.pad4();
    w.done()
}

/// EBLC / CBLC and EBDT / CBDT bytes of an abstract location table.
pub fn encode_loc(loc: &Value) -> (Vec<u8>, Vec<u8>) {
    let strikes = arr(&loc["strikes"]);
    let ver = i(&loc["ver"]) as u16;
    let mut w = W::new();
    w.u16(ver).u16(0).u32(strikes.len() as u32);
    // the index sub-table arrays follow the BitmapSize records
    let mut arrays: Vec<Vec<u8>> = Vec::new();
    for s in strikes {
        let subs = arr(&s["subs"]);
        let bodies: Vec<Vec<u8>> = subs.iter().map(index_sub_table).collect();
        let mut a = W::new();
        let mut off = 8 * subs.len();
        for (sub, body) in subs.iter().zip(&bodies) {
            a.u16(i(&sub["first"]) as u16).u16(i(&sub["last"]) as u16).u32(off as u32);
            off += body.len();
        }
        for b in &bodies {
            a.bytes(b);
        }
        arrays.push(a.done());
    }
    let mut at = 8 + 48 * strikes.len();
    for (s, a) in strikes.iter().zip(&arrays) {
        w.u32(at as u32).u32(a.len() as u32).u32(arr(&s["subs"]).len() as u32).u32(0);
        line_metrics(&mut w, i(&s["ha"]), i(&s["hd"]));
        line_metrics(&mut w, i(&s["va"]), i(&s["vd"]));
        w.u16(i(&s["start"]) as u16).u16(i(&s["end"]) as u16);
        w.u8(i(&s["px"]) as u8).u8(i(&s["py"]) as u8).u8(i(&s["bd"]) as u8).i8(i(&s["fl"]) as i8);
        at += a.len();
    }
    for a in &arrays {
        w.bytes(a);
    }
    (w.done(), bytes_of(&loc["dat"]))
}

/// sbix table with ONE strike: header (version 1, flags 1, numStrikes 1, strike offset 12), then the
/// strike: ppem, ppi, numGlyphs + 1 offsets from the start of the strike, the glyph records.
pub fn encode_sbix_one(ppem: u16, ppi: u16, recs: &[Vec<u8>]) -> Vec<u8> {
    let mut w = W::new();
    w.u16(1).u16(1).u32(1).u32(12);
    w.u16(ppem).u16(ppi);
    let mut at = 4 + 4 * (recs.len() + 1);
    for r in recs {
        w.u32(at as u32);
        at += r.len();
    }
    w.u32(at as u32);
    for r in recs {
        w.bytes(r);
    }
    w.done()
}
