//! Independent readers of the X09 harness (read_loc / read_sbix copied unchanged from
//! x03_images/rd.rs; `locate` written from the EBLC chapter): real table bytes -> abstract
//! location tables and the byte range of one glyph's record.  Nothing here calls allsorts.
use serde_json::{json, Value};
use vh::fontgen::{be16, be32};

fn i8at(d: &[u8], at: usize) -> Option<i64> {
    d.get(at).map(|b| *b as i8 as i64)
}

fn big_metrics(d: &[u8], at: usize) -> Option<Value> {
    Some(json!({"h": *d.get(at)?, "w": *d.get(at + 1)?, "hbx": i8at(d, at + 2)?, "hby": i8at(d, at + 3)?,
                "hadv": *d.get(at + 4)?, "vbx": i8at(d, at + 5)?, "vby": i8at(d, at + 6)?, "vadv": *d.get(at + 7)?}))
}

fn no_big() -> Value {
    json!({"h": 0, "w": 0, "hbx": 0, "hby": 0, "hadv": 0, "vbx": 0, "vby": 0, "vadv": 0})
}

/// EBLC / CBLC -> {ver, strikes: [...]}.  None: truncated or a format this reader does not know.
pub fn read_loc(d: &[u8]) -> Option<Value> {
    let ver = be16(d, 0)?;
    let n = be32(d, 4)? as usize;
    if n > 4096 {
        return None;
    }
    let mut strikes = Vec::new();
    for s in 0..n {
        let at = 8 + 48 * s;
        let arr_off = be32(d, at)? as usize;
        let nsub = be32(d, at + 8)? as usize;
        if nsub > 65536 {
            return None;
        }
        let mut subs = Vec::new();
        for k in 0..nsub {
            let r = arr_off + 8 * k;
            let first = be16(d, r)? as usize;
            let last = be16(d, r + 2)? as usize;
            let st = arr_off + be32(d, r + 4)? as usize;
            let ifmt = be16(d, st)?;
            let imf = be16(d, st + 2)?;
            let ido = be32(d, st + 4)?;
            let (mut offs, mut size, mut bm, mut gids, mut pairs) = (vec![], 0u32, no_big(), vec![], vec![]);
            match ifmt {
                1 => {
                    for j in 0..(last.checked_sub(first)? + 2) {
                        offs.push(be32(d, st + 8 + 4 * j)?);
                    }
                }
                2 => {
                    size = be32(d, st + 8)?;
                    bm = big_metrics(d, st + 12)?;
                }
                3 => {
                    for j in 0..(last.checked_sub(first)? + 2) {
                        offs.push(be16(d, st + 8 + 2 * j)? as u32);
                    }
                }
                4 => {
                    let ng = be32(d, st + 8)? as usize;
                    if ng > 65536 {
                        return None;
                    }
                    for j in 0..(ng + 1) {
                        pairs.push(json!([be16(d, st + 12 + 4 * j)?, be16(d, st + 14 + 4 * j)?]));
                    }
                }
                5 => {
                    size = be32(d, st + 8)?;
                    bm = big_metrics(d, st + 12)?;
                    let ng = be32(d, st + 20)? as usize;
                    if ng > 65536 {
                        return None;
                    }
                    for j in 0..ng {
                        gids.push(be16(d, st + 24 + 2 * j)?);
                    }
                }
                _ => return None,
            }
            subs.push(json!({"first": first, "last": last, "ifmt": ifmt, "imf": imf, "ido": ido, "offs": offs,
                             "size": size, "bm": bm, "gids": gids, "pairs": pairs}));
        }
        strikes.push(json!({
            "ha": i8at(d, at + 16)?, "hd": i8at(d, at + 17)?, "va": i8at(d, at + 28)?, "vd": i8at(d, at + 29)?,
            "start": be16(d, at + 40)?, "end": be16(d, at + 42)?,
            "px": *d.get(at + 44)?, "py": *d.get(at + 45)?, "bd": *d.get(at + 46)?, "fl": i8at(d, at + 47)?,
            "subs": subs,
        }));
    }
    Some(json!({"ver": ver, "strikes": strikes}))
}

/// sbix -> {strikes: [{ppem, ppi, offs, bytes}]}; the bytes of a strike run to the next strike
/// (by offset) or to the end of the table.
pub fn read_sbix(d: &[u8], num_glyphs: usize) -> Option<Value> {
    if be16(d, 0)? != 1 {
        return None;
    }
    let n = be32(d, 4)? as usize;
    if n > 4096 {
        return None;
    }
    let mut starts = Vec::new();
    for k in 0..n {
        starts.push(be32(d, 8 + 4 * k)? as usize);
    }
    let mut sorted = starts.clone();
    sorted.push(d.len());
    sorted.sort_unstable();
    let mut strikes = Vec::new();
    for &st in &starts {
        let end = *sorted.iter().find(|&&x| x > st)?;
        let body = d.get(st..end)?;
        let mut offs = Vec::new();
        for j in 0..(num_glyphs + 1) {
            offs.push(be32(body, 4 + 4 * j)?);
        }
        strikes.push(json!({"ppem": be16(body, 0)?, "ppi": be16(body, 2)?, "offs": offs, "bytes": body}));
    }
    Some(json!({"strikes": strikes}))
}


/// The record of glyph `g` in the data table according to one index sub-table (EBLC chapter):
/// Some((offset, length)) or None when the glyph has no data there / the sub-table is inconsistent.
pub fn locate(sub: &Value, g: usize) -> Option<(usize, usize)> {
    let n = |v: &Value| v.as_u64().unwrap_or(0) as usize;
    let (first, last, ido) = (n(&sub["first"]), n(&sub["last"]), n(&sub["ido"]));
    if g < first || g > last {
        return None;
    }
    match n(&sub["ifmt"]) {
        1 | 3 => {
            let offs = sub["offs"].as_array()?;
            let a = n(offs.get(g - first)?);
            let b = n(offs.get(g - first + 1)?);
            if b <= a {
                return None;
            }
            Some((ido + a, b - a))
        }
        2 => {
            let size = n(&sub["size"]);
            Some((ido + (g - first) * size, size))
        }
        4 => {
            let pairs = sub["pairs"].as_array()?;
            let j = pairs.iter().position(|p| n(&p[0]) == g)?;
            if j + 1 >= pairs.len() {
                return None;
            }
            let a = n(&pairs[j][1]);
            let b = n(&pairs[j + 1][1]);
            if b < a {
                return None;
            }
            Some((ido + a, b - a))
        }
        5 => {
            let gids = sub["gids"].as_array()?;
            let j = gids.iter().position(|x| n(x) == g)?;
            let size = n(&sub["size"]);
            Some((ido + j * size, size))
        }
        _ => None,
    }
}
