//! C05 harness: drives allsorts' glyph positioning (GPOS lookups, legacy kern, pen positions).
//!
//!   c05_gpos replay <templates.ndjson> <cases.ndjson> <mismatches.ndjson>
//!       every program template printed by MC_Gpos is encoded into real GDEF + GPOS + kern + hmtx
//!       bytes (own encoder, enc.rs); every CASE is run through
//!         (A) `allsorts::gpos::apply` / `apply_fallback` on tables read with
//!             `LayoutTable::<GPOS>::read`, `GDEFTable::read`, `KernTable::read`, and
//!         (B) `Font::shape` + `GlyphLayout::glyph_positions` on a whole synthesized font,
//!       the result is projected to the abstract vocabulary and compared by JSON equality with the
//!       outcomes the specification prescribes (any one of the listed conformant outcomes).
//!   c05_gpos record <seed> <programs> <strings> <trace.ndjson>
//!       random programs (rnd.rs) on random strings; one "Shape" event per call carrying the
//!       abstract program, the input and what allsorts returned; judged by Trace_Gpos.
//!   c05_gpos probe <font> <script> <rtl|ltr> <text>
//!       dump infos and positions of a repository font (used to cross-check the reading of
//!       GlyphPosition for right-to-left text; not part of the check).
//!
//! The harness decides nothing: it builds bytes, calls allsorts, records facts.
#[path = "c05_gpos/enc.rs"]
mod enc;
#[path = "c05_gpos/rnd.rs"]
mod rnd;

use allsorts::binary::read::ReadScope;
use allsorts::font::{Font, MatchingPresentation};
use allsorts::font_data::{DynamicFontTableProvider, FontData};
use allsorts::glyph_position::{GlyphLayout, GlyphPosition, TextDirection};
use allsorts::gpos::{self, Info, Placement};
use allsorts::gsub::{FeatureMask, Features, GlyphOrigin, RawGlyph, RawGlyphFlags};
use allsorts::layout::{new_layout_cache, GDEFTable, LayoutCache, LayoutTable, GPOS};
use allsorts::tables::kern::KernTable;
use allsorts::tables::variable_fonts::fvar::Tuple;
use allsorts::tables::F2Dot14;
use serde_json::{json, Value};
use std::collections::HashMap;
use tinyvec::tiny_vec;
use vh::fontgen::{tag_u32, GlyphSpec, TtFont};
use vh::sup::{guarded, Outcome};
use vh::util::{read_ndjson, NdWriter};

type F = Font<DynamicFontTableProvider<'static>>;

/// A program turned into bytes and loaded both ways.
pub struct Prepared {
    prog: Value,
    script: u32,
    gdef: Option<GDEFTable>,
    gpos: Option<LayoutCache<GPOS>>,
    kern_bytes: Option<&'static [u8]>,
    font: F,
    /// normalised coordinates of the instance to shape for (prog.var.tuple), if any
    tuple: Option<&'static [F2Dot14]>,
    pub sizes: (usize, usize, usize),
}

impl Prepared {
    fn tuple(&self) -> Option<Tuple<'static>> {
        // SAFETY: a leaked slice of exactly the coordinates the program lists, each within -1..1
        self.tuple.map(|c| unsafe { Tuple::from_raw_parts(c.as_ptr(), c.len()) })
    }
}

fn leak(v: Vec<u8>) -> &'static [u8] {
    Box::leak(v.into_boxed_slice())
}

pub fn prepare(prog: &Value) -> Result<Prepared, String> {
    let has_gpos = prog["gpos"].as_bool().unwrap_or(false);
    // GDEF is optional: tab = "absent" builds a font (and an apply call) without it
    let var = prog.get("var");
    let gdef_bytes = if has_gpos { enc::gdef(&prog["gdef"], var).map(leak) } else { None };
    let tuple: Option<&'static [F2Dot14]> = match var {
        Some(v) if v["tuple"]["has"].as_bool().unwrap_or(false) => {
            let c: Vec<F2Dot14> = enc::ints(&v["tuple"]["c"]).iter().map(|x| F2Dot14::from_raw(*x as i16)).collect();
            Some(Box::leak(c.into_boxed_slice()))
        }
        _ => None,
    };
    let gpos_bytes = if has_gpos { Some(leak(enc::gpos(prog))) } else { None };
    let kern_list = enc::arr(&prog["kern"]);
    let kern_bytes = if kern_list.is_empty() { None } else { Some(leak(enc::kern(&prog["kern"]))) };
    let adv = enc::ints(&prog["adv"]);
    let n = adv.len();
    let mut f = TtFont::new((0..n).map(|_| GlyphSpec::Empty).collect());
    f.metrics = adv.iter().enumerate().map(|(i, a)| (*a as u16, i as i16)).collect();
    f.num_h_metrics = n as u16;
    f.cmap = (1..n).map(|g| (0x40 + g as u32, g as u16)).collect();
    if let Some(b) = gdef_bytes {
        f.extra_tables.push(("GDEF".into(), b.to_vec()));
    }
    if let Some(b) = gpos_bytes {
        f.extra_tables.push(("GPOS".into(), b.to_vec()));
    }
    if let Some(b) = kern_bytes {
        f.extra_tables.push(("kern".into(), b.to_vec()));
    }
    let font_bytes = leak(f.build());
    let fd = ReadScope::new(font_bytes).read::<FontData<'static>>().map_err(|e| format!("FontData: {:?}", e))?;
    let prov = fd.table_provider(0).map_err(|e| format!("provider: {:?}", e))?;
    let font = Font::new(prov).map_err(|e| format!("Font::new: {:?}", e))?;
    let gdef = match gdef_bytes {
        Some(b) => Some(ReadScope::new(b).read::<GDEFTable>().map_err(|e| format!("GDEF: {:?}", e))?),
        None => None,
    };
    let gpos = match gpos_bytes {
        Some(b) => {
            let t = ReadScope::new(b).read::<LayoutTable<GPOS>>().map_err(|e| format!("GPOS: {:?}", e))?;
            Some(new_layout_cache(t))
        }
        None => None,
    };
    Ok(Prepared {
        prog: prog.clone(),
        script: tag_u32(prog["script"].as_str().unwrap_or("latn")),
        gdef,
        gpos,
        kern_bytes,
        font,
        tuple,
        sizes: (gdef_bytes.map_or(0, |b| b.len()), gpos_bytes.map_or(0, |b| b.len()), kern_bytes.map_or(0, |b| b.len())),
    })
}

fn raw_glyphs(input: &Value) -> Vec<RawGlyph<()>> {
    enc::arr(input)
        .iter()
        .map(|it| RawGlyph {
            unicodes: tiny_vec![[char; 1] => 'a'],
            glyph_index: enc::int(&it["g"]) as u16,
            liga_component_pos: enc::int(&it["lc"]) as u16,
            glyph_origin: GlyphOrigin::Direct,
            flags: if it["lig"].as_bool().unwrap_or(false) { RawGlyphFlags::LIGATURE } else { RawGlyphFlags::empty() },
            variation: None,
            extra_data: (),
        })
        .collect()
}

fn placement_json(p: &Placement) -> Value {
    match *p {
        Placement::None => json!({"t": "N", "i": -1, "ax": 0, "ay": 0, "bx": 0, "by": 0, "r": false}),
        // Distance(0, 0) and None place the glyph identically: one abstract value
        Placement::Distance(0, 0) => json!({"t": "N", "i": -1, "ax": 0, "ay": 0, "bx": 0, "by": 0, "r": false}),
        Placement::Distance(dx, dy) => json!({"t": "D", "i": -1, "ax": dx, "ay": dy, "bx": 0, "by": 0, "r": false}),
        Placement::MarkAnchor(i, a, b) => {
            json!({"t": "M", "i": i, "ax": a.x, "ay": a.y, "bx": b.x, "by": b.y, "r": false})
        }
        Placement::MarkOverprint(i) => json!({"t": "O", "i": i, "ax": 0, "ay": 0, "bx": 0, "by": 0, "r": false}),
        Placement::CursiveAnchor(i, r, a, b) => {
            json!({"t": "C", "i": i, "ax": a.x, "ay": a.y, "bx": b.x, "by": b.y, "r": r})
        }
    }
}

fn infos_json(infos: &[Info]) -> Value {
    Value::Array(
        infos
            .iter()
            .map(|i| json!({"g": i.glyph.glyph_index, "k": i.kerning, "pl": placement_json(&i.placement)}))
            .collect(),
    )
}

fn raw_positions_json(ps: &[GlyphPosition]) -> Value {
    Value::Array(
        ps.iter().map(|p| json!({"a": p.hori_advance, "va": p.vert_advance, "x": p.x_offset, "y": p.y_offset})).collect(),
    )
}

/// Glyph origins and total advance on a line laid out in visual order (see Position.tla).
fn canon(ps: &[GlyphPosition], rtl: bool) -> Value {
    let n = ps.len();
    let mut o = vec![json!(null); n];
    let mut pen: i64 = 0;
    let order: Vec<usize> = if rtl { (0..n).rev().collect() } else { (0..n).collect() };
    let mut v: i64 = 0;
    for j in order {
        o[j] = json!([pen + ps[j].x_offset as i64, ps[j].y_offset as i64]);
        pen += ps[j].hori_advance as i64;
        v += ps[j].vert_advance as i64;
    }
    json!({"o": o, "t": pen, "v": v})
}

/// (A) gpos::apply / apply_fallback on separately read tables.
fn run_apply(p: &Prepared, input: &Value) -> Result<Value, String> {
    let glyphs = raw_glyphs(input);
    let kern = match p.kern_bytes {
        Some(b) => Some(ReadScope::new(b).read::<KernTable<'_>>().map_err(|e| format!("Err(kern:{:?})", e))?),
        None => None,
    };
    let mut infos = Info::init_from_glyphs(p.gdef.as_ref(), glyphs);
    let res = match &p.gpos {
        Some(cache) => gpos::apply(
            cache,
            p.gdef.as_ref(),
            kern,
            true,
            &Features::Mask(FeatureMask::empty()),
            p.tuple(),
            p.script,
            None,
            &mut infos,
        ),
        None => gpos::apply_fallback(kern, &mut infos),
    };
    res.map_err(|e| format!("Err({:?})", e))?;
    Ok(infos_json(&infos))
}

pub struct Shaped {
    pub infos: Value,
    pub ltr: Result<Vec<GlyphPosition>, String>,
    pub rtl: Result<Vec<GlyphPosition>, String>,
}

/// (B) Font::shape + GlyphLayout on the whole font.
fn run_shape(p: &mut Prepared, input: &Value) -> Result<Shaped, String> {
    let glyphs = raw_glyphs(input);
    let tuple = p.tuple();
    let infos = p
        .font
        .shape(glyphs, p.script, None, &Features::Mask(FeatureMask::empty()), tuple, true)
        .map_err(|(e, _)| format!("Err({:?})", e))?;
    let ltr = GlyphLayout::new(&mut p.font, &infos, TextDirection::LeftToRight, false)
        .glyph_positions()
        .map_err(|e| format!("Err({:?})", e));
    let rtl = GlyphLayout::new(&mut p.font, &infos, TextDirection::RightToLeft, false)
        .glyph_positions()
        .map_err(|e| format!("Err({:?})", e));
    Ok(Shaped { infos: infos_json(&infos), ltr, rtl })
}

fn guarded_str<T>(f: impl FnOnce() -> Result<T, String>) -> Result<T, String> {
    match guarded(f) {
        Outcome::Returned(r) => r,
        Outcome::Panicked(m) => Err(format!("Panic:{}", vh::sup::panic_key(&m))),
    }
}

// ---- replay -----------------------------------------------------------------------------------
fn replay(tpl_path: &str, cases_path: &str, out_path: &str) {
    let mut prepared: HashMap<String, Result<Prepared, String>> = HashMap::new();
    for t in read_ndjson(tpl_path) {
        let key = t["id"].to_string();
        let prog = t["prog"].clone();
        let r = guarded_str(|| prepare(&prog));
        prepared.insert(key, r);
    }
    let mut out = NdWriter::create(out_path);
    let mut stats: HashMap<&'static str, u64> = HashMap::new();
    let bump = |k: &'static str, stats: &mut HashMap<&'static str, u64>| *stats.entry(k).or_insert(0) += 1;
    let mut vac: HashMap<String, u64> = HashMap::new();
    let mut n_cases = 0u64;
    let mut n_mism = 0u64;
    let mut table_bytes = 0usize;
    let mut fonts_without_gdef = 0u64;
    for (_, p) in prepared.iter() {
        if let Ok(p) = p {
            if p.gpos.is_some() && p.gdef.is_none() {
                fonts_without_gdef += 1;
            }
        }
    }
    for (_, p) in prepared.iter() {
        if let Ok(p) = p {
            table_bytes += p.sizes.0 + p.sizes.1 + p.sizes.2;
        }
    }
    // a call into allsorts that does not return within two minutes is written to <out>.hang, exit 3 (vh::sup::Watchdog)
    let wd = vh::sup::Watchdog::start(&format!("{}.hang", out_path), 120);
    for case in read_ndjson(cases_path) {
        n_cases += 1;
        let key = case["id"].to_string();
        wd.enter(json!({"id": case["id"], "in": case["in"]}).to_string());
        let input = &case["in"];
        let exp = enc::arr(&case["exp"]);
        let report = |stage: &str, want: Value, got: Value, out: &mut NdWriter| {
            // (`alt`: what the specification says a known deviation would give; copied for the driver's naming)
            out.write(&json!({"id": case["id"], "in": input, "stage": stage, "want": want, "got": got, "selftest": case["selftest"],
                              "alt": case["alt"]}));
        };
        let p = match prepared.get_mut(&key) {
            Some(Ok(p)) => p,
            Some(Err(e)) => {
                n_mism += 1;
                report("load", json!("Ok"), json!(e), &mut out);
                continue;
            }
            None => panic!("case refers to unknown template {}", key),
        };
        // vacuity counters over the specification's expectation
        if exp.len() > 1 {
            bump("cases_with_several_conformant_outcomes", &mut stats);
        }
        // families of behaviour the specification says the case exercises (MC_Gpos!VacTags)
        if let Some(tags) = case["vac"].as_array() {
            for t in tags {
                if let Some(t) = t.as_str() {
                    *vac.entry(format!("vac:{}", t)).or_insert(0) += 1;
                }
            }
        }
        if exp.iter().any(|e| enc::arr(&e["infos"]).iter().any(|i| enc::int(&i["k"]) != 0 || i["pl"]["t"] != "N")) {
            bump("cases_with_some_adjustment_expected", &mut stats);
        }
        for i in enc::arr(&exp[0]["infos"]) {
            match i["pl"]["t"].as_str().unwrap_or("") {
                "D" => bump("exp_placement_distance", &mut stats),
                "M" => bump("exp_placement_mark", &mut stats),
                "C" => bump("exp_placement_cursive", &mut stats),
                _ => {}
            }
            if enc::int(&i["k"]) != 0 {
                bump("exp_kerning_nonzero", &mut stats);
            }
        }
        let want_infos: Vec<&Value> = exp.iter().map(|e| &e["infos"]).collect();
        let all_wanted = || Value::Array(want_infos.iter().map(|v| (*v).clone()).collect());
        // (A)
        let a = guarded_str(|| run_apply(p, input));
        let mut ok = true;
        match &a {
            Ok(infos) => {
                if !want_infos.iter().any(|w| *w == infos) {
                    ok = false;
                    report("apply", all_wanted(), infos.clone(), &mut out);
                }
            }
            Err(e) => {
                ok = false;
                report("apply", all_wanted(), json!(e), &mut out);
            }
        }
        // (B)
        let b = guarded_str(|| run_shape(p, input));
        match &b {
            Ok(sh) => match exp.iter().position(|e| e["infos"] == sh.infos) {
                None => {
                    ok = false;
                    report("shape", all_wanted(), sh.infos.clone(), &mut out);
                }
                Some(k) => {
                    for (dir, res, rtl) in [("ltr", &sh.ltr, false), ("rtl", &sh.rtl, true)] {
                        let want = &exp[k][dir];
                        match res {
                            Ok(ps) => {
                                let got = canon(ps, rtl);
                                if &got != want {
                                    ok = false;
                                    out.write(&json!({"id": case["id"], "in": input, "stage": format!("pos-{}", dir),
                                        "want": want, "got": got, "raw": raw_positions_json(ps), "infos": sh.infos, "selftest": case["selftest"]}));
                                }
                            }
                            Err(e) => {
                                ok = false;
                                out.write(&json!({"id": case["id"], "in": input, "stage": format!("pos-{}", dir),
                                    "want": want, "got": e, "infos": sh.infos, "selftest": case["selftest"]}));
                            }
                        }
                    }
                }
            },
            Err(e) => {
                ok = false;
                report("shape", all_wanted(), json!(e), &mut out);
            }
        }
        if !ok {
            n_mism += 1;
        }
    }
    wd.done();
    out.finish();
    let mut s = serde_json::Map::new();
    for (k, v) in stats {
        s.insert(k.to_string(), json!(v));
    }
    for (k, v) in vac {
        s.insert(k, json!(v));
    }
    s.insert("templates_gpos_without_gdef_table".into(), json!(fonts_without_gdef));
    println!(
        "{}",
        json!({"cases": n_cases, "cases_with_mismatch": n_mism, "templates": prepared.len(),
               "table_bytes_encoded": table_bytes, "stats": Value::Object(s)})
    );
}

// ---- record -------------------------------------------------------------------------------------
fn record(seed: u64, n_prog: usize, n_str: usize, out_path: &str) {
    let mut out = NdWriter::create(out_path);
    let mut i = 0u64;
    let mut kinds: HashMap<String, u64> = HashMap::new();
    // how many programs / events fall into the families the random generator must reach
    let mut fam: HashMap<&'static str, u64> = HashMap::new();
    for (pi, (kind, prog, inputs)) in rnd::programs(seed, n_prog, n_str).into_iter().enumerate() {
        *kinds.entry(kind.clone()).or_insert(0) += 1;
        let has_gpos = prog["gpos"].as_bool().unwrap_or(false);
        let tab = enc::gdef_tab(&prog["gdef"]).to_string();
        let gdef_class = |g: i64| -> i64 {
            if tab != "full" { 0 } else { enc::ints(&prog["gdef"]["cls"]).get(g as usize).copied().unwrap_or(0) }
        };
        if has_gpos && tab == "absent" {
            *fam.entry("programs_gpos_without_gdef").or_insert(0) += 1;
        }
        if has_gpos && tab == "noclassdef" {
            *fam.entry("programs_gdef_without_glyphclassdef").or_insert(0) += 1;
        }
        if has_gpos
            && tab == "full"
            && enc::arr(&prog["lookups"]).iter().any(|l| {
                [4, 5, 6].contains(&enc::int(&l["ty"]))
                    && enc::arr(&l["subs"]).iter().any(|st| enc::ints(&st["mcov"]["g"]).iter().any(|g| gdef_class(*g) != 3))
            })
        {
            *fam.entry("programs_mark_coverage_not_gdef_mark").or_insert(0) += 1;
        }
        let uses_kern = !enc::arr(&prog["kern"]).is_empty() && (!has_gpos || prog["tag"] != "kern");
        if uses_kern && enc::arr(&prog["kern"]).iter().any(|st| enc::int(&st["cov"]) & 5 == 5) {
            *fam.entry("programs_kern_cross_stream").or_insert(0) += 1;
        }
        if uses_kern && enc::arr(&prog["kern"]).iter().any(|st| enc::int(&st["cov"]) & 1 == 0) {
            *fam.entry("programs_kern_vertical").or_insert(0) += 1;
        }
        // variation data: what the program (an INPUT of the run) contains
        if let Some(var) = prog.get("var") {
            let on = var["tuple"]["has"].as_bool().unwrap_or(false);
            let store = var["store"].as_bool().unwrap_or(false) && tab != "absent";
            *fam.entry(if on { "programs_var_with_tuple" } else { "programs_var_without_tuple" }).or_insert(0) += 1;
            if on && !store {
                *fam.entry("programs_var_tuple_without_store").or_insert(0) += 1;
            }
            if on && enc::arr(&var["tuple"]["c"]).len() == 2 {
                *fam.entry("programs_var_two_axes").or_insert(0) += 1;
            }
            let mut var_dev = false;
            let mut hint_dev = false;
            for l in enc::arr(&prog["lookups"]) {
                let ty = enc::int(&l["ty"]);
                for st in enc::arr(&l["subs"]) {
                    let mut recs: Vec<(i64, &Value)> = Vec::new();
                    if ty == 1 {
                        let vf = enc::int(&st["vf"]);
                        if st["f"] == 1 {
                            recs.push((vf, &st["v"]));
                        } else {
                            recs.extend(enc::arr(&st["vs"]).iter().map(|v| (vf, v)));
                        }
                    } else if ty == 2 {
                        let key = if st["f"] == 1 { "sets" } else { "recs" };
                        for row in enc::arr(&st[key]) {
                            for rec in enc::arr(row) {
                                recs.push((enc::int(&st["vf1"]), &rec["v1"]));
                                recs.push((enc::int(&st["vf2"]), &rec["v2"]));
                            }
                        }
                    }
                    for (vf, v) in recs {
                        if let Some(dev) = v.get("dev") {
                            for b in 0..4 {
                                if vf & (0x10 << b) != 0 {
                                    var_dev |= dev[b]["k"] == "var";
                                    hint_dev |= dev[b]["k"] == "hint";
                                }
                            }
                        }
                    }
                }
            }
            if on && store && var_dev {
                *fam.entry("programs_var_value_record_with_variation_index").or_insert(0) += 1;
            }
            if hint_dev {
                *fam.entry("programs_var_value_record_with_hinting_device").or_insert(0) += 1;
            }
        }
        // combination programs (cursive + marks + ...): what the program and its inputs contain
        let lookups = enc::arr(&prog["lookups"]);
        let curs_cov: Vec<i64> = lookups
            .iter()
            .filter(|l| enc::int(&l["ty"]) == 3)
            .flat_map(|l| enc::arr(&l["subs"]).iter().flat_map(|st| enc::ints(&st["cov"]["g"])).collect::<Vec<i64>>())
            .collect();
        let mark_cov: Vec<i64> = lookups
            .iter()
            .filter(|l| enc::int(&l["ty"]) == 4)
            .flat_map(|l| enc::arr(&l["subs"]).iter().flat_map(|st| enc::ints(&st["mcov"]["g"])).collect::<Vec<i64>>())
            .collect();
        let is_comb = has_gpos && !curs_cov.is_empty() && !mark_cov.is_empty();
        if is_comb {
            *fam.entry("programs_comb").or_insert(0) += 1;
            let rtl_flag = lookups.iter().any(|l| enc::int(&l["ty"]) == 3 && enc::int(&l["flag"]) & 1 == 1);
            *fam.entry(if rtl_flag { "programs_comb_rtl_flag" } else { "programs_comb_flag_clear" }).or_insert(0) += 1;
            if uses_kern || lookups.iter().any(|l| enc::int(&l["ty"]) == 2) {
                *fam.entry("programs_comb_with_kerning").or_insert(0) += 1;
            }
            if lookups.iter().any(|l| {
                enc::int(&l["ty"]) == 1 && enc::arr(&l["subs"]).iter().any(|st| enc::int(&st["vf"]) & 3 != 0)
            }) {
                *fam.entry("programs_comb_with_displacement").or_insert(0) += 1;
            }
            if lookups.iter().any(|l| enc::int(&l["ty"]) == 6) {
                *fam.entry("programs_comb_with_markmark").or_insert(0) += 1;
            }
        }
        let case = format!("p{}-{}", pi, kind);
        let mut prep = guarded_str(|| prepare(&prog));
        for input in inputs {
            i += 1;
            if is_comb && tab == "full" {
                // shape of the INPUT: cursive-covered glyphs (c), mark-covered GDEF marks (m), others (o)
                let pat: String = enc::arr(&input)
                    .iter()
                    .map(|it| {
                        let g = enc::int(&it["g"]);
                        if curs_cov.contains(&g) && gdef_class(g) != 3 {
                            'c'
                        } else if mark_cov.contains(&g) && gdef_class(g) == 3 {
                            'm'
                        } else if gdef_class(g) == 3 {
                            'x'
                        } else {
                            'o'
                        }
                    })
                    .collect();
                let squeezed: String = pat.chars().filter(|c| *c != 'x').collect();
                if squeezed.contains("cmc") || squeezed.contains("cmmc") {
                    *fam.entry("events_input_mark_inside_cursive_pair").or_insert(0) += 1;
                }
                if squeezed.contains("cmm") {
                    *fam.entry("events_input_two_marks_after_cursive_glyph").or_insert(0) += 1;
                }
                let bases: String = squeezed.chars().filter(|c| *c != 'm').collect();
                if bases.contains("ccc") && squeezed.contains("cm") {
                    *fam.entry("events_input_chain_of_3_with_mark").or_insert(0) += 1;
                }
            }
            let o = match &mut prep {
                Err(e) => json!({"err": format!("load:{}", e), "infos": [], "ltr": [], "rtl": []}),
                Ok(p) => match guarded_str(|| run_shape(p, &input)) {
                    Err(e) => json!({"err": e, "infos": [], "ltr": [], "rtl": []}),
                    Ok(sh) => {
                        if enc::arr(&sh.infos).iter().any(|i| i["pl"]["t"] == "M" && gdef_class(enc::int(&i["g"])) != 3) {
                            *fam.entry("events_attached_mark_not_gdef_mark").or_insert(0) += 1;
                        }
                        let err = match (&sh.ltr, &sh.rtl) {
                            (Err(e), _) | (_, Err(e)) => format!("positions:{}", e),
                            _ => String::new(),
                        };
                        json!({"err": err, "infos": sh.infos,
                               "ltr": sh.ltr.as_ref().map(|p| raw_positions_json(p)).unwrap_or(json!([])),
                               "rtl": sh.rtl.as_ref().map(|p| raw_positions_json(p)).unwrap_or(json!([]))})
                    }
                },
            };
            out.write(&json!({"i": i, "case": case, "ev": "Shape", "a": {"prog": prog, "in": input}, "o": o}));
        }
    }
    out.finish();
    let mut k = serde_json::Map::new();
    for (a, b) in kinds {
        k.insert(a, json!(b));
    }
    let mut fm = serde_json::Map::new();
    for (a, b) in fam {
        fm.insert(a.to_string(), json!(b));
    }
    println!("{}", json!({"events": i, "programs": n_prog, "kinds": Value::Object(k), "families": Value::Object(fm)}));
}

// ---- probe ---------------------------------------------------------------------------------------
fn probe(path: &str, script: &str, dir: &str, text: &str) {
    let bytes = leak(std::fs::read(path).expect("read font"));
    let fd = ReadScope::new(bytes).read::<FontData<'static>>().expect("fontdata");
    let prov = fd.table_provider(0).expect("provider");
    let mut font = Font::new(prov).expect("font");
    let script = tag_u32(script);
    let glyphs = font.map_glyphs(text, script, MatchingPresentation::NotRequired);
    let infos = match font.shape(glyphs, script, None, &Features::Mask(FeatureMask::default()), None, true) {
        Ok(i) => i,
        Err((e, i)) => {
            println!("shape error {:?}", e);
            i
        }
    };
    let d = if dir == "rtl" { TextDirection::RightToLeft } else { TextDirection::LeftToRight };
    let adv: Vec<Option<u16>> = infos.iter().map(|i| font.horizontal_advance(i.glyph.glyph_index)).collect();
    let ps = GlyphLayout::new(&mut font, &infos, d, false).glyph_positions().expect("positions");
    for (k, (i, p)) in infos.iter().zip(ps.iter()).enumerate() {
        println!(
            "{} g={} hmtx={:?} kern={} pl={} -> adv={} x={} y={}",
            k, i.glyph.glyph_index, adv[k], i.kerning, placement_json(&i.placement), p.hori_advance, p.x_offset, p.y_offset
        );
    }
    println!("canon {}", canon(&ps, dir == "rtl"));
}

fn main() {
    let args: Vec<String> = std::env::args().collect();
    match args.get(1).map(|s| s.as_str()) {
        Some("replay") => replay(&args[2], &args[3], &args[4]),
        Some("record") => record(
            args[2].parse().expect("seed"),
            args[3].parse().expect("programs"),
            args[4].parse().expect("strings"),
            &args[5],
        ),
        Some("probe") => probe(&args[2], &args[3], &args[4], &args[5]),
        _ => {
            eprintln!("usage: c05_gpos replay <templates> <cases> <mismatches> | record <seed> <programs> <strings> <trace> | probe <font> <script> <dir> <text>");
            std::process::exit(2);
        }
    }
}
