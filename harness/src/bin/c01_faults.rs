//! C01 harness: fault enumeration over the repository fonts.
//!
//!   c01_faults inputs  <tier> <seed>                                   list of inputs (JSON)
//!   c01_faults analyse <tier> <seed> <input> <out.json>                fields, records, baseline of one input
//!   c01_faults replay  <mc.ndjson> <trace.ndjson> <mismatch.ndjson>    VAL / FILE cases of MC_FaultModel
//!   c01_faults run     <tier> <seed> <cases.ndjson> <outdir> <nworkers>   supervisor
//!   c01_faults worker  <tier> <seed> <cases> <outdir> <input> <from> <to> <trace> [<job> <group>]
//!   c01_faults one     <tier> <seed> <cases> <outdir> <input> <job> <group> [<mask>]
//!   c01_faults exec    <json>                                          replay of a finding
//!   c01_faults probe   [filter]                                        timings on intact fonts
//!
//! The harness decides nothing: it instantiates the abstract fault sequences TLC enumerated on the
//! concrete fields of the fonts, calls allsorts under supervision and records one event per
//! (input, fault sequence, entry point group).  Trace_FaultModel judges the events.
#[path = "c01_faults/entry.rs"]
mod entry;
#[path = "c01_faults/faults.rs"]
mod faults;
#[path = "c01_faults/fields.rs"]
mod fields;
#[path = "c01_faults/sup.rs"]
mod sup;
#[path = "c01_faults/view.rs"]
mod view;
#[path = "c01_faults/wrap.rs"]
mod wrap;
#[path = "c01_faults/synth.rs"]
mod synth;
#[path = "c01_faults/cffw.rs"]
#[allow(dead_code)]
mod cffw;

#[global_allocator]
static ALLOC: sup::Budgeted = sup::Budgeted;

use entry::{GroupOut, GROUPS};
use faults::{Applied, CF, VCS};
use fields::{Field, RecInfo, Walk};
use serde_json::{json, Value};
use std::collections::{BTreeMap, BTreeSet};
use std::io::Write;
use std::sync::atomic::{AtomicBool, AtomicU64, AtomicUsize, Ordering};
use std::sync::{Arc, Mutex};
use vh::util::{read_ndjson, repo_fonts, repo_root};
use wrap::Carrier;

const HEAP_BUDGET: usize = 1 << 30; // live heap a group may add: 1 GiB
const RLIMIT_AS: u64 = 4 << 30;
const CPU_MIN_NS: u64 = 2_000_000_000;
const CPU_MAX_NS: u64 = 30_000_000_000;
const EXIT_TIMEOUT: i32 = 75;
const STACK_BYTES: usize = 8 << 20;

fn mix(mut z: u64) -> u64 {
    z = z.wrapping_add(0x9E37_79B9_7F4A_7C15);
    z = (z ^ (z >> 30)).wrapping_mul(0xBF58_476D_1CE4_E5B9);
    z = (z ^ (z >> 27)).wrapping_mul(0x94D0_49BB_1331_11EB);
    z ^ (z >> 31)
}
fn h(parts: &[u64]) -> u64 {
    let mut x = 0x5EED_C01u64;
    for &p in parts {
        x = mix(x ^ p);
    }
    x
}
fn hs(s: &str) -> u64 {
    s.bytes().fold(0xcbf29ce484222325u64, |a, b| (a ^ b as u64).wrapping_mul(0x100000001b3))
}

// ---- inputs ---------------------------------------------------------------------------------------------

#[derive(Clone, Debug)]
enum Make {
    File(String),
    Woff2Stream(Box<Make>),
    WoffTables(Box<Make>),
    Ttc(Vec<String>),
    WoffOf(String),
    Woff2Of(String),
    /// the font as a WOFF2 file with a transformed hmtx table (both side bearing arrays stored) beside a glyf table
    /// with the null transform
    Woff2HmtxOf(String),
    /// the font with the glyph `A` rewritten as an accented character ("seac" endchar)
    SeacOf(String),
    /// a font written by the harness (c01_faults/synth.rs), a function of its name
    Synth(String),
}

#[derive(Clone, Debug)]
struct InputSpec {
    name: String,
    make: Make,
}

struct Input {
    name: String,
    kind: &'static str,
    buf: Vec<u8>,
    carrier: Carrier,
    /// woff2 stream layout / woff table layout for the structural walk of inner views
    stream: Vec<(String, usize, usize, bool)>,
}

fn rel(p: &str) -> String {
    let root = format!("{}/tests/", repo_root());
    p.strip_prefix(&root).unwrap_or(p).to_string()
}
fn abs(r: &str) -> String {
    format!("{}/tests/{}", repo_root(), r)
}

fn file_bytes(m: &Make) -> Option<Vec<u8>> {
    match m {
        Make::File(r) => std::fs::read(abs(r)).ok(),
        Make::Ttc(rs) => {
            let ms: Vec<Vec<u8>> = rs.iter().map(|r| std::fs::read(abs(r)).ok()).collect::<Option<_>>()?;
            wrap::build_ttc(&ms.iter().map(|v| v.as_slice()).collect::<Vec<_>>())
        }
        Make::WoffOf(r) => {
            let (ver, t) = wrap::sfnt_tables(&std::fs::read(abs(r)).ok()?)?;
            let c: Vec<bool> = t.iter().enumerate().map(|(i, _)| i % 5 != 4).collect();
            Some(wrap::build_woff(ver, &t, &c))
        }
        Make::Woff2Of(r) => {
            let (ver, t) = wrap::sfnt_tables(&std::fs::read(abs(r)).ok()?)?;
            Some(wrap::build_woff2_null(ver, &t))
        }
        Make::Woff2HmtxOf(r) => {
            let (ver, t) = wrap::sfnt_tables(&std::fs::read(abs(r)).ok()?)?;
            wrap::build_woff2_hmtx(ver, &t, 0)
        }
        Make::SeacOf(r) => wrap::seac_variant(&std::fs::read(abs(r)).ok()?),
        Make::Synth(n) => synth::build(n),
        _ => None,
    }
}

fn kind_of(d: &[u8]) -> &'static str {
    match d.get(0..4) {
        Some(b"ttcf") => "ttc",
        Some(b"wOFF") => "woff",
        Some(b"wOF2") => "woff2",
        _ => "sfnt",
    }
}

fn load_input(spec: &InputSpec) -> Option<Input> {
    match &spec.make {
        Make::Woff2Stream(inner) => {
            let d = file_bytes(inner)?;
            let (entries, dir_end, stream) = wrap::woff2_open(&d)?;
            Some(Input { name: spec.name.clone(), kind: "woff2-stream", buf: stream, carrier: Carrier::Woff2Stream { prefix: d[..dir_end].to_vec() }, stream: entries })
        }
        Make::WoffTables(inner) => {
            let d = file_bytes(inner)?;
            let (flavor, tables) = wrap::woff_open(&d)?;
            let mut buf = Vec::new();
            let mut lay = Vec::new();
            for (tag, data, z) in tables {
                lay.push((tag, buf.len(), data.len(), z));
                buf.extend_from_slice(&data);
            }
            Some(Input { name: spec.name.clone(), kind: "woff-tables", buf, carrier: Carrier::WoffTables { flavor, tables: lay.clone() }, stream: lay })
        }
        m => {
            let d = file_bytes(m)?;
            Some(Input { name: spec.name.clone(), kind: kind_of(&d), buf: d, carrier: Carrier::Plain, stream: Vec::new() })
        }
    }
}

fn input_specs(tier: &str, seed: u64) -> Vec<InputSpec> {
    let mut out = Vec::new();
    let all = repo_fonts();
    let mut aots = Vec::new();
    for f in &all {
        let r = rel(f);
        if r.starts_with("aots/") {
            aots.push(r);
            continue;
        }
        out.push(InputSpec { name: r.clone(), make: Make::File(r.clone()) });
        if let Ok(d) = std::fs::read(f) {
            if kind_of(&d) == "woff2" && wrap::woff2_open(&d).is_some() {
                out.push(InputSpec { name: format!("{}#stream", r), make: Make::Woff2Stream(Box::new(Make::File(r.clone()))) });
            }
            if kind_of(&d) == "woff" {
                if let Some((_, t)) = wrap::woff_open(&d) {
                    if t.iter().any(|x| x.2) {
                        out.push(InputSpec { name: format!("{}#tables", r), make: Make::WoffTables(Box::new(Make::File(r.clone()))) });
                    }
                }
            }
        }
    }
    let ttc_a = vec!["fonts/opentype/SFNT-TTF-Composite.ttf", "fonts/variable/UnderlineTest-VF.ttf", "fonts/opentype/cff2/SourceSans3.abc.otf"];
    let ttc_b = vec!["fonts/noto/NotoSansLao-Regular.ttf", "fonts/opentype/SymbolTest-Regular.ttf"];
    for (nm, l) in [("ttc(Composite+UnderlineVF+SourceSans3)", ttc_a), ("ttc(NotoSansLao+SymbolTest)", ttc_b)] {
        out.push(InputSpec { name: nm.to_string(), make: Make::Ttc(l.iter().map(|s| s.to_string()).collect()) });
    }
    for r in ["fonts/opentype/OpenSans-Regular.ttf", "fonts/opentype/Klei.otf", "fonts/variable/Inter[slnt,wght].abc.ttf", "fonts/sbix/sbix-dupe.ttf", "fonts/opentype/cff2/SourceSansVariable-Roman.abc.otf"] {
        out.push(InputSpec { name: format!("woff({})", r), make: Make::WoffOf(r.to_string()) });
        out.push(InputSpec { name: format!("woff({})#tables", r), make: Make::WoffTables(Box::new(Make::WoffOf(r.to_string()))) });
        out.push(InputSpec { name: format!("woff2({})", r), make: Make::Woff2Of(r.to_string()) });
        out.push(InputSpec { name: format!("woff2({})#stream", r), make: Make::Woff2Stream(Box::new(Make::Woff2Of(r.to_string()))) });
    }
    // WOFF2 transform combinations an encoder does not write: hmtx transformed (version 1, both side bearing arrays stored),
    // glyf / loca with the null transform; the flag byte of the transformed table is a field of the #stream view, so that
    // the classes one / dec / inc reach the variants that take side bearings from the glyphs
    {
        let r = "fonts/opentype/SFNT-TTF-Composite.ttf";
        out.push(InputSpec { name: format!("woff2-xhmtx({})", r), make: Make::Woff2HmtxOf(r.to_string()) });
        out.push(InputSpec { name: format!("woff2-xhmtx({})#stream", r), make: Make::Woff2Stream(Box::new(Make::Woff2HmtxOf(r.to_string()))) });
    }
    // a CFF font with an accented character built by the four-argument endchar: no repository font has one
    out.push(InputSpec { name: "seac(fonts/opentype/SourceCodePro-Regular.otf)".to_string(), make: Make::SeacOf("fonts/opentype/SourceCodePro-Regular.otf".to_string()) });
    // synthesized champions: the table kinds and sub-formats the repository covers thinly or not at all
    for n in synth::NAMES {
        out.push(InputSpec { name: n.to_string(), make: Make::Synth(n.to_string()) });
    }
    aots.sort();
    let keep = if tier == "quick" { 40 } else { aots.len() };
    let mut scored: Vec<(u64, String)> = aots.into_iter().map(|r| (h(&[seed, hs(&r), 0xA075]), r)).collect();
    scored.sort();
    let mut chosen: Vec<String> = scored.into_iter().take(keep).map(|x| x.1).collect();
    chosen.sort();
    for r in chosen {
        out.push(InputSpec { name: r.clone(), make: Make::File(r) });
    }
    out
}

/// Content classes of an input, read from its bytes by the harness' own walk: the largest number of operands a
/// charstring operator finds on the stack (per CFF / CFF2 table, glyphs the outlines group visits), the same for DICT
/// operators, the longest DICT real number in characters (`Walk::content`), and for the name
/// table which kinds of long string (more than 63 bytes once decoded to UTF-8) with letters / digits outside ASCII it
/// holds: `name.long.w2` / `w3` / `w4` = UTF-16 records with such characters of that UTF-8 width, `name.long.mac-high` =
/// Macintosh Roman records with bytes above 7F.
fn content_classes(bytes: &[u8]) -> BTreeMap<String, u64> {
    let mut out: BTreeMap<String, u64> = BTreeMap::new();
    let mut w = Walk::new(bytes);
    w.file();
    for (t, n) in &w.content {
        out.insert(t.clone(), *n as u64);
    }
    let u16_at = |o: usize| -> Option<usize> { bytes.get(o..o + 2).map(|b| u16::from_be_bytes([b[0], b[1]]) as usize) };
    for r in w.recs.iter().filter(|r| r.tag == "name") {
        let t = r.data_off;
        let (count, storage) = match (u16_at(t + 2), u16_at(t + 4)) {
            (Some(c), Some(s)) => (c, s),
            _ => continue,
        };
        for k in 0..count {
            let q = t + 6 + 12 * k;
            let (plat, len, off) = match (u16_at(q), u16_at(q + 8), u16_at(q + 10)) {
                (Some(a), Some(b), Some(c)) => (a, b, c),
                _ => break,
            };
            let data = match bytes.get(t + storage + off..t + storage + off + len) {
                Some(d) if t + storage + off + len <= r.data_off + r.data_len => d,
                _ => continue,
            };
            if plat == 1 {
                let high = data.iter().filter(|b| **b >= 0x80).count();
                if high > 0 && data.len() + high > 63 {
                    *out.entry("name.long.mac-high".into()).or_insert(0) += 1;
                }
            } else {
                let units: Vec<u16> = data.chunks_exact(2).map(|c| u16::from_be_bytes([c[0], c[1]])).collect();
                let st: String = char::decode_utf16(units).map(|c| c.unwrap_or('\u{FFFD}')).collect();
                if st.len() > 63 {
                    for wd in 2..=4usize {
                        if st.chars().any(|c| c.is_alphanumeric() && c.len_utf8() == wd) {
                            *out.entry(format!("name.long.w{}", wd)).or_insert(0) += 1;
                        }
                    }
                }
            }
        }
    }
    out
}

// ---- analysis of one input: fields, records, which group asks for which table, baseline ---------------------------

struct Analysis {
    fields: Vec<Field>,
    recs: Vec<RecInfo>,
    /// per group: tags requested on the intact file; "*" = all
    touched: Vec<BTreeSet<String>>,
    base: Vec<(String, u32, u32, u64)>,
}

fn tag_str(t: u32) -> String {
    t.to_be_bytes().iter().map(|&c| if (0x20..0x7f).contains(&c) { c as char } else { '?' }).collect()
}

fn analyse(input: &Input) -> Analysis {
    let mut w = Walk::new(&input.buf);
    match input.kind {
        "woff2-stream" => w.woff2_stream(&input.stream),
        "woff-tables" => {
            let t: Vec<(String, usize, usize)> = input.stream.iter().map(|x| (x.0.clone(), x.1, x.2)).collect();
            w.tables(&t, 0)
        }
        _ => w.file(),
    }
    let mut fields = w.out;
    let recs = w.recs;
    // directory record fields: "table length" is the length of the table the record names
    for f in fields.iter_mut() {
        if f.level == "dir" && f.name.starts_with("rec.") {
            if let Some(r) = recs.iter().find(|r| f.off >= r.rec_off && f.off < r.rec_off + r.rec_size) {
                f.tlen = r.data_len;
            }
        }
    }
    // duplicates (same offset and width) are dropped
    let mut seen = BTreeSet::new();
    fields.retain(|f| seen.insert((f.off, f.w)));
    // baseline on the intact file, with the read hook recording what allsorts looks at
    let bytes = input.carrier.assemble(&input.buf);
    let base_addr = bytes.as_ptr() as usize;
    let mut touched = Vec::new();
    let mut base = Vec::new();
    let mut reads: BTreeSet<(usize, u8)> = BTreeSet::new();
    let plain = matches!(input.carrier, Carrier::Plain);
    for g in 0..GROUPS.len() {
        if plain {
            allsorts::verif_hooks::start_recording();
        }
        let t0 = sup::thread_cpu_ns();
        let o = entry::run_group(g, &bytes);
        let dt = sup::thread_cpu_ns() - t0;
        if plain {
            for (a, wd) in allsorts::verif_hooks::take_recorded() {
                if a >= base_addr && a + wd <= base_addr + bytes.len() && wd <= 8 {
                    reads.insert((a - base_addr, wd as u8));
                }
            }
            allsorts::verif_hooks::stop_recording();
        }
        let mut t: BTreeSet<String> = o.touched.iter().map(|x| tag_str(*x)).collect();
        if o.touched_all || GROUPS[g] == "container" {
            t.insert("*".to_string());
        }
        touched.push(t);
        base.push((o.outcome().to_string(), o.ok, o.err, dt));
    }
    // fields only the hook knows: inside a table of the directory, not yet a structural field
    if plain {
        let covered: BTreeSet<usize> = fields.iter().flat_map(|f| f.off..f.off + f.w as usize).collect();
        let mut extra: Vec<(usize, u8)> = reads.into_iter().filter(|(o, w)| !(*o..*o + *w as usize).any(|b| covered.contains(&b))).collect();
        const CAP: usize = 6000;
        if extra.len() > CAP {
            let step = extra.len() as f64 / CAP as f64;
            extra = (0..CAP).map(|k| extra[(k as f64 * step) as usize]).collect();
        }
        let mut ranges: Vec<(usize, usize, String)> = recs.iter().filter(|r| r.index < 4096).map(|r| (r.data_off, r.data_len, r.tag.clone())).collect();
        ranges.sort();
        ranges.dedup();
        for (o, wd) in extra {
            if let Some((s, l, tag)) = ranges.iter().find(|(s, l, _)| o >= *s && o + wd as usize <= s + l) {
                fields.push(Field { off: o, w: wd, role: "value", level: "table", tbl: tag.clone(), name: "hook".to_string(), tstart: *s, tlen: *l, selfv: -1, parentv: -1, prevo: -1, nexto: -1, dv: -1 });
            }
        }
    }
    Analysis { fields, recs, touched, base }
}

impl Analysis {
    fn json(&self, input: &Input) -> Value {
        json!({
            "name": input.name, "kind": input.kind, "buflen": input.buf.len(),
            "fields": self.fields.iter().map(|f| f.json()).collect::<Vec<_>>(),
            "recs": self.recs.iter().map(|r| r.json()).collect::<Vec<_>>(),
            "touched": self.touched.iter().map(|t| t.iter().cloned().collect::<Vec<_>>()).collect::<Vec<_>>(),
            "base": self.base.iter().map(|b| json!([b.0, b.1, b.2, b.3])).collect::<Vec<_>>(),
        })
    }
    fn from_json(v: &Value) -> Analysis {
        Analysis {
            fields: v["fields"].as_array().unwrap().iter().map(Field::from_json).collect(),
            recs: v["recs"].as_array().unwrap().iter().map(RecInfo::from_json).collect(),
            touched: v["touched"].as_array().unwrap().iter().map(|t| t.as_array().unwrap().iter().map(|x| x.as_str().unwrap().to_string()).collect()).collect(),
            base: v["base"].as_array().unwrap().iter().map(|b| (b[0].as_str().unwrap().to_string(), b[1].as_u64().unwrap() as u32, b[2].as_u64().unwrap() as u32, b[3].as_u64().unwrap())).collect(),
        }
    }
}

// ---- plan: abstract cases -> concrete jobs ----------------------------------------------------------------------------

#[derive(Clone, Debug)]
struct Abs {
    k: String,
    role: String,
    vc: String,
    level: String,
    wher: String,
    mode: String,
}

type Cases = (Vec<Abs>, Vec<(usize, usize)>, Vec<(usize, usize, usize)>);

/// The abstract sequences of MC_FaultModel: singles in canonical order; pairs / triples as indices
/// into the singles.  Parsing the CASE lines takes seconds for a thorough run, so the supervisor
/// does it once and leaves a compact index next to the file for the workers.
fn load_cases(path: &str) -> Cases {
    let idx_path = format!("{}.idx.json", path);
    if let Ok(s) = std::fs::read_to_string(&idx_path) {
        if let Ok(v) = serde_json::from_str::<Value>(&s) {
            let st = |x: &Value| x.as_str().unwrap().to_string();
            let singles = v["singles"].as_array().unwrap().iter().map(|a| Abs { k: st(&a[0]), role: st(&a[1]), vc: st(&a[2]), level: st(&a[3]), wher: st(&a[4]), mode: st(&a[5]) }).collect();
            let u = |x: &Value| x.as_u64().unwrap() as usize;
            let pairs = v["pairs"].as_array().unwrap().iter().map(|p| (u(&p[0]), u(&p[1]))).collect();
            let triples = v["triples"].as_array().unwrap().iter().map(|p| (u(&p[0]), u(&p[1]), u(&p[2]))).collect();
            return (singles, pairs, triples);
        }
    }
    let mut singles: Vec<Abs> = Vec::new();
    let mut idx: BTreeMap<String, usize> = BTreeMap::new();
    let mut seqs: Vec<Vec<String>> = Vec::new();
    let key = |a: &Value| format!("{}|{}|{}|{}|{}|{}", a["k"].as_str().unwrap(), a["role"].as_str().unwrap(), a["vc"].as_str().unwrap(), a["level"].as_str().unwrap(), a["where"].as_str().unwrap(), a["mode"].as_str().unwrap());
    let raw: Vec<Value> = read_ndjson(path);
    let mut keyed: Vec<(String, &Value)> = raw.iter().map(|c| (c["seq"].as_array().unwrap().iter().map(|a| key(a)).collect::<Vec<_>>().join(";"), c)).collect();
    keyed.sort_by(|a, b| a.0.cmp(&b.0));
    for (_, c) in &keyed {
        let s = c["seq"].as_array().unwrap();
        if s.len() == 1 {
            let a = &s[0];
            idx.insert(key(a), singles.len());
            singles.push(Abs { k: a["k"].as_str().unwrap().into(), role: a["role"].as_str().unwrap().into(), vc: a["vc"].as_str().unwrap().into(), level: a["level"].as_str().unwrap().into(), wher: a["where"].as_str().unwrap().into(), mode: a["mode"].as_str().unwrap().into() });
        }
        seqs.push(s.iter().map(|a| key(a)).collect());
    }
    let mut pairs = Vec::new();
    let mut triples = Vec::new();
    for s in seqs {
        match s.len() {
            2 => pairs.push((idx[&s[0]], idx[&s[1]])),
            3 => triples.push((idx[&s[0]], idx[&s[1]], idx[&s[2]])),
            _ => {}
        }
    }
    (singles, pairs, triples)
}

fn write_cases_index(path: &str, c: &Cases) {
    let v = json!({
        "singles": c.0.iter().map(|a| json!([a.k, a.role, a.vc, a.level, a.wher, a.mode])).collect::<Vec<_>>(),
        "pairs": c.1.iter().map(|p| json!([p.0, p.1])).collect::<Vec<_>>(),
        "triples": c.2.iter().map(|p| json!([p.0, p.1, p.2])).collect::<Vec<_>>(),
    });
    std::fs::write(format!("{}.idx.json", path), serde_json::to_string(&v).unwrap()).expect("cases index");
}

struct Job {
    faults: Vec<CF>,
}

type Champ = BTreeMap<String, BTreeSet<String>>;

/// field name without what tells instances of one kind of field apart: "[..]" contents and the
/// running number of components, records, ranges, axes, operands
fn norm_name(n: &str) -> String {
    let mut t = String::new();
    let mut depth = 0;
    for ch in n.chars() {
        match ch {
            '[' => depth += 1,
            ']' => depth -= 1,
            c if depth == 0 => t.push(c),
            _ => {}
        }
    }
    for kw in ["comp", "rec", "range", "axis", "arg", "byte", "coord", "word", "sub", "Offset", "rule", "peak", "start", "end", "subr", "gsubr", "lsubr"] {
        let mut out = String::new();
        let mut rest = t.as_str();
        while let Some(k) = rest.find(kw) {
            out.push_str(&rest[..k + kw.len()]);
            rest = rest[k + kw.len()..].trim_start_matches(|c: char| c.is_ascii_digit());
        }
        out.push_str(rest);
        t = out;
    }
    t
}

/// table kinds a harness-built input stands for in the quick tier: the synthesized fonts for theirs, the WOFF2 file with
/// a transformed hmtx beside an untransformed glyf (its decompressed stream) for hmtx
fn focus(name: &str) -> &'static [&'static str] {
    if name.starts_with("woff2-xhmtx(") && name.ends_with("#stream") {
        &["hmtx"]
    } else {
        synth::focus(name)
    }
}

/// Quick tier: for every table kind, inputs that between them have every kind of structural
/// non-value field the walk finds in that table kind anywhere (greedy cover: most uncovered kinds
/// first, then the smaller file, then the plain one); for the variation tables and CFF2 every
/// repository file that has the table.  input index -> table kind -> names.
fn champions(analyses: &[(String, usize, Analysis)]) -> BTreeMap<usize, Champ> {
    // table kind -> input -> names
    let mut per: BTreeMap<String, BTreeMap<usize, BTreeSet<String>>> = BTreeMap::new();
    for (i, (_, _, an)) in analyses.iter().enumerate() {
        for f in &an.fields {
            // value fields count when they are elements of an array (relational classes)
            if f.level == "table" && (f.role != "value" || f.prevo >= 0 || f.nexto >= 0) && f.name != "hook" {
                per.entry(f.tbl.clone()).or_default().entry(i).or_default().insert(norm_name(&f.name));
            }
        }
    }
    let mut out: BTreeMap<usize, Champ> = BTreeMap::new();
    // the variation tables and CFF2 live in a handful of small fonts: every repository file that has one stands for it
    const DENSE: [&str; 9] = ["fvar", "avar", "gvar", "cvar", "HVAR", "VVAR", "MVAR", "STAT", "CFF2"];
    for (tbl, inputs) in &per {
        if DENSE.contains(&tbl.as_str()) {
            for (i, names) in inputs {
                let name = &analyses[*i].0;
                if !name.contains('#') && !name.contains('(') && !synth::content_only(name) {
                    out.entry(*i).or_default().insert(tbl.clone(), names.clone());
                }
            }
        }
    }
    // the synthesized inputs stand for their table kinds with everything the walk finds in them
    let mut forced: BTreeMap<String, BTreeSet<String>> = BTreeMap::new();
    for (tbl, inputs) in &per {
        for (i, names) in inputs {
            let name = &analyses[*i].0;
            if focus(name).contains(&tbl.as_str()) {
                out.entry(*i).or_default().insert(tbl.clone(), names.clone());
                forced.entry(tbl.clone()).or_default().extend(names.iter().cloned());
            }
        }
    }
    for (tbl, mut inputs) in per {
        // the other table kinds of a synthesized input are left to the repository fonts
        inputs.retain(|i, _| !analyses[*i].0.starts_with("synth/"));
        let mut todo: BTreeSet<String> = inputs.values().flatten().cloned().collect();
        if let Some(f) = forced.get(&tbl) {
            todo.retain(|n| !f.contains(n));
        }
        while !todo.is_empty() {
            let best = inputs
                .iter()
                .map(|(i, names)| (names.intersection(&todo).count(), *i))
                .filter(|x| x.0 > 0)
                .max_by_key(|(n, i)| {
                    let (name, len, _) = &analyses[*i];
                    (*n, std::cmp::Reverse(*len), !(name.contains('#') || name.contains('(')), std::cmp::Reverse(*i))
                });
            let (_, i) = match best {
                Some(b) => b,
                None => break,
            };
            let got: BTreeSet<String> = inputs[&i].intersection(&todo).cloned().collect();
            for g in &got {
                todo.remove(g);
            }
            out.entry(i).or_default().entry(tbl.clone()).or_default().extend(got);
        }
    }
    out
}

fn load_champ(outdir: &str, input_idx: usize) -> Champ {
    let v: Value = std::fs::read_to_string(format!("{}/champions.json", outdir)).ok().and_then(|s| serde_json::from_str(&s).ok()).unwrap_or(json!({}));
    let mut c = Champ::new();
    if let Some(m) = v.get(input_idx.to_string()).and_then(|x| x.as_object()) {
        for (tbl, names) in m {
            c.insert(tbl.clone(), names.as_array().map(|a| a.iter().filter_map(|x| x.as_str().map(|s| s.to_string())).collect()).unwrap_or_default());
        }
    }
    c
}

struct Planner<'a> {
    an: &'a Analysis,
    seed: u64,
    input_hash: u64,
    by: BTreeMap<(String, String), Vec<usize>>, // (role, level) -> field indices (structural first, hook last)
    n_struct: BTreeMap<(String, String), usize>,
}

impl<'a> Planner<'a> {
    fn new(an: &'a Analysis, seed: u64, name: &str) -> Planner<'a> {
        let mut by: BTreeMap<(String, String), Vec<usize>> = BTreeMap::new();
        let mut n_struct = BTreeMap::new();
        for pass in 0..2 {
            for (i, f) in an.fields.iter().enumerate() {
                if (f.name == "hook") == (pass == 1) {
                    by.entry((f.role.to_string(), f.level.to_string())).or_default().push(i);
                }
            }
            if pass == 0 {
                for (k, v) in &by {
                    n_struct.insert(k.clone(), v.len());
                }
            }
        }
        Planner { an, seed, input_hash: hs(name), by, n_struct }
    }
    /// fields an abstract fault can be instantiated on (structural first, hook last) and how many of
    /// them are structural; a reference class needs a field that has the reference
    fn cands(&self, a: &Abs) -> (Vec<usize>, usize) {
        let c = self.by.get(&(a.role.clone(), a.level.clone())).cloned().unwrap_or_default();
        let ns = *self.n_struct.get(&(a.role.clone(), a.level.clone())).unwrap_or(&0);
        if a.k == "Overwrite" && !faults::class_applies(&a.vc, &a.role) {
            return (Vec::new(), 0);
        }
        if a.k == "Overwrite" && faults::is_ref_class(&a.vc) {
            let c: Vec<usize> = c.into_iter().filter(|&i| faults::has_ref(&a.vc, self.an.fields[i].selfv, self.an.fields[i].parentv)).collect();
            let n = c.len();
            (c, n)
        } else if a.k == "Overwrite" && faults::is_der_class(&a.vc) {
            // a derived class needs a field for which the walk knows the implied value
            let c: Vec<usize> = c.into_iter().filter(|&i| faults::has_der(&a.vc, self.an.fields[i].dv)).collect();
            let n = c.len();
            (c, n)
        } else if a.k == "Overwrite" && faults::is_bit_class(&a.vc) {
            // a bit class needs a field wide enough to have the bit
            let n0 = ns;
            let keep: Vec<bool> = c.iter().map(|&i| faults::has_bit(&a.vc, self.an.fields[i].w)).collect();
            let n = keep[..n0.min(keep.len())].iter().filter(|k| **k).count();
            let c: Vec<usize> = c.into_iter().zip(keep).filter(|x| x.1).map(|x| x.0).collect();
            (c, n)
        } else if a.k == "Overwrite" && faults::is_rel_class(&a.vc) {
            // a relational class needs a field that is an element of an array with a sibling on that side
            let c: Vec<usize> = c.into_iter().filter(|&i| faults::has_sib(&a.vc, self.an.fields[i].prevo, self.an.fields[i].nexto)).collect();
            let n = c.len();
            (c, n)
        } else {
            (c, ns)
        }
    }
    fn pick<'b>(&self, c: &'b [usize], salt: &[u64]) -> Option<usize> {
        if c.is_empty() {
            None
        } else {
            let mut p = vec![self.seed, self.input_hash];
            p.extend_from_slice(salt);
            Some(c[(h(&p) % c.len() as u64) as usize])
        }
    }
    /// one concrete instance of an abstract fault; `near` = prefer fields of that table
    fn instance(&self, ai: usize, a: &Abs, salt: u64, near: Option<&str>) -> Option<CF> {
        let recs = &self.an.recs;
        match a.k.as_str() {
            "Overwrite" | "Truncate" => {
                let (c, _) = self.cands(a);
                let c2: Vec<usize> = match near {
                    Some(t) => c.iter().copied().filter(|&i| self.an.fields[i].tbl == t).collect(),
                    None => Vec::new(),
                };
                let fi = if !c2.is_empty() { self.pick(&c2, &[ai as u64, salt, 1])? } else { self.pick(&c, &[ai as u64, salt, 2])? };
                Some(self.of_field(a, fi))
            }
            "RemoveTable" => Some(CF::Rm(self.pick(&(0..recs.len()).collect::<Vec<_>>(), &[ai as u64, salt, 3])?)),
            "ShrinkLength" => Some(CF::Sh(self.pick(&(0..recs.len()).collect::<Vec<_>>(), &[ai as u64, salt, 4])?, a.mode == "half")),
            "SwapTables" => {
                if recs.len() < 2 {
                    return None;
                }
                let x = (h(&[self.seed, self.input_hash, ai as u64, salt, 5]) % recs.len() as u64) as usize;
                let same: Vec<usize> = (0..recs.len()).filter(|&j| j != x && recs[j].dir_start == recs[x].dir_start).collect();
                Some(CF::Sw(x, self.pick(&same, &[ai as u64, salt, 6])?))
            }
            _ => None,
        }
    }
    fn of_field(&self, a: &Abs, fi: usize) -> CF {
        if a.k == "Overwrite" {
            CF::Ov(fi, VCS.iter().position(|v| *v == a.vc).unwrap())
        } else {
            let f = &self.an.fields[fi];
            let inside = a.wher == "inside";
            CF::Tr(if inside { f.off + (f.w as usize + 1) / 2 } else { f.off }, fi, inside)
        }
    }
}

/// `champ`: table kind -> normalised field names this input stands for in the quick tier (every
/// structural field of these that is not a plain value is crossed with every value class)
fn build_plan(tier: &str, seed: u64, name: &str, an: &Analysis, cases: &Cases, champ: &Champ) -> Vec<Job> {
    let quick = tier == "quick";
    let (singles, pairs, triples) = cases;
    let pl = Planner::new(an, seed, name);
    let mut jobs = vec![Job { faults: vec![] }];
    let nrec = an.recs.len();
    for (ai, a) in singles.iter().enumerate() {
        match a.k.as_str() {
            "Overwrite" | "Truncate" => {
                let (c, ns) = pl.cands(a);
                let c = &c[..];
                let trunc = a.k == "Truncate";
                let rel = faults::is_rel_class(&a.vc);
                let chosen: Vec<usize> = if a.level == "dir" {
                    if !trunc && (rel || faults::is_der_class(&a.vc)) {
                        // the directory records of every input are read by the same code: a seeded sample per input
                        sample(c, if quick { 4 } else { 8 }, &[seed, pl.input_hash, ai as u64, 12])
                    } else if !trunc && faults::is_bit_class(&a.vc) {
                        // format / flag fields of headers and directories (sfnt version, WOFF2 entry flags: tag index and
                        // transform version): a seeded sample per input and bit, the inputs between them cover the fields
                        sample(c, if quick { 2 } else { 8 }, &[seed, pl.input_hash, ai as u64, 13])
                    } else if !trunc {
                        c.to_vec() // every directory / header field, both tiers
                    } else {
                        let k = if quick { 6 } else { 40 };
                        sample(c, k, &[seed, pl.input_hash, ai as u64, 7])
                    }
                } else if quick {
                    // seeded picks per (role, class); reference classes: up to 12 of the few fields that have
                    // the reference; and everything this input is the champion for
                    let k = if trunc { 1 } else if faults::is_ref_class(&a.vc) || faults::is_der_class(&a.vc) { 12 } else { 2 };
                    let mut v = sample(c, k, &[seed, pl.input_hash, ai as u64, 8]);
                    // champions: every structural non-value field x every class; every element of an array
                    // (value fields included) x every relational class
                    if !trunc && (a.role != "value" || rel) {
                        v.extend(c[..ns].iter().copied().filter(|&fi| {
                            let f = &an.fields[fi];
                            champ.get(&f.tbl).map_or(false, |names| names.contains(&norm_name(&f.name)))
                        }));
                        v.sort();
                        v.dedup();
                    }
                    v
                } else {
                    // every structural field, a sample of the hook fields
                    let mut v = if trunc { sample(&c[..ns], 8, &[seed, pl.input_hash, ai as u64, 9]) } else { c[..ns].to_vec() };
                    v.extend(sample(&c[ns..], if trunc { 2 } else { 20 }, &[seed, pl.input_hash, ai as u64, 10]));
                    v
                };
                for fi in chosen {
                    jobs.push(Job { faults: vec![pl.of_field(a, fi)] });
                }
            }
            "RemoveTable" | "ShrinkLength" => {
                let all: Vec<usize> = (0..nrec).collect();
                let k = if quick { 24 } else { 200 };
                for r in sample(&all, k, &[seed, pl.input_hash, ai as u64, 11]) {
                    jobs.push(Job { faults: vec![if a.k == "RemoveTable" { CF::Rm(r) } else { CF::Sh(r, a.mode == "half") }] });
                }
            }
            "SwapTables" => {
                for s in 0..(if quick { 6 } else { 40 }) {
                    if let Some(f) = pl.instance(ai, a, s, None) {
                        jobs.push(Job { faults: vec![f] });
                    }
                }
            }
            _ => {}
        }
    }
    let (np, nt) = if quick { (150u64, 0u64) } else { (800, 200) };
    if !pairs.is_empty() && !an.fields.is_empty() {
        for s in 0..np {
            let (a, b) = pairs[(h(&[seed, pl.input_hash, s, 21]) % pairs.len() as u64) as usize];
            let f1 = pl.instance(a, &singles[a], s, None);
            let near = match &f1 {
                Some(CF::Ov(fi, _)) | Some(CF::Tr(_, fi, _)) if s % 2 == 0 => Some(an.fields[*fi].tbl.clone()),
                Some(CF::Rm(r)) | Some(CF::Sh(r, _)) if s % 2 == 0 => Some(an.recs[*r].tag.clone()),
                _ => None,
            };
            let f2 = pl.instance(b, &singles[b], s ^ 0x5555, near.as_deref());
            if let (Some(f1), Some(f2)) = (f1, f2) {
                jobs.push(Job { faults: vec![f1, f2] });
            }
        }
    }
    if !triples.is_empty() && !an.fields.is_empty() {
        for s in 0..nt {
            let (a, b, c) = triples[(h(&[seed, pl.input_hash, s, 31]) % triples.len() as u64) as usize];
            let f1 = pl.instance(a, &singles[a], s, None);
            let near = match &f1 {
                Some(CF::Ov(fi, _)) | Some(CF::Tr(_, fi, _)) => Some(an.fields[*fi].tbl.clone()),
                Some(CF::Rm(r)) | Some(CF::Sh(r, _)) => Some(an.recs[*r].tag.clone()),
                _ => None,
            };
            let f2 = pl.instance(b, &singles[b], s ^ 0x3333, near.as_deref());
            let f3 = pl.instance(c, &singles[c], s ^ 0x7777, if s % 2 == 0 { near.as_deref() } else { None });
            if let (Some(f1), Some(f2), Some(f3)) = (f1, f2, f3) {
                jobs.push(Job { faults: vec![f1, f2, f3] });
            }
        }
    }
    jobs
}

/// up to k distinct elements of c, chosen by seeded hash, in the order of c
fn sample(c: &[usize], k: usize, salt: &[u64]) -> Vec<usize> {
    if c.len() <= k {
        return c.to_vec();
    }
    let mut scored: Vec<(u64, usize)> = c.iter().enumerate().map(|(i, &x)| {
        let mut p = salt.to_vec();
        p.push(i as u64);
        (h(&p), x)
    }).collect();
    scored.sort();
    let mut v: Vec<usize> = scored.into_iter().take(k).map(|x| x.1).collect();
    v.sort();
    v
}

// ---- executing one job ---------------------------------------------------------------------------------------------------

struct Faulted {
    bytes: Vec<u8>,
    descs: Vec<Value>,
    patches: Vec<Value>,
    targets: BTreeSet<String>,
    changed: bool,
}

fn apply_job(input: &Input, an: &Analysis, fs: &[CF]) -> Faulted {
    let mut buf = input.buf.clone();
    let mut descs = Vec::new();
    let mut patches = Vec::new();
    let mut targets = BTreeSet::new();
    let mut changed = false;
    for f in fs {
        let a: Applied = faults::apply(&mut buf, f, &an.fields, &an.recs);
        descs.push(a.desc);
        for (o, b) in a.patches {
            patches.push(json!(["patch", o, vh::util::hex(&b)]));
        }
        if let Some(t) = a.trunc {
            patches.push(json!(["trunc", t, ""]));
        }
        // a fault aimed at a record of table T concerns T; aimed at two tables (swap): both
        for t in a.target.split('+') {
            targets.insert(t.to_string());
        }
        changed |= a.changed;
    }
    Faulted { bytes: input.carrier.assemble(&buf), descs, patches, targets, changed }
}

/// groups a fault sequence is crossed with: all of them for header-level faults and truncation,
/// otherwise those that asked for one of the targeted tables on the intact file; the container group
/// for every directory-level fault and for a sample of the others
fn relevant_groups(an: &Analysis, fl: &Faulted, fs: &[CF], salt: u64) -> Vec<usize> {
    let all = fs.is_empty() || fl.targets.contains("*");
    let dir_level = fs.iter().any(|f| match f {
        CF::Ov(fi, _) => an.fields[*fi].level == "dir",
        _ => true,
    });
    (0..GROUPS.len())
        .filter(|&g| {
            if g == 0 {
                return all || dir_level || salt % 16 == 0;
            }
            all || an.touched[g].contains("*") || fl.targets.iter().any(|t| an.touched[g].contains(t))
        })
        .collect()
}

struct Shared {
    active: AtomicBool,
    start_cpu: AtomicU64,
    budget: AtomicU64,
}

fn supervised_group(sh: &Shared, g: usize, bytes: &[u8], base_ns: u64) -> GroupOut {
    // C01_BUDGET_NS: for looking into a Timeout by hand (how long does it really take); never set by the check
    let forced = std::env::var("C01_BUDGET_NS").ok().and_then(|v| v.parse::<u64>().ok());
    sh.budget.store(forced.unwrap_or((100 * base_ns).clamp(CPU_MIN_NS, CPU_MAX_NS)), Ordering::SeqCst);
    sh.start_cpu.store(sup::thread_cpu_ns(), Ordering::SeqCst);
    sh.active.store(true, Ordering::SeqCst);
    sup::set_heap_budget(HEAP_BUDGET);
    let o = entry::run_group(g, bytes);
    sup::clear_heap_budget();
    sup::take_refused();
    sh.active.store(false, Ordering::SeqCst);
    o
}

fn sites(o: &GroupOut) -> Vec<String> {
    let mut v: Vec<String> = o.panics.iter().map(|p| sup::panic_site(p)).collect();
    v.sort();
    v.dedup();
    v
}

/// first message of every site, in the order of `sites`
fn site_msgs(o: &GroupOut) -> Vec<String> {
    sites(o).iter().map(|s| o.panics.iter().find(|p| &sup::panic_site(p) == s).cloned().unwrap_or_default()).collect()
}

fn case_id(input_idx: usize, job: usize) -> String {
    format!("{}#{}", input_idx, job)
}

/// event for (job, group); runs the group, confirms and minimises a panic
#[allow(clippy::too_many_arguments)]
fn run_job_group(sh: &Shared, input: &Input, input_idx: usize, an: &Analysis, job: usize, fs: &[CF], fl: &Faulted, g: usize) -> Value {
    let o = supervised_group(sh, g, &fl.bytes, an.base[g].3);
    let st = sites(&o);
    let mut min: Vec<usize> = Vec::new();
    let mut flaky = false;
    let mut patches = json!([]);
    if !st.is_empty() {
        // re-run before reporting
        let again = supervised_group(sh, g, &fl.bytes, an.base[g].3);
        flaky = sites(&again) != st;
        // minimise: the smallest sub-sequence that still reaches the first site
        let n = fs.len();
        if n > 1 {
            let mut masks: Vec<u32> = (1..(1u32 << n) - 1).collect();
            masks.sort_by_key(|m| (m.count_ones(), *m));
            for m in masks {
                let sub: Vec<CF> = (0..n).filter(|k| m >> k & 1 == 1).map(|k| fs[k].clone()).collect();
                let f2 = apply_job(input, an, &sub);
                let o2 = supervised_group(sh, g, &f2.bytes, an.base[g].3);
                if sites(&o2).contains(&st[0]) {
                    min = (0..n).filter(|k| m >> k & 1 == 1).collect();
                    break;
                }
            }
        }
        patches = Value::Array(fl.patches.clone());
    }
    let mut a = json!({
        "input": input.name, "kind": input.kind, "job": job, "g": GROUPS[g], "nf": fs.len(), "faults": fl.descs,
        "base": [an.base[g].0, an.base[g].1, an.base[g].2], "min": min, "changed": fl.changed, "patches": patches,
    });
    let mut ov = json!({
        "oc": o.outcome(), "ok": o.ok, "err": o.err, "panics": st, "pmsg": site_msgs(&o),
        "msg": if let Some(p) = o.panics.first() { p.clone() } else { o.first_err.clone() },
    });
    if flaky {
        ov["flaky"] = json!(true);
    }
    let ev = if g == 0 {
        let (v, big, slices, inflated, indep) = view::view_of(&fl.bytes);
        a["view"] = v;
        a["big"] = json!(big);
        a["slices"] = slices;
        a["inflated"] = inflated;
        a["indep"] = json!(indep);
        ov["facts"] = o.facts.clone().unwrap_or(json!({"read": "Skipped", "kind": "", "prov": [], "tags": [], "tabs": [], "absent": "Skipped"}));
        "Container"
    } else {
        "Group"
    };
    json!({"i": 0, "case": case_id(input_idx, job), "ev": ev, "a": a, "o": ov})
}

fn start_watchdog(sh: Arc<Shared>, worker_thread: libc::pthread_t) {
    let wt = worker_thread as usize;
    std::thread::spawn(move || {
        let mut clock: libc::clockid_t = 0;
        if unsafe { libc::pthread_getcpuclockid(wt as libc::pthread_t, &mut clock) } != 0 {
            return;
        }
        loop {
            std::thread::sleep(std::time::Duration::from_millis(50));
            if !sh.active.load(Ordering::SeqCst) {
                continue;
            }
            let mut ts = libc::timespec { tv_sec: 0, tv_nsec: 0 };
            unsafe { libc::clock_gettime(clock, &mut ts) };
            let now = ts.tv_sec as u64 * 1_000_000_000 + ts.tv_nsec as u64;
            let start = sh.start_cpu.load(Ordering::SeqCst);
            if sh.active.load(Ordering::SeqCst) && now > start + sh.budget.load(Ordering::SeqCst) {
                eprintln!("TIMEOUT thread CPU budget of {} ns exceeded", sh.budget.load(Ordering::SeqCst));
                std::process::exit(EXIT_TIMEOUT);
            }
        }
    });
}

struct Env {
    input: Input,
    an: Analysis,
    jobs: Vec<Job>,
}

fn load_env(tier: &str, seed: u64, cases: &str, outdir: &str, input_idx: usize) -> Env {
    let specs = input_specs(tier, seed);
    let input = load_input(&specs[input_idx]).unwrap_or_else(|| panic!("input {} cannot be built", specs[input_idx].name));
    let an = Analysis::from_json(&serde_json::from_str(&std::fs::read_to_string(format!("{}/analysis.{}.json", outdir, input_idx)).expect("analysis file")).expect("analysis json"));
    let jobs = build_plan(tier, seed, &input.name, &an, &load_cases(cases), &load_champ(outdir, input_idx));
    Env { input, an, jobs }
}

/// Runs `body` on a thread with the documented stack size, watched by the CPU watchdog.
fn on_worker_thread<T: Send + 'static>(body: impl FnOnce(Arc<Shared>) -> T + Send + 'static) -> T {
    let sh = Arc::new(Shared { active: AtomicBool::new(false), start_cpu: AtomicU64::new(0), budget: AtomicU64::new(CPU_MIN_NS) });
    let sh2 = sh.clone();
    let t = std::thread::Builder::new()
        .stack_size(STACK_BYTES)
        .spawn(move || {
            start_watchdog(sh2.clone(), unsafe { libc::pthread_self() });
            body(sh2)
        })
        .expect("spawn");
    t.join().expect("worker thread")
}

#[allow(clippy::too_many_arguments)]
fn worker(tier: String, seed: u64, cases: String, outdir: String, input_idx: usize, from: usize, to: usize, trace: String, resume: Option<(usize, usize)>) {
    sup::set_rlimit_as(RLIMIT_AS);
    sup::install_hook();
    on_worker_thread(move |sh| {
        let env = load_env(&tier, seed, &cases, &outdir, input_idx);
        let mut w = std::io::BufWriter::new(std::fs::OpenOptions::new().create(true).append(true).open(&trace).expect("trace"));
        let to = to.min(env.jobs.len());
        let mut stats = json!({"jobs": 0, "events": 0, "noop_jobs": 0});
        for j in from..to {
            let fs = &env.jobs[j].faults;
            let fl = apply_job(&env.input, &env.an, fs);
            if !fs.is_empty() && !fl.changed {
                // every fault of the sequence was a no-op (value already there): nothing to observe
                stats["noop_jobs"] = json!(stats["noop_jobs"].as_u64().unwrap() + 1);
                continue;
            }
            let salt = h(&[seed, hs(&env.input.name), j as u64, 0x6060]);
            let groups = relevant_groups(&env.an, &fl, fs, salt);
            eprintln!("JOB {} {}", j, json!({"input": env.input.name, "kind": env.input.kind, "job": j, "nf": fs.len(), "faults": fl.descs, "patches": fl.patches, "changed": fl.changed}));
            for g in groups {
                if let Some((rj, rg)) = resume {
                    if j == rj && g < rg {
                        continue;
                    }
                }
                eprintln!("GRP {} {}", j, g);
                let ev = run_job_group(&sh, &env.input, input_idx, &env.an, j, fs, &fl, g);
                serde_json::to_writer(&mut w, &ev).expect("write");
                w.write_all(b"\n").expect("nl");
                w.flush().expect("flush");
                stats["events"] = json!(stats["events"].as_u64().unwrap() + 1);
            }
            stats["jobs"] = json!(stats["jobs"].as_u64().unwrap() + 1);
        }
        println!("{}", stats);
    });
}

fn one(tier: String, seed: u64, cases: String, outdir: String, input_idx: usize, job: usize, g: usize, mask: Option<u32>) {
    sup::set_rlimit_as(RLIMIT_AS);
    sup::install_hook();
    on_worker_thread(move |sh| {
        let env = load_env(&tier, seed, &cases, &outdir, input_idx);
        let mut fs = env.jobs[job].faults.clone();
        if let Some(m) = mask {
            fs = (0..fs.len()).filter(|k| m >> k & 1 == 1).map(|k| fs[k].clone()).collect();
        }
        let fl = apply_job(&env.input, &env.an, &fs);
        eprintln!("JOB {} {}", job, json!({"input": env.input.name, "kind": env.input.kind, "job": job, "nf": fs.len(), "faults": fl.descs, "patches": fl.patches, "changed": fl.changed}));
        eprintln!("GRP {} {}", job, g);
        let ev = run_job_group(&sh, &env.input, input_idx, &env.an, job, &fs, &fl, g);
        println!("{}", ev);
    });
}

/// Replay of a finding: {"input": name, "patches": [["patch", off, hex] | ["trunc", at, ""]], "g": group, "tier", "seed"}
fn exec(spec: &str) {
    sup::set_rlimit_as(RLIMIT_AS);
    sup::install_hook();
    let a: Value = serde_json::from_str(spec).expect("json");
    let tier = a["tier"].as_str().unwrap_or("thorough").to_string();
    let seed = a["seed"].as_u64().unwrap_or(1);
    let name = a["input"].as_str().expect("input").to_string();
    let specs = input_specs(&tier, seed);
    let mut all = specs.clone();
    all.extend(input_specs("thorough", seed));
    let spec = all.iter().find(|s| s.name == name).unwrap_or_else(|| panic!("input {} unknown", name)).clone();
    let input = load_input(&spec).expect("input");
    let mut buf = input.buf.clone();
    for p in a["patches"].as_array().cloned().unwrap_or_default() {
        let at = p[1].as_u64().unwrap() as usize;
        if p[0].as_str() == Some("trunc") {
            buf.truncate(at);
        } else {
            let b = vh::util::unhex(p[2].as_str().unwrap());
            if at + b.len() <= buf.len() {
                buf[at..at + b.len()].copy_from_slice(&b);
            }
        }
    }
    let bytes = input.carrier.assemble(&buf);
    if let Some(p) = a["dump"].as_str() {
        std::fs::write(p, &bytes).expect("dump");
    }
    let g = entry::group_index(a["g"].as_str().expect("g")).expect("group");
    on_worker_thread(move |sh| {
        eprintln!("GRP 0 {}", g);
        let o = supervised_group(&sh, g, &bytes, 0);
        let mut ov = json!({"oc": o.outcome(), "ok": o.ok, "err": o.err, "panics": sites(&o), "pmsg": site_msgs(&o), "msg": if let Some(p) = o.panics.first() { p.clone() } else { o.first_err.clone() }});
        let mut av = json!({"input": name, "kind": input.kind, "job": 0, "g": GROUPS[g], "nf": a["nf"].as_u64().unwrap_or(1), "faults": a["faults"].clone(), "base": ["", 0, 0], "min": [], "changed": true, "patches": a["patches"].clone()});
        let ev = if g == 0 {
            let (v, big, slices, inflated, indep) = view::view_of(&bytes);
            av["view"] = v;
            av["big"] = json!(big);
            av["slices"] = slices;
            av["inflated"] = inflated;
            av["indep"] = json!(indep);
            ov["facts"] = o.facts.clone().unwrap_or(Value::Null);
            "Container"
        } else {
            "Group"
        };
        println!("{}", json!({"i": 0, "case": "exec", "ev": ev, "a": av, "o": ov}));
    });
}

// ---- supervisor ---------------------------------------------------------------------------------------------------------------

fn classify(code: Option<i32>, stderr: &str) -> &'static str {
    if code == Some(EXIT_TIMEOUT) {
        "Timeout"
    } else if stderr.contains("has overflowed its stack") {
        "StackOverflow"
    } else if stderr.contains("memory allocation of") {
        "OOM"
    } else {
        "Abort"
    }
}

fn last_markers(stderr: &str) -> (Option<(usize, Value)>, Option<(usize, usize)>) {
    let mut job = None;
    let mut grp = None;
    for l in stderr.lines() {
        if let Some(r) = l.strip_prefix("JOB ") {
            if let Some((j, js)) = r.split_once(' ') {
                if let (Ok(j), Ok(v)) = (j.parse::<usize>(), serde_json::from_str::<Value>(js)) {
                    job = Some((j, v));
                }
            }
        } else if let Some(r) = l.strip_prefix("GRP ") {
            let mut it = r.split(' ');
            if let (Some(Ok(j)), Some(Ok(g))) = (it.next().map(|x| x.parse::<usize>()), it.next().map(|x| x.parse::<usize>())) {
                grp = Some((j, g));
            }
        }
    }
    (job, grp)
}

fn tail(s: &str) -> String {
    // the line that says what happened, when there is one
    for marker in ["memory allocation of", "has overflowed its stack", "TIMEOUT ", "harness panic"] {
        if let Some(l) = s.lines().find(|l| l.contains(marker)) {
            return l.trim().chars().take(240).collect();
        }
    }
    let t: String = s.lines().filter(|l| !l.starts_with("JOB ") && !l.starts_with("GRP ")).collect::<Vec<_>>().join(" / ");
    let t = t.trim();
    t[t.len().saturating_sub(300)..].to_string()
}

/// The event of a (job, group) whose process died (outcome OOM / StackOverflow / Timeout / Abort): no
/// observation, in any group.  A Container event carries the same fields as one that returned
/// (no view: `big`, empty facts), so that the judge reads every event the same way.
#[allow(clippy::too_many_arguments)]
fn died_event(case: &str, input: &Value, kind: &Value, job: usize, g: usize, faults: Value, patches: Value, class: &str, msg: &str) -> Value {
    let nf = faults.as_array().map_or(0, |x| x.len());
    let mut a = json!({"input": input, "kind": kind, "job": job, "g": GROUPS[g], "nf": nf, "faults": faults, "base": ["", 0, 0], "min": [], "changed": true, "patches": patches});
    let mut o = json!({"oc": class, "ok": 0, "err": 0, "panics": [], "pmsg": [], "msg": msg});
    if g == 0 {
        a["view"] = json!({"flen": 0, "hd": [], "members": []});
        a["big"] = json!(true);
        a["slices"] = json!([]);
        a["inflated"] = json!([]);
        a["indep"] = json!("");
        o["facts"] = json!({"read": "Skipped", "kind": "", "prov": [], "tags": [], "tabs": [], "absent": "Skipped"});
    }
    json!({"i": 0, "case": case, "ev": if g == 0 { "Container" } else { "Group" }, "a": a, "o": o})
}

fn supervisor(tier: &str, seed: u64, cases: &str, outdir: &str, nworkers: usize) {
    std::fs::create_dir_all(outdir).expect("outdir");
    let exe = std::env::current_exe().expect("exe");
    let specs = input_specs(tier, seed);
    // phase 1: analysis of every input, in parallel children
    let next = Arc::new(AtomicUsize::new(0));
    let mut hs_ = Vec::new();
    for _ in 0..nworkers {
        let (next, exe, tier, outdir, n) = (next.clone(), exe.clone(), tier.to_string(), outdir.to_string(), specs.len());
        hs_.push(std::thread::spawn(move || loop {
            let i = next.fetch_add(1, Ordering::SeqCst);
            if i >= n {
                break;
            }
            let out = std::process::Command::new(&exe).args(["analyse", &tier, &seed.to_string(), &i.to_string(), &format!("{}/analysis.{}.json", outdir, i)]).output().expect("spawn analyse");
            if !out.status.success() {
                eprintln!("analyse {} failed: {}", i, String::from_utf8_lossy(&out.stderr));
                std::process::exit(3);
            }
        }));
    }
    for t in hs_ {
        t.join().unwrap();
    }
    // phase 2: chunks of jobs
    let _ = std::fs::remove_file(format!("{}.idx.json", cases));
    let cases_v = load_cases(cases);
    write_cases_index(cases, &cases_v);
    let mut chunks: Vec<(usize, usize, usize)> = Vec::new();
    let mut plan_jobs = 0usize;
    let mut fields_total = 0usize;
    let mut per_input = Vec::new();
    let analyses: Vec<(String, usize, Analysis)> = specs
        .iter()
        .enumerate()
        .map(|(i, s)| {
            let v: Value = serde_json::from_str(&std::fs::read_to_string(format!("{}/analysis.{}.json", outdir, i)).unwrap()).unwrap();
            (s.name.clone(), v["buflen"].as_u64().unwrap_or(0) as usize, Analysis::from_json(&v))
        })
        .collect();
    // quick tier: the inputs that stand for each table kind (see `champions`); thorough takes every structural field anyway
    let champs = if tier == "quick" { champions(&analyses) } else { BTreeMap::new() };
    let champs_json: serde_json::Map<String, Value> = champs.iter().map(|(i, c)| (i.to_string(), json!(c))).collect();
    std::fs::write(format!("{}/champions.json", outdir), serde_json::to_string(&Value::Object(champs_json)).unwrap()).expect("champions");
    // structural fields per table kind x role, reference-bearing fields per kind of field (for the vacuity check of the driver)
    let mut struct_fields: BTreeMap<String, BTreeMap<String, u64>> = BTreeMap::new();
    let mut ref_fields: BTreeMap<String, u64> = BTreeMap::new();
    let mut planned: BTreeMap<String, BTreeMap<String, u64>> = BTreeMap::new();
    // relational classes: fields that are elements of an array per table kind ("dir" = container level) and side;
    // planned single overwrites per table kind and class that change the bytes (computed from the input bytes)
    let mut rel_fields: BTreeMap<String, BTreeMap<String, u64>> = BTreeMap::new();
    let mut rel_planned: BTreeMap<String, BTreeMap<String, u64>> = BTreeMap::new();
    // derived classes: fields for which the walk knows an implied value, per table kind; planned single overwrites per
    // table kind and class that change the bytes
    let mut der_fields: BTreeMap<String, u64> = BTreeMap::new();
    let mut der_planned: BTreeMap<String, BTreeMap<String, u64>> = BTreeMap::new();
    let kind_of_field = |f: &Field| if f.level == "dir" { "dir".to_string() } else { f.tbl.clone() };
    for (i, s) in specs.iter().enumerate() {
        let an = &analyses[i].2;
        for f in &an.fields {
            if f.prevo >= 0 {
                *rel_fields.entry(kind_of_field(f)).or_default().entry("prev".to_string()).or_insert(0) += 1;
            }
            if f.nexto >= 0 {
                *rel_fields.entry(kind_of_field(f)).or_default().entry("next".to_string()).or_insert(0) += 1;
            }
            if f.level == "table" && f.name != "hook" {
                *struct_fields.entry(f.tbl.clone()).or_default().entry(f.role.to_string()).or_insert(0) += 1;
            }
            if f.dv >= 1 {
                *der_fields.entry(kind_of_field(f)).or_insert(0) += 1;
            }
            if f.selfv >= 0 || f.parentv >= 0 {
                *ref_fields.entry(format!("{}:{}:{}", if f.level == "dir" { "dir" } else { f.tbl.as_str() }, f.role, norm_name(&f.name))).or_insert(0) += 1;
            }
        }
        let plan = build_plan(tier, seed, &s.name, an, &cases_v, champs.get(&i).unwrap_or(&Champ::new()));
        let inbuf = load_input(s).map(|x| x.buf).unwrap_or_default();
        for (ji, j) in plan.iter().enumerate() {
            if let [CF::Ov(fi, vi)] = j.faults[..] {
                let f = &an.fields[fi];
                if f.level == "table" && f.name != "hook" {
                    *planned.entry(f.tbl.clone()).or_default().entry(f.role.to_string()).or_insert(0) += 1;
                }
                let vc = VCS[vi];
                if faults::is_der_class(vc) && faults::has_der(vc, f.dv) {
                    let salt = h(&[seed, hs(&s.name), ji as u64, 0x6060]);
                    let observed = f.level == "dir" || salt % 16 == 0 || (1..GROUPS.len()).any(|g| an.touched[g].contains("*") || an.touched[g].contains(&f.tbl));
                    if let Some(old) = faults::rd(&inbuf, f.off, f.w).filter(|_| observed) {
                        if faults::new_value(vc, old, f.w, inbuf.len() as u64, f.tlen as u64, f.selfv, f.parentv, f.dv, None, None) != old {
                            *der_planned.entry(kind_of_field(f)).or_default().entry(vc.to_string()).or_insert(0) += 1;
                        }
                    }
                }
                if faults::is_rel_class(vc) {
                    let (pb, nb) = (faults::sibling(&inbuf, f.prevo, f.w), faults::sibling(&inbuf, f.nexto, f.w));
                    let there = (!faults::is_prev_class(vc) || pb.is_some()) && (!faults::is_next_class(vc) || nb.is_some());
                    // as `relevant_groups`: is there a group the job is run with
                    let salt = h(&[seed, hs(&s.name), ji as u64, 0x6060]);
                    let observed = f.level == "dir" || salt % 16 == 0 || (1..GROUPS.len()).any(|g| an.touched[g].contains("*") || an.touched[g].contains(&f.tbl));
                    if let Some(old) = faults::rd(&inbuf, f.off, f.w).filter(|_| there && observed) {
                        if faults::new_value(vc, old, f.w, inbuf.len() as u64, f.tlen as u64, f.selfv, f.parentv, f.dv, pb, nb) != old {
                            *rel_planned.entry(kind_of_field(f)).or_default().entry(vc.to_string()).or_insert(0) += 1;
                        }
                    }
                }
            }
        }
        let n = plan.len();
        plan_jobs += n;
        fields_total += an.fields.len();
        per_input.push(json!([s.name, an.fields.len(), n]));
        let step = if tier == "quick" { 1500 } else { 4000 };
        let mut a = 0;
        while a < n {
            chunks.push((i, a, (a + step).min(n)));
            a += step;
        }
    }
    // big chunks first
    chunks.sort_by_key(|c| std::cmp::Reverse(c.2 - c.1));
    let chunks = Arc::new(chunks);
    let next = Arc::new(AtomicUsize::new(0));
    let totals = Arc::new(Mutex::new(BTreeMap::<String, u64>::new()));
    let mut threads = Vec::new();
    for _ in 0..nworkers {
        let (chunks, next, exe, tier, cases, outdir, totals) = (chunks.clone(), next.clone(), exe.clone(), tier.to_string(), cases.to_string(), outdir.to_string(), totals.clone());
        threads.push(std::thread::spawn(move || loop {
            let ci = next.fetch_add(1, Ordering::SeqCst);
            if ci >= chunks.len() {
                break;
            }
            let (inp, from, to) = chunks[ci];
            let trace = format!("{}/trace.{}.{}.ndjson", outdir, inp, from);
            let _ = std::fs::remove_file(&trace);
            let mut resume: Option<(usize, usize)> = None;
            let mut start = from;
            let mut restarts = 0;
            loop {
                let mut args: Vec<String> = vec!["worker".into(), tier.clone(), seed.to_string(), cases.clone(), outdir.clone(), inp.to_string(), start.to_string(), to.to_string(), trace.clone()];
                if let Some((j, g)) = resume {
                    args.push(j.to_string());
                    args.push(g.to_string());
                }
                let out = std::process::Command::new(&exe).args(&args).output().expect("spawn worker");
                let bump = |k: &str, by: u64| *totals.lock().unwrap().entry(k.to_string()).or_insert(0) += by;
                if out.status.code() == Some(0) {
                    if let Some(l) = String::from_utf8_lossy(&out.stdout).lines().filter(|l| l.starts_with('{')).last() {
                        if let Ok(v) = serde_json::from_str::<Value>(l) {
                            for (k, x) in v.as_object().unwrap() {
                                bump(k, x.as_u64().unwrap_or(0));
                            }
                        }
                    }
                    break;
                }
                restarts += 1;
                let stderr = String::from_utf8_lossy(&out.stderr).to_string();
                let (job, grp) = last_markers(&stderr);
                let ((j, a), (gj, g)) = match (job, grp) {
                    (Some(j), Some(g)) if j.0 == g.0 => (j, g),
                    _ => {
                        eprintln!("worker for input {} [{}, {}) died outside a group: {:?} {}", inp, start, to, out.status, tail(&stderr));
                        std::process::exit(3);
                    }
                };
                if restarts > 2000 {
                    eprintln!("worker for input {} restarts without end", inp);
                    std::process::exit(3);
                }
                let class = classify(out.status.code(), &stderr);
                // re-run before reporting, then minimise
                let run_one = |mask: Option<u32>| {
                    let mut args: Vec<String> = vec!["one".into(), tier.clone(), seed.to_string(), cases.clone(), outdir.clone(), inp.to_string(), j.to_string(), g.to_string()];
                    if let Some(m) = mask {
                        args.push(m.to_string());
                    }
                    // a failure of the harness itself is never an outcome of allsorts: retried, then a tool error
                    for attempt in 0..3 {
                        let o = std::process::Command::new(&exe).args(&args).output().expect("spawn one");
                        let se = String::from_utf8_lossy(&o.stderr);
                        if !se.contains("harness panic") {
                            return o;
                        }
                        eprintln!("re-run of input {} job {} group {} (attempt {}): {}", inp, j, g, attempt, tail(&se));
                        std::thread::sleep(std::time::Duration::from_millis(200));
                    }
                    eprintln!("the harness itself fails on input {} job {} group {}", inp, j, g);
                    std::process::exit(3);
                };
                if stderr.contains("harness panic") {
                    eprintln!("worker for input {} [{}, {}) failed in the harness: {}", inp, start, to, tail(&stderr));
                    std::process::exit(3);
                }
                let again = run_one(None);
                let ev = if again.status.code() == Some(0) {
                    bump("flaky", 1);
                    let l = String::from_utf8_lossy(&again.stdout).lines().filter(|l| l.starts_with('{')).last().map(|s| s.to_string());
                    match l.and_then(|l| serde_json::from_str::<Value>(&l).ok()) {
                        Some(mut ev) => {
                            ev["o"]["flaky"] = json!(class);
                            ev
                        }
                        None => {
                            eprintln!("re-run of input {} job {} group {} printed nothing", inp, j, g);
                            std::process::exit(3);
                        }
                    }
                } else {
                    let stderr2 = String::from_utf8_lossy(&again.stderr).to_string();
                    let class2 = classify(again.status.code(), &stderr2);
                    let nf = a["nf"].as_u64().unwrap_or(0) as u32;
                    let mut min: Vec<u32> = Vec::new();
                    let mut faults = a["faults"].clone();
                    let mut patches = a["patches"].clone();
                    if nf > 1 {
                        let mut masks: Vec<u32> = (1..(1u32 << nf) - 1).collect();
                        masks.sort_by_key(|m| (m.count_ones(), *m));
                        for m in masks {
                            let o = run_one(Some(m));
                            let se = String::from_utf8_lossy(&o.stderr).to_string();
                            if o.status.code() != Some(0) && classify(o.status.code(), &se) == class2 {
                                min = (0..nf).filter(|k| m >> k & 1 == 1).collect();
                                if let (Some((_, a2)), _) = last_markers(&se) {
                                    faults = a2["faults"].clone();
                                    patches = a2["patches"].clone();
                                }
                                break;
                            }
                        }
                    }
                    bump(&format!("died_{}", class2), 1);
                    let mut ev = died_event(&case_id(inp, j), &a["input"], &a["kind"], j, g, faults, patches, class2, &format!("{} [site {}]", tail(&stderr2), sup::site_from_text(&stderr2).unwrap_or_default()));
                    ev["a"]["minimised"] = json!(min);
                    ev["a"]["from_nf"] = json!(nf);
                    ev
                };
                let mut f = std::fs::OpenOptions::new().create(true).append(true).open(&trace).expect("append");
                let ends_nl = std::fs::read(&trace).map(|b| b.last().map_or(true, |&c| c == b'\n')).unwrap_or(true);
                if !ends_nl {
                    f.write_all(b"\n").unwrap();
                }
                writeln!(f, "{}", ev).unwrap();
                bump("events", 1);
                start = gj;
                resume = Some((gj, g + 1));
            }
        }));
    }
    for t in threads {
        t.join().unwrap();
    }
    let mut tot = serde_json::Map::new();
    for (k, v) in totals.lock().unwrap().iter() {
        tot.insert(k.clone(), json!(v));
    }
    tot.insert("inputs".into(), json!(specs.len()));
    tot.insert("plan_jobs".into(), json!(plan_jobs));
    tot.insert("fields".into(), json!(fields_total));
    tot.insert("chunks".into(), json!(chunks.len()));
    tot.insert("workers".into(), json!(nworkers));
    tot.insert("struct_fields_per_table_role".into(), json!(struct_fields));
    tot.insert("planned_single_overwrites_per_table_role".into(), json!(planned));
    tot.insert("ref_fields".into(), json!(ref_fields));
    tot.insert("rel_fields_per_table_kind".into(), json!(rel_fields));
    tot.insert("planned_effective_relational_overwrites_per_table_kind".into(), json!(rel_planned));
    tot.insert("der_fields_per_table_kind".into(), json!(der_fields));
    tot.insert("planned_effective_derived_overwrites_per_table_kind".into(), json!(der_planned));
    // what the content of the synthesized inputs is, read back from their bytes by the walk (never from allsorts)
    tot.insert("input_content_classes".into(), json!(synth::NAMES.iter().map(|n| (n.to_string(), content_classes(&synth::build(n).expect("synth")))).collect::<BTreeMap<_, _>>()));
    tot.insert("synthesized_inputs".into(), json!(synth::NAMES.iter().map(|n| (n.to_string(), synth::focus(n).to_vec())).collect::<BTreeMap<_, _>>()));
    tot.insert("champions".into(), json!(champs.iter().map(|(i, c)| (specs[*i].name.clone(), c.iter().map(|(t, n)| (t.clone(), n.len())).collect::<BTreeMap<_, _>>())).collect::<BTreeMap<_, _>>()));
    std::fs::write(format!("{}/inputs.json", outdir), serde_json::to_string(&per_input).unwrap()).unwrap();
    println!("{}", Value::Object(tot));
}

// ---- replay of MC_FaultModel's VAL and FILE cases ---------------------------------------------------------------------------------

fn replay(mc: &str, trace: &str, mism: &str) {
    sup::install_hook();
    let cases = read_ndjson(mc);
    let mut tw = vh::util::NdWriter::create(trace);
    let mut mw = vh::util::NdWriter::create(mism);
    let (mut nval, mut nfile, mut nfill) = (0u64, 0u64, 0u64);
    // buffer-filling content: the harness' table of operator forms and filling counts, as FILL lines would print it
    let fill_json = |cff2: bool| -> Vec<Value> {
        synth::fill_table(cff2).into_iter().map(|(op, m, rems, room, k)| json!({"ip": if cff2 { "cff2" } else { "cff" }, "op": op, "m": m, "rems": rems, "room": room, "limit": if cff2 { 513 } else { 48 }, "count": k})).collect()
    };
    let mut fill_own: Vec<Value> = fill_json(false);
    fill_own.extend(fill_json(true));
    let mut fill_seen: Vec<Value> = Vec::new();
    let sh = Shared { active: AtomicBool::new(false), start_cpu: AtomicU64::new(0), budget: AtomicU64::new(CPU_MAX_NS) };
    for (i, c) in cases.iter().enumerate() {
        if c.get("count").is_some() {
            // FILL line: the spec's form and count must be a row of the table the stack-filling glyphs are built from
            nfill += 1;
            if !fill_own.contains(c) {
                mw.write(&json!({"what": "buffer-filling form / count of the spec is not in the harness' table", "case": c}));
            }
            fill_seen.push(c.clone());
        } else if c.get("vc").is_some() {
            nval += 1;
            let old: Vec<u8> = c["old"].as_array().unwrap().iter().map(|x| x.as_u64().unwrap() as u8).collect();
            let w = old.len() as u8;
            let ov = old.iter().fold(0u64, |a, &b| (a << 8) | b as u64);
            // bytes of the previous / next element: [] = none
            let sib = |k: &str| -> Option<u64> { c[k].as_array().filter(|a| !a.is_empty()).map(|a| a.iter().fold(0u64, |x, b| (x << 8) | b.as_u64().unwrap())) };
            let nv = faults::new_value(c["vc"].as_str().unwrap(), ov, w, c["flen"].as_u64().unwrap(), c["tlen"].as_u64().unwrap(), c["sv"].as_i64().unwrap_or(-1), c["pv"].as_i64().unwrap_or(-1), c["dv"].as_i64().unwrap_or(-1), sib("pb"), sib("nb"));
            let got: Vec<u64> = (0..w as usize).map(|k| (nv >> (8 * (w as usize - 1 - k))) & 0xff).collect();
            if json!(got) != c["new"] {
                mw.write(&json!({"what": "value class", "case": c, "got": got}));
            }
        } else {
            nfile += 1;
            let mut buf: Vec<u8> = c["base"].as_array().unwrap().iter().map(|x| x.as_u64().unwrap() as u8).collect();
            for f in c["seq"].as_array().unwrap() {
                faults::apply_model_fault(&mut buf, f);
            }
            let want: Vec<u8> = c["bytes"].as_array().unwrap().iter().map(|x| x.as_u64().unwrap() as u8).collect();
            if buf != want {
                mw.write(&json!({"what": "fault application", "kind": c["kind"], "seq": c["seq"], "want": c["bytes"], "got": buf}));
                continue;
            }
            let (v, big, slices, inflated, indep) = view::view_of(&buf);
            if v != c["view"] {
                mw.write(&json!({"what": "view", "kind": c["kind"], "seq": c["seq"], "want": c["view"], "got": v}));
                continue;
            }
            let o = supervised_group(&sh, 0, &buf, 0);
            let descs: Vec<Value> = c["seq"].as_array().unwrap().iter().map(|f| json!([f["k"], f.get("role").cloned().unwrap_or(json!("")), f.get("vc").cloned().unwrap_or(json!("")), "dir", c["kind"], "model", f.get("off").or(f.get("at")).or(f.get("rec")).or(f.get("a")).cloned().unwrap_or(json!(0)), f.get("w").cloned().unwrap_or(json!(0)), "", ""])).collect();
            let ev = json!({"i": i, "case": format!("model#{}", i), "ev": "Container",
                "a": {"input": format!("model-{}", c["kind"].as_str().unwrap()), "kind": c["kind"], "job": i, "g": "container", "nf": descs.len(), "faults": descs, "base": ["", 0, 0], "min": [], "changed": true, "patches": [],
                      "view": v, "big": big, "slices": slices, "inflated": inflated, "indep": indep},
                "o": {"oc": o.outcome(), "ok": o.ok, "err": o.err, "panics": sites(&o), "pmsg": site_msgs(&o), "msg": if let Some(p) = o.panics.first() { p.clone() } else { o.first_err.clone() },
                      "facts": o.facts.clone().unwrap_or(Value::Null)}});
            tw.write(&ev);
        }
    }
    for row in &fill_own {
        if !fill_seen.contains(row) {
            mw.write(&json!({"what": "buffer-filling form / count of the harness is not in the spec", "case": row}));
        }
    }
    let n = tw.n;
    tw.finish();
    let m = mw.n;
    mw.finish();
    println!("{}", json!({"val_cases": nval, "file_cases": nfile, "fill_cases": nfill, "events": n, "mismatches": m}));
}

fn main() {
    let args: Vec<String> = std::env::args().collect();
    let u = |i: usize| -> usize { args[i].parse().unwrap_or_else(|_| panic!("argument {} must be a number", i)) };
    match args.get(1).map(|s| s.as_str()) {
        Some("inputs") => {
            let specs = input_specs(&args[2], u(3) as u64);
            println!("{}", json!(specs.iter().map(|s| s.name.clone()).collect::<Vec<_>>()));
        }
        Some("analyse") => {
            sup::install_hook();
            let specs = input_specs(&args[2], u(3) as u64);
            let idx = u(4);
            let out = args[5].clone();
            let spec = specs[idx].clone();
            on_worker_thread(move |_sh| {
                let input = load_input(&spec).unwrap_or_else(|| panic!("input {} cannot be built", spec.name));
                let an = analyse(&input);
                std::fs::write(&out, serde_json::to_string(&an.json(&input)).unwrap()).expect("write analysis");
            });
        }
        Some("replay") => replay(&args[2], &args[3], &args[4]),
        Some("run") => supervisor(&args[2], u(3) as u64, &args[4], &args[5], u(6)),
        Some("worker") => {
            let resume = if args.len() > 11 { Some((u(10), u(11))) } else { None };
            worker(args[2].clone(), u(3) as u64, args[4].clone(), args[5].clone(), u(6), u(7), u(8), args[9].clone(), resume)
        }
        Some("one") => one(args[2].clone(), u(3) as u64, args[4].clone(), args[5].clone(), u(6), u(7), u(8), args.get(9).map(|m| m.parse().expect("mask"))),
        Some("exec") => exec(&args[2]),
        Some("died-events") => {
            // the events the supervisor writes for a dead process, for the binding self-check of the driver:
            // every death class in the container group and in one other group
            let mut i = 0;
            for g in [0usize, 7] {
                for class in ["OOM", "StackOverflow", "Timeout", "Abort"] {
                    let fault = json!([["Overwrite", "length", "hi7f", "dir", "wOF2", "totalSfntSize", 16, 4, "000014b4", "7fffffff"]]);
                    let mut ev = died_event(&format!("selftest-died-{}-{}", GROUPS[g], class), &json!("selftest"), &json!("woff2"), 0, g, fault, json!([["patch", 16, "7fffffff"]]), class, "planted [site ]");
                    ev["i"] = json!(2_000_000_000u64 + i);
                    i += 1;
                    println!("{}", ev);
                }
            }
        }
        Some("probe-outlines") => {
            // per glyph answer of the outline visit of a synthesized CFF / CFF2 input (diagnostic)
            sup::install_hook();
            for l in entry::outline_report(&synth::build(&args[2]).expect("synth")) {
                println!("{}", l);
            }
        }
        Some("probe-synth") => {
            // the synthesized inputs on the intact bytes: outcome per group, fields per table kind; optional dump directory
            sup::install_hook();
            for n in synth::NAMES {
                if let Some(f) = args.get(2) {
                    if !n.contains(f.as_str()) {
                        continue;
                    }
                }
                let bytes = synth::build(n).expect("synth");
                if let Some(dir) = args.get(3) {
                    std::fs::write(format!("{}/{}.otf", dir, n.replace('/', "_")), &bytes).unwrap();
                }
                let mut line = format!("{:24} {:6}", n, bytes.len());
                for g in 0..GROUPS.len() {
                    let o = entry::run_group(g, &bytes);
                    line += &format!(" {}:{}{}/{}", GROUPS[g], &o.outcome()[..1], o.ok, o.err);
                    if o.err > 0 {
                        line += &format!("[{}]", o.first_err);
                    }
                    for p in &o.panics {
                        line += &format!("\n    PANIC {} :: {}", p, sup::panic_site(p));
                    }
                }
                println!("{}", line);
                let mut w = Walk::new(&bytes);
                w.file();
                let mut per: BTreeMap<String, (usize, usize, usize)> = BTreeMap::new();
                for f in &w.out {
                    let e = per.entry(f.tbl.clone()).or_default();
                    e.0 += 1;
                    e.1 += (f.prevo >= 0 || f.nexto >= 0) as usize;
                    e.2 += (f.dv >= 0) as usize;
                }
                println!("    fields (all / array elements / with implied value): {:?}", per);
                println!("    content classes: {:?}", content_classes(&bytes));
                if args.get(4).is_some() {
                    for f in &w.out {
                        if synth::focus(n).contains(&f.tbl.as_str()) {
                            println!("      {} {} +{} w{} {} dv={} sv={} po={} no={} old={:?}", f.tbl, f.name, f.off - f.tstart, f.w, f.role, f.dv, f.selfv, f.prevo, f.nexto, faults::rd(&bytes, f.off, f.w));
                        }
                    }
                }
            }
        }
        Some("probe") => {
            sup::install_hook();
            let filter = args.get(2).cloned().unwrap_or_default();
            for f in repo_fonts() {
                if !f.contains(&filter) {
                    continue;
                }
                let bytes = std::fs::read(&f).unwrap();
                let mut line = format!("{:50} {:8}", rel(&f), bytes.len());
                for g in 0..GROUPS.len() {
                    sup::reset_peak();
                    let t0 = sup::thread_cpu_ns();
                    let o = entry::run_group(g, &bytes);
                    let dt = (sup::thread_cpu_ns() - t0) / 1000;
                    line += &format!(" {}:{}{}/{}/{}us/{}k", g, &o.outcome()[..1], o.ok, o.err, dt, sup::peak_above_live() / 1024);
                    for p in &o.panics {
                        line += &format!("\n    PANIC {} :: {}", p, sup::panic_site(p));
                    }
                }
                println!("{}", line);
            }
        }
        _ => {
            eprintln!("usage: c01_faults inputs|analyse|replay|run|worker|one|exec|probe ...");
            std::process::exit(2);
        }
    }
}
