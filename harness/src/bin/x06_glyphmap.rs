//! X06 harness: character to glyph mapping of `Font::map_glyphs` / `Font::lookup_glyph_index` with
//! variation selectors and presentation (specs/GlyphMap.tla).
//!
//!   x06_glyphmap replay <fonts.ndjson> <cases.ndjson> <mismatch-events.ndjson>
//!       FONT lines of MC_GlyphMap {fi, f} are ENCODED into real sfnt bytes (cmap with the records of
//!       `f.recs` in formats 0 / 4 / 12 / 14, the tables named by `f.tabs`, OS/2 for `f.first`);
//!       every CASE {fi, ops, exp} runs its operations on ONE fresh `Font` and compares what each
//!       returned with the alternatives of `exp` (plain equality per field, glyph in the listed set).
//!       A case that matches no alternative is written out as judge events (case "gen-<n>").
//!   x06_glyphmap record <seed> <texts-per-font> <fonts.ndjson> <trace.ndjson>
//!       repository fonts (abstract font extracted by the independent reader below, restricted to the
//!       codes the text can reach) and the generated fonts with seeded random texts / lookups /
//!       filter changes; plus one `Emoji` event (ranges of bool_prop_emoji_presentation).
//!   x06_glyphmap one <case.json> <trace.ndjson>       re-run one case {src, f, ops} (for --replay)
//!   x06_glyphmap probe <case.json>                    print what allsorts returns
//!
//! The harness decides nothing: it builds bytes, calls allsorts and records what came back.
use allsorts::binary::read::ReadScope;
use allsorts::font::{GlyphTableFlags, MatchingPresentation};
use allsorts::font_data::FontData;
use allsorts::gsub::GlyphOrigin;
use allsorts::unicode::VariationSelector;
use allsorts::Font;
use rand::rngs::StdRng;
use rand::seq::SliceRandom;
use rand::{Rng, SeedableRng};
use serde_json::{json, Value};
use std::collections::{BTreeMap, BTreeSet};
use vh::fontgen::{self, be16, be32, W};
use vh::sup::{guarded, Outcome};
use vh::util::{read_ndjson, repo_fonts, repo_root, NdWriter};

const NUM_GLYPHS: u16 = 100;

// ---- encoder: abstract font -> bytes ------------------------------------------------------------
fn pairs_of(v: &Value) -> Vec<(u32, u16)> {
    v.as_array()
        .map(|a| a.iter().map(|p| (p[0].as_u64().unwrap() as u32, p[1].as_u64().unwrap() as u16)).collect())
        .unwrap_or_default()
}

fn sub_format0(pairs: &[(u32, u16)]) -> Vec<u8> {
    let mut w = W::new();
    w.u16(0).u16(262).u16(0);
    let mut gia = [0u8; 256];
    for &(c, g) in pairs {
        assert!(c < 256 && g < 256, "format 0 holds bytes");
        gia[c as usize] = g as u8;
    }
    w.bytes(&gia);
    w.done()
}

fn sub_format4(pairs: &[(u32, u16)]) -> Vec<u8> {
    let mut segs: Vec<(u16, u16, u16)> = pairs.iter().map(|&(c, g)| (c as u16, c as u16, g)).collect();
    assert!(pairs.iter().all(|p| p.0 < 0xFFFF), "format 4 holds BMP codes");
    segs.push((0xFFFF, 0xFFFF, 0));
    let n = segs.len() as u16;
    let mut es = 0u16;
    while (1u32 << (es + 1)) <= n as u32 {
        es += 1;
    }
    let sr = 2 * (1u16 << es);
    let mut w = W::new();
    w.u16(4).u16(16 + 8 * n).u16(0).u16(2 * n).u16(sr).u16(es).u16(2 * n - sr);
    for s in &segs {
        w.u16(s.1);
    }
    w.u16(0);
    for s in &segs {
        w.u16(s.0);
    }
    for s in &segs {
        w.u16(if s.0 == 0xFFFF { 1 } else { s.2.wrapping_sub(s.0) });
    }
    for _ in &segs {
        w.u16(0);
    }
    w.done()
}

fn sub_format12(pairs: &[(u32, u16)]) -> Vec<u8> {
    let mut w = W::new();
    w.u16(12).u16(0).u32(16 + 12 * pairs.len() as u32).u32(0).u32(pairs.len() as u32);
    for &(c, g) in pairs {
        w.u32(c).u32(c).u32(g as u32);
    }
    w.done()
}

/// cmap format 14 from the abstract `uvs` list.
fn sub_format14(uvs: &Value) -> Vec<u8> {
    let recs = uvs.as_array().cloned().unwrap_or_default();
    let header = 10 + 11 * recs.len();
    let mut body = W::new();
    let mut offs: Vec<(u32, u32, u32)> = Vec::new();
    for r in &recs {
        let def = r["def"].as_array().cloned().unwrap_or_default();
        let non = pairs_of(&r["non"]);
        let mut d_off = 0u32;
        let mut n_off = 0u32;
        if !def.is_empty() {
            d_off = (header + body.len()) as u32;
            body.u32(def.len() as u32);
            for rg in &def {
                body.u24(rg[0].as_u64().unwrap() as u32).u8(rg[1].as_u64().unwrap() as u8);
            }
        }
        if !non.is_empty() {
            n_off = (header + body.len()) as u32;
            body.u32(non.len() as u32);
            for (c, g) in &non {
                body.u24(*c).u16(*g);
            }
        }
        offs.push((r["vs"].as_u64().unwrap() as u32, d_off, n_off));
    }
    let body = body.done();
    let mut w = W::new();
    w.u16(14).u32((header + body.len()) as u32).u32(recs.len() as u32);
    for (vs, d, n) in offs {
        w.u24(vs).u32(d).u32(n);
    }
    w.bytes(&body);
    w.done()
}

fn build_cmap(f: &Value) -> Vec<u8> {
    let recs = f["recs"].as_array().expect("recs");
    let mut subs: Vec<Vec<u8>> = Vec::new();
    for r in recs {
        let pairs = pairs_of(&r["m"]);
        subs.push(match r["fmt"].as_u64().unwrap() {
            0 => sub_format0(&pairs),
            4 => sub_format4(&pairs),
            12 => sub_format12(&pairs),
            14 => sub_format14(&f["uvs"]),
            x => panic!("no encoder for cmap format {}", x),
        });
    }
    let mut w = W::new();
    w.u16(0).u16(recs.len() as u16);
    let mut off = 4 + 8 * recs.len();
    for (r, s) in recs.iter().zip(subs.iter()) {
        w.u16(r["p"].as_u64().unwrap() as u16).u16(r["e"].as_u64().unwrap() as u16).u32(off as u32);
        off += s.len();
    }
    for s in &subs {
        w.bytes(s);
    }
    w.done()
}

fn strs(v: &Value) -> Vec<String> {
    v.as_array().map(|a| a.iter().map(|s| s.as_str().unwrap().to_string()).collect()).unwrap_or_default()
}

fn build_font(f: &Value) -> Vec<u8> {
    let tabs = strs(&f["tabs"]);
    let has = |t: &str| tabs.iter().any(|x| x == t);
    let n = NUM_GLYPHS;
    let metrics: Vec<(u16, i16)> = (0..n).map(|i| (500 + i, 0)).collect();
    let mut t: Vec<(String, Vec<u8>)> = vec![
        ("head".into(), fontgen::head(1000, false, (0, 0, 1000, 1000))),
        ("hhea".into(), fontgen::hhea(n, 800, -200, 1000)),
        ("maxp".into(), if has("glyf") { fontgen::maxp_tt(n) } else { fontgen::maxp_cff(n) }),
        ("hmtx".into(), fontgen::hmtx(&metrics, &[])),
        ("cmap".into(), build_cmap(f)),
        ("post".into(), fontgen::post_v3()),
    ];
    let first = f["first"].as_i64().unwrap();
    if first >= 0 {
        t.push(("OS/2".into(), fontgen::os2_v4(first as u16, 0xFFFF)));
    }
    for tab in &tabs {
        let raw = |w: &mut W| std::mem::replace(w, W::new()).done();
        let mut w = W::new();
        match tab.as_str() {
            "glyf" => {
                let mut recs: Vec<Vec<u8>> = vec![fontgen::encode_glyph(&fontgen::triangle(1), None)];
                recs.resize(n as usize, Vec::new());
                let (glyf, loca) = fontgen::glyf_loca(&recs, false);
                t.push(("loca".into(), loca));
                t.push(("glyf".into(), glyf));
            }
            "CFF" => t.push(("CFF ".into(), vec![1, 0, 4, 1])),
            "CFF2" => t.push(("CFF2".into(), vec![2, 0, 5, 0, 0])),
            "SVG" => {
                w.u16(0).u32(10).u32(0).u16(0);
                t.push(("SVG ".into(), raw(&mut w)));
            }
            "SVG!" => {
                w.u16(7).u32(10).u32(0).u16(0);
                t.push(("SVG ".into(), raw(&mut w)));
            }
            "sbix" => {
                w.u16(1).u16(1).u32(0);
                t.push(("sbix".into(), raw(&mut w)));
            }
            "sbix!" => {
                w.u16(9).u16(1).u32(0);
                t.push(("sbix".into(), raw(&mut w)));
            }
            "CBDT" | "CBDT!" | "EBDT" => {
                let (loc, dat, ver) = match tab.as_str() {
                    "CBDT" => ("CBLC", "CBDT", 3),
                    "CBDT!" => ("CBLC", "CBDT", 9),
                    _ => ("EBLC", "EBDT", 2),
                };
                w.u16(ver).u16(0).u32(0);
                t.push((loc.into(), raw(&mut w)));
                w.u16(ver).u16(0);
                t.push((dat.into(), raw(&mut w)));
            }
            x => panic!("no encoder for table {}", x),
        }
    }
    fontgen::build_sfnt(if has("glyf") || !(has("CFF") || has("CFF2")) { 0x00010000 } else { 0x4F54544F }, &t)
}

// ---- driving allsorts ---------------------------------------------------------------------------
type AFont = Font<allsorts::font_data::DynamicFontTableProvider<'static>>;

fn open_font(bytes: &'static [u8]) -> Result<AFont, String> {
    let fd = ReadScope::new(bytes).read::<FontData<'static>>().map_err(|e| format!("FontData: {:?}", e))?;
    let prov = fd.table_provider(0).map_err(|e| format!("provider: {:?}", e))?;
    Font::new(prov).map_err(|e| format!("Font::new: {:?}", e))
}

fn vs_num(v: VariationSelector) -> u32 {
    match v {
        VariationSelector::VS01 => 1,
        VariationSelector::VS02 => 2,
        VariationSelector::VS03 => 3,
        VariationSelector::VS15 => 15,
        VariationSelector::VS16 => 16,
    }
}
fn vs_of(n: u64) -> Option<VariationSelector> {
    match n {
        0 => None,
        1 => Some(VariationSelector::VS01),
        2 => Some(VariationSelector::VS02),
        3 => Some(VariationSelector::VS03),
        15 => Some(VariationSelector::VS15),
        16 => Some(VariationSelector::VS16),
        x => panic!("the API has no selector {}", x),
    }
}
fn mode_of(m: &str) -> MatchingPresentation {
    if m == "R" {
        MatchingPresentation::Required
    } else {
        MatchingPresentation::NotRequired
    }
}
fn flags_of(fl: &[String]) -> GlyphTableFlags {
    let mut f = GlyphTableFlags::empty();
    for s in fl {
        f |= match s.as_str() {
            "SVG" => GlyphTableFlags::SVG,
            "sbix" => GlyphTableFlags::SBIX,
            "CBDT" => GlyphTableFlags::CBDT,
            "EBDT" => GlyphTableFlags::EBDT,
            x => panic!("filter {}", x),
        };
    }
    f
}

struct OpResult {
    filt: Vec<String>,
    out: Vec<Value>,
    panic: String,
}

/// Run the operations of one case on ONE Font. Script tag: `mymr` has no text preprocessing
/// (scripts::preprocess_text), so the characters reach the mapping loop as given.
fn run_ops(font: &mut AFont, ops: &[Value]) -> Vec<OpResult> {
    let mut filt: Vec<String> = vec!["SVG".into(), "sbix".into(), "CBDT".into()];
    let mut res = Vec::new();
    for op in ops {
        let k = op["k"].as_str().unwrap();
        let text: String = op["t"].as_array().unwrap().iter().map(|c| char::from_u32(c.as_u64().unwrap() as u32).unwrap()).collect();
        let mode = mode_of(op["m"].as_str().unwrap_or(""));
        let mut r = OpResult { filt: filt.clone(), out: Vec::new(), panic: String::new() };
        match k {
            "filt" => {
                filt = strs(&op["fl"]);
                let fl = flags_of(&filt);
                if let Outcome::Panicked(m) = guarded(|| font.set_embedded_image_filter(fl)) {
                    r.panic = m;
                }
                r.filt = filt.clone();
            }
            "look" => {
                let ch = text.chars().next().unwrap();
                let vs = vs_of(op["v"].as_u64().unwrap_or(0));
                match guarded(|| font.lookup_glyph_index(ch, mode, vs)) {
                    Outcome::Returned((g, v)) => {
                        r.out.push(json!({"c": ch as u32, "g": g, "v": vs_num(v), "u": [ch as u32], "x": 0}))
                    }
                    Outcome::Panicked(m) => r.panic = m,
                }
            }
            "map" => match guarded(|| font.map_glyphs(&text, fontgen::tag_u32("mymr"), mode)) {
                Outcome::Returned(gs) => {
                    for g in gs {
                        let c: i64 = match g.glyph_origin {
                            GlyphOrigin::Char(ch) => ch as i64,
                            GlyphOrigin::Direct => -1,
                        };
                        let u: Vec<u32> = g.unicodes.iter().map(|c| *c as u32).collect();
                        let x = g.liga_component_pos as u32 + g.flags.bits() as u32;
                        r.out.push(json!({"c": c, "g": g.glyph_index, "v": g.variation.map(vs_num).unwrap_or(0), "u": u, "x": x}));
                    }
                }
                Outcome::Panicked(m) => r.panic = m,
            },
            x => panic!("op {}", x),
        }
        res.push(r);
    }
    res
}

fn matches_alt(alt: &Value, got: &[Value]) -> bool {
    let exp = alt["o"].as_array().unwrap();
    exp.len() == got.len()
        && exp.iter().zip(got.iter()).all(|(e, g)| {
            g["c"] == e["c"]
                && g["v"] == e["v"]
                && e["g"].as_array().unwrap().contains(&g["g"])
                && g["u"] == json!([e["c"]])
                && g["x"] == json!(0)
        })
}

fn events_of(i0: &mut u64, case: &str, src: &str, f: &Value, ops: &[Value], res: &[OpResult]) -> Vec<Value> {
    let mut evs = Vec::new();
    for (op, r) in ops.iter().zip(res.iter()) {
        if op["k"] == "filt" && r.panic.is_empty() {
            continue;
        }
        let ev = match op["k"].as_str().unwrap() {
            "map" => "Map",
            "look" => "Look",
            _ => "Filter",
        };
        evs.push(json!({"i": *i0, "case": case, "ev": ev,
            "a": {"src": src, "f": f, "filt": r.filt, "k": op["k"], "t": op["t"], "m": op["m"], "v": op["v"]},
            "o": {"out": r.out, "panic": r.panic}}));
        *i0 += 1;
    }
    evs
}

fn load_gen_fonts(path: &str) -> BTreeMap<u64, (Value, &'static [u8])> {
    let mut m = BTreeMap::new();
    for v in read_ndjson(path) {
        let bytes: &'static [u8] = Box::leak(build_font(&v["f"]).into_boxed_slice());
        m.insert(v["fi"].as_u64().unwrap(), (v["f"].clone(), bytes));
    }
    m
}

/// What failed in a case, from facts only (font, operation, mode, character and selector at the first
/// glyph no alternative accepts, whether glyph 0 came back, the variation): used to hand the judge a
/// bounded, diverse sample when very many cases fail.
fn signature(fi: u64, op: &Value, alts: &Value, got: &[Value]) -> String {
    let t: Vec<u64> = op["t"].as_array().unwrap().iter().map(|c| c.as_u64().unwrap()).collect();
    let first = alts.as_array().unwrap().get(0).map(|a| a["o"].as_array().unwrap().clone()).unwrap_or_default();
    let mut at = String::from("len");
    for (k, g) in got.iter().enumerate() {
        let ok = alts.as_array().unwrap().iter().any(|a| {
            a["o"].as_array().unwrap().get(k).map_or(false, |e| g["c"] == e["c"] && g["v"] == e["v"] && e["g"].as_array().unwrap().contains(&g["g"]))
        });
        if !ok {
            let c = g["c"].as_i64().unwrap_or(-1);
            let next = t.iter().position(|x| *x as i64 == c).and_then(|i| t.get(i + 1)).cloned().unwrap_or(0);
            let sel = if (0xFE00..=0xFE0F).contains(&next) || (0xE0100..=0xE01EF).contains(&next) { next } else { 0 };
            at = format!("{:X}+{:X}:z{}:v{}", c, sel, (g["g"] == json!(0)) as u8, g["v"]);
            break;
        }
    }
    format!("{}|{}|{}|{}|{}", fi, op["k"].as_str().unwrap(), op["m"].as_str().unwrap_or(""), at, first.len() as i64 - got.len() as i64)
}

const JUDGE_PER_SIGNATURE: usize = 6;
const JUDGE_TOTAL: usize = 1500;

fn replay(fonts_path: &str, cases_path: &str, out_path: &str) {
    let fonts = load_gen_fonts(fonts_path);
    let mut w = NdWriter::create(out_path);
    let (mut cases, mut nops, mut mism, mut panics) = (0u64, 0u64, 0u64, 0u64);
    let mut by_reading: BTreeMap<String, u64> = BTreeMap::new();
    let mut by_sig: BTreeMap<String, Vec<Vec<Value>>> = BTreeMap::new();
    let mut i0 = 0u64;
    for (n, c) in read_ndjson(cases_path).iter().enumerate() {
        let fi = c["fi"].as_u64().unwrap();
        let (f, bytes) = match fonts.get(&fi) {
            Some(x) => x,
            None => panic!("case refers to unknown font {}", c["fi"]),
        };
        let ops = c["ops"].as_array().unwrap();
        let mut font = open_font(bytes).unwrap_or_else(|e| panic!("generated font {} does not load: {}", c["fi"], e));
        let res = run_ops(&mut font, ops);
        cases += 1;
        let mut bad: Option<String> = None;
        for ((op, r), alts) in ops.iter().zip(res.iter()).zip(c["exp"].as_array().unwrap().iter()) {
            nops += 1;
            if !r.panic.is_empty() {
                panics += 1;
                bad.get_or_insert(format!("{}|{}|panic|{}", fi, op["k"], vh::sup::panic_key(&r.panic)));
                continue;
            }
            if op["k"] == "filt" {
                continue;
            }
            match alts.as_array().unwrap().iter().find(|a| matches_alt(a, &r.out)) {
                Some(a) => *by_reading.entry(a["r"].as_str().unwrap().to_string()).or_insert(0) += 1,
                None => {
                    bad.get_or_insert(signature(fi, op, alts, &r.out));
                }
            }
        }
        if let Some(sig) = bad {
            mism += 1;
            let id = c.get("id").and_then(|x| x.as_str()).map(|s| s.to_string()).unwrap_or(format!("gen-{}", n));
            let sig = if id.starts_with("selftest") { id.clone() } else { sig };
            let v = by_sig.entry(sig).or_default();
            if v.len() < JUDGE_PER_SIGNATURE {
                v.push(events_of(&mut i0, &id, "gen", f, ops, &res));
            }
        }
    }
    // round-robin over the signatures up to the total bound
    let nsig = by_sig.len();
    let (mut judged, mut round) = (0usize, 0usize);
    while judged < JUDGE_TOTAL && round < JUDGE_PER_SIGNATURE {
        for v in by_sig.values() {
            if let Some(evs) = v.get(round) {
                if judged < JUDGE_TOTAL || evs[0]["case"].as_str().unwrap().starts_with("selftest") {
                    for e in evs {
                        w.write(e);
                    }
                    judged += 1;
                }
            }
        }
        round += 1;
    }
    w.finish();
    println!("{}", json!({"cases": cases, "ops": nops, "mismatched_cases": mism, "mismatch_signatures": nsig, "mismatched_cases_judged": judged,
        "panics": panics, "matched_by_reading": by_reading, "fonts": fonts.len()}));
}

// ---- independent reader of repository fonts -----------------------------------------------------------
fn u24(d: &[u8], at: usize) -> Option<u32> {
    Some(((*d.get(at)? as u32) << 16) | ((*d.get(at + 1)? as u32) << 8) | (*d.get(at + 2)? as u32))
}

/// Own cmap subtable lookup (formats 0, 4, 6, 12); None = format not handled here.
fn raw_lookup(sub: &[u8], code: u32) -> Option<u16> {
    let fmt = be16(sub, 0)?;
    match fmt {
        0 => Some(if code < 256 { *sub.get(6 + code as usize)? as u16 } else { 0 }),
        4 => {
            if code > 0xFFFF {
                return Some(0);
            }
            let n = (be16(sub, 6)? / 2) as usize;
            let (ends, starts, deltas, ros) = (14, 16 + 2 * n, 16 + 4 * n, 16 + 6 * n);
            for i in 0..n {
                let e = be16(sub, ends + 2 * i)? as u32;
                if e >= code {
                    let s = be16(sub, starts + 2 * i)? as u32;
                    if s > code {
                        return Some(0);
                    }
                    let delta = be16(sub, deltas + 2 * i)?;
                    let ro = be16(sub, ros + 2 * i)?;
                    if ro == 0 || ro == 0xFFFF {
                        return Some((code as u16).wrapping_add(delta));
                    }
                    let at = ros + 2 * i + ro as usize + 2 * (code - s) as usize;
                    let g = be16(sub, at)?;
                    return Some(if g == 0 { 0 } else { g.wrapping_add(delta) });
                }
            }
            Some(0)
        }
        6 => {
            let first = be16(sub, 6)? as u32;
            let cnt = be16(sub, 8)? as u32;
            Some(if code >= first && code < first + cnt { be16(sub, 10 + 2 * (code - first) as usize)? } else { 0 })
        }
        12 => {
            let n = be32(sub, 12)? as usize;
            for i in 0..n {
                let (s, e, g) = (be32(sub, 16 + 12 * i)?, be32(sub, 20 + 12 * i)?, be32(sub, 24 + 12 * i)?);
                if s <= code && code <= e {
                    return Some((g + (code - s)) as u16);
                }
            }
            Some(0)
        }
        _ => None,
    }
}

/// Own format 14 reader: the entries concerning (ch, selector code point) as abstract uvs records.
fn raw_uvs(sub: &[u8], seqs: &BTreeSet<(u32, u32)>) -> Option<Vec<Value>> {
    let n = be32(sub, 6)? as usize;
    let mut out = Vec::new();
    for i in 0..n {
        let at = 10 + 11 * i;
        let vs = u24(sub, at)?;
        let (d_off, n_off) = (be32(sub, at + 3)? as usize, be32(sub, at + 7)? as usize);
        let (mut def, mut non) = (Vec::new(), Vec::new());
        for &(ch, s) in seqs.iter().filter(|x| x.1 == vs) {
            let _ = s;
            if d_off != 0 {
                let m = be32(sub, d_off)? as usize;
                for j in 0..m {
                    let st = u24(sub, d_off + 4 + 4 * j)?;
                    let add = *sub.get(d_off + 4 + 4 * j + 3)? as u32;
                    if st <= ch && ch <= st + add && !def.contains(&json!([st, add])) {
                        def.push(json!([st, add]));
                    }
                }
            }
            if n_off != 0 {
                let m = be32(sub, n_off)? as usize;
                for j in 0..m {
                    if u24(sub, n_off + 4 + 5 * j)? == ch {
                        non.push(json!([ch, be16(sub, n_off + 4 + 5 * j + 3)?]));
                    }
                }
            }
        }
        // the record exists for this selector even when none of our sequences is listed
        out.push(json!({"vs": vs, "def": def, "non": non}));
    }
    Some(out)
}

struct RepoFont {
    bytes: &'static [u8],
    cmap: &'static [u8],
    recs: Vec<(u16, u16, usize, u16)>, // platform, encoding, offset, format
    tabs: Vec<String>,
    first: i64,
    mapped: Vec<u32>, // sample of mapped characters (from the first Unicode record the reader handles)
}

fn read_repo_font(path: &str) -> Option<RepoFont> {
    let bytes: &'static [u8] = Box::leak(std::fs::read(path).ok()?.into_boxed_slice());
    let at = match be32(bytes, 0)? {
        0x00010000 | 0x4F54544F | 0x74727565 => 0,
        0x74746366 => be32(bytes, 12)? as usize,
        _ => return None, // WOFF / WOFF2: no independent reader here
    };
    let dir = fontgen::read_sfnt_dir(bytes, at)?;
    let cmap = fontgen::table_bytes(bytes, &dir, "cmap")?;
    let n = be16(cmap, 2)? as usize;
    let mut recs = Vec::new();
    for i in 0..n {
        let off = be32(cmap, 8 + 8 * i)? as usize;
        recs.push((be16(cmap, 4 + 8 * i)?, be16(cmap, 6 + 8 * i)?, off, be16(cmap, off)?));
    }
    let mut tabs = Vec::new();
    for (tag, name) in [("glyf", "glyf"), ("CFF ", "CFF"), ("CFF2", "CFF2"), ("SVG ", "SVG"), ("sbix", "sbix"), ("CBDT", "CBDT"), ("EBDT", "EBDT")] {
        if fontgen::table_bytes(bytes, &dir, tag).is_some() {
            tabs.push(name.to_string());
        }
    }
    let first = match fontgen::table_bytes(bytes, &dir, "OS/2") {
        Some(os2) => be16(os2, 64)? as i64,
        None => -1,
    };
    // characters the font maps: scan interesting blocks through the first record we can read
    let mut mapped = Vec::new();
    if let Some(r) = recs.iter().find(|r| r.3 == 12 && r.0 != 1).or_else(|| recs.iter().find(|r| [0, 4, 6].contains(&r.3))) {
        let sub = &cmap[r.2..];
        let blocks: [(u32, u32); 9] = [(0x20, 0x17F), (0x2000, 0x2BFF), (0x3000, 0x30FF), (0x4E00, 0x4E7F), (0x900, 0xDFF), (0x600, 0x6FF),
                                        (0xF000, 0xF0FF), (0x1F000, 0x1FAFF), (0xFE00, 0xFE0F)];
        for (lo, hi) in blocks {
            for c in lo..=hi {
                if raw_lookup(sub, c).unwrap_or(0) != 0 {
                    mapped.push(c);
                }
            }
        }
    }
    Some(RepoFont { bytes, cmap, recs, tabs, first, mapped })
}

/// The abstract font restricted to what `chars` (and the sequences `seqs`) can reach.
fn abstract_of(rf: &RepoFont, chars: &BTreeSet<u32>, seqs: &BTreeSet<(u32, u32)>) -> Value {
    let first = if rf.first < 0 { 0x20 } else { rf.first as u32 };
    let mut codes: BTreeSet<u32> = (0u32..256).collect();
    for &c in chars {
        codes.insert(c);
        let c0 = if (0xF000..=0xF0FF).contains(&c) { c - 0xF000 } else { c };
        if let Some(v) = (c0 + first).checked_sub(0x20) {
            codes.insert(v);
        }
    }
    let mut recs = Vec::new();
    let mut uvs = json!([]);
    for &(p, e, off, fmt) in &rf.recs {
        let sub = &rf.cmap[off.min(rf.cmap.len())..];
        let mut m = Vec::new();
        if fmt == 14 {
            uvs = json!(raw_uvs(sub, seqs).unwrap_or_default());
        } else {
            let unicode = p == 0 || (p == 3 && (e == 1 || e == 10));
            for &c in &codes {
                if unicode && !chars.contains(&c) {
                    continue;
                }
                if let Some(g) = raw_lookup(sub, c) {
                    if g != 0 {
                        m.push(json!([c, g]));
                    }
                }
            }
        }
        recs.push(json!({"p": p, "e": e, "fmt": fmt, "m": m}));
    }
    json!({"recs": recs, "uvs": uvs, "tabs": rf.tabs, "first": rf.first})
}

const SELECTORS: [u32; 8] = [0xFE00, 0xFE01, 0xFE02, 0xFE0E, 0xFE0F, 0xFE03, 0xE0100, 0xE0101];
const EMOJI_MIX: [u32; 16] = [0x231A, 0x2764, 0x1F600, 0x2603, 0x2614, 0x00A9, 0x1F1E6, 0x1F3FB, 0x23, 0x2B50, 0x2B51, 0x1F004, 0x1FAF8, 0x1FAF9, 0x25CC, 0x203C];
const FILTERS: [&[&str]; 6] = [&["SVG", "sbix", "CBDT"], &[], &["EBDT"], &["sbix"], &["SVG", "CBDT", "sbix", "EBDT"], &["CBDT"]];

fn random_ops(rng: &mut StdRng, pool: &[u32], with_wide_selectors: bool) -> Vec<Value> {
    let mut ops = Vec::new();
    let n_ops = rng.gen_range(1..=4);
    for _ in 0..n_ops {
        let mode = if rng.gen_bool(0.6) { "R" } else { "N" };
        match rng.gen_range(0..10) {
            0 | 1 => {
                let fl: Vec<&str> = FILTERS[rng.gen_range(0..FILTERS.len())].to_vec();
                ops.push(json!({"k": "filt", "t": [], "m": "", "v": 0, "fl": fl}));
            }
            2 | 3 => {
                let ch = if rng.gen_bool(0.3) { 0x25CC } else { *pool.choose(rng).unwrap() };
                let v = [0u32, 0, 1, 2, 3, 15, 16][rng.gen_range(0..7)];
                ops.push(json!({"k": "look", "t": [ch], "m": mode, "v": v, "fl": []}));
            }
            _ => {
                let len = rng.gen_range(0..=8);
                let mut t: Vec<u32> = Vec::new();
                for _ in 0..len {
                    if rng.gen_bool(0.35) {
                        let k = if with_wide_selectors { SELECTORS.len() } else { 5 };
                        t.push(SELECTORS[rng.gen_range(0..k)]);
                    } else {
                        t.push(*pool.choose(rng).unwrap());
                    }
                }
                ops.push(json!({"k": "map", "t": t, "m": mode, "v": 0, "fl": []}));
            }
        }
    }
    ops
}

fn emoji_ranges() -> Vec<(u32, u32)> {
    let mut out: Vec<(u32, u32)> = Vec::new();
    for cp in 0u32..0x110000 {
        if let Some(c) = char::from_u32(cp) {
            if allsorts::unicode::bool_prop_emoji_presentation(c) {
                match out.last_mut() {
                    Some(l) if l.1 + 1 == cp => l.1 = cp,
                    _ => out.push((cp, cp)),
                }
            }
        }
    }
    out
}

fn record(seed: u64, per_font: usize, fonts_path: &str, trace: &str) {
    let mut rng = StdRng::seed_from_u64(seed);
    let mut w = NdWriter::create(trace);
    let mut i0 = 0u64;
    let (mut events, mut panics, mut cases, mut skipped, mut repo_used, mut with_uvs, mut with_images) = (0u64, 0u64, 0u64, 0u64, 0u64, 0u64, 0u64);
    let mut encs: BTreeMap<String, u64> = BTreeMap::new();
    // the implementation's Emoji_Presentation table
    match guarded(emoji_ranges) {
        Outcome::Returned(r) => w.write(&json!({"i": i0, "case": "emoji", "ev": "Emoji", "a": {}, "o": {"ranges": r, "panic": ""}})),
        Outcome::Panicked(m) => w.write(&json!({"i": i0, "case": "emoji", "ev": "Emoji", "a": {}, "o": {"ranges": [], "panic": m}})),
    }
    i0 += 1;
    events += 1;
    // repository fonts
    let root = repo_root();
    for path in repo_fonts() {
        let rf = match read_repo_font(&path) {
            Some(rf) => rf,
            None => {
                skipped += 1;
                continue;
            }
        };
        if open_font(rf.bytes).is_err() {
            skipped += 1;
            continue;
        }
        repo_used += 1;
        if rf.recs.iter().any(|r| r.3 == 14) {
            with_uvs += 1;
        }
        if rf.tabs.iter().any(|t| ["SVG", "sbix", "CBDT", "EBDT"].contains(&t.as_str())) {
            with_images += 1;
        }
        for r in &rf.recs {
            *encs.entry(format!("{}/{}/f{}", r.0, r.1, r.3)).or_insert(0) += 1;
        }
        let mut pool: Vec<u32> = EMOJI_MIX.to_vec();
        pool.extend([0x41, 0x5A, 0xC4, 0x3A9, 0xF041, 0x10FFFD]);
        for _ in 0..24 {
            if let Some(c) = rf.mapped.choose(&mut rng) {
                pool.push(*c);
            }
        }
        let rel = path.strip_prefix(&root).unwrap_or(&path).trim_start_matches('/').to_string();
        for k in 0..per_font {
            let ops = random_ops(&mut rng, &pool, true);
            let mut chars = BTreeSet::new();
            let mut seqs = BTreeSet::new();
            for op in &ops {
                let t: Vec<u32> = op["t"].as_array().unwrap().iter().map(|c| c.as_u64().unwrap() as u32).collect();
                for (i, c) in t.iter().enumerate() {
                    chars.insert(*c);
                    if i + 1 < t.len() {
                        seqs.insert((*c, t[i + 1]));
                    }
                }
                let v = op["v"].as_u64().unwrap_or(0) as u32;
                if v != 0 {
                    seqs.insert((t[0], 0xFE00 + v - 1));
                }
            }
            let f = abstract_of(&rf, &chars, &seqs);
            let mut font = open_font(rf.bytes).unwrap();
            let res = run_ops(&mut font, &ops);
            cases += 1;
            panics += res.iter().filter(|r| !r.panic.is_empty()).count() as u64;
            for e in events_of(&mut i0, &format!("repo-{}-{}", repo_used, k), &rel, &f, &ops, &res) {
                w.write(&e);
                events += 1;
            }
        }
    }
    // generated fonts, longer random texts
    let gen = load_gen_fonts(fonts_path);
    let pool: Vec<u32> = vec![0x41, 0x42, 0x43, 0x44, 0x231A, 0x231B, 0x231C, 0x25CC, 0x2764, 0x1F600, 0x5A, 0xC4, 0x3A9, 0xF041, 0xF020, 0x1F601];
    for (fi, (f, bytes)) in &gen {
        for k in 0..per_font {
            let ops = random_ops(&mut rng, &pool, true);
            let mut font = open_font(bytes).unwrap();
            let res = run_ops(&mut font, &ops);
            cases += 1;
            panics += res.iter().filter(|r| !r.panic.is_empty()).count() as u64;
            for e in events_of(&mut i0, &format!("genfont-{}-{}", fi, k), "gen", f, &ops, &res) {
                w.write(&e);
                events += 1;
            }
        }
    }
    w.finish();
    println!("{}", json!({"events": events, "cases": cases, "panics": panics, "repo_fonts": repo_used, "repo_fonts_skipped": skipped,
        "repo_fonts_with_format14": with_uvs, "repo_fonts_with_image_tables": with_images, "generated_fonts": gen.len(), "encoding_records": encs}));
}

fn one(case_path: &str, trace: Option<&str>) {
    let c: Value = serde_json::from_str(&std::fs::read_to_string(case_path).expect("read")).expect("json");
    let src = c["src"].as_str().unwrap_or("gen");
    let ops = c["ops"].as_array().unwrap().clone();
    let bytes: &'static [u8] = if src == "gen" {
        Box::leak(build_font(&c["f"]).into_boxed_slice())
    } else {
        Box::leak(std::fs::read(format!("{}/{}", repo_root(), src)).expect("font").into_boxed_slice())
    };
    let mut font = open_font(bytes).expect("font loads");
    let res = run_ops(&mut font, &ops);
    let mut i0 = 0;
    let evs = events_of(&mut i0, "replay", src, &c["f"], &ops, &res);
    match trace {
        Some(t) => {
            let mut w = NdWriter::create(t);
            for e in &evs {
                w.write(e);
            }
            w.finish();
            println!("{}", json!({"events": evs.len()}));
        }
        None => {
            for e in &evs {
                println!("{} {} filt {} -> {} {}", e["ev"], e["a"]["t"], e["a"]["filt"], e["o"]["out"], e["o"]["panic"]);
            }
        }
    }
}

fn main() {
    if let Outcome::Panicked(m) = guarded(real_main) {
        eprintln!("x06_glyphmap: harness failure: {}", m);
        std::process::exit(3);
    }
}

fn real_main() {
    let args: Vec<String> = std::env::args().collect();
    match args.get(1).map(|s| s.as_str()) {
        Some("replay") => replay(&args[2], &args[3], &args[4]),
        Some("record") => record(args[2].parse().expect("seed"), args[3].parse().expect("n"), &args[4], &args[5]),
        Some("one") => one(&args[2], Some(&args[3])),
        Some("probe") => one(&args[2], None),
        Some("font") => {
            // x06_glyphmap font <fonts.ndjson> <fi> <out.ttf>
            let fonts = load_gen_fonts(&args[2]);
            std::fs::write(&args[4], fonts[&args[3].parse().unwrap()].1).expect("write");
        }
        _ => {
            eprintln!("usage: x06_glyphmap replay|record|one|probe ...");
            std::process::exit(2);
        }
    }
}
