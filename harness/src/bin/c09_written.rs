//! C09 harness: every font allsorts writes is projected (independent readers, vh::proj) into
//! the vocabulary of SfntWrite.tla and handed to the TLC judge (Trace_SfntWrite).
//!
//!   c09_written replay <cases.ndjson> <trace.ndjson>
//!       CASE lines of MC_SfntWrite (table adds in TLC-chosen order) -> real FontBuilder -> events
//!   c09_written record <seed> <max_fonts> <trace.ndjson>
//!       whole_font / subset / instance on repository fonts, WOFF2-reconstructed table sets
use allsorts::binary::read::ReadScope;
use allsorts::cff::cff2::CFF2;
use allsorts::cff::outline::CFF2Outlines;
use allsorts::cff::CFF;
use allsorts::font::Font;
use allsorts::font_data::FontData;
use allsorts::outline::{OutlineBuilder, OutlineSink};
use allsorts::subset::{subset, whole_font};
use allsorts::tables::glyf::GlyfTable;
use allsorts::tables::loca::LocaTable;
use allsorts::tables::variable_fonts::fvar::FvarTable;
use allsorts::tables::{Fixed, FontTableProvider, HeadTable, MaxpTable};
use allsorts::tag;
use pathfinder_geometry::line_segment::LineSegment2F;
use pathfinder_geometry::vector::Vector2F;
use rand::rngs::StdRng;
use rand::seq::SliceRandom;
use rand::{Rng, SeedableRng};
use serde_json::{json, Value};
use vh::fontgen::{tag_str, tag_u32};
use vh::proj::{cross_facts, project_sfnt};
use vh::sup::{guarded, Outcome};
use vh::util::{read_ndjson, repo_fonts, NdWriter};

struct MapProvider {
    tables: std::collections::BTreeMap<u32, Vec<u8>>,
}
impl FontTableProvider for MapProvider {
    fn table_data(&self, tag: u32) -> Result<Option<std::borrow::Cow<'_, [u8]>>, allsorts::error::ParseError> {
        Ok(self.tables.get(&tag).map(|v| std::borrow::Cow::Borrowed(v.as_slice())))
    }
    fn has_table(&self, tag: u32) -> bool {
        self.tables.contains_key(&tag)
    }
    fn table_tags(&self) -> Option<Vec<u32>> {
        Some(self.tables.keys().cloned().collect())
    }
}

struct NullSink(usize);
impl OutlineSink for NullSink {
    fn move_to(&mut self, _: Vector2F) {
        self.0 += 1
    }
    fn line_to(&mut self, _: Vector2F) {
        self.0 += 1
    }
    fn quadratic_curve_to(&mut self, _: Vector2F, _: Vector2F) {
        self.0 += 1
    }
    fn cubic_curve_to(&mut self, _: LineSegment2F, _: Vector2F) {
        self.0 += 1
    }
    fn close(&mut self) {
        self.0 += 1
    }
}

/// "the library itself can load the result and query every retained glyph"
fn reload_facts(bytes: &[u8]) -> Value {
    let r = guarded(|| -> Result<(i64, i64), String> {
        let fd = ReadScope::new(bytes).read::<FontData<'_>>().map_err(|e| format!("{:?}", e))?;
        let provider = fd.table_provider(0).map_err(|e| format!("{:?}", e))?;
        let maxp = ReadScope::new(&provider.read_table_data(tag::MAXP).map_err(|e| format!("{:?}", e))?)
            .read::<MaxpTable>()
            .map_err(|e| format!("{:?}", e))?;
        let n = maxp.num_glyphs;
        let mut outlines = 0i64;
        if provider.has_table(tag::GLYF) {
            let head = ReadScope::new(&provider.read_table_data(tag::HEAD).map_err(|e| format!("{:?}", e))?)
                .read::<HeadTable>()
                .map_err(|e| format!("{:?}", e))?;
            let loca_data = provider.read_table_data(tag::LOCA).map_err(|e| format!("{:?}", e))?;
            let loca = ReadScope::new(&loca_data)
                .read_dep::<LocaTable<'_>>((usize::from(n), head.index_to_loc_format))
                .map_err(|e| format!("{:?}", e))?;
            let glyf_data = provider.read_table_data(tag::GLYF).map_err(|e| format!("{:?}", e))?;
            let mut glyf = ReadScope::new(&glyf_data).read_dep::<GlyfTable<'_>>(&loca).map_err(|e| format!("{:?}", e))?;
            for g in 0..n {
                if glyf.visit(g, &mut NullSink(0)).is_ok() {
                    outlines += 1;
                }
            }
        } else if provider.has_table(tag::CFF) {
            let d = provider.read_table_data(tag::CFF).map_err(|e| format!("{:?}", e))?;
            let mut cff = ReadScope::new(&d).read::<CFF<'_>>().map_err(|e| format!("{:?}", e))?;
            for g in 0..n {
                if cff.visit(g, &mut NullSink(0)).is_ok() {
                    outlines += 1;
                }
            }
        } else if provider.has_table(tag::CFF2) {
            let d = provider.read_table_data(tag::CFF2).map_err(|e| format!("{:?}", e))?;
            let cff2 = ReadScope::new(&d).read::<CFF2<'_>>().map_err(|e| format!("{:?}", e))?;
            let mut o = CFF2Outlines { table: &cff2, tuple: None };
            for g in 0..n {
                if o.visit(g, &mut NullSink(0)).is_ok() {
                    outlines += 1;
                }
            }
        } else {
            outlines = n as i64;
        }
        let mut font = Font::new(provider).map_err(|e| format!("{:?}", e))?;
        let mut advances = 0i64;
        for g in 0..n {
            if font.horizontal_advance(g).is_some() {
                advances += 1;
            }
        }
        Ok((advances, outlines))
    });
    match r {
        Outcome::Returned(Ok((a, o))) => json!({"tried": true, "ok": true, "advances": a, "outlines": o, "why": ""}),
        Outcome::Returned(Err(e)) => json!({"tried": true, "ok": false, "advances": -1, "outlines": -1, "why": e}),
        Outcome::Panicked(m) => json!({"tried": true, "ok": false, "advances": -1, "outlines": -1, "why": format!("Panic: {}", m)}),
    }
}

fn no_reload() -> Value {
    json!({"tried": false, "ok": false, "advances": -1, "outlines": -1, "why": ""})
}

fn cross_of_sfnt(bytes: &[u8], reload: bool, built: bool) -> Value {
    let dir = vh::fontgen::read_sfnt_dir(bytes, 0);
    let get = |t: &str| -> Option<Vec<u8>> {
        let dir = dir.as_ref()?;
        vh::fontgen::table_bytes(bytes, dir, t).map(|b| b.to_vec())
    };
    let mut x = cross_facts(&get);
    let can = ["maxp", "hhea", "hmtx", "head", "cmap"].iter().all(|t| get(t).is_some());
    x["reload"] = if reload && can { reload_facts(bytes) } else { no_reload() };
    x["built"] = json!({"hmtx": built, "loca": built});
    x
}

struct Rec {
    w: NdWriter,
    i: u64,
    refused: usize,
    panics: Vec<String>,
}
impl Rec {
    fn written(&mut self, case: &str, op: &str, args: Value, bytes: &[u8], reload: bool) {
        self.i += 1;
        match project_sfnt(bytes) {
            Some(p) => self.w.write(&json!({"i": self.i, "case": case, "ev": "Written", "a": {"op": op, "args": args},
                                            "o": {"sfnt": p, "cross": cross_of_sfnt(bytes, reload, op == "subset" || op == "instance")}})),
            None => self.w.write(&json!({"i": self.i, "case": case, "ev": "Unreadable", "a": {"op": op, "args": args}, "o": {}})),
        }
    }
}

fn replay(cases: &str, out: &str) {
    let cases = read_ndjson(cases);
    let mut rec = Rec { w: NdWriter::create(out), i: 0, refused: 0, panics: vec![] };
    for (ci, case) in cases.iter().enumerate() {
        let adds: Vec<(u32, Vec<u8>)> = case["adds"]
            .as_array()
            .unwrap()
            .iter()
            .map(|a| {
                let t = a["tag"].as_array().unwrap();
                let tag = ((t[0].as_u64().unwrap() as u32) << 16) | t[1].as_u64().unwrap() as u32;
                (tag, a["body"].as_array().unwrap().iter().map(|b| b.as_u64().unwrap() as u8).collect())
            })
            .collect();
        // FontBuilder is crate-private; whole_font() drives it with one add_table per requested tag
        // (in the order of `tags`), then maxp and head, so a table provider over the TLC-chosen
        // tables reaches the same code.
        let r = guarded(|| -> Result<Vec<u8>, String> {
            let mut prov = MapProvider { tables: std::collections::BTreeMap::new() };
            let mut tags = Vec::new();
            for (tag, body) in &adds {
                prov.tables.insert(*tag, body.clone());
                tags.push(*tag);
            }
            prov.tables.insert(tag::HEAD, vh::fontgen::head(1000, false, (0, 0, 10, 10)));
            prov.tables.insert(tag::MAXP, vh::fontgen::maxp_cff(1));
            whole_font(&prov, &tags).map_err(|e| format!("{:?}", e))
        });
        match r {
            Outcome::Returned(Ok(bytes)) => rec.written(&format!("g{}", ci), "builder", case["adds"].clone(), &bytes, false),
            Outcome::Returned(Err(_)) => rec.refused += 1,
            Outcome::Panicked(m) => rec.panics.push(m),
        }
    }
    let n = rec.w.n;
    rec.w.finish();
    println!("{}", json!({"cases": cases.len(), "events": n, "refused": rec.refused, "panics": rec.panics.len(),
                          "panic_samples": rec.panics.iter().take(3).collect::<Vec<_>>()}));
}

fn record(seed: u64, max_fonts: usize, out: &str) {
    let mut rng = StdRng::seed_from_u64(seed);
    let mut rec = Rec { w: NdWriter::create(out), i: 0, refused: 0, panics: vec![] };
    let mut fonts = repo_fonts();
    fonts.shuffle(&mut rng);
    // variable fonts and CFF fonts first so that a small sample still reaches instance() and CFF subsetting
    fonts.sort_by_key(|p| {
        if p.contains("/aots/") {
            3
        } else if p.contains("/variable/") || p.ends_with(".woff2") {
            0
        } else if p.ends_with(".otf") {
            1
        } else {
            2
        }
    });
    let mut used = 0;
    let mut ops = std::collections::BTreeMap::<String, usize>::new();
    for path in fonts {
        if used >= max_fonts {
            break;
        }
        let data = match std::fs::read(&path) {
            Ok(d) if d.len() > 12 => d,
            _ => continue,
        };
        let name = path.rsplit('/').next().unwrap().to_string();
        let fd = match ReadScope::new(&data).read::<FontData<'_>>() {
            Ok(fd) => fd,
            Err(_) => continue,
        };
        let provider = match fd.table_provider(0) {
            Ok(p) => p,
            Err(_) => continue,
        };
        used += 1;
        let tags = provider.table_tags().unwrap_or_default();
        if path.ends_with(".woff2") {
            // tables reconstructed from WOFF2: cross-table half only
            let get = |t: &str| provider.table_data(tag_u32(t)).ok().flatten().map(|c| c.to_vec());
            let mut x = cross_facts(&get);
            x["reload"] = no_reload();
            // tables allsorts reconstructs from their transformed form are built by it
            if let FontData::Woff2(w2) = &fd {
                let tr = |t: u32| w2.find_table_entry(t, 0).map(|e| e.transform_length.is_some()).unwrap_or(false);
                x["built"] = json!({"hmtx": tr(tag::HMTX), "loca": tr(tag::LOCA) || tr(tag::GLYF)});
            }
            rec.i += 1;
            rec.w.write(&json!({"i": rec.i, "case": format!("{}/woff2", name), "ev": "Tables", "a": {"op": "woff2"}, "o": {"cross": x}}));
            *ops.entry("woff2-tables".into()).or_default() += 1;
        }
        let n_glyphs = provider
            .table_data(tag::MAXP)
            .ok()
            .flatten()
            .and_then(|d| ReadScope::new(&d).read::<MaxpTable>().ok())
            .map(|m| m.num_glyphs)
            .unwrap_or(0);
        // whole_font: all tags, and a random subset of the optional ones
        for variant in 0..2 {
            let required = ["cmap", "head", "hhea", "hmtx", "maxp", "loca", "glyf", "CFF ", "CFF2", "name", "OS/2", "post"];
            let sel: Vec<u32> = tags
                .iter()
                .cloned()
                .filter(|t| variant == 0 || required.contains(&tag_str(*t).as_str()) || rng.gen_bool(0.5))
                .collect();
            let r = guarded(|| whole_font(&provider, &sel));
            let args = json!({"font": name, "tags": sel.iter().map(|t| tag_str(*t)).collect::<Vec<_>>()});
            match r {
                Outcome::Returned(Ok(bytes)) => {
                    rec.written(&format!("{}/whole{}", name, variant), "whole_font", args, &bytes, true);
                    *ops.entry("whole_font".into()).or_default() += 1;
                }
                Outcome::Returned(Err(_)) => rec.refused += 1,
                Outcome::Panicked(m) => rec.panics.push(format!("whole_font {}: {}", name, m)),
            }
        }
        // subset: a few glyph lists
        if n_glyphs > 0 && (provider.has_table(tag::GLYF) || provider.has_table(tag::CFF) || provider.has_table(tag::CFF2)) {
            let mut lists: Vec<Vec<u16>> = vec![vec![0]];
            let k = rng.gen_range(2..40.min(n_glyphs as usize + 1).max(3));
            lists.push((0..n_glyphs.min(k as u16)).collect());
            let mut pool: Vec<u16> = (1..n_glyphs).collect();
            pool.shuffle(&mut rng);
            let mut l = vec![0u16];
            l.extend(pool.iter().take(rng.gen_range(1..60)).cloned());
            lists.push(l);
            if n_glyphs > 300 {
                let mut l = vec![0u16];
                l.extend(pool.iter().take(300).cloned());
                lists.push(l);
            }
            for (li, ids) in lists.iter().enumerate() {
                let r = guarded(|| subset(&provider, ids));
                let args = json!({"font": name, "n_ids": ids.len(), "ids_head": ids.iter().take(12).collect::<Vec<_>>()});
                match r {
                    Outcome::Returned(Ok(bytes)) => {
                        rec.written(&format!("{}/subset{}", name, li), "subset", args, &bytes, true);
                        *ops.entry("subset".into()).or_default() += 1;
                    }
                    Outcome::Returned(Err(_)) => rec.refused += 1,
                    Outcome::Panicked(m) => rec.panics.push(format!("subset {}: {}", name, m)),
                }
            }
        }
        // instance: variable fonts
        if provider.has_table(tag::FVAR) {
            let fvar_data = provider.read_table_data(tag::FVAR).ok();
            let axes: Vec<(f32, f32, f32)> = fvar_data
                .as_ref()
                .and_then(|d| ReadScope::new(d).read::<FvarTable<'_>>().ok().map(|f| {
                    f.axes().map(|a| (f32::from(a.min_value), f32::from(a.default_value), f32::from(a.max_value))).collect()
                }))
                .unwrap_or_default();
            for variant in 0..3 {
                let tuple: Vec<Fixed> = axes
                    .iter()
                    .map(|(lo, de, hi)| match variant {
                        0 => *de,
                        1 => *hi,
                        _ => lo + (hi - lo) * rng.gen::<f32>(),
                    })
                    .map(Fixed::from)
                    .collect();
                let r = guarded(|| allsorts::variations::instance(&provider, &tuple));
                let args = json!({"font": name, "variant": variant});
                match r {
                    Outcome::Returned(Ok((bytes, _))) => {
                        rec.written(&format!("{}/instance{}", name, variant), "instance", args, &bytes, true);
                        *ops.entry("instance".into()).or_default() += 1;
                    }
                    Outcome::Returned(Err(_)) => rec.refused += 1,
                    Outcome::Panicked(m) => rec.panics.push(format!("instance {}: {}", name, m)),
                }
            }
        }
    }
    let n = rec.w.n;
    rec.w.finish();
    println!("{}", json!({"events": n, "fonts": used, "ops": ops, "refused": rec.refused, "panics": rec.panics.len(),
                          "panic_samples": rec.panics.iter().take(5).collect::<Vec<_>>()}));
}

fn main() {
    let args: Vec<String> = std::env::args().collect();
    match args.get(1).map(|s| s.as_str()) {
        Some("replay") => replay(&args[2], &args[3]),
        Some("record") => record(args[2].parse().expect("seed"), args[3].parse().expect("max fonts"), &args[4]),
        _ => {
            eprintln!("usage: c09_written replay <cases> <trace> | record <seed> <max_fonts> <trace>");
            std::process::exit(2);
        }
    }
}
