//! C09 harness: every font allsorts writes is projected (independent readers, vh::proj and
//! c09_written/glyphs.rs) into the vocabulary of SfntWrite.tla and handed to the TLC judge
//! (Trace_SfntWrite). Nothing in this file decides the property.
//!
//!   c09_written replay <cases.ndjson> <trace.ndjson>
//!       CASE lines of MC_SfntWrite (table adds in TLC-chosen order) -> real FontBuilder -> events
//!   c09_written record <seed> <max_fonts> <trace.ndjson> [all]
//!       synthesized families (always):
//!         shapes  composites of every argument width / transform kind, numberOfHMetrics < numGlyphs,
//!                 short and long loca -> whole_font, subset, prince::subset (four cmap targets)
//!         var     variable TrueType fonts whose component offsets vary across the byte / word
//!                 argument boundary -> variations::instance at several coordinates
//!         big     short-loca fonts encoded to WOFF2 by the harness's own encoder, sized so that the
//!                 glyf table allsorts rebuilds is below / exactly 131070 / 131072 / above
//!                 -> Woff2TableProvider table sets, subset and whole_font on that provider
//!         coll    WOFF2 collections (`ttcf` flavour, written by the harness's encoder) and OpenType collections
//!                 (TTC) whose members differ in numGlyphs, numberOfHMetrics, loca format, unitsPerEm, glyf / hmtx
//!                 transform, shared / private tables: EVERY member index is requested (and one past the end);
//!                 table sets, subset, whole_font, instance per member, judged against the member's own tables
//!                 and against what the harness prescribed for that member (SfntWrite!MemberOK)
//!       repository fonts chosen by MEASURED features (survey + greedy cover, then by seed):
//!         whole_font / subset / prince::subset / instance, WOFF2 re-encodings of TrueType fonts
//!         chosen by the measured size of the rebuilt glyf table.
//!   c09_written survey
//!       measured features of every repository font (diagnostic)
use allsorts::binary::read::ReadScope;
use allsorts::cff::cff2::CFF2;
use allsorts::cff::outline::CFF2Outlines;
use allsorts::cff::CFF;
use allsorts::font::Font;
use allsorts::font_data::FontData;
use allsorts::outline::{OutlineBuilder, OutlineSink};
use allsorts::subset::prince::{self, PrinceCmapTarget};
use allsorts::subset::{subset, whole_font};
use allsorts::tables::glyf::GlyfTable;
use allsorts::tables::loca::LocaTable;
use allsorts::tables::variable_fonts::fvar::FvarTable;
use allsorts::tables::{Fixed, FontTableProvider, HeadTable, HheaTable, HmtxTable, MaxpTable};
use allsorts::tag;
use pathfinder_geometry::line_segment::LineSegment2F;
use pathfinder_geometry::vector::Vector2F;
use rand::rngs::StdRng;
use rand::seq::SliceRandom;
use rand::{Rng, SeedableRng};
use serde_json::{json, Value};
use std::collections::{BTreeMap, BTreeSet};
use vh::fontgen::{be16, tag_str, tag_u32};
use vh::proj::{cross_facts, project_sfnt};
use vh::sup::{guarded, Outcome};
use vh::util::{read_ndjson, repo_fonts, NdWriter};

#[allow(dead_code)]
#[path = "c09_written/brotli.rs"]
mod brotli;
#[path = "c09_written/cffb.rs"]
mod cffb;
#[path = "c09_written/cmapw.rs"]
mod cmapw;
#[path = "c09_written/coll.rs"]
mod coll;
#[path = "c09_written/derive.rs"]
mod derive;
#[allow(dead_code)]
#[path = "c09_written/enc.rs"]
mod enc;
#[allow(dead_code)]
#[path = "c09_written/glyph.rs"]
mod glyph;
#[path = "c09_written/glyphs.rs"]
mod glyphs;
#[path = "c09_written/synth.rs"]
mod synth;

type TableMap = BTreeMap<u32, Vec<u8>>;

#[derive(Clone)]
struct MapProvider {
    tables: TableMap,
}
impl FontTableProvider for MapProvider {
    fn table_data(&self, tag: u32) -> Result<Option<std::borrow::Cow<'_, [u8]>>, allsorts::error::ParseError> {
        Ok(self.tables.get(&tag).map(|v| std::borrow::Cow::Borrowed(v.as_slice())))
    }
    fn has_table(&self, tag: u32) -> bool {
        self.tables.contains_key(&tag)
    }
    fn table_tags(&self) -> Option<Vec<u32>> {
        Some(self.tables.keys().cloned().collect())
    }
}

fn tables_of(provider: &impl FontTableProvider) -> TableMap {
    let mut m = TableMap::new();
    for t in provider.table_tags().unwrap_or_default() {
        if let Ok(Some(d)) = provider.table_data(t) {
            m.insert(t, d.to_vec());
        }
    }
    m
}

struct NullSink(usize);
impl OutlineSink for NullSink {
    fn move_to(&mut self, _: Vector2F) {
        self.0 += 1
    }
    fn line_to(&mut self, _: Vector2F) {
        self.0 += 1
    }
    fn quadratic_curve_to(&mut self, _: Vector2F, _: Vector2F) {
        self.0 += 1
    }
    fn cubic_curve_to(&mut self, _: LineSegment2F, _: Vector2F) {
        self.0 += 1
    }
    fn close(&mut self) {
        self.0 += 1
    }
}

/// "the library itself can load the result and query every retained glyph": outline and advance
/// of every glyph through allsorts' own readers.
fn reload_provider<P: FontTableProvider>(provider: P) -> Result<(i64, i64), String> {
    let e = |e: allsorts::error::ParseError| format!("{:?}", e);
    let maxp = ReadScope::new(&provider.read_table_data(tag::MAXP).map_err(e)?).read::<MaxpTable>().map_err(e)?;
    let n = maxp.num_glyphs;
    let mut outlines = 0i64;
    if provider.has_table(tag::GLYF) {
        let head = ReadScope::new(&provider.read_table_data(tag::HEAD).map_err(e)?).read::<HeadTable>().map_err(e)?;
        let loca_data = provider.read_table_data(tag::LOCA).map_err(e)?;
        let loca = ReadScope::new(&loca_data).read_dep::<LocaTable<'_>>((usize::from(n), head.index_to_loc_format)).map_err(e)?;
        let glyf_data = provider.read_table_data(tag::GLYF).map_err(e)?;
        let mut glyf = ReadScope::new(&glyf_data).read_dep::<GlyfTable<'_>>(&loca).map_err(e)?;
        for g in 0..n {
            if glyf.visit(g, &mut NullSink(0)).is_ok() {
                outlines += 1;
            }
        }
    } else if provider.has_table(tag::CFF) {
        let d = provider.read_table_data(tag::CFF).map_err(e)?;
        let mut cff = ReadScope::new(&d).read::<CFF<'_>>().map_err(e)?;
        for g in 0..n {
            if cff.visit(g, &mut NullSink(0)).is_ok() {
                outlines += 1;
            }
        }
    } else if provider.has_table(tag::CFF2) {
        let d = provider.read_table_data(tag::CFF2).map_err(e)?;
        let cff2 = ReadScope::new(&d).read::<CFF2<'_>>().map_err(e)?;
        let mut o = CFF2Outlines { table: &cff2, tuple: None };
        for g in 0..n {
            if o.visit(g, &mut NullSink(0)).is_ok() {
                outlines += 1;
            }
        }
    } else {
        outlines = n as i64;
    }
    let mut advances = 0i64;
    if provider.has_table(tag::CMAP) {
        let mut font = Font::new(provider).map_err(e)?;
        for g in 0..n {
            if font.horizontal_advance(g).is_some() {
                advances += 1;
            }
        }
    } else {
        // a subset written without cmap (prince "omit"): Font::new needs a cmap, the tables do not
        let hhea = ReadScope::new(&provider.read_table_data(tag::HHEA).map_err(e)?).read::<HheaTable>().map_err(e)?;
        let hd = provider.read_table_data(tag::HMTX).map_err(e)?;
        let hmtx = ReadScope::new(&hd).read_dep::<HmtxTable<'_>>((usize::from(n), usize::from(hhea.num_h_metrics))).map_err(e)?;
        for g in 0..n {
            if hmtx.horizontal_advance(g).is_ok() {
                advances += 1;
            }
        }
    }
    Ok((advances, outlines))
}

fn reload_value(r: Outcome<Result<(i64, i64), String>>) -> Value {
    match r {
        Outcome::Returned(Ok((a, o))) => json!({"tried": true, "ok": true, "advances": a, "outlines": o, "why": ""}),
        Outcome::Returned(Err(e)) => json!({"tried": true, "ok": false, "advances": -1, "outlines": -1, "why": e}),
        Outcome::Panicked(m) => json!({"tried": true, "ok": false, "advances": -1, "outlines": -1, "why": format!("Panic: {}", m)}),
    }
}

fn reload_sfnt(bytes: &[u8]) -> Value {
    reload_value(guarded(|| -> Result<(i64, i64), String> {
        let fd = ReadScope::new(bytes).read::<FontData<'_>>().map_err(|e| format!("{:?}", e))?;
        let provider = fd.table_provider(0).map_err(|e| format!("{:?}", e))?;
        reload_provider(provider)
    }))
}

fn no_reload() -> Value {
    json!({"tried": false, "ok": false, "advances": -1, "outlines": -1, "why": ""})
}

/// What the independent readers measured on the SOURCE of an operation (for relative facts and
/// for the coverage counters).
#[derive(Clone, Default)]
struct SrcFacts {
    kind: String,
    features: BTreeSet<String>,
    /// head.flags bit 1 set and every outlined glyph has lsb = xMin
    lsb_clean: bool,
    composites: Vec<u16>,
    layouts: Vec<glyphs::Layout>,
    /// the derived-maximum fields of the source and what they are derived from (derive.rs)
    derived: Vec<derive::Measured>,
    /// the source's own vhea / vmtx / maxp and post 2.0 / maxp agree (so a copy can be held to it)
    vmtx_ok: bool,
    post_ok: bool,
}

fn comp_features(l: &glyphs::Layout, f: &mut BTreeSet<String>) {
    if l.kind != "composite" || !l.ok {
        return;
    }
    if l.flags.len() > 1 {
        f.insert("comp:multi".into());
    }
    if l.instr >= 0 {
        f.insert("comp:instr".into());
    }
    for &fl in &l.flags {
        f.insert(format!("comp:{}-{}", if fl & 1 != 0 { "word" } else { "byte" }, if fl & 2 != 0 { "xy" } else { "pt" }));
        f.insert(
            if fl & 0x08 != 0 {
                "comp:scale"
            } else if fl & 0x40 != 0 {
                "comp:xyscale"
            } else if fl & 0x80 != 0 {
                "comp:2x2"
            } else {
                "comp:plain"
            }
            .into(),
        );
    }
}

/// Features of a table set measured by the independent readers only.
fn measure(get: &dyn Fn(&str) -> Option<Vec<u8>>) -> SrcFacts {
    let mut s = SrcFacts::default();
    let n = get("maxp").and_then(|m| be16(&m, 4)).unwrap_or(0) as usize;
    let nhm = get("hhea").and_then(|h| be16(&h, 34)).unwrap_or(0) as usize;
    let head = get("head");
    let long = head.as_ref().and_then(|h| be16(h, 50)).unwrap_or(0) == 1;
    let bit1 = head.as_ref().and_then(|h| be16(h, 16)).map(|f| f & 2 != 0).unwrap_or(false);
    s.kind = if get("glyf").is_some() {
        "glyf"
    } else if get("CFF ").is_some() {
        "cff"
    } else if get("CFF2").is_some() {
        "cff2"
    } else {
        "none"
    }
    .into();
    s.features.insert(format!("kind:{}", s.kind));
    if get("fvar").is_some() {
        s.features.insert("var:fvar".into());
    }
    if n > 0 && nhm < n {
        s.features.insert("nhm<n".into());
    }
    if n > 300 {
        s.features.insert("glyphs>300".into());
    }
    if let (Some(glyf), Some(loca)) = (get("glyf"), get("loca")) {
        s.features.insert(if long { "loca:long" } else { "loca:short" }.into());
        if let Some(w) = glyphs::walk_glyf(&glyf, &loca, long, n) {
            for (g, l) in w.layouts.iter().enumerate() {
                comp_features(l, &mut s.features);
                if l.kind == "composite" {
                    s.composites.push(g as u16);
                }
            }
            if let Some(m) = get("hmtx").and_then(|h| glyphs::read_hmtx(&h, n, nhm)) {
                s.lsb_clean = bit1 && glyphs::lsb_mismatches(&w, &m) == 0;
                if s.lsb_clean {
                    s.features.insert("lsb=xMin".into());
                }
            }
            s.layouts = w.layouts;
        }
    }
    s.derived = derive::measure(get, if s.kind == "glyf" && !s.layouts.is_empty() { Some(&s.layouts) } else { None });
    let c = derive::counts(get);
    let (nvm, vlen, pn) = (c["nVM"].as_i64().unwrap_or(-1), c["vmtxLen"].as_i64().unwrap_or(-1), c["postNumGlyphs"].as_i64().unwrap_or(-1));
    s.vmtx_ok = nvm >= 0 && nvm <= n as i64 && vlen >= 4 * nvm + 2 * (n as i64 - nvm);
    s.post_ok = pn == n as i64;
    s
}

/// Cross-table facts of a table set: vh::proj::cross_facts + one layout class per distinct glyph
/// record shape + the lsb / xMin relation that head.flags bit 1 announces.
fn cross_of(get: &dyn Fn(&str) -> Option<Vec<u8>>, built: (bool, bool, bool), src_lsb_clean: bool, op: &str, src: Option<&SrcFacts>) -> (Value, Vec<glyphs::Layout>) {
    let mut x = cross_facts(get);
    let n = x["numGlyphs"].as_i64().unwrap_or(-1);
    let nhm = x["nHM"].as_i64().unwrap_or(-1);
    let long = x["locFormat"].as_i64() == Some(1);
    let mut classes: Vec<Value> = vec![];
    let mut walked = false;
    let mut lsb_mismatch: i64 = -1;
    let mut layouts = vec![];
    if let (Some(glyf), Some(loca), true) = (get("glyf"), get("loca"), n >= 0) {
        if let Some(w) = glyphs::walk_glyf(&glyf, &loca, long, n as usize) {
            walked = true;
            classes = glyphs::classes(&w.layouts);
            if let (Some(h), true) = (get("hmtx"), nhm >= 0) {
                if let Some(m) = glyphs::read_hmtx(&h, n as usize, nhm as usize) {
                    lsb_mismatch = glyphs::lsb_mismatches(&w, &m) as i64;
                }
            }
            layouts = w.layouts;
        }
    }
    let bit1 = get("head").and_then(|h| be16(&h, 16)).map(|f| f & 2 != 0).unwrap_or(false);
    x["glyphClasses"] = json!(classes);
    x["glyfWalked"] = json!(walked);
    x["headLsbBit"] = json!(bit1);
    x["lsbMismatch"] = json!(lsb_mismatch);
    x["srcLsbClean"] = json!(src_lsb_clean);
    // a cmap is serialised by the library only in a subset (prince::subset included); its raw structure is handed over
    // for those (copied cmap tables can hold tens of thousands of entries and are the source's business)
    let built_cmap = op == "subset";
    x["built"] = json!({"hmtx": built.0, "loca": built.1, "glyf": built.2, "cmap": built_cmap});
    x["cmapw"] = match get("cmap") {
        Some(c) if built_cmap => cmapw::walk_cmap(&c),
        _ => cmapw::no_cmap(),
    };
    x["reload"] = no_reload();
    // derived maxima / minima against what they are derived from, on the output and on the source
    x["op"] = json!(op);
    let d = derive::measure(get, if walked { Some(&layouts) } else { None });
    x["derived"] = derive::to_json(&d, src.map(|s| s.derived.as_slice()));
    x["counts"] = derive::counts(get);
    x["counts"]["srcVmtxOk"] = json!(src.map(|s| s.vmtx_ok).unwrap_or(false));
    x["counts"]["srcPostOk"] = json!(src.map(|s| s.post_ok).unwrap_or(false));
    // the structure of the CFF table, followed by the independent reader
    x["cffw"] = match get("CFF ") {
        Some(c) => cffb::walk_cff(&c).facts,
        None => cffb::no_cff(),
    };
    // what the harness prescribed for the collection member / table set this came from (filled in by the caller)
    x["member"] = coll::no_member();
    (x, layouts)
}

fn sfnt_getter(bytes: &[u8]) -> impl Fn(&str) -> Option<Vec<u8>> + '_ {
    let dir = vh::fontgen::read_sfnt_dir(bytes, 0);
    move |t: &str| -> Option<Vec<u8>> {
        let dir = dir.as_ref()?;
        vh::fontgen::table_bytes(bytes, dir, t).map(|b| b.to_vec())
    }
}

struct Rec {
    w: NdWriter,
    i: u64,
    refused: usize,
    panics: Vec<String>,
    ops: BTreeMap<String, usize>,
    /// vacuity counters: how often each family of behaviour was exercised by a judged output
    fam: BTreeMap<String, usize>,
    /// the prescribed facts of the collection member whose provider the next operations are run on
    cur_member: Option<coll::Want>,
    /// when `keep` is set: (operation, bytes) of the last font a writing operation returned, as the input of a
    /// further operation (multi-step sequences)
    keep: bool,
    last: Option<(String, Vec<u8>)>,
}
impl Rec {
    fn new(out: &str) -> Rec {
        Rec { w: NdWriter::create(out), i: 0, refused: 0, panics: vec![], ops: BTreeMap::new(), fam: BTreeMap::new(), cur_member: None,
              keep: false, last: None }
    }
    fn bump(&mut self, k: &str) {
        *self.fam.entry(k.to_string()).or_default() += 1;
    }
    fn op(&mut self, k: &str) {
        *self.ops.entry(k.to_string()).or_default() += 1;
    }

    /// Bytes some writing operation returned as a whole font.
    fn written(&mut self, case: &str, op: &str, args: Value, bytes: &[u8], reload: bool, src: Option<&SrcFacts>) -> Vec<glyphs::Layout> {
        self.i += 1;
        let built = op == "subset" || op == "instance";
        if self.keep {
            self.last = Some((op.to_string(), bytes.to_vec()));
        }
        match project_sfnt(bytes) {
            Some(p) => {
                let get = sfnt_getter(bytes);
                // subset copies glyph records it does not have to renumber; instance re-serialises all
                let lsb_rel = op == "subset" && src.map(|s| s.lsb_clean).unwrap_or(false);
                let (mut x, layouts) = cross_of(&get, (built, built, op == "instance"), lsb_rel, op, src);
                let can = ["maxp", "hhea", "hmtx", "head"].iter().all(|t| get(t).is_some());
                if reload && can {
                    x["reload"] = reload_sfnt(bytes);
                }
                if let Some(w) = self.cur_member.clone() {
                    let w = &w;
                    let tags: Vec<String> = vh::fontgen::read_sfnt_dir(bytes, 0).map(|d| d.records.iter().map(|r| tag_str(r.0)).collect()).unwrap_or_default();
                    // whole_font hands tables on unchanged (glyf / loca / head / maxp are re-serialised): identities too
                    x["member"] = coll::member_json(w, &get, &tags, op == "whole_font");
                    self.bump(&format!("coll.{}.{}.judged", w.container, op));
                    if w.index > 0 {
                        self.bump(&format!("coll.{}.{}.member>0.judged", w.container, op));
                    }
                }
                if built {
                    self.count_output(op, &x, &layouts, src);
                }
                self.w.write(&json!({"i": self.i, "case": case, "ev": "Written", "a": {"op": op, "args": args}, "o": {"sfnt": p, "cross": x}}));
                layouts
            }
            None => {
                self.w.write(&json!({"i": self.i, "case": case, "ev": "Unreadable", "a": {"op": op, "args": args}, "o": {}}));
                vec![]
            }
        }
    }

    /// A table set that is not a file (WOFF2 reconstruction, the bare CFF table of prince::subset).
    fn tables(&mut self, case: &str, op: &str, args: Value, x: Value) {
        self.i += 1;
        self.w.write(&json!({"i": self.i, "case": case, "ev": "Tables", "a": {"op": op, "args": args}, "o": {"cross": x}}));
    }

    fn count_output(&mut self, op: &str, x: &Value, layouts: &[glyphs::Layout], src: Option<&SrcFacts>) {
        let mut f = BTreeSet::new();
        for l in layouts {
            comp_features(l, &mut f);
        }
        if x["has"]["glyf"] == json!(true) {
            f.insert(if x["locFormat"] == json!(1) { "loca:long" } else { "loca:short" }.to_string());
        }
        if x["has"]["cff"] == json!(true) {
            f.insert("out:cff".into());
            f.insert(format!("out:cff-charset:{}", x["cffw"]["charset"].as_str().unwrap_or("?")));
            if x["cffw"]["fdCount"].as_i64().unwrap_or(-1) >= 0 {
                f.insert("out:cff-cid".into());
            }
            for i in x["cffw"]["indexes"].as_array().map(|a| a.as_slice()).unwrap_or(&[]) {
                let dl = i["dataLen"].as_i64().unwrap_or(-1);
                if [254, 255, 256, 65534, 65535, 65536].contains(&dl) {
                    let nm = i["name"].as_str().unwrap_or("?").trim_end_matches(|c: char| c.is_ascii_digit());
                    f.insert(format!("out:cff-index.{}.data={}", nm, dl));
                }
            }
        }
        if x["built"]["cmap"] == json!(true) && x["cmapw"]["walked"] == json!(true) {
            for c in cmapw::classes(&x["cmapw"]) {
                f.insert(format!("out:cmap.{}", c));
            }
        }
        for d in x["derived"].as_array().map(|a| a.as_slice()).unwrap_or(&[]) {
            if d["has"] == json!(true) {
                let nm = d["name"].as_str().unwrap_or("?");
                f.insert(format!("derived:{}", nm));
                if d["srcHas"] == json!(true) {
                    let (o, sm) = (d["measured"].as_i64().unwrap_or(0), d["srcMeasured"].as_i64().unwrap_or(0));
                    f.insert(format!("derived:{}:{}", nm, if o < sm { "smaller-than-source" } else if o > sm { "larger-than-source" } else { "as-source" }));
                }
            }
        }
        if let Some(s) = src {
            f.insert(format!("src:{}", s.kind));
            for k in ["nhm<n", "lsb=xMin", "kind:cff-cid"] {
                if s.features.contains(k) {
                    f.insert(format!("src:{}", k));
                }
            }
        }
        for k in f {
            self.bump(&format!("{}.{}", op, k));
        }
    }
}

fn replay(cases: &str, out: &str) {
    let cases = read_ndjson(cases);
    let mut rec = Rec::new(out);
    for (ci, case) in cases.iter().enumerate() {
        let adds: Vec<(u32, Vec<u8>)> = case["adds"]
            .as_array()
            .unwrap()
            .iter()
            .map(|a| {
                let t = a["tag"].as_array().unwrap();
                let tag = ((t[0].as_u64().unwrap() as u32) << 16) | t[1].as_u64().unwrap() as u32;
                (tag, a["body"].as_array().unwrap().iter().map(|b| b.as_u64().unwrap() as u8).collect())
            })
            .collect();
        // FontBuilder is crate-private; whole_font() drives it with one add_table per requested tag
        // (in the order of `tags`), then maxp and head, so a table provider over the TLC-chosen
        // tables reaches the same code.
        let r = guarded(|| -> Result<Vec<u8>, String> {
            let mut prov = MapProvider { tables: TableMap::new() };
            let mut tags = Vec::new();
            for (tag, body) in &adds {
                prov.tables.insert(*tag, body.clone());
                tags.push(*tag);
            }
            prov.tables.insert(tag::HEAD, vh::fontgen::head(1000, false, (0, 0, 10, 10)));
            prov.tables.insert(tag::MAXP, vh::fontgen::maxp_cff(1));
            whole_font(&prov, &tags).map_err(|e| format!("{:?}", e))
        });
        match r {
            Outcome::Returned(Ok(bytes)) => {
                rec.written(&format!("g{}", ci), "builder", case["adds"].clone(), &bytes, false, None);
            }
            Outcome::Returned(Err(_)) => rec.refused += 1,
            Outcome::Panicked(m) => rec.panics.push(m),
        }
    }
    let n = rec.w.n;
    rec.w.finish();
    println!("{}", json!({"cases": cases.len(), "events": n, "refused": rec.refused, "panics": rec.panics.len(),
                          "panic_samples": rec.panics.iter().take(3).collect::<Vec<_>>()}));
}

// ---------------------------------------------------------------------------------------------
// operations
// ---------------------------------------------------------------------------------------------

fn do_whole_font(rec: &mut Rec, case: &str, name: &str, provider: &impl FontTableProvider, sel: &[u32]) {
    let r = guarded(|| whole_font(provider, sel));
    let args = json!({"font": name, "tags": sel.iter().map(|t| tag_str(*t)).collect::<Vec<_>>()});
    match r {
        Outcome::Returned(Ok(bytes)) => {
            rec.written(case, "whole_font", args, &bytes, true, None);
            rec.op("whole_font");
        }
        Outcome::Returned(Err(_)) => rec.refused += 1,
        Outcome::Panicked(m) => rec.panics.push(format!("whole_font {}: {}", name, m)),
    }
}

fn do_subset(rec: &mut Rec, case: &str, name: &str, provider: &impl FontTableProvider, ids: &[u16], api: &str, src: &SrcFacts) {
    let args = json!({"font": name, "api": api, "n_ids": ids.len(), "ids_head": ids.iter().take(12).collect::<Vec<_>>()});
    let r = guarded(|| match api {
        "subset" => subset(provider, ids),
        "prince:macroman" => prince::subset(provider, ids, PrinceCmapTarget::MacRoman, true),
        "prince:omit" => prince::subset(provider, ids, PrinceCmapTarget::Omit, false),
        "prince:supplied" => {
            let mut m = Box::new([0u8; 256]);
            for (k, _) in ids.iter().enumerate().take(200) {
                m[32 + k % 200] = k as u8;
            }
            prince::subset(provider, ids, PrinceCmapTarget::MacRomanCmap(m), true)
        }
        "prince:unrestricted:cid" => prince::subset(provider, ids, PrinceCmapTarget::Unrestricted, true),
        _ => prince::subset(provider, ids, PrinceCmapTarget::Unrestricted, false),
    });
    match r {
        Outcome::Returned(Ok(bytes)) => {
            if api.starts_with("prince") && src.kind != "glyf" {
                // prince::subset of a CFF / CFF2 source returns the bare CFF table, not a font: the
                // only other "table" it has to agree with is the glyph list it was given
                let cff = bytes.clone();
                let n_ids = ids.len() as u16;
                let get = move |t: &str| -> Option<Vec<u8>> {
                    match t {
                        "CFF " => Some(cff.clone()),
                        "maxp" => Some(vh::fontgen::maxp_cff(n_ids)),
                        _ => None,
                    }
                };
                let (mut x, _) = cross_of(&get, (false, false, false), false, "prince-cff", None);
                // advances cannot be asked of a bare CFF table: outlines only
                x["reload"] = reload_value(guarded(|| -> Result<(i64, i64), String> {
                    let mut cff = ReadScope::new(&bytes).read::<CFF<'_>>().map_err(|e| format!("{:?}", e))?;
                    let mut o = 0i64;
                    for g in 0..n_ids {
                        if cff.visit(g, &mut NullSink(0)).is_ok() {
                            o += 1;
                        }
                    }
                    Ok((n_ids as i64, o))
                }));
                rec.bump(&format!("prince-cff.src:{}", src.kind));
                rec.tables(case, "prince-cff", args, x);
                rec.op("prince-cff");
            } else {
                rec.written(case, "subset", args, &bytes, true, Some(src));
                rec.op(if api == "subset" { "subset" } else { "prince-subset" });
            }
        }
        Outcome::Returned(Err(_)) => rec.refused += 1,
        Outcome::Panicked(m) => rec.panics.push(format!("{} {}: {}", api, name, m)),
    }
}

/// Compare the component arguments of source and instance (independent reader on both sides):
/// which argument-width transitions did this instance exercise?
fn count_var(rec: &mut Rec, src: &[glyphs::Layout], out: &[glyphs::Layout]) {
    let fits = |v: i32| (-128..=127).contains(&v);
    for (s, o) in src.iter().zip(out.iter()) {
        if s.kind != "composite" || !s.ok || o.kind != "composite" || !o.ok || s.comps.len() != o.comps.len() {
            continue;
        }
        for (cs, co) in s.comps.iter().zip(o.comps.iter()) {
            if cs.0 & 2 == 0 {
                rec.bump("var.component.point-matching");
                continue;
            }
            let changed = cs.2 != co.2 || cs.3 != co.3;
            if !changed {
                rec.bump("var.component.unchanged");
                continue;
            }
            rec.bump("var.component.varied");
            if cs.0 & 1 == 0 {
                match (fits(co.2), fits(co.3)) {
                    (true, true) => rec.bump("var.byte.stays-in-byte-range"),
                    (false, true) => rec.bump("var.byte.x-only-leaves-byte-range"),
                    (true, false) => rec.bump("var.byte.y-only-leaves-byte-range"),
                    (false, false) => rec.bump("var.byte.both-leave-byte-range"),
                }
            } else if fits(co.2) && fits(co.3) {
                rec.bump("var.word.comes-into-byte-range");
            } else {
                rec.bump("var.word.stays-word");
            }
            if co.0 & 0x08 != 0 || co.0 & 0x40 != 0 || co.0 & 0x80 != 0 {
                rec.bump("var.component.varied.transformed");
            }
        }
        if s.comps.len() > 1 {
            rec.bump("var.glyph.multi-component");
        }
    }
}

fn do_instance(rec: &mut Rec, case: &str, name: &str, provider: &impl FontTableProvider, tuple: &[Fixed], src: &SrcFacts) -> bool {
    let r = guarded(|| allsorts::variations::instance(provider, tuple));
    let args = json!({"font": name, "coords": tuple.iter().map(|f| f32::from(*f)).collect::<Vec<_>>()});
    match r {
        Outcome::Returned(Ok((bytes, _))) => {
            let out = rec.written(case, "instance", args, &bytes, true, Some(src));
            count_var(rec, &src.layouts, &out);
            rec.op("instance");
            true
        }
        Outcome::Returned(Err(_)) => {
            rec.refused += 1;
            false
        }
        Outcome::Panicked(m) => {
            rec.panics.push(format!("instance {}: {}", name, m));
            false
        }
    }
}

/// hmtx bit 0x10 selects the second set of encoder choices (other triplet / 255UInt16 forms, explicit
/// bounding boxes, table order by tag, explicit tags, small brotli blocks).
fn enc_choices(hmtx: u8) -> enc::Choices {
    let alt = hmtx & 0x10 != 0;
    enc::Choices {
        glyf: 0,
        hmtx: hmtx & 3,
        trip: if alt { "max" } else { "ref" }.into(),
        u16p: if alt { "word" } else { "short" }.into(),
        bbox: if alt { "all" } else { "needed" }.into(),
        order: if alt { "bytag" } else { "asis" }.into(),
        tags: if alt { "explicit" } else { "known" }.into(),
        overlap: alt,
        chunk: if alt { 4096 } else { 1 << 16 },
    }
}

struct W2Result {
    rebuilt_glyf: usize,
    src_long: bool,
    out_long: bool,
    transformed: bool,
}

/// Encode `tables` as WOFF2 with the harness's encoder, let allsorts reconstruct the table set,
/// project it. Returns what was measured (None when allsorts refuses the file).
fn do_woff2(rec: &mut Rec, case: &str, name: &str, tables: &[(u32, Vec<u8>)], hmtx: u8, src: &SrcFacts, rng: &mut StdRng, then_subset: bool) -> Option<W2Result> {
    let srcfont = enc::SrcFont { flavor: 0x00010000, tables: tables.to_vec() };
    let e = enc::encode_woff2(&[srcfont], &enc_choices(hmtx), rng);
    let info = &e.fonts[0];
    let bytes = &e.bytes;
    let r = guarded(|| -> Result<TableMap, String> {
        let fd = ReadScope::new(bytes).read::<FontData<'_>>().map_err(|e| format!("{:?}", e))?;
        let p = fd.table_provider(0).map_err(|e| format!("{:?}", e))?;
        Ok(tables_of(&p))
    });
    let args = json!({"font": name, "glyf_transformed": info.glyf_transformed, "hmtx_flags": info.hmtx_flags, "note": info.note});
    match r {
        Outcome::Returned(Ok(tm)) => {
            let get = |t: &str| tm.get(&tag_u32(t)).cloned();
            let tr = info.glyf_transformed;
            let (mut x, _) = cross_of(&get, (info.hmtx_flags != 0, tr, tr), tr && src.lsb_clean, "woff2", Some(src));
            let prov = MapProvider { tables: tm.clone() };
            x["reload"] = reload_value(guarded(|| reload_provider(prov.clone())));
            let res = W2Result {
                rebuilt_glyf: tm.get(&tag::GLYF).map(|g| g.len()).unwrap_or(0),
                src_long: info.src_loca_long,
                out_long: x["locFormat"] == json!(1),
                transformed: tr,
            };
            rec.tables(case, "woff2", args, x);
            rec.op("woff2-tables");
            if tr {
                let cls = if res.rebuilt_glyf < 131070 {
                    "<131070"
                } else if res.rebuilt_glyf == 131070 {
                    "=131070"
                } else if res.rebuilt_glyf == 131072 {
                    "=131072"
                } else {
                    ">131072"
                };
                rec.bump(&format!("woff2.rebuilt-glyf{}.source-{}", cls, if res.src_long { "long" } else { "short" }));
                if !res.src_long {
                    rec.bump(if res.out_long { "woff2.short-source.head-upgraded-to-long" } else { "woff2.short-source.head-stays-short" });
                }
            } else {
                rec.bump("woff2.glyf-not-transformed");
            }
            if then_subset {
                // the reconstructed provider as the source of further writing operations
                let n = be16(tm.get(&tag::MAXP).map(|v| v.as_slice()).unwrap_or(&[]), 4).unwrap_or(0);
                let mut ids: Vec<u16> = (0..n.min(6)).collect();
                ids.extend(src.composites.iter().filter(|g| **g >= 6).take(10));
                if n > 8 {
                    ids.push(n - 2);
                }
                ids.dedup();
                let s2 = measure(&get);
                do_subset(rec, &format!("{}/subset", case), name, &prov, &ids, "subset", &s2);
                let tags: Vec<u32> = tm.keys().cloned().collect();
                do_whole_font(rec, &format!("{}/whole", case), name, &prov, &tags);
            }
            Some(res)
        }
        Outcome::Returned(Err(_)) => {
            rec.refused += 1;
            None
        }
        Outcome::Panicked(m) => {
            rec.panics.push(format!("woff2 {}: {}", name, m));
            None
        }
    }
}

fn named(t: &synth::Tables) -> Vec<(u32, Vec<u8>)> {
    t.iter().map(|(k, v)| (tag_u32(k), v.clone())).collect()
}

fn getter_of(t: &synth::Tables) -> impl Fn(&str) -> Option<Vec<u8>> + '_ {
    move |k: &str| t.iter().find(|x| x.0 == k).map(|x| x.1.clone())
}

/// The synthesized families. Everything here runs in every tier.
fn record_synth(rec: &mut Rec, rng: &mut StdRng, deep: bool) {
    // ---- shapes -------------------------------------------------------------------------------
    for (long, style) in [(false, 0u8), (true, 1u8)] {
        let t = synth::shapes_font(long, style);
        let name = format!("synth-shapes-{}", if long { "long" } else { "short" });
        let src = measure(&getter_of(&t));
        let prov = MapProvider { tables: named(&t).into_iter().collect() };
        let n = be16(&prov.tables[&tag::MAXP], 4).unwrap();
        let tags: Vec<u32> = prov.tables.keys().cloned().collect();
        do_whole_font(rec, &format!("{}/whole", name), &name, &prov, &tags);
        let all: Vec<u16> = (0..n).collect();
        let mut rev: Vec<u16> = (1..n).rev().collect();
        rev.insert(0, 0);
        let mut comps = vec![0u16];
        comps.extend(src.composites.iter());
        let mut lists: Vec<Vec<u16>> = vec![vec![0], all, rev, comps, vec![0, 12], vec![0, 10, 9, 8, 7, 6, 5, 4, 3]];
        for _ in 0..2 {
            let mut pool: Vec<u16> = (1..n).collect();
            pool.shuffle(rng);
            let mut l = vec![0u16];
            l.extend(pool.iter().take(rng.gen_range(1..n as usize)));
            lists.push(l);
        }
        for (li, ids) in lists.iter().enumerate() {
            rec.keep = li == 2 || li == 3;
            rec.last = None;
            do_subset(rec, &format!("{}/subset{}", name, li), &name, &prov, ids, "subset", &src);
            if rec.keep {
                // the subset (all glyphs reversed / composites first) as the source of a further subset
                rec.bump("chain.plan.shapes-subset>subset");
                chain_from_last(rec, &format!("{}/subset{}", name, li), &name);
            }
            rec.keep = false;
        }
        for (ai, api) in ["prince:unrestricted", "prince:macroman", "prince:omit", "prince:supplied"].iter().enumerate() {
            do_subset(rec, &format!("{}/{}", name, api), &name, &prov, &lists[(ai + 1) % lists.len()], api, &src);
        }
        // and through WOFF2 (small: head stays short / long source stays long)
        do_woff2(rec, &format!("{}/woff2", name), &name, &named(&t), if long { 0 } else { 1 }, &src, rng, true);
    }
    // ---- var ----------------------------------------------------------------------------------
    for variant in 0..2u8 {
        let t = synth::var_font(variant);
        let name = format!("synth-var-{}", if variant == 1 { "long" } else { "short" });
        let src = measure(&getter_of(&t));
        let prov = MapProvider { tables: named(&t).into_iter().collect() };
        let mut coords: Vec<(f32, f32)> = vec![(0.0, 0.0), (1.0, 0.0), (0.5, 0.0), (0.25, 0.0), (-1.0, 0.0), (0.0, 1.0), (1.0, 1.0), (-1.0, -1.0), (0.47, 0.3)];
        for _ in 0..(if deep { 60 } else { 6 }) {
            coords.push((rng.gen_range(-1.0..=1.0), rng.gen_range(-1.0..=1.0)));
        }
        if deep {
            // a grid over the first axis: every rounding step of the offsets around the byte boundary
            for k in 0..=40 {
                coords.push((k as f32 / 40.0, 0.0));
                coords.push((k as f32 / 40.0, k as f32 / 40.0));
            }
        }
        let mut ok = 0;
        for (ci, c) in coords.iter().enumerate() {
            rec.keep = ci == 1 || ci == 4;
            rec.last = None;
            if do_instance(rec, &format!("{}/instance{}", name, ci), &name, &prov, &[Fixed::from(c.0), Fixed::from(c.1)], &src) {
                ok += 1;
            }
            if rec.keep {
                // the instance (component offsets widened to words, long loca, numberOfHMetrics = numGlyphs) as the
                // source of a subset and of whole_font
                rec.bump("chain.plan.instance>subset");
                chain_from_last(rec, &format!("{}/instance{}", name, ci), &name);
            }
            rec.keep = false;
        }
        if ok > 0 {
            rec.bump("var.synth-fonts-instanced");
        }
        // the same font through subset (composites renumbered, variation tables dropped)
        let mut ids = vec![0u16];
        ids.extend(src.composites.iter().rev());
        do_subset(rec, &format!("{}/subset", name), &name, &prov, &ids, "subset", &src);
    }
    // ---- big ----------------------------------------------------------------------------------
    // 141 glyphs of 200 points: the source glyf is ~ 86 KiB (short loca); allsorts rebuilds simple
    // glyphs with word deltas, ~ 143 KiB. The instruction bytes of the last glyph move the rebuilt
    // size to the exact boundary: measured first with no instructions, then adjusted.
    let probe = |k: usize, p: usize, instr: usize, rng: &mut StdRng| -> Option<usize> {
        let t = synth::big_font(k, p, instr, false);
        let mut scratch = Rec::new("/dev/null");
        let src = SrcFacts::default();
        do_woff2(&mut scratch, "probe", "probe", &named(&t), 0, &src, rng, false).map(|r| r.rebuilt_glyf)
    };
    let mut plans: Vec<(String, usize, usize, usize)> = vec![("small".into(), 20, 60, 0), ("above".into(), 141, 200, 0)];
    // a base that rebuilds to a little below the boundary, then exact fills
    if let Some(l0) = probe(128, 200, 0, rng) {
        let mut targets = vec![("eq131070", 131070usize), ("eq131072", 131072usize), ("below", 131000usize)];
        if deep {
            targets.extend([("eq131068", 131068usize), ("eq131074", 131074), ("eq131076", 131076), ("eq140000", 140000)]);
        }
        for (label, target) in targets {
            if target >= l0 && (target - l0) % 2 == 0 && target - l0 < 60000 {
                plans.push((label.into(), 128, 200, target - l0));
            }
        }
    }
    for (label, k, p, instr) in plans {
        let t = synth::big_font(k, p, instr, false);
        let name = format!("synth-big-{}", label);
        let src = measure(&getter_of(&t));
        do_woff2(rec, &format!("{}/woff2", name), &name, &named(&t), 0, &src, rng, true);
    }
}



// ---------------------------------------------------------------------------------------------
// multi-step sequences: a font one writing operation returned as the input of the next
// ---------------------------------------------------------------------------------------------

/// Take the font the last operation returned (Rec::last), load it through FontData and run `subset` (all glyphs in
/// another order: notdef, then the rest reversed - every composite is renumbered again) and `whole_font` on it. The
/// source facts of the second step are measured by the independent readers on the first step's output.
fn chain_from_last(rec: &mut Rec, case: &str, name: &str) {
    let Some((first, bytes)) = rec.last.take() else { return };
    let keep = rec.keep;
    rec.keep = false;
    let src = measure(&sfnt_getter(&bytes));
    let fd = match guarded(|| ReadScope::new(&bytes).read::<FontData<'_>>().map_err(|e| format!("{:?}", e))) {
        Outcome::Returned(Ok(fd)) => fd,
        _ => {
            rec.refused += 1;
            rec.keep = keep;
            return;
        }
    };
    let provider = match guarded(|| fd.table_provider(0).map_err(|e| format!("{:?}", e))) {
        Outcome::Returned(Ok(p)) => p,
        _ => {
            rec.refused += 1;
            rec.keep = keep;
            return;
        }
    };
    let n = sfnt_getter(&bytes)("maxp").and_then(|m| be16(&m, 4)).unwrap_or(0);
    if n > 0 && src.kind != "none" {
        let mut ids = vec![0u16];
        ids.extend((1..n).rev());
        rec.bump(&format!("chain.{}>subset.requested", first));
        do_subset(rec, &format!("{}+subset", case), &format!("{}>{}", name, first), &provider, &ids, "subset", &src);
    }
    let tags = provider.table_tags().unwrap_or_default();
    rec.bump(&format!("chain.{}>whole_font.requested", first));
    do_whole_font(rec, &format!("{}+whole", case), &format!("{}>{}", name, first), &provider, &tags);
    rec.keep = keep;
}

// ---------------------------------------------------------------------------------------------
// cmapb: subsets whose cmap lands on every structural class of the formats the library emits
// ---------------------------------------------------------------------------------------------

const CMAPB_GLYPHS: usize = 900;

/// (char, glyph) pairs of the format 12 source: ASCII + five other Mac Roman characters (glyphs 1..99), 300 BMP
/// characters 16 apart (100..399), 100 consecutive BMP characters (400..499), 20 consecutive astral (500..519), 20
/// astral 8 apart (520..539), U+FFFD..FFFF (540..542); glyphs 543.. are not encoded.
fn cmapb_pairs() -> Vec<(u32, u16)> {
    let mut p: Vec<(u32, u16)> = vec![];
    for g in 1..=94u32 {
        p.push((0x20 + g, g as u16));
    }
    for (k, c) in [0xC4u32, 0xC5, 0xC7, 0xC9, 0xD1].iter().enumerate() {
        p.push((*c, 95 + k as u16));
    }
    for g in 100..400u32 {
        p.push((0x1000 + 16 * (g - 100), g as u16));
    }
    for g in 400..500u32 {
        p.push((0x3000 + (g - 400), g as u16));
    }
    for g in 540..543u32 {
        p.push((0xFFFD + (g - 540), g as u16));
    }
    for g in 500..520u32 {
        p.push((0x1F600 + (g - 500), g as u16));
    }
    for g in 520..540u32 {
        p.push((0x20000 + 8 * (g - 520), g as u16));
    }
    p.sort();
    p
}

fn cmapb_glyphs(n: usize) -> Vec<glyph::GlyphRec> {
    (0..n).map(|g| synth::simple(&[vec![(0, 0, true), (40 + (g % 9) as i16, 0, true), (0, 30 + (g % 5) as i16, true)]], &[])).collect()
}

fn record_cmapb(rec: &mut Rec, rng: &mut StdRng, deep: bool) {
    let glyphs = cmapb_glyphs(CMAPB_GLYPHS);
    let rev = |a: u16, b: u16| -> Vec<u16> { (a..b).rev().collect() };
    let fwd = |a: u16, b: u16| -> Vec<u16> { (a..b).collect() };
    // ---- source 1: one format 12 subtable (3/10) ------------------------------------------------------------
    {
        let pairs = cmapb_pairs();
        let t = synth::build_tt(&glyphs, false, CMAPB_GLYPHS, 0, &[("cmap", vh::fontgen::cmap_format12(&pairs))]);
        let name = "synth-cmapb-f12";
        let src = measure(&getter_of(&t));
        let prov = MapProvider { tables: named(&t).into_iter().collect() };
        // (plan name, glyph ids after notdef)
        let mut plans: Vec<(String, Vec<u16>)> = vec![
            ("macroman.ascii".into(), fwd(1, 11)),
            ("macroman.all-reversed".into(), rev(1, 100)),
            ("macroman.none-encoded".into(), fwd(543, 548)),
            // only Mac Roman characters kept, but the encoded glyph gets a new id above 255: format 0 cannot hold it
            ("macroman.new-id>255".into(), [fwd(543, 843), vec![1, 2, 97]].concat()),
            ("bmp.dense-in-order".into(), fwd(400, 500)),
            ("bmp.dense-reversed".into(), rev(400, 500)),
            // several glyphIdArray segments between delta segments (the second and later ones address the array
            // past the entries of the earlier ones)
            ("bmp.glyphIdArray-x3+delta".into(), [rev(400, 410), fwd(100, 104), rev(420, 430), fwd(440, 450), rev(460, 466), fwd(200, 202)].concat()),
            ("bmp.holes-1-2-3".into(), vec![400, 402, 405, 409, 410, 414, 415, 416]),
            ("bmp.ascii+sparse".into(), [fwd(1, 30), fwd(100, 110)].concat()),
            ("bmp.touch-fffd-fffe".into(), vec![540, 541]),
            ("bmp.touch-ffff".into(), vec![542]),
            ("bmp.touch-fffd-ffff".into(), vec![540, 541, 542]),
            ("bmp.touch-ffff-reversed".into(), vec![542, 541, 540, 499]),
            ("astral.one-group".into(), fwd(500, 520)),
            ("astral.reversed".into(), rev(500, 520)),
            ("astral.sparse".into(), fwd(520, 540)),
            ("astral.mixed".into(), [fwd(1, 5), fwd(100, 103), rev(410, 415), fwd(500, 503), fwd(520, 523), vec![542]].concat()),
        ];
        // k - 1 glyphs whose characters are 16 apart: k segments with the final one
        let mut ks: Vec<usize> = vec![2, 3, 4, 5, 7, 8, 9, 15, 16, 17, 31, 32, 33, 255, 256, 257];
        if deep {
            ks.extend([6, 10, 63, 64, 65, 127, 128, 129, 200, 300, 301]);
        }
        for k in ks {
            plans.push((format!("bmp.segCount={}", k), fwd(100, 100 + (k as u16 - 1))));
        }
        for _ in 0..(if deep { 40 } else { 6 }) {
            let mut pool: Vec<u16> = (1..543).collect();
            pool.shuffle(rng);
            let k = rng.gen_range(1..120);
            plans.push(("random".into(), pool[..k].to_vec()));
        }
        rec.keep = true;
        for (pi, (plan, rest)) in plans.iter().enumerate() {
            let ids: Vec<u16> = [vec![0u16], rest.clone()].concat();
            let cls = plan.split('=').next().unwrap_or(plan).to_string();
            rec.bump(&format!("cmapb.plan.{}", if cls == "bmp.segCount" { plan.clone() } else { cls }));
            rec.last = None;
            do_subset(rec, &format!("{}/{}#{}", name, plan, pi), name, &prov, &ids, "subset", &src);
            // multi-step: the subset as the source of a further subset and of whole_font (its cmap is read back by
            // the library and rebuilt from it)
            if pi % 3 == 0 || plan.starts_with("bmp.glyphIdArray") || plan.starts_with("macroman.new-id") {
                chain_from_last(rec, &format!("{}/{}#{}", name, plan, pi), name);
            }
            let api = ["prince:unrestricted", "prince:macroman", "prince:supplied"][pi % 3];
            do_subset(rec, &format!("{}/{}#{}/{}", name, plan, pi, api), name, &prov, &ids, api, &src);
        }
        rec.keep = false;
        rec.last = None;
    }
    // ---- source 1b (thorough): 4200 glyphs 8 characters apart - segment counts around the higher powers of two ----
    if deep {
        let n = 4200usize;
        let wide = cmapb_glyphs(n);
        let pairs: Vec<(u32, u16)> = (1..n as u32).map(|g| (0x100 + 8 * g, g as u16)).collect();
        let t = synth::build_tt(&wide, true, 3, 0, &[("cmap", vh::fontgen::cmap_format12(&pairs))]);
        let name = "synth-cmapb-wide";
        let src = measure(&getter_of(&t));
        let prov = MapProvider { tables: named(&t).into_iter().collect() };
        for k in [511u16, 512, 513, 1023, 1024, 1025, 2047, 2048, 2049, 4095, 4096, 4097] {
            let ids: Vec<u16> = (0..k).collect();
            rec.bump(&format!("cmapb.plan.bmp.segCount={}", k));
            do_subset(rec, &format!("{}/segCount={}", name, k), name, &prov, &ids, "subset", &src);
        }
    }
    // ---- source 2: Windows Symbol (3/0) format 4, codes 0xF021 .. 0xF07E -------------------------------------
    {
        let seg = [(0xF021u16, 0xF07Eu16, Some(1u16))];
        let cm = cmapw::cmap_table(&[(3, 0, cmapw::format4_subtable(&seg, &[]))]);
        let t = synth::build_tt(&glyphs[..120], true, 60, 0, &[("cmap", cm), ("OS/2", vh::fontgen::os2_v4(0xF021, 0xF07E))]);
        let name = "synth-cmapb-symbol";
        let src = measure(&getter_of(&t));
        let prov = MapProvider { tables: named(&t).into_iter().collect() };
        for (pi, rest) in [fwd(1, 8), rev(1, 40), vec![5, 9, 10, 11, 60, 3], fwd(95, 100)].iter().enumerate() {
            let ids: Vec<u16> = [vec![0u16], rest.clone()].concat();
            rec.bump("cmapb.plan.symbol-source");
            for api in ["subset", "prince:macroman", "prince:unrestricted"] {
                do_subset(rec, &format!("{}/{}/{}", name, pi, api), name, &prov, &ids, api, &src);
            }
        }
    }
    // ---- source 3: two encoding records (0/3, 3/1) sharing one format 4 subtable that uses the glyphIdArray, and a
    // format 12 subtable (3/10) behind them --------------------------------------------------------------------
    {
        // 0x41..0x4A -> glyphs 10, 9, .. 1 (array), 0x100..0x109 -> 20..29 (delta), 0x200..0x204 -> 40, 0 (hole), 42, 41, 44 (array)
        let segs = [(0x41u16, 0x4Au16, None), (0x100, 0x109, Some(20u16)), (0x200, 0x204, None)];
        let gids: Vec<u16> = [rev(1, 11), vec![40, 0, 42, 41, 44]].concat();
        let f4 = cmapw::format4_subtable(&segs, &gids);
        let mut pairs: Vec<(u32, u16)> = (0..10u32).map(|k| (0x41 + k, 10 - k as u16)).collect();
        pairs.extend((0..10u32).map(|k| (0x100 + k, 20 + k as u16)));
        pairs.extend([(0x200u32, 40u16), (0x202, 42), (0x203, 41), (0x204, 44), (0x1F600, 50), (0x1F601, 51)]);
        let f12 = cmapw::format12_subtable(&pairs);
        // both records of the shared subtable carry the same offset
        let mut cm = cmapw::cmap_table(&[(0, 3, f4.clone()), (3, 1, vec![]), (3, 10, f12)]);
        let off0 = vh::fontgen::be32(&cm, 8).unwrap();
        cm[16..20].copy_from_slice(&off0.to_be_bytes());
        let t = synth::build_tt(&glyphs[..64], false, 10, 0, &[("cmap", cm)]);
        let name = "synth-cmapb-two-subtables";
        let src = measure(&getter_of(&t));
        let prov = MapProvider { tables: named(&t).into_iter().collect() };
        for (pi, rest) in [fwd(1, 11), rev(20, 30), vec![44, 41, 42, 40, 3, 2, 1], vec![50, 51, 1], fwd(1, 52)].iter().enumerate() {
            let ids: Vec<u16> = [vec![0u16], rest.clone()].concat();
            rec.bump("cmapb.plan.two-subtables-source");
            for api in ["subset", "prince:macroman"] {
                do_subset(rec, &format!("{}/{}/{}", name, pi, api), name, &prov, &ids, api, &src);
            }
        }
    }
}

// ---------------------------------------------------------------------------------------------
// collections: every member, judged against its own tables and against what was prescribed for it
// ---------------------------------------------------------------------------------------------

/// Glyph lists for a member with `n` glyphs: everything, composites first (renumbering), the tail
/// past numberOfHMetrics.
fn member_id_lists(n: u16, nhm: u16, src: &SrcFacts) -> Vec<Vec<u16>> {
    let mut lists: Vec<Vec<u16>> = vec![(0..n).collect()];
    let mut c = vec![0u16];
    c.extend(src.composites.iter().rev().filter(|g| **g != 0 && **g < n));
    if c.len() > 1 {
        lists.push(c);
    }
    if nhm < n {
        let mut l = vec![0u16];
        l.extend((nhm.max(1)..n).rev());
        lists.push(l);
    } else if n > 2 {
        lists.push(vec![0, n - 1, 1]);
    }
    lists
}

/// Differences between member `i` and member 0 that a reader using member 0's table would trip over.
/// Counted from the plan (harness inputs) when the member is REQUESTED.
fn count_member_request(rec: &mut Rec, kind: &str, i: usize, w0: &coll::Want, wi: &coll::Want, hmtx_transformed: bool, glyf_transformed: bool) {
    rec.bump(&format!("coll.{}.member-requested", kind));
    if i == 0 {
        return;
    }
    rec.bump(&format!("coll.{}.member>0-requested", kind));
    if wi.nhm != w0.nhm {
        rec.bump(&format!("coll.{}.member>0.nhm-differs", kind));
        if hmtx_transformed {
            rec.bump(&format!("coll.{}.member>0.nhm-differs+hmtx-transformed", kind));
            rec.bump(&format!("coll.{}.member>0.nhm-{}-than-member0+hmtx-transformed", kind, if wi.nhm > w0.nhm { "larger" } else { "smaller" }));
        }
    }
    if wi.num_glyphs != w0.num_glyphs {
        rec.bump(&format!("coll.{}.member>0.numGlyphs-differs", kind));
        rec.bump(&format!("coll.{}.member>0.numGlyphs-{}-than-member0", kind, if wi.num_glyphs > w0.num_glyphs { "larger" } else { "smaller" }));
    }
    if wi.loc_format != w0.loc_format {
        rec.bump(&format!("coll.{}.member>0.locFormat-differs", kind));
    }
    if wi.upem != w0.upem {
        rec.bump(&format!("coll.{}.member>0.upem-differs", kind));
    }
    if kind == "woff2" {
        rec.bump(&format!("coll.woff2.member>0.glyf-{}", if glyf_transformed { "transformed" } else { "plain" }));
        rec.bump(&format!("coll.woff2.member>0.hmtx-{}", if hmtx_transformed { "transformed" } else { "plain" }));
    }
}

/// Asking for the member one past the end must not yield a font. An error (or a panic, which is C01's to
/// report) produces no event; a provider that IS handed out is recorded and judged (NoSuchMember).
fn request_past_the_end(rec: &mut Rec, kind: &str, case: &str, bytes: &[u8], n: usize) {
    rec.bump(&format!("coll.{}.past-the-end-requested", kind));
    let r = guarded(|| -> Result<usize, String> {
        let fd = ReadScope::new(bytes).read::<FontData<'_>>().map_err(|e| format!("{:?}", e))?;
        let p = fd.table_provider(n).map_err(|e| format!("{:?}", e))?;
        Ok(p.table_tags().map(|t| t.len()).unwrap_or(0))
    });
    match r {
        Outcome::Returned(Ok(tables)) => {
            rec.i += 1;
            let ev = json!({"i": rec.i, "case": case, "ev": "NoSuchMember",
                            "a": {"op": "table_provider", "args": {"container": kind, "members": n, "index": n, "tables": tables}}, "o": {}});
            rec.w.write(&ev);
        }
        Outcome::Returned(Err(_)) => rec.bump(&format!("coll.{}.past-the-end-refused", kind)),
        Outcome::Panicked(m) => {
            rec.bump(&format!("coll.{}.past-the-end-panicked", kind));
            rec.panics.push(format!("table_provider({}) of a {} collection with {} members: {}", n, kind, n, m));
        }
    }
}

fn record_collections(rec: &mut Rec, rng: &mut StdRng, deep: bool) {
    let glyf_t = tag::GLYF;
    let hmtx_t = tag::HMTX;
    // ---- WOFF2 collections ------------------------------------------------------------------------
    for plan in coll::woff2_plans(rng, if deep { 24 } else { 3 }) {
        let members: Vec<enc::Member> = plan
            .members
            .iter()
            .map(|m| {
                let mut ch = enc_choices(if plan.alt == 1 { 0x10 } else { 0 } | if m.hmtx_tr { 1 } else { 0 });
                ch.glyf = if m.glyf_tr { 0 } else { 3 };
                enc::Member { src: enc::SrcFont { flavor: m.flavor, tables: named(&m.tables) }, ch, share: m.share, idx_order: m.idx_order }
            })
            .collect();
        let e = enc::encode_woff2_members(&members, true, rng);
        let n = plan.members.len();
        let wants: Vec<coll::Want> = plan.members.iter().enumerate().map(|(i, m)| coll::Want::of("woff2-collection", i as i64, n as i64, &m.tables, &[])).collect();
        if n == 1 {
            rec.bump("coll.woff2.single-member-collection");
        }
        let dir_index = |i: usize, t: u32| e.font_idx[i].iter().find(|k| e.entries[**k as usize].0 == t).cloned();
        for i in 0..n {
            let m = &plan.members[i];
            let info = &e.fonts[i];
            let case = format!("{}/member{}", plan.name, i);
            let name = format!("{}[{}]={}", plan.name, i, m.label);
            let tr = info.glyf_transformed;
            let htr = info.hmtx_flags != 0;
            count_member_request(rec, "woff2", i, &wants[0], &wants[i], htr, tr);
            rec.bump(&format!("coll.woff2.idx-order:{}", m.idx_order));
            // shared / private tables, read off the collection directory the encoder wrote
            for j in 0..i {
                let same = |t: u32| dir_index(i, t).is_some() && dir_index(i, t) == dir_index(j, t);
                if same(glyf_t) && !same(hmtx_t) {
                    rec.bump("coll.woff2.member>0.shared-glyf.private-hmtx");
                    if htr {
                        rec.bump("coll.woff2.member>0.shared-glyf.private-transformed-hmtx");
                    }
                }
                if same(tag::HEAD) && same(tag::MAXP) && !same(tag::HHEA) {
                    rec.bump("coll.woff2.member>0.shared-head-maxp.private-hhea");
                }
                if e.font_idx[i].iter().all(|k| e.font_idx[j].contains(k)) && e.font_idx[i].len() == e.font_idx[j].len() {
                    rec.bump("coll.woff2.member>0.fully-shared");
                }
            }
            if i > 0 && (0..i).all(|j| e.font_idx[i].iter().all(|k| !e.font_idx[j].contains(k))) {
                rec.bump("coll.woff2.member>0.fully-private");
            }
            let bytes = &e.bytes;
            let r = guarded(|| -> Result<TableMap, String> {
                let fd = ReadScope::new(bytes).read::<FontData<'_>>().map_err(|e| format!("{:?}", e))?;
                let p = fd.table_provider(i).map_err(|e| format!("{:?}", e))?;
                Ok(tables_of(&p))
            });
            let args = json!({"font": name, "member": i, "members": n, "glyf_transformed": tr, "hmtx_flags": info.hmtx_flags,
                              "share": m.share, "idx_order": m.idx_order, "file_choices": plan.alt, "note": info.note});
            let tm = match r {
                Outcome::Returned(Ok(tm)) => tm,
                Outcome::Returned(Err(_)) => {
                    rec.refused += 1;
                    rec.bump("coll.woff2.member.refused");
                    continue;
                }
                Outcome::Panicked(msg) => {
                    rec.panics.push(format!("woff2 collection {}: {}", name, msg));
                    continue;
                }
            };
            let src = measure(&getter_of(&m.tables));
            let get = |t: &str| tm.get(&tag_u32(t)).cloned();
            let (mut x, _) = cross_of(&get, (htr, tr, tr), tr && src.lsb_clean, "woff2", Some(&src));
            let mut rebuilt: Vec<&str> = vec![];
            if tr {
                rebuilt.extend(["glyf", "loca", "head"]);
            }
            if htr {
                rebuilt.push("hmtx");
            }
            let got_tags: Vec<String> = tm.keys().map(|t| tag_str(*t)).collect();
            x["member"] = coll::member_json(&wants[i].with_rebuilt(&rebuilt), &get, &got_tags, true);
            let prov = MapProvider { tables: tm.clone() };
            x["reload"] = reload_value(guarded(|| reload_provider(prov.clone())));
            rec.tables(&case, "woff2", args, x);
            rec.op("woff2-member-tables");
            rec.bump("coll.woff2-collection.tables.judged");
            if i > 0 {
                rec.bump("coll.woff2-collection.tables.member>0.judged");
            }
            // the member's provider as the source of further writing operations
            let Ok(fd) = ReadScope::new(bytes).read::<FontData<'_>>() else { continue };
            let Outcome::Returned(Ok(p)) = guarded(|| fd.table_provider(i)) else { continue };
            let s2 = measure(&get);
            let tm_tables: Tables9 = tm.iter().map(|(t, d)| (tag_str(*t), d.clone())).collect();
            let nn = be16(tm.get(&tag::MAXP).map(|v| v.as_slice()).unwrap_or(&[]), 4).unwrap_or(0);
            let nhm = be16(tm.get(&tag::HHEA).map(|v| v.as_slice()).unwrap_or(&[]), 34).unwrap_or(0);
            rec.cur_member = Some(wants[i].clone());
            for (li, ids) in member_id_lists(nn, nhm, &s2).iter().enumerate() {
                do_subset(rec, &format!("{}/subset{}", case, li), &name, &p, ids, "subset", &s2);
            }
            // whole_font is judged against its own input: the table set the provider holds
            rec.cur_member = Some(coll::Want::of("woff2-collection", i as i64, n as i64, &tm_tables, &["glyf", "loca", "head", "maxp"]));
            let tags: Vec<u32> = m.tables.iter().map(|t| tag_u32(&t.0)).collect();
            do_whole_font(rec, &format!("{}/whole", case), &name, &p, &tags);
            rec.cur_member = None;
        }
        request_past_the_end(rec, "woff2", &format!("{}/member{}", plan.name, n), &e.bytes, n);
    }
    // ---- OpenType collections -----------------------------------------------------------------------
    for plan in coll::ttc_plans(rng, if deep { 12 } else { 1 }) {
        let ttc = coll::build_ttc(&plan.members, plan.alt);
        let n = plan.members.len();
        let wants: Vec<coll::Want> =
            plan.members.iter().enumerate().map(|(i, m)| coll::Want::of("ttc", i as i64, n as i64, &m.tables, &["glyf", "loca", "head", "maxp"])).collect();
        rec.bump(&format!("coll.ttc.layout:{}", plan.alt));
        let bytes = &ttc.bytes;
        let fd = match guarded(|| ReadScope::new(bytes).read::<FontData<'_>>()) {
            Outcome::Returned(Ok(fd)) => fd,
            Outcome::Returned(Err(_)) => {
                rec.refused += 1;
                rec.bump("coll.ttc.file.refused");
                continue;
            }
            Outcome::Panicked(m) => {
                rec.panics.push(format!("ttc {}: {}", plan.name, m));
                continue;
            }
        };
        for i in 0..n {
            let m = &plan.members[i];
            let case = format!("{}/member{}", plan.name, i);
            let name = format!("{}[{}]={}", plan.name, i, m.label);
            count_member_request(rec, "ttc", i, &wants[0], &wants[i], false, false);
            for j in 0..i {
                let same = |t: &str| ttc.offsets[i].get(t).is_some() && ttc.offsets[i].get(t) == ttc.offsets[j].get(t);
                if same("glyf") && !same("hmtx") {
                    rec.bump("coll.ttc.member>0.shared-glyf.private-hmtx");
                }
            }
            if i > 0 && (0..i).all(|j| ttc.offsets[i].values().all(|o| !ttc.offsets[j].values().any(|p| p == o))) {
                rec.bump("coll.ttc.member>0.fully-private");
            }
            let p = match guarded(|| fd.table_provider(i)) {
                Outcome::Returned(Ok(p)) => p,
                Outcome::Returned(Err(_)) => {
                    rec.refused += 1;
                    rec.bump("coll.ttc.member.refused");
                    continue;
                }
                Outcome::Panicked(msg) => {
                    rec.panics.push(format!("ttc {}: {}", name, msg));
                    continue;
                }
            };
            // the source facts are measured on the harness's own copy of the member's tables
            let mut src = measure(&getter_of(&m.tables));
            if src.kind == "cff" {
                rec.bump(if i > 0 { "coll.ttc.member>0.cff" } else { "coll.ttc.member0.cff" });
            }
            src.features.insert("container:ttc".into());
            rec.cur_member = Some(wants[i].clone());
            let tags: Vec<u32> = m.tables.iter().map(|t| tag_u32(&t.0)).collect();
            do_whole_font(rec, &format!("{}/whole", case), &name, &p, &tags);
            let (nn, nhm) = (wants[i].num_glyphs.max(0) as u16, wants[i].nhm.max(0) as u16);
            let lists = member_id_lists(nn, nhm, &src);
            for (li, ids) in lists.iter().enumerate() {
                rec.bump(if i > 0 { "coll.ttc.member>0.subset-requested" } else { "coll.ttc.member0.subset-requested" });
                do_subset(rec, &format!("{}/subset{}", case, li), &name, &p, ids, "subset", &src);
            }
            do_subset(rec, &format!("{}/prince", case), &name, &p, &lists[lists.len() - 1], "prince:unrestricted", &src);
            if m.var {
                let mut coords: Vec<(f32, f32)> = vec![(0.0, 0.0), (1.0, 0.0), (-1.0, -1.0), (0.47, 0.3)];
                if deep {
                    coords.extend([(0.5, 0.0), (0.0, 1.0), (rng.gen_range(-1.0..=1.0), rng.gen_range(-1.0..=1.0))]);
                }
                for (ci, c) in coords.iter().enumerate() {
                    rec.bump(if i > 0 { "coll.ttc.member>0.instance-requested" } else { "coll.ttc.member0.instance-requested" });
                    do_instance(rec, &format!("{}/instance{}", case, ci), &name, &p, &[Fixed::from(c.0), Fixed::from(c.1)], &src);
                }
            }
            rec.cur_member = None;
        }
        request_past_the_end(rec, "ttc", &format!("{}/member{}", plan.name, n), &ttc.bytes, n);
    }
}

type Tables9 = Vec<(String, Vec<u8>)>;

// ---------------------------------------------------------------------------------------------
// size boundaries of written CFF structures
// ---------------------------------------------------------------------------------------------

const CFF_TARGETS: [usize; 6] = [254, 255, 256, 65534, 65535, 65536];

/// Subsets chosen (subset sum over the byte lengths of the SOURCE objects, read by the independent
/// reader) so that an INDEX the writer rebuilds holds exactly 254 / 255 / 256 / 65534 / 65535 / 65536
/// bytes of object data: the sizes where the offSize of the INDEX changes. The plan counters come from
/// the inputs; what the written table really holds is measured by the walker (`out:cff-index...`).
fn cff_boundary_subsets(rec: &mut Rec, name: &str, prov: &impl FontTableProvider, src: &SrcFacts, plans: &[(&str, Vec<(usize, usize)>, usize)], apis: &[&str]) -> usize {
    let mut planned = 0;
    for (index_name, items, base) in plans {
        for (target, picked) in cffb::subset_sum(items, *base, &CFF_TARGETS) {
            let Some(picked) = picked else { continue };
            planned += 1;
            let mut ids: Vec<u16> = vec![0];
            ids.extend(picked.iter().map(|g| *g as u16));
            ids.sort_unstable();
            ids.dedup();
            for api in apis {
                rec.bump(&format!("cffb.plan.{}.{}={}", if name.starts_with("synth") { "synth" } else { "repo" }, index_name, target));
                do_subset(rec, &format!("{}/{}={}/{}", name, index_name, target, api), name, prov, &ids, api, src);
            }
        }
    }
    planned
}

fn record_cff_bounds(rec: &mut Rec, deep: bool) {
    // ---- synthesized: glyph g calls global subr g-1 and local subr g-1; all three length tables are
    // laid out so that small sets of glyphs reach every target for exactly one INDEX
    let cs_len = [4usize, 250, 251, 252, 65000, 530, 531, 532, 60];
    let gs_len = [100usize, 154, 155, 156, 65000, 434, 435, 436];
    let ls_len = [120usize, 134, 135, 136, 65000, 414, 415, 416];
    let mut glyphs = vec![cffb::glyph_cs(cs_len[0], None, None)];
    for g in 1..cs_len.len() {
        glyphs.push(cffb::glyph_cs(cs_len[g], Some(g - 1), Some(g - 1)));
    }
    let spec = cffb::CffSpec {
        glyphs,
        gsubrs: gs_len.iter().map(|l| cffb::subr_cs(*l)).collect(),
        lsubrs: ls_len.iter().map(|l| cffb::subr_cs(*l)).collect(),
        sids: (1..cs_len.len() as u16).map(|g| 33 + g).collect(),
        strings: vec![],
        top_pad: 0,
    };
    let t = cffb::build_otf(&spec);
    let name = "synth-cffb";
    let src = measure(&getter_of(&t));
    let prov = MapProvider { tables: named(&t).into_iter().collect() };
    let n = cs_len.len();
    let plans: Vec<(&str, Vec<(usize, usize)>, usize)> = vec![
        ("charstrings", (1..n).map(|g| (g, cs_len[g])).collect(), cs_len[0]),
        ("gsubr", (1..n).map(|g| (g, gs_len[g - 1])).collect(), 0),
        ("lsubr", (1..n).map(|g| (g, ls_len[g - 1])).collect(), 0),
    ];
    cff_boundary_subsets(rec, name, &prov, &src, &plans, &["subset", "prince:unrestricted"]);
    let all: Vec<u16> = (0..n as u16).collect();
    do_subset(rec, &format!("{}/all", name), name, &prov, &all, "subset", &src);
    let tags: Vec<u32> = prov.tables.keys().cloned().collect();
    do_whole_font(rec, &format!("{}/whole", name), name, &prov, &tags);

    // ---- the Top DICT INDEX: XUID padding so that the Top DICT the writer produces walks across 255
    for pad in (if deep { 200..=262 } else { 226..=238 }).filter(|p| *p != 1) {
        let spec = cffb::CffSpec {
            glyphs: vec![cffb::glyph_cs(4, None, None), cffb::glyph_cs(20, None, None), cffb::glyph_cs(33, None, None)],
            gsubrs: vec![],
            lsubrs: vec![],
            sids: vec![34, 35],
            strings: vec![],
            top_pad: pad,
        };
        let t = cffb::build_otf(&spec);
        let name = format!("synth-cffb-top{}", pad);
        let src = measure(&getter_of(&t));
        let prov = MapProvider { tables: named(&t).into_iter().collect() };
        rec.bump("cffb.plan.synth.topdict-sweep");
        do_subset(rec, &format!("{}/subset", name), &name, &prov, &[0, 2], "subset", &src);
        do_subset(rec, &format!("{}/prince", name), &name, &prov, &[0, 1, 2], "prince:unrestricted", &src);
    }

    // ---- many glyphs: SIDs 1 .. n-1 in order (the standard strings), kept whole; 240 glyphs stay name-keyed,
    // 300 glyphs are converted to a CID-keyed font by subset() (Font DICT INDEX, FDSelect, ROS strings)
    for n in [200usize, 240, 300] {
        let glyphs: Vec<Vec<u8>> = (0..n).map(|g| cffb::glyph_cs(if g == 0 { 4 } else { 7 + 3 * (g % 5) }, None, None)).collect();
        let spec = cffb::CffSpec { glyphs, gsubrs: vec![], lsubrs: vec![], sids: (1..n as u16).collect(), strings: vec![], top_pad: 0 };
        let t = cffb::build_otf(&spec);
        let name = format!("synth-cffb-n{}", n);
        let src = measure(&getter_of(&t));
        let prov = MapProvider { tables: named(&t).into_iter().collect() };
        let all: Vec<u16> = (0..n as u16).collect();
        rec.bump(&format!("cffb.plan.synth.glyphs={}", n));
        rec.keep = true;
        rec.last = None;
        do_subset(rec, &format!("{}/all", name), &name, &prov, &all, "subset", &src);
        rec.bump(&format!("chain.plan.cff-subset-n{}>subset", n));
        chain_from_last(rec, &format!("{}/all", name), &name);
        rec.keep = false;
        do_subset(rec, &format!("{}/prince-all", name), &name, &prov, &all, "prince:unrestricted", &src);
        do_subset(rec, &format!("{}/prince-all-cid", name), &name, &prov, &all, "prince:unrestricted:cid", &src);
        let part: Vec<u16> = (0..n as u16).filter(|g| g % 3 != 1).collect();
        do_subset(rec, &format!("{}/part", name), &name, &prov, &part, "subset", &src);
    }
}

/// The same solver over a repository CFF font: charstring lengths read by the independent walker.
fn repo_cff_bounds(rec: &mut Rec, name: &str, prov: &impl FontTableProvider, src: &SrcFacts) -> bool {
    let Ok(Some(cff)) = prov.table_data(tag::CFF) else { return false };
    let w = cffb::walk_cff(&cff);
    if w.facts["walked"] != json!(true) {
        return false;
    }
    let Some(cs) = w.indexes.iter().find(|i| i.name == "charstrings") else { return false };
    if cs.count < 3 {
        return false;
    }
    let len = |g: usize| cs.offs[g + 1] - cs.offs[g];
    let items: Vec<(usize, usize)> = (1..cs.count.min(400)).map(|g| (g, len(g))).collect();
    let plans = vec![("charstrings", items, len(0))];
    cff_boundary_subsets(rec, name, prov, src, &plans, &["subset"]) > 0
}

/// Priority of a repository font for a small sample (as before the survey existed).
fn old_priority(p: &str) -> u8 {
    if p.contains("/aots/") {
        3
    } else if p.contains("/variable/") || p.ends_with(".woff2") {
        0
    } else if p.ends_with(".otf") {
        1
    } else {
        2
    }
}

struct Surveyed {
    path: String,
    facts: SrcFacts,
    glyf_len: usize,
    flavor_tt: bool,
}

fn survey_font(path: &str) -> Option<Surveyed> {
    let data = std::fs::read(path).ok()?;
    if data.len() <= 12 {
        return None;
    }
    let r = guarded(|| -> Option<(SrcFacts, usize)> {
        let fd = ReadScope::new(&data).read::<FontData<'_>>().ok()?;
        let provider = fd.table_provider(0).ok()?;
        let get = |t: &str| provider.table_data(tag_u32(t)).ok().flatten().map(|c| c.to_vec());
        let mut f = measure(&get);
        if let Some(d) = get("CFF ") {
            if let Ok(cff) = ReadScope::new(&d).read::<CFF<'_>>() {
                if cff.fonts.first().map(|f| f.is_cid_keyed()).unwrap_or(false) {
                    f.features.insert("kind:cff-cid".into());
                }
            }
        }
        let ext = path.rsplit('.').next().unwrap_or("").to_ascii_lowercase();
        f.features.insert(format!("container:{}", ext));
        Some((f, get("glyf").map(|g| g.len()).unwrap_or(0)))
    });
    match r {
        Outcome::Returned(Some((facts, glyf_len))) => {
            let flavor_tt = data.len() > 4 && (&data[0..4] == [0, 1, 0, 0] || &data[0..4] == b"true");
            Some(Surveyed { path: path.to_string(), facts, glyf_len, flavor_tt })
        }
        _ => None,
    }
}

fn record(seed: u64, max_fonts: usize, out: &str, all_woff2: bool) {
    let mut rng = StdRng::seed_from_u64(seed);
    let mut rec = Rec::new(out);
    record_synth(&mut rec, &mut rng, all_woff2);
    record_cff_bounds(&mut rec, all_woff2);
    record_collections(&mut rec, &mut rng, all_woff2);
    record_cmapb(&mut rec, &mut rng, all_woff2);

    // ---- repository fonts: survey, then choose by measured features ---------------------------
    let mut paths = repo_fonts();
    paths.shuffle(&mut rng);
    let mut surveyed: Vec<Surveyed> = paths.iter().filter_map(|p| survey_font(p)).collect();
    let mut chosen: Vec<usize> = Vec::new();
    let mut covered: BTreeSet<String> = BTreeSet::new();
    // greedy cover: a font is taken when it shows a feature no chosen font has (small fonts first
    // among equals is not attempted: the order is the seeded shuffle)
    for (k, s) in surveyed.iter().enumerate() {
        if chosen.len() >= max_fonts {
            break;
        }
        if s.facts.features.iter().any(|f| !covered.contains(f)) {
            covered.extend(s.facts.features.iter().cloned());
            chosen.push(k);
        }
    }
    let mut rest: Vec<usize> = (0..surveyed.len()).filter(|k| !chosen.contains(k)).collect();
    rest.sort_by_key(|&k| old_priority(&surveyed[k].path));
    for k in rest {
        if chosen.len() >= max_fonts {
            break;
        }
        chosen.push(k);
    }
    let mut used = 0;
    for &k in &chosen {
        let path = surveyed[k].path.clone();
        let data = match std::fs::read(&path) {
            Ok(d) => d,
            Err(_) => continue,
        };
        let name = path.rsplit('/').next().unwrap().to_string();
        let fd = match ReadScope::new(&data).read::<FontData<'_>>() {
            Ok(fd) => fd,
            Err(_) => continue,
        };
        let provider = match fd.table_provider(0) {
            Ok(p) => p,
            Err(_) => continue,
        };
        used += 1;
        let src = surveyed[k].facts.clone();
        for f in &src.features {
            rec.bump(&format!("repo-source.{}", f));
        }
        let tags = provider.table_tags().unwrap_or_default();
        if path.ends_with(".woff2") {
            // tables reconstructed from a repository WOFF2 file: cross-table half + reload
            let tm = tables_of(&provider);
            let get = |t: &str| tm.get(&tag_u32(t)).cloned();
            let (mut hm, mut gl) = (false, false);
            if let FontData::Woff2(w2) = &fd {
                let tr = |t: u32| w2.find_table_entry(t, 0).map(|e| e.transform_length.is_some()).unwrap_or(false);
                hm = tr(tag::HMTX);
                gl = tr(tag::LOCA) || tr(tag::GLYF);
            }
            let (mut x, _) = cross_of(&get, (hm, gl, gl), false, "woff2", None);
            let prov = MapProvider { tables: tm.clone() };
            x["reload"] = reload_value(guarded(|| reload_provider(prov.clone())));
            rec.tables(&format!("{}/woff2", name), "woff2", json!({"font": name, "glyf_transformed": gl, "hmtx_transformed": hm}), x);
            rec.op("woff2-tables");
            rec.bump("woff2.repository-file");
        }
        let n_glyphs = provider
            .table_data(tag::MAXP)
            .ok()
            .flatten()
            .and_then(|d| ReadScope::new(&d).read::<MaxpTable>().ok())
            .map(|m| m.num_glyphs)
            .unwrap_or(0);
        // whole_font: all tags, and a random subset of the optional ones
        for variant in 0..2 {
            let required = ["cmap", "head", "hhea", "hmtx", "maxp", "loca", "glyf", "CFF ", "CFF2", "name", "OS/2", "post"];
            let sel: Vec<u32> = tags
                .iter()
                .cloned()
                .filter(|t| variant == 0 || required.contains(&tag_str(*t).as_str()) || rng.gen_bool(0.5))
                .collect();
            do_whole_font(&mut rec, &format!("{}/whole{}", name, variant), &name, &provider, &sel);
        }
        // subset: a few glyph lists
        if n_glyphs > 0 && src.kind != "none" {
            let mut lists: Vec<Vec<u16>> = vec![vec![0]];
            let k = rng.gen_range(2..40.min(n_glyphs as usize + 1).max(3));
            lists.push((0..n_glyphs.min(k as u16)).collect());
            let mut pool: Vec<u16> = (1..n_glyphs).collect();
            pool.shuffle(&mut rng);
            let mut l = vec![0u16];
            l.extend(pool.iter().take(rng.gen_range(1..60)).cloned());
            lists.push(l);
            if n_glyphs > 300 {
                let mut l = vec![0u16];
                l.extend(pool.iter().take(300).cloned());
                lists.push(l);
            }
            if !src.composites.is_empty() {
                // composites first, so that component renumbering is exercised on every font that has any
                let mut c = src.composites.clone();
                c.shuffle(&mut rng);
                let mut l = vec![0u16];
                l.extend(c.iter().filter(|g| **g != 0).take(30));
                lists.push(l);
            }
            if src.features.contains("nhm<n") {
                // glyphs past numberOfHMetrics
                let mut l = vec![0u16];
                l.extend((1..n_glyphs).rev().take(8));
                lists.push(l);
            }
            for (li, ids) in lists.iter().enumerate() {
                do_subset(&mut rec, &format!("{}/subset{}", name, li), &name, &provider, ids, "subset", &src);
            }
            let apis: &[&str] = if src.kind == "glyf" {
                &["prince:unrestricted", "prince:macroman", "prince:omit"]
            } else {
                &["prince:unrestricted", "prince:unrestricted:cid"]
            };
            for (ai, api) in apis.iter().enumerate() {
                let ids = &lists[(ai + 2) % lists.len()];
                do_subset(&mut rec, &format!("{}/{}", name, api), &name, &provider, ids, api, &src);
            }
        }
        // instance: variable fonts
        if provider.has_table(tag::FVAR) {
            let fvar_data = provider.read_table_data(tag::FVAR).ok();
            let axes: Vec<(f32, f32, f32)> = fvar_data
                .as_ref()
                .and_then(|d| ReadScope::new(d).read::<FvarTable<'_>>().ok().map(|f| {
                    f.axes().map(|a| (f32::from(a.min_value), f32::from(a.default_value), f32::from(a.max_value))).collect()
                }))
                .unwrap_or_default();
            for variant in 0..4 {
                let tuple: Vec<Fixed> = axes
                    .iter()
                    .map(|(lo, de, hi)| match variant {
                        0 => *de,
                        1 => *hi,
                        2 => *lo,
                        _ => lo + (hi - lo) * rng.gen::<f32>(),
                    })
                    .map(Fixed::from)
                    .collect();
                do_instance(&mut rec, &format!("{}/instance{}", name, variant), &name, &provider, &tuple, &src);
            }
        }
    }
    // ---- repository CFF fonts: subsets whose CharStrings INDEX lands on the offSize boundaries ------
    {
        let mut cffs: Vec<&Surveyed> =
            surveyed.iter().filter(|s| s.facts.kind == "cff" && !s.path.ends_with(".woff2") && !s.path.contains("/aots/")).collect();
        cffs.sort_by_key(|s| std::fs::metadata(&s.path).map(|m| m.len()).unwrap_or(u64::MAX));
        let mut done = 0;
        for s in cffs {
            if !all_woff2 && done >= 4 {
                break;
            }
            let Ok(data) = std::fs::read(&s.path) else { continue };
            let Ok(fd) = ReadScope::new(&data).read::<FontData<'_>>() else { continue };
            let Ok(provider) = fd.table_provider(0) else { continue };
            let name = s.path.rsplit('/').next().unwrap().to_string();
            if repo_cff_bounds(&mut rec, &format!("{}/cffb", name), &provider, &s.facts) {
                done += 1;
            }
        }
    }
    // ---- repository TrueType fonts through the harness's WOFF2 encoder -------------------------
    // chosen by the MEASURED size of the glyf table allsorts rebuilds: one short-loca source that
    // has to be upgraded to long, one that stays short (all of them with `all`).
    surveyed.sort_by_key(|s| std::cmp::Reverse(s.glyf_len.min(131070)));
    let (mut up, mut stay, mut tried) = (0, 0, 0);
    for s in &surveyed {
        if !(s.flavor_tt && s.facts.kind == "glyf" && s.glyf_len > 0) || s.path.contains("/aots/") {
            continue;
        }
        let short = s.facts.features.contains("loca:short");
        if !all_woff2 {
            // quick: only short-loca sources, biggest first, until both kinds were seen
            if !short || (up >= 1 && stay >= 1) || tried >= 12 {
                continue;
            }
            if up >= 1 && s.glyf_len > 60000 {
                continue; // looking for one that stays below now
            }
        }
        let data = match std::fs::read(&s.path) {
            Ok(d) => d,
            Err(_) => continue,
        };
        let dir = match vh::fontgen::read_sfnt_dir(&data, 0) {
            Some(d) => d,
            None => continue,
        };
        let tables: Vec<(u32, Vec<u8>)> = dir
            .records
            .iter()
            .filter_map(|r| data.get(r.2 as usize..(r.2 as usize).checked_add(r.3 as usize)?).map(|b| (r.0, b.to_vec())))
            .collect();
        let name = s.path.rsplit('/').next().unwrap().to_string();
        tried += 1;
        if all_woff2 {
            do_woff2(&mut rec, &format!("{}/reencoded-woff2-alt", name), &name, &tables, 0x11, &s.facts, &mut rng, false);
        }
        if let Some(r) = do_woff2(&mut rec, &format!("{}/reencoded-woff2", name), &name, &tables, 0, &s.facts, &mut rng, !all_woff2 || s.glyf_len > 60000) {
            if r.transformed && !r.src_long {
                if r.out_long {
                    up += 1;
                    rec.bump("woff2.repository-reencoded.upgraded");
                } else {
                    stay += 1;
                    rec.bump("woff2.repository-reencoded.stays-short");
                }
            }
        }
    }
    let n = rec.w.n;
    rec.w.finish();
    println!("{}", json!({"events": n, "fonts": used, "surveyed": surveyed.len(), "ops": rec.ops, "families": rec.fam,
                          "features_covered_by_chosen_fonts": covered, "refused": rec.refused, "panics": rec.panics.len(),
                          "panic_samples": rec.panics.iter().take(5).collect::<Vec<_>>()}));
}

fn survey() {
    for p in repo_fonts() {
        if let Some(s) = survey_font(&p) {
            println!("{}", json!({"font": p, "glyf_len": s.glyf_len, "tt": s.flavor_tt, "composites": s.facts.composites.len(),
                                  "features": s.facts.features}));
        }
    }
}

/// Reproduction of the finding "a predefined charset is chosen for more glyphs than it names":
/// a name-keyed CFF font with 240 glyphs whose SIDs are 1, 2, 3, ... kept whole.
fn probe_isoadobe() {
    let n = 240usize;
    let glyphs: Vec<Vec<u8>> = (0..n).map(|g| cffb::glyph_cs(if g == 0 { 4 } else { 7 + 3 * (g % 5) }, None, None)).collect();
    let spec = cffb::CffSpec { glyphs, gsubrs: vec![], lsubrs: vec![], sids: (1..n as u16).collect(), strings: vec![], top_pad: 0 };
    let t = cffb::build_otf(&spec);
    let prov = MapProvider { tables: named(&t).into_iter().collect() };
    let all: Vec<u16> = (0..n as u16).collect();
    let src_cff = prov.tables[&tag::CFF].clone();
    let src = ReadScope::new(&src_cff).read::<CFF<'_>>().unwrap();
    println!("source: id_for_glyph(228) = {:?}, (229) = {:?}, (239) = {:?}", src.fonts[0].charset.id_for_glyph(228), src.fonts[0].charset.id_for_glyph(229), src.fonts[0].charset.id_for_glyph(239));
    let out = subset(&prov, &all).expect("subset");
    let fd = ReadScope::new(&out).read::<FontData<'_>>().unwrap();
    let p2 = fd.table_provider(0).unwrap();
    let d = p2.read_table_data(tag::CFF).unwrap();
    let cff = ReadScope::new(&d).read::<CFF<'_>>().unwrap();
    println!("subset (all 240 glyphs) charset: {}", match &cff.fonts[0].charset { allsorts::cff::Charset::ISOAdobe => "ISOAdobe", allsorts::cff::Charset::Custom(_) => "custom", _ => "other" });
    println!("subset: id_for_glyph(228) = {:?}, (229) = {:?}, (239) = {:?}", cff.fonts[0].charset.id_for_glyph(228), cff.fonts[0].charset.id_for_glyph(229), cff.fonts[0].charset.id_for_glyph(239));
    println!("subset of the subset: {:?}", subset(&p2, &[0, 1, 239]).map(|b| b.len()));
    println!("subset of the source:  {:?}", subset(&prov, &[0, 1, 239]).map(|b| b.len()));
}

/// Reproduction of the finding "format 4: the final 0xFFFF segment is appended after a segment that already ends at
/// 0xFFFF": a TrueType font whose cmap maps U+FFFD..U+FFFF to glyphs 1..3, subset on [0, 3] and on [0, 1, 2, 3].
fn probe_ffff() {
    let glyphs = cmapb_glyphs(8);
    let pairs = [(0xFFFDu32, 1u16), (0xFFFE, 2), (0xFFFF, 3)];
    let t = synth::build_tt(&glyphs, false, 8, 0, &[("cmap", vh::fontgen::cmap_format12(&pairs))]);
    let prov = MapProvider { tables: named(&t).into_iter().collect() };
    for ids in [vec![0u16, 3], vec![0, 1, 2, 3], vec![0, 1, 2]] {
        let out = subset(&prov, &ids).expect("subset");
        let cm = sfnt_getter(&out)("cmap").unwrap();
        let w = cmapw::walk_cmap(&cm);
        let st = &w["subtables"][0];
        println!("subset {:?}: format {} startCode {} endCode {} idDelta {}", ids, st["format"], st["starts"], st["ends"], st["deltas"]);
        let fd = ReadScope::new(&out).read::<FontData<'_>>().unwrap();
        let mut font = Font::new(fd.table_provider(0).unwrap()).unwrap();
        for ch in ['\u{FFFD}', '\u{FFFE}', '\u{FFFF}'] {
            let (g, _) = font.lookup_glyph_index(ch, allsorts::font::MatchingPresentation::NotRequired, None);
            print!("  U+{:04X} -> {}", ch as u32, g);
        }
        println!();
    }
}

fn main() {
    let args: Vec<String> = std::env::args().collect();
    match args.get(1).map(|s| s.as_str()) {
        Some("replay") => replay(&args[2], &args[3]),
        Some("record") => record(
            args[2].parse().expect("seed"),
            args[3].parse().expect("max fonts"),
            &args[4],
            args.get(5).map(|s| s == "all").unwrap_or(false),
        ),
        Some("survey") => survey(),
        Some("probe-isoadobe") => probe_isoadobe(),
        Some("probe-ffff") => probe_ffff(),
        _ => {
            eprintln!("usage: c09_written replay <cases> <trace> | record <seed> <max_fonts> <trace> [all] | survey");
            std::process::exit(2);
        }
    }
}
