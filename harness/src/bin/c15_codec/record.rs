//! Recorder: every parseable table of every repository font goes through
//! parse -> write -> parse -> write; one Table event per table for Trace_Codec.
use std::convert::TryFrom;

use allsorts::binary::read::ReadScope;
use allsorts::binary::write::{WriteBinary, WriteBinaryDep, WriteBuffer};
use allsorts::cff::cff2::CFF2;
use allsorts::cff::{self, CFFVariant, Charset, Encoding, CFF};
use allsorts::error::WriteError;
use allsorts::font_data::FontData;
use allsorts::post::PostTable;
use allsorts::tables::cmap::{Cmap, CmapSubtable};
use allsorts::tables::glyf::{GlyfTable, Glyph};
use allsorts::tables::loca::{self, LocaTable};
use allsorts::tables::os2::Os2;
use allsorts::tables::{
    owned as otables, CvtTable, FontTableProvider, HeadTable, HheaTable, HmtxTable, IndexToLocFormat, MaxpTable,
    NameTable,
};
use allsorts::tag;
use serde_json::{json, Map, Value};
use vh::sup::{guarded, panic_key, Outcome};
use vh::util::{repo_fonts, repo_root, NdWriter};

use crate::kinds::*;

type Step<'f> = &'f dyn Fn(&[u8]) -> Result<(Value, Result<Vec<u8>, String>), String>;

fn wv(f: impl FnOnce(&mut WriteBuffer) -> Result<(), WriteError>) -> Result<Vec<u8>, WriteError> {
    let mut b = WriteBuffer::new();
    f(&mut b)?;
    Ok(b.into_inner())
}

fn pe<E: std::fmt::Debug>(e: E) -> String {
    format!("{:?}", e)
}

fn jstr(v: &Value) -> String {
    serde_json::to_string(v).unwrap_or_default()
}

struct Rec {
    w: NdWriter,
    i: u64,
    parse_fail: Map<String, Value>,
    events: Map<String, Value>,
    n_hdr: usize,
}

fn bump(m: &mut Map<String, Value>, k: &str) {
    let n = m.get(k).and_then(|x| x.as_i64()).unwrap_or(0);
    m.insert(k.to_string(), json!(n + 1));
}

impl Rec {
    /// parse -> write -> parse -> write.  `small`: ship bytes and projections in full.
    fn cycle(&mut self, kind: &str, font: &str, orig: &[u8], small: bool, extra: Value, step: Step<'_>) {
        let s1 = guarded(|| step(orig));
        let (p1, w1) = match s1 {
            Outcome::Returned(Ok(x)) => x,
            Outcome::Returned(Err(_)) => {
                bump(&mut self.parse_fail, kind); // not a parseable table: outside the quantifier
                return;
            }
            Outcome::Panicked(_) => {
                bump(&mut self.parse_fail, &format!("{}:panic", kind));
                return;
            }
        };
        let none = json!([]);
        let mut o = json!({"parse1": "Ok", "w1": "n/a", "parse2": "n/a", "w2": "n/a", "len0": orig.len(), "len1": -1, "len2": -1,
                           "d1": "", "d2": "", "pd1": fnv(jstr(&p1).as_bytes()), "pd2": "", "small": small,
                           "orig": if small { jb(orig) } else { none.clone() }, "b1": none.clone(),
                           "p1": if small { p1.clone() } else { none.clone() }, "p2": none.clone(), "x": extra});
        match w1 {
            Err(e) => o["w1"] = json!(e),
            Ok(b1) => {
                o["w1"] = json!("Ok");
                o["len1"] = json!(b1.len());
                o["d1"] = json!(fnv(&b1));
                if small {
                    o["b1"] = jb(&b1);
                }
                match guarded(|| step(&b1)) {
                    Outcome::Panicked(m) => o["parse2"] = json!(format!("Panic:{}", panic_key(&m))),
                    Outcome::Returned(Err(e)) => o["parse2"] = json!(format!("Err:{}", e)),
                    Outcome::Returned(Ok((p2, w2))) => {
                        o["parse2"] = json!("Ok");
                        o["pd2"] = json!(fnv(jstr(&p2).as_bytes()));
                        if small {
                            o["p2"] = p2;
                        }
                        match w2 {
                            Err(e) => o["w2"] = json!(e),
                            Ok(b2) => {
                                o["w2"] = json!("Ok");
                                o["len2"] = json!(b2.len());
                                o["d2"] = json!(fnv(&b2));
                            }
                        }
                    }
                }
            }
        }
        self.emit(kind, font, o);
    }

    fn emit(&mut self, kind: &str, font: &str, mut o: Value) {
        bump(&mut self.events, kind);
        // class of the first write: Ok | Err (refused with an error) | Panic
        let w1c = o["w1"].as_str().unwrap_or("").split(':').next().unwrap_or("").to_string();
        o["w1c"] = json!(w1c);
        let ev = json!({"i": self.i, "case": font, "ev": "Table", "a": {"k": kind, "font": font}, "o": o});
        self.w.write(&ev);
        self.i += 1;
    }
}

/// Write under `guarded`: Ok(bytes) | Err("Err:<WriteError>") | Err("Panic:<class>").
fn wg(f: impl FnOnce(&mut WriteBuffer) -> Result<(), WriteError>) -> Result<Vec<u8>, String> {
    match guarded(|| wv(f)) {
        Outcome::Returned(Ok(b)) => Ok(b),
        Outcome::Returned(Err(e)) => Err(format!("Err:{:?}", e)),
        Outcome::Panicked(m) => Err(format!("Panic:{}", panic_key(&m))),
    }
}

fn cff_proj(c: &CFF<'_>) -> Value {
    let mut dicts = Vec::new();
    let mut rest = Vec::new();
    rest.push(json!({"hdr": [c.header.major, c.header.minor, c.header.off_size]}));
    let idx = |i: &cff::MaybeOwnedIndex<'_>| -> Value {
        let mut all = Vec::new();
        let mut n = 0;
        for o in i.iter() {
            all.extend_from_slice(&(o.len() as u32).to_be_bytes());
            all.extend_from_slice(o);
            n += 1;
        }
        json!([n, fnv(&all)])
    };
    rest.push(json!({"name": idx(&c.name_index), "strings": idx(&c.string_index), "gsubr": idx(&c.global_subr_index)}));
    for f in &c.fonts {
        dicts.push(json!({"kind": "top", "es": proj_dict(&f.top_dict)}));
        let charset = match &f.charset {
            Charset::ISOAdobe => json!("iso"),
            Charset::Expert => json!("expert"),
            Charset::ExpertSubset => json!("expertsubset"),
            Charset::Custom(c) => json!(fnv(jstr(&proj_charset(c)).as_bytes())),
        };
        rest.push(json!({"cs": idx(&f.char_strings_index), "charset": charset}));
        match &f.data {
            CFFVariant::Type1(t) => {
                dicts.push(json!({"kind": "priv", "es": proj_dict(&t.private_dict)}));
                let enc = match &t.encoding {
                    Encoding::Standard => json!("std"),
                    Encoding::Expert => json!("expert"),
                    Encoding::Custom(e) => proj_encoding(e),
                };
                rest.push(json!({"t1": {"enc": enc, "lsubr": t.local_subr_index.as_ref().map(|i| idx(i))}}));
            }
            CFFVariant::CID(cid) => {
                for i in 0..cid.font_dict_index.len() {
                    match cid.font_dict(i) {
                        Ok(d) => dicts.push(json!({"kind": "font", "es": proj_dict(&d)})),
                        Err(e) => rest.push(json!({"fontdict_err": format!("{:?}", e)})),
                    }
                }
                for p in &cid.private_dicts {
                    dicts.push(json!({"kind": "priv", "es": proj_dict(p)}));
                }
                let ls: Vec<Value> = cid.local_subr_indices.iter().map(|i| i.as_ref().map(|i| idx(i)).unwrap_or(Value::Null)).collect();
                rest.push(json!({"cid": {"fdselect": fnv(jstr(&proj_fdselect(&cid.fd_select)).as_bytes()), "lsubr": ls}}));
            }
        }
    }
    json!({"dicts": dicts, "rest": fnv(jstr(&Value::Array(rest)).as_bytes())})
}

fn cff2_proj(c: &CFF2<'_>) -> Value {
    let idx = |i: &cff::MaybeOwnedIndex<'_>| -> Value {
        let mut all = Vec::new();
        let mut n = 0;
        for o in i.iter() {
            all.extend_from_slice(&(o.len() as u32).to_be_bytes());
            all.extend_from_slice(o);
            n += 1;
        }
        json!([n, fnv(&all)])
    };
    let mut dicts = vec![json!({"kind": "top2", "es": proj_dict(&c.top_dict)})];
    let mut rest = vec![json!({"hdr": [c.header.major, c.header.minor], "gsubr": idx(&c.global_subr_index), "cs": idx(&c.char_strings_index),
                               "fdselect": c.fd_select.as_ref().map(|f| fnv(jstr(&proj_fdselect(f)).as_bytes())),
                               "vstore": c.vstore.as_ref().map(|v| json!([v.variation_region_list.variation_regions.len(), v.item_variation_data.len()]))})];
    for f in &c.fonts {
        dicts.push(json!({"kind": "font", "es": proj_dict(&f.font_dict)}));
        dicts.push(json!({"kind": "priv2", "es": proj_dict(&f.private_dict)}));
        rest.push(json!({"lsubr": f.local_subr_index.as_ref().map(|i| idx(i))}));
    }
    json!({"dicts": dicts, "rest": fnv(jstr(&Value::Array(rest)).as_bytes())})
}

fn record_provider(rec: &mut Rec, font: &str, prov: &dyn FontTableProvider) {
    let get = |t: u32| -> Option<Vec<u8>> { prov.table_data(t).ok().flatten().map(|c| c.into_owned()) };

    let mut loc_fmt = None;
    if let Some(d) = get(tag::HEAD) {
        if let Ok(h) = ReadScope::new(&d).read::<HeadTable>() {
            loc_fmt = Some(h.index_to_loc_format);
        }
        rec.cycle("head", font, &d, true, json!({}), &|b| {
            let t = ReadScope::new(b).read::<HeadTable>().map_err(pe)?;
            Ok((proj_head(&t), wg(|w| write_head(w, &t))))
        });
    }
    let mut nhm = None;
    for (k, t) in [("hhea", tag::HHEA), ("vhea", tag::VHEA)] {
        if let Some(d) = get(t) {
            if k == "hhea" {
                nhm = ReadScope::new(&d).read::<HheaTable>().ok().map(|h| h.num_h_metrics as usize);
            }
            rec.cycle("hhea", font, &d, true, json!({"tag": k}), &|b| {
                let t = ReadScope::new(b).read::<HheaTable>().map_err(pe)?;
                Ok((proj_hhea(&t), wg(|w| HheaTable::write(w, &t))))
            });
        }
    }
    let mut ng = None;
    if let Some(d) = get(tag::MAXP) {
        ng = ReadScope::new(&d).read::<MaxpTable>().ok().map(|m| m.num_glyphs as usize);
        rec.cycle("maxp", font, &d, true, json!({}), &|b| {
            let t = ReadScope::new(b).read::<MaxpTable>().map_err(pe)?;
            Ok((proj_maxp(&t), wg(|w| MaxpTable::write(w, &t))))
        });
    }
    if let Some(d) = get(tag::OS_2) {
        rec.cycle("os2", font, &d, true, json!({}), &|b| {
            let t = ReadScope::new(b).read_dep::<Os2>(b.len()).map_err(pe)?;
            Ok((proj_os2(&t), wg(|w| Os2::write(w, &t))))
        });
    }
    if let Some(d) = get(tag::POST) {
        let small = d.len() <= 32;
        rec.cycle("post", font, &d, small, json!({}), &|b| {
            let t = ReadScope::new(b).read::<PostTable<'_>>().map_err(pe)?;
            Ok((proj_post(&t), wg(|w| PostTable::write(w, &t))))
        });
    }
    let nvm = get(tag::VHEA).and_then(|d| ReadScope::new(&d).read::<HheaTable>().ok()).map(|h| h.num_h_metrics as usize);
    if let (Some(d), Some(ng), Some(nvm)) = (get(tag::VMTX), ng, nvm) {
        rec.cycle("hmtx", font, &d, false, json!({"tag": "vmtx", "ng": ng, "nhm": nvm}), &|b| {
            let t = ReadScope::new(b).read_dep::<HmtxTable<'_>>((ng, nvm)).map_err(pe)?;
            Ok((proj_hmtx(&t), wg(|w| HmtxTable::write(w, &t))))
        });
    }
    if let (Some(d), Some(ng), Some(nhm)) = (get(tag::HMTX), ng, nhm) {
        rec.cycle("hmtx", font, &d, false, json!({"ng": ng, "nhm": nhm}), &|b| {
            let t = ReadScope::new(b).read_dep::<HmtxTable<'_>>((ng, nhm)).map_err(pe)?;
            Ok((proj_hmtx(&t), wg(|w| HmtxTable::write(w, &t))))
        });
    }
    if let Some(d) = get(tag::CVT) {
        rec.cycle("cvt", font, &d, false, json!({}), &|b| {
            let t = ReadScope::new(b).read_dep::<CvtTable<'_>>(b.len() as u32).map_err(pe)?;
            Ok((proj_cvt(&t), wg(|w| CvtTable::write(w, &t))))
        });
    }
    let loca_data = get(tag::LOCA);
    if let (Some(d), Some(ng), Some(fmt)) = (&loca_data, ng, loc_fmt) {
        let f = if fmt == IndexToLocFormat::Short { 0 } else { 1 };
        rec.cycle("loca", font, d, false, json!({"fmt": f}), &|b| {
            let t = ReadScope::new(b).read_dep::<LocaTable<'_>>((ng, fmt)).map_err(pe)?;
            let p = proj_loca(&t, f);
            Ok((p, wg(|w| LocaTable::write(w, t))))
        });
    }
    if let Some(d) = get(tag::NAME) {
        let small = d.len() <= 3000;
        let sumlen = |b: &[u8]| -> i64 {
            ReadScope::new(b).read::<NameTable<'_>>().map(|t| t.name_records.iter().map(|r| r.length as i64).sum()).unwrap_or(-1)
        };
        rec.cycle("name", font, &d, small, json!({"sumlen": sumlen(&d)}), &|b| {
            let t = ReadScope::new(b).read::<NameTable<'_>>().map_err(pe)?;
            let o = otables::NameTable::try_from(&t).map_err(pe)?;
            Ok((proj_name_owned(&o), wg(|w| NameTable::write(w, &t))))
        });
        rec.cycle("nameo", font, &d, small, json!({"sumlen": sumlen(&d)}), &|b| {
            let t = ReadScope::new(b).read::<NameTable<'_>>().map_err(pe)?;
            let o = otables::NameTable::try_from(&t).map_err(pe)?;
            Ok((proj_name_owned(&o), wg(|w| otables::NameTable::write(w, &o))))
        });
    }
    if let Some(d) = get(tag::CMAP) {
        if let Ok(cm) = ReadScope::new(&d).read::<Cmap<'_>>() {
            let mut seen = std::collections::BTreeSet::new();
            for r in cm.encoding_records() {
                if !seen.insert(r.offset) {
                    continue;
                }
                let sub = cm.scope.offset(r.offset as usize).data().to_vec();
                // extent of the subtable = what the reader consumes
                let used = {
                    let mut c = ReadScope::new(&sub).ctxt();
                    match c.read::<CmapSubtable<'_>>() {
                        Ok(CmapSubtable::Format2 { .. }) => {
                            bump(&mut rec.parse_fail, "cmapsub:format2-unwritable");
                            continue;
                        }
                        Ok(_) => sub.len() - c.scope().data().len(),
                        Err(_) => {
                            bump(&mut rec.parse_fail, "cmapsub");
                            continue;
                        }
                    }
                };
                let sub = &sub[..used];
                let small = used <= 400 && sub.get(1) != Some(&0);
                rec.cycle("cmapsub", font, sub, small, json!({"p": r.platform_id.0, "e": r.encoding_id.0}), &|b| {
                    let t = ReadScope::new(b).read::<CmapSubtable<'_>>().map_err(pe)?;
                    Ok((proj_cmapsub(&t), wg(|w| CmapSubtable::write(w, &t))))
                });
            }
        }
    }
    if let (Some(gd), Some(ld), Some(ng), Some(fmt)) = (get(tag::GLYF), &loca_data, ng, loc_fmt) {
        record_glyf(rec, font, &gd, ld, ng, fmt);
    }
    if let Some(d) = get(tag::CFF) {
        record_cff(rec, font, &d, json!({"src": "font"}));
        // the same font with a header longer than its four fields (valid, rare: no repository font has one).  The
        // table is first brought into the form with five-byte offsets (allsorts' own output), then laid out again
        // by the harness: hdrSize and every absolute offset grow by the number of bytes inserted.
        let n = rec.n_hdr;
        rec.n_hdr += 1;
        let pads: [&[u8]; 6] = [&[0], &[0, 0], &[0, 0, 0, 0], &[255, 255], &[0, 1, 1, 1, 2, 65], &[0u8; 251]];
        let pad = pads[n % pads.len()];
        let relaid = guarded(|| {
            let t = ReadScope::new(&d).read::<CFF<'_>>().ok()?;
            let b1 = wv(|w| CFF::write(w, &t)).ok()?;
            cff_longer_header(&b1, pad)
        });
        match relaid {
            Outcome::Returned(Some(r)) => {
                rec.cycle("cff", &format!("{}@hdr{}", font, 4 + pad.len()), &r, true, json!({"src": "font", "hdr": 4 + pad.len()}), &|b| {
                    let t = ReadScope::new(b).read::<CFF<'_>>().map_err(pe)?;
                    Ok((cff_proj(&t), wg(|w| CFF::write(w, &t))))
                });
            }
            _ => bump(&mut rec.parse_fail, "cffhdr:not-relaid"),
        }
    }
    if let Some(d) = get(tag::CFF2) {
        rec.cycle("cff2", font, &d, true, json!({}), &|b| {
            let t = ReadScope::new(b).read::<CFF2<'_>>().map_err(pe)?;
            let p = cff2_proj(&t);
            Ok((p, wg(|w| CFF2::write(w, t))))
        });
    }
}

fn record_cff(rec: &mut Rec, font: &str, d: &[u8], extra: Value) {
    rec.cycle("cff", font, d, true, extra, &|b| {
        let t = ReadScope::new(b).read::<CFF<'_>>().map_err(pe)?;
        Ok((cff_proj(&t), wg(|w| CFF::write(w, &t))))
    });
}

fn record_glyf(rec: &mut Rec, font: &str, gd: &[u8], ld: &[u8], ng: usize, fmt: IndexToLocFormat) {
    let out = guarded(|| -> Result<(), String> {
        let loca = ReadScope::new(ld).read_dep::<LocaTable<'_>>((ng, fmt)).map_err(pe)?;
        let offs: Vec<u32> = loca_offsets(&loca);
        let (mut p1s, mut p2s, mut b1s, mut b2s) = (Vec::new(), Vec::new(), Vec::new(), Vec::new());
        let (mut n, mut ns, mut nc, mut ne, mut nfail) = (0, 0, 0, 0, 0);
        let mut w1 = "Ok".to_string();
        let mut parse2 = "Ok".to_string();
        let mut w2 = "Ok".to_string();
        let mut samples: Vec<Value> = Vec::new();
        let (mut smp_s, mut smp_c) = (0, 0);
        for g in 0..offs.len().saturating_sub(1) {
            let (a, b) = (offs[g] as usize, offs[g + 1] as usize);
            if b <= a || b > gd.len() {
                ne += 1;
                continue;
            }
            let orig = &gd[a..b];
            let g1 = match guarded(|| ReadScope::new(orig).read::<Glyph<'_>>()) {
                Outcome::Returned(Ok(g)) => g,
                _ => {
                    nfail += 1; // not parseable: outside the quantifier
                    continue;
                }
            };
            n += 1;
            let is_simple = matches!(g1, Glyph::Simple(_));
            if is_simple { ns += 1 } else { nc += 1 }
            let p1 = proj_glyph(&g1, true);
            p1s.extend_from_slice(jstr(&p1).as_bytes());
            let b1 = match guarded(|| wv(|w| Glyph::write(w, g1))) {
                Outcome::Returned(Ok(b)) => b,
                Outcome::Returned(Err(e)) => { if w1 == "Ok" { w1 = format!("Err:{:?}@{}", e, g); } continue; }
                Outcome::Panicked(m) => { if w1 == "Ok" { w1 = format!("Panic:{}@{}", panic_key(&m), g); } continue; }
            };
            b1s.extend_from_slice(&b1);
            let g2 = match guarded(|| ReadScope::new(&b1).read::<Glyph<'_>>()) {
                Outcome::Returned(Ok(g)) => g,
                Outcome::Returned(Err(e)) => { if parse2 == "Ok" { parse2 = format!("Err:{:?}@{}", e, g); } continue; }
                Outcome::Panicked(m) => { if parse2 == "Ok" { parse2 = format!("Panic:{}@{}", panic_key(&m), g); } continue; }
            };
            let p2 = proj_glyph(&g2, true);
            p2s.extend_from_slice(jstr(&p2).as_bytes());
            if b1.len() <= 160 && ((is_simple && smp_s < 2) || (!is_simple && smp_c < 2)) {
                if is_simple { smp_s += 1 } else { smp_c += 1 }
                samples.push(json!({"gid": g, "p1": p1, "b1": jb(&b1), "p2": proj_glyph(&g2, false)}));
            }
            match guarded(|| wv(|w| Glyph::write(w, g2))) {
                Outcome::Returned(Ok(b)) => b2s.extend_from_slice(&b),
                Outcome::Returned(Err(e)) => { if w2 == "Ok" { w2 = format!("Err:{:?}@{}", e, g); } }
                Outcome::Panicked(m) => { if w2 == "Ok" { w2 = format!("Panic:{}@{}", panic_key(&m), g); } }
            }
        }
        let none = json!([]);
        rec.emit("glyf", font, json!({"parse1": "Ok", "w1": w1, "parse2": parse2, "w2": w2, "len0": gd.len(), "len1": b1s.len(), "len2": b2s.len(),
            "d1": fnv(&b1s), "d2": fnv(&b2s), "pd1": fnv(&p1s), "pd2": fnv(&p2s), "small": false, "orig": none, "b1": none, "p1": none, "p2": none,
            "x": {"glyphs": n, "simple": ns, "composite": nc, "empty": ne, "unparseable": nfail}}));
        for s in samples {
            rec.emit("glyph", font, json!({"parse1": "Ok", "w1": "Ok", "parse2": "Ok", "w2": "n/a", "len0": 0, "len1": 0, "len2": 0, "d1": "", "d2": "",
                "pd1": "", "pd2": "", "small": true, "orig": none, "b1": s["b1"], "p1": s["p1"], "p2": s["p2"], "x": {"gid": s["gid"]}}));
        }
        // the whole table through GlyfTable / loca: records are carried as they are
        let tbl = |g: &[u8], l: &[u8]| -> Result<(Value, Result<(Vec<u8>, Vec<u8>), WriteError>), String> {
            let loca = ReadScope::new(l).read_dep::<LocaTable<'_>>((ng, fmt)).map_err(pe)?;
            let t = ReadScope::new(g).read_dep::<GlyfTable<'_>>(&loca).map_err(pe)?;
            let lens: Vec<i64> = loca_offsets(&loca).windows(2).map(|w| w[1] as i64 - w[0] as i64).collect();
            let p = json!({"n": t.num_glyphs(), "nonempty": lens.iter().filter(|x| **x > 0).count()});
            let w = (|| {
                let mut wb = WriteBuffer::new();
                let ol = GlyfTable::write_dep(&mut wb, t, fmt)?;
                let mut lb = WriteBuffer::new();
                loca::owned::LocaTable::write_dep(&mut lb, ol, fmt)?;
                Ok((wb.into_inner(), lb.into_inner()))
            })();
            Ok((p, w))
        };
        if let Ok((p1, Ok((g1, l1)))) = tbl(gd, ld) {
            let mut o = json!({"parse1": "Ok", "w1": "Ok", "parse2": "n/a", "w2": "n/a", "len0": gd.len(), "len1": g1.len(), "len2": -1,
                "d1": fnv(&[g1.clone(), l1.clone()].concat()), "d2": "", "pd1": fnv(jstr(&p1).as_bytes()), "pd2": "", "small": false,
                "orig": none, "b1": none, "p1": none, "p2": none, "x": {}});
            match guarded(|| tbl(&g1, &l1)) {
                Outcome::Returned(Ok((p2, w2))) => {
                    o["parse2"] = json!("Ok");
                    o["pd2"] = json!(fnv(jstr(&p2).as_bytes()));
                    match w2 {
                        Ok((g2, l2)) => { o["w2"] = json!("Ok"); o["len2"] = json!(g2.len()); o["d2"] = json!(fnv(&[g2, l2].concat())); }
                        Err(e) => o["w2"] = json!(format!("Err:{:?}", e)),
                    }
                }
                Outcome::Returned(Err(e)) => o["parse2"] = json!(format!("Err:{}", e)),
                Outcome::Panicked(m) => o["parse2"] = json!(format!("Panic:{}", panic_key(&m))),
            }
            rec.emit("glyftbl", font, o);
        }
        // the table rebuilt from PARSED glyphs (what subsetting and instancing write), long loca:
        // glyf bytes followed by loca bytes; the step splits them again
        let ngl = ng;
        let parsed_step = |g: &[u8], l: &[u8], f: IndexToLocFormat| -> Result<(Value, Result<(Vec<u8>, Vec<u8>), String>), String> {
            let loca = ReadScope::new(l).read_dep::<LocaTable<'_>>((ngl, f)).map_err(pe)?;
            let mut t = ReadScope::new(g).read_dep::<GlyfTable<'_>>(&loca).map_err(pe)?;
            let mut ps = Vec::new();
            for r in t.records_mut().iter_mut() {
                r.parse().map_err(pe)?;
                if let allsorts::tables::glyf::GlyfRecord::Parsed(gl) = r {
                    ps.extend_from_slice(jstr(&proj_glyph(gl, true)).as_bytes());
                }
            }
            let p = json!([t.num_glyphs(), fnv(&ps)]);
            let w = match guarded(|| -> Result<(Vec<u8>, Vec<u8>), WriteError> {
                let mut wb = WriteBuffer::new();
                let ol = GlyfTable::write_dep(&mut wb, t, IndexToLocFormat::Long)?;
                let mut lb = WriteBuffer::new();
                loca::owned::LocaTable::write_dep(&mut lb, ol, IndexToLocFormat::Long)?;
                Ok((wb.into_inner(), lb.into_inner()))
            }) {
                Outcome::Returned(Ok(x)) => Ok(x),
                Outcome::Returned(Err(e)) => Err(format!("Err:{:?}", e)),
                Outcome::Panicked(m) => Err(format!("Panic:{}", panic_key(&m))),
            };
            Ok((p, w))
        };
        if let Outcome::Returned(Ok((p1, w1))) = guarded(|| parsed_step(gd, ld, fmt)) {
            let mut o = json!({"parse1": "Ok", "w1": "Ok", "parse2": "n/a", "w2": "n/a", "len0": gd.len(), "len1": -1, "len2": -1,
                "d1": "", "d2": "", "pd1": fnv(jstr(&p1).as_bytes()), "pd2": "", "small": false,
                "orig": none, "b1": none, "p1": none, "p2": none, "x": {}});
            match w1 {
                Err(e) => o["w1"] = json!(e),
                Ok((g1, l1)) => {
                    o["len1"] = json!(g1.len());
                    o["d1"] = json!(fnv(&[g1.clone(), l1.clone()].concat()));
                    match guarded(|| parsed_step(&g1, &l1, IndexToLocFormat::Long)) {
                        Outcome::Returned(Ok((p2, w2))) => {
                            o["parse2"] = json!("Ok");
                            o["pd2"] = json!(fnv(jstr(&p2).as_bytes()));
                            match w2 {
                                Ok((g2, l2)) => { o["w2"] = json!("Ok"); o["len2"] = json!(g2.len()); o["d2"] = json!(fnv(&[g2, l2].concat())); }
                                Err(e) => o["w2"] = json!(e),
                            }
                        }
                        Outcome::Returned(Err(e)) => o["parse2"] = json!(format!("Err:{}", e)),
                        Outcome::Panicked(m) => o["parse2"] = json!(format!("Panic:{}", panic_key(&m))),
                    }
                }
            }
            rec.emit("glyfparsed", font, o);
        }
        Ok(())
    });
    if !matches!(out, Outcome::Returned(Ok(()))) {
        bump(&mut rec.parse_fail, "glyf");
    }
}

pub fn record(trace: &str) {
    let mut rec = Rec { w: NdWriter::create(trace), i: 0, parse_fail: Map::new(), events: Map::new(), n_hdr: 0 };
    let root = repo_root();
    let mut nfonts = 0;
    for path in repo_fonts() {
        let data = match std::fs::read(&path) {
            Ok(d) => d,
            Err(_) => continue,
        };
        let rel = path.strip_prefix(&root).unwrap_or(&path).trim_start_matches('/').to_string();
        let fd = match guarded(|| ReadScope::new(&data).read::<FontData<'_>>().ok()) {
            Outcome::Returned(Some(f)) => f,
            _ => continue,
        };
        // number of fonts in the file: members of a collection, else one
        let members = match &fd {
            FontData::OpenType(f) => match &f.data {
                allsorts::tables::OpenTypeData::Collection(ttc) => ttc.offset_tables.len(),
                _ => 1,
            },
            FontData::Woff(_) => 1,
            FontData::Woff2(w) => w.collection_directory.as_ref().map(|c| c.fonts().count()).unwrap_or(1),
        };
        for fi in 0..members.min(64) {
            let prov = match guarded(|| fd.table_provider(fi).ok()) {
                Outcome::Returned(Some(p)) => p,
                _ => break,
            };
            nfonts += 1;
            let name = format!("{}#{}", rel, fi);
            record_provider(&mut rec, &name, &prov);
        }
    }
    // synthetic CFF tables: shapes the repository fonts do not contain
    let t3 = |fmt: u8| -> Vec<u8> {
        match fmt {
            0 => vec![0, 0, 1, 1, 0x87],
            1 => vec![1, 0, 1, 1],
            _ => vec![2, 0, 1, 0, 1],
        }
    };
    let variants: Vec<(&str, MiniCff)> = vec![
        ("plain", MiniCff::default()),
        ("explicit-charset0", MiniCff { explicit_charset0: true, ..Default::default() }),
        ("charset0", MiniCff { glyphs: 3, custom_charset: Some(t3(0)), ..Default::default() }),
        ("charset1", MiniCff { glyphs: 3, custom_charset: Some(t3(1)), ..Default::default() }),
        ("charset2", MiniCff { glyphs: 3, custom_charset: Some(t3(2)), ..Default::default() }),
        ("encoding0", MiniCff { glyphs: 3, custom_encoding: Some(vec![0, 2, 65, 66]), ..Default::default() }),
        ("encoding1", MiniCff { glyphs: 3, custom_encoding: Some(vec![1, 1, 65, 1]), ..Default::default() }),
        ("localsubrs", MiniCff { local_subrs: Some(vec![vec![11], vec![1, 2, 11]]), gsubrs: 2, ..Default::default() }),
        ("private-defaults", MiniCff { private: vec![146, 12, 10, 140, 12, 11, 139, 20, 250, 124, 21, 139, 12, 14], ..Default::default() }),
        ("top-defaults", MiniCff { top_extra: vec![139, 12, 5, 141, 12, 6, 139, 139, 139, 139, 5, 39, 12, 3, 189, 12, 4], ..Default::default() }),
        ("top-nondefaults", MiniCff { top_extra: vec![140, 12, 5, 139, 139, 139, 140, 5, 40, 12, 3, 30, 0x1a, 0x5f, 12, 2], ..Default::default() }),
    ];
    // Top DICT INDEX around the offSize 1 / 2 boundary (last offset 255 / 256): filler entries of
    // one-byte operands under XUID
    let filler = |n: usize| -> Vec<u8> {
        let mut v = Vec::new();
        let mut left = n;
        while left > 0 {
            let k = left.min(49); // up to 48 operands and the operator
            if k == 1 {
                // a lone operator byte would be an entry without operands: widen the previous entry instead
                v.insert(0, 140);
                left -= 1;
                continue;
            }
            v.extend(std::iter::repeat(140u8).take(k - 1));
            v.push(14);
            left -= k;
        }
        v
    };
    let mut variants = variants;
    for total in [253usize, 254, 255, 256, 300] {
        // CharStrings (6) + Private (11) are always there
        variants.push((Box::leak(format!("topdict-{}", total).into_boxed_str()), MiniCff { top_extra: filler(total - 17), ..Default::default() }));
        // the same with non-empty, distinct neighbours (String INDEX, Global Subr INDEX): a Top DICT INDEX that
        // does not fill its reservation shifts them
        variants.push((Box::leak(format!("topdict-{}-neighbours", total).into_boxed_str()),
                       MiniCff { top_extra: filler(total - 17), gsubrs: 3, strings: vec![b"Verif".to_vec(), b"C15 Full Name".to_vec()], ..Default::default() }));
    }
    // headers longer than the four defined fields (hdrSize 5 .. 255), other minor versions and offSize values,
    // next to every structure the Top DICT locates by an absolute offset
    let lh = |pad: &[u8], v: MiniCff| MiniCff { hdr_pad: pad.to_vec(), ..v };
    let nb = MiniCff { gsubrs: 3, strings: vec![b"Verif".to_vec(), b"C15 Full Name".to_vec()], ..Default::default() };
    variants.push(("header-5", lh(&[0], nb.clone())));
    variants.push(("header-6-reads-as-empty-index", lh(&[0, 0], nb.clone())));
    variants.push(("header-8", lh(&[255, 255, 255, 255], nb.clone())));
    variants.push(("header-10-reads-as-index", lh(&[0, 1, 1, 1, 2, 65], nb.clone())));
    variants.push(("header-255", lh(&[0u8; 251], nb.clone())));
    variants.push(("header-6-charset", lh(&[0, 0], MiniCff { glyphs: 3, custom_charset: Some(t3(1)), ..nb.clone() })));
    variants.push(("header-6-encoding", lh(&[0, 0], MiniCff { glyphs: 3, custom_encoding: Some(vec![1, 1, 65, 1]), ..nb.clone() })));
    variants.push(("header-5-localsubrs", lh(&[9], MiniCff { local_subrs: Some(vec![vec![11], vec![1, 2, 11]]), ..nb.clone() })));
    variants.push(("header-6-topdict-254", lh(&[0, 0], MiniCff { top_extra: filler(254 - 17), ..nb.clone() })));
    variants.push(("header-6-topdict-255", lh(&[0, 0], MiniCff { top_extra: filler(255 - 17), ..nb.clone() })));
    variants.push(("header-minor-1", MiniCff { hdr_minor: 1, ..nb.clone() }));
    variants.push(("header-minor-255-offsize-4", MiniCff { hdr_minor: 255, hdr_off_size: 4, ..nb.clone() }));
    variants.push(("header-offsize-2", MiniCff { hdr_off_size: 2, ..nb.clone() }));
    variants.push(("header-offsize-3-header-7", lh(&[1, 2, 3], MiniCff { hdr_off_size: 3, ..nb.clone() })));
    for (name, v) in variants {
        let d = mini_cff(&v);
        let font = format!("synthetic/{}", name);
        record_cff(&mut rec, &font, &d, json!({"src": "synthetic"}));
    }
    let n = rec.w.n;
    let Rec { w, parse_fail, events, .. } = rec;
    w.finish();
    println!("{}", json!({"events": n, "fonts": nfonts, "per_kind": events, "not_parseable": parse_fail}));
}
