//! Per-kind binding: abstract value (JSON from TLC) -> allsorts value -> bytes -> allsorts value
//! -> abstract value (JSON for the judge).  Projections are shared with the recorder.
use std::borrow::Cow;
use std::convert::TryFrom;

use allsorts::binary::read::{ReadArray, ReadArrayCow, ReadCtxt, ReadScope};
use allsorts::binary::write::{WriteBinary, WriteBinaryDep, WriteBuffer, WriteContext};
use allsorts::binary::{U16Be, U8};
use allsorts::cff::cff2;
use allsorts::cff::{
    self, CustomCharset, CustomEncoding, Dict, DictDefault, DictDelta, FDSelect, IndexU16, IndexU32, Operand,
    CFFVariant, Charset, Operator, Range, CFF,
};
use allsorts::error::WriteError;
use allsorts::post::{self, PostTable};
use allsorts::tables::cmap::owned as ocmap;
use allsorts::tables::cmap::{Cmap, CmapSubtable, EncodingId, PlatformId, SequentialMapGroup};
use allsorts::tables::glyf::{
    BoundingBox, CompositeGlyph, CompositeGlyphArgument, CompositeGlyphComponent, CompositeGlyphFlag,
    CompositeGlyphScale, EmptyGlyph, Glyph, Point, SimpleGlyph, SimpleGlyphFlag,
};
use allsorts::tables::loca::{self, LocaTable};
use allsorts::tables::os2::{self, FsSelection, Os2};
use allsorts::tables::variable_fonts::{ItemVariationData, ItemVariationStore, VariationRegionList};
use allsorts::tables::{
    owned as otables, CvtTable, F2Dot14, Fixed, HeadTable, HheaTable, HmtxTable, IndexToLocFormat, LongHorMetric,
    MacStyle, MaxpTable, MaxpVersion1SubTable, NameTable,
};
use serde_json::{json, Map, Value};
use vh::sup::{guarded, panic_key, Outcome};
use vh::util::{read_ndjson, NdWriter};

// ---- JSON helpers ------------------------------------------------------------------------

pub fn jb(b: &[u8]) -> Value {
    Value::Array(b.iter().map(|x| json!(*x)).collect())
}
pub fn ji<T: Into<i64> + Copy>(v: &[T]) -> Value {
    Value::Array(v.iter().map(|x| json!((*x).into())).collect())
}
pub fn gi(v: &Value, k: &str) -> i64 {
    v[k].as_i64().unwrap_or_else(|| panic!("field {} missing in {}", k, v))
}
pub fn bytes_of(v: &Value) -> Vec<u8> {
    v.as_array().map(|a| a.iter().map(|x| x.as_i64().unwrap_or(0) as u8).collect()).unwrap_or_default()
}
pub fn gb(v: &Value, k: &str) -> Vec<u8> {
    bytes_of(&v[k])
}
pub fn ints(v: &Value) -> Vec<i64> {
    v.as_array().map(|a| a.iter().map(|x| x.as_i64().unwrap_or(0)).collect()).unwrap_or_default()
}
pub fn seq<'a>(v: &'a Value, k: &str) -> &'a [Value] {
    v[k].as_array().map(|a| a.as_slice()).unwrap_or(&[])
}
fn b4(v: &Value, k: &str) -> u32 {
    let b = gb(v, k);
    u32::from_be_bytes([b[0], b[1], b[2], b[3]])
}
fn b8(v: &Value, k: &str) -> i64 {
    let b = gb(v, k);
    let mut a = [0u8; 8];
    a.copy_from_slice(&b);
    i64::from_be_bytes(a)
}
fn be16s(v: &[i64]) -> Vec<u8> {
    v.iter().flat_map(|x| (*x as u16).to_be_bytes()).collect()
}

/// Leak a byte vector: ReadArray / &[u8] fields of allsorts values borrow their data.
fn leak(v: Vec<u8>) -> &'static [u8] {
    Box::leak(v.into_boxed_slice())
}

pub fn fnv(b: &[u8]) -> String {
    let mut h: u64 = 0xcbf29ce484222325;
    for x in b {
        h ^= *x as u64;
        h = h.wrapping_mul(0x100000001b3);
    }
    format!("{:016x}:{}", h, b.len())
}

// ---- projections ----------------------------------------------------------------------------

pub fn proj_head(h: &HeadTable) -> Value {
    json!({"major": h.major_version, "minor": h.minor_version, "rev": h.font_revision.raw_value(),
           "csa": jb(&h.check_sum_adjustment.to_be_bytes()), "magic": jb(&h.magic_number.to_be_bytes()),
           "flags": h.flags, "upem": h.units_per_em, "created": jb(&h.created.to_be_bytes()),
           "modified": jb(&h.modified.to_be_bytes()), "xmin": h.x_min, "ymin": h.y_min, "xmax": h.x_max,
           "ymax": h.y_max, "mac": h.mac_style.bits(), "ppem": h.lowest_rec_ppem, "fdh": h.font_direction_hint,
           "loc": match h.index_to_loc_format { IndexToLocFormat::Short => 0, IndexToLocFormat::Long => 1 },
           "gdf": h.glyph_data_format})
}

pub fn proj_hhea(h: &HheaTable) -> Value {
    json!({"asc": h.ascender, "desc": h.descender, "gap": h.line_gap, "awm": h.advance_width_max,
           "minlsb": h.min_left_side_bearing, "minrsb": h.min_right_side_bearing, "xme": h.x_max_extent,
           "rise": h.caret_slope_rise, "run": h.caret_slope_run, "coff": h.caret_offset, "nhm": h.num_h_metrics})
}

pub fn proj_maxp(m: &MaxpTable) -> Value {
    let sub: Vec<u16> = match &m.version1_sub_table {
        None => vec![],
        Some(s) => vec![s.max_points, s.max_contours, s.max_composite_points, s.max_composite_contours, s.max_zones,
                        s.max_twilight_points, s.max_storage, s.max_function_defs, s.max_instruction_defs,
                        s.max_stack_elements, s.max_size_of_instructions, s.max_component_elements,
                        s.max_component_depth],
    };
    json!({"ng": m.num_glyphs, "sub": ji(&sub)})
}

pub fn proj_hmtx(h: &HmtxTable<'_>) -> Value {
    let hm: Vec<Value> = h.h_metrics.iter().map(|m| json!([m.advance_width, m.lsb])).collect();
    let lsb: Vec<Value> = h.left_side_bearings.iter().map(|x| json!(x)).collect();
    json!({"hm": hm, "lsb": lsb})
}

pub fn proj_cvt(c: &CvtTable<'_>) -> Value {
    json!({"vals": c.values.iter().map(|x| json!(x)).collect::<Vec<_>>()})
}

pub fn loca_offsets(l: &LocaTable<'_>) -> Vec<u32> {
    (0..l.offsets.len()).filter_map(|i| l.offsets.get(i)).collect()
}

pub fn proj_loca(l: &LocaTable<'_>, fmt: i64) -> Value {
    json!({"fmt": fmt, "offs": loca_offsets(l).iter().map(|x| json!(x)).collect::<Vec<_>>()})
}

pub fn proj_os2(o: &Os2) -> Value {
    let v0 = o.version0.as_ref().map(|t| json!([t.s_typo_ascender, t.s_typo_descender, t.s_typo_line_gap, t.us_win_ascent, t.us_win_descent])).unwrap_or(json!([]));
    let v1 = o.version1.as_ref().map(|t| json!([jb(&t.ul_code_page_range1.to_be_bytes()), jb(&t.ul_code_page_range2.to_be_bytes())])).unwrap_or(json!([]));
    let v2 = o.version2to4.as_ref().map(|t| json!([t.sx_height, t.s_cap_height, t.us_default_char, t.us_break_char, t.us_max_context])).unwrap_or(json!([]));
    let v5 = o.version5.as_ref().map(|t| json!([t.us_lower_optical_point_size, t.us_upper_optical_point_size])).unwrap_or(json!([]));
    json!({"version": o.version, "xavg": o.x_avg_char_width, "wgt": o.us_weight_class, "wdt": o.us_width_class,
           "fstype": o.fs_type, "subxs": o.y_subscript_x_size, "subys": o.y_subscript_y_size,
           "subxo": o.y_subscript_x_offset, "subyo": o.y_subscript_y_offset, "supxs": o.y_superscript_x_size,
           "supys": o.y_superscript_y_size, "supxo": o.y_superscript_x_offset, "supyo": o.y_superscript_y_offset,
           "strs": o.y_strikeout_size, "strp": o.y_strikeout_position, "fam": o.s_family_class,
           "panose": jb(&o.panose), "ur1": jb(&o.ul_unicode_range1.to_be_bytes()),
           "ur2": jb(&o.ul_unicode_range2.to_be_bytes()), "ur3": jb(&o.ul_unicode_range3.to_be_bytes()),
           "ur4": jb(&o.ul_unicode_range4.to_be_bytes()), "vend": jb(&o.ach_vend_id.to_be_bytes()),
           "fssel": o.fs_selection.bits(), "first": o.us_first_char_index, "last": o.us_last_char_index,
           "v0": v0, "v1": v1, "v2": v2, "v5": v5})
}

pub fn proj_post(p: &PostTable<'_>) -> Value {
    let h = &p.header;
    let (idx, names) = match &p.opt_sub_table {
        None => (vec![], vec![]),
        Some(s) => (s.glyph_name_index.iter().map(|x| json!(x)).collect::<Vec<_>>(),
                    s.names.iter().map(|n| jb(n.bytes)).collect::<Vec<_>>()),
    };
    json!({"version": h.version, "angle": h.italic_angle, "upos": h.underline_position, "uthick": h.underline_thickness,
           "fixed": jb(&h.is_fixed_pitch.to_be_bytes()), "min42": jb(&h.min_mem_type_42.to_be_bytes()),
           "max42": jb(&h.max_mem_type_42.to_be_bytes()), "min1": jb(&h.min_mem_type_1.to_be_bytes()),
           "max1": jb(&h.max_mem_type_1.to_be_bytes()), "idx": idx, "names": names})
}

pub fn proj_name_owned(n: &otables::NameTable<'_>) -> Value {
    let recs: Vec<Value> = n.name_records.iter()
        .map(|r| json!({"p": r.platform_id, "e": r.encoding_id, "l": r.language_id, "n": r.name_id, "s": jb(&r.string)}))
        .collect();
    let tags: Vec<Value> = n.langtag_records.iter().map(|t| jb(t)).collect();
    json!({"recs": recs, "tags": tags})
}

fn parse_group(g: &SequentialMapGroup) -> Value {
    // fields are crate-private: read them off the Debug rendering
    let s = format!("{:?}", g);
    let nums: Vec<i64> = s.split(|c: char| !c.is_ascii_digit()).filter(|t| !t.is_empty()).filter_map(|t| t.parse().ok()).collect();
    json!(nums)
}

pub fn proj_cmapsub(s: &CmapSubtable<'_>) -> Value {
    match s {
        CmapSubtable::Format0 { language, glyph_id_array } =>
            json!({"fmt": 0, "lang": language, "gids": glyph_id_array.iter().map(|x| json!(x)).collect::<Vec<_>>()}),
        CmapSubtable::Format2 { .. } => json!({"fmt": 2}),
        CmapSubtable::Format4(f) => json!({"fmt": 4, "lang": f.language,
            "ends": f.end_codes.iter().map(|x| json!(x)).collect::<Vec<_>>(),
            "starts": f.start_codes.iter().map(|x| json!(x)).collect::<Vec<_>>(),
            "deltas": f.id_deltas.iter().map(|x| json!(x)).collect::<Vec<_>>(),
            "ros": f.id_range_offsets.iter().map(|x| json!(x)).collect::<Vec<_>>(),
            "gids": f.glyph_id_array.iter().map(|x| json!(x)).collect::<Vec<_>>()}),
        CmapSubtable::Format6 { language, first_code, glyph_id_array } =>
            json!({"fmt": 6, "lang": language, "first": first_code, "gids": glyph_id_array.iter().map(|x| json!(x)).collect::<Vec<_>>()}),
        CmapSubtable::Format10 { language, start_char_code, glyph_id_array } =>
            json!({"fmt": 10, "lang": language, "start": start_char_code, "gids": glyph_id_array.iter().map(|x| json!(x)).collect::<Vec<_>>()}),
        CmapSubtable::Format12 { language, groups } =>
            json!({"fmt": 12, "lang": language, "groups": groups.iter().map(|g| parse_group(&g)).collect::<Vec<_>>()}),
    }
}

fn arg_val(a: &CompositeGlyphArgument) -> i64 {
    match a {
        CompositeGlyphArgument::U8(v) => *v as i64,
        CompositeGlyphArgument::I8(v) => *v as i64,
        CompositeGlyphArgument::U16(v) => *v as i64,
        CompositeGlyphArgument::I16(v) => *v as i64,
    }
}

/// `abs`: project a point's flag byte to its content bit (Dev_FlagEncoding), used for digests
/// of repository glyphs; replayed cases report the flag byte as read.
pub fn proj_glyph(g: &Glyph<'_>, abs: bool) -> Value {
    match g {
        Glyph::Empty(_) => json!({"t": "e"}),
        Glyph::Simple(s) => {
            let bb = &s.bounding_box;
            json!({"t": "s", "bbox": [bb.x_min, bb.y_min, bb.x_max, bb.y_max], "ends": ji(&s.end_pts_of_contours),
                   "instr": jb(s.instructions),
                   "pts": s.coordinates.iter().map(|(f, p)| json!([if abs { f.bits() & 1 } else { f.bits() }, p.0, p.1])).collect::<Vec<_>>()})
        }
        Glyph::Composite(c) => {
            let bb = &c.bounding_box;
            let comps: Vec<Value> = c.glyphs.iter().map(|k| {
                let sc: Vec<i16> = match k.scale {
                    None => vec![],
                    Some(CompositeGlyphScale::Scale(s)) => vec![s.raw_value()],
                    Some(CompositeGlyphScale::XY { x_scale, y_scale }) => vec![x_scale.raw_value(), y_scale.raw_value()],
                    Some(CompositeGlyphScale::Matrix(m)) => vec![m[0][0].raw_value(), m[0][1].raw_value(), m[1][0].raw_value(), m[1][1].raw_value()],
                };
                json!({"flags": k.flags.bits(), "gid": k.glyph_index, "a1": arg_val(&k.argument1), "a2": arg_val(&k.argument2), "sc": ji(&sc)})
            }).collect();
            json!({"t": "c", "bbox": [bb.x_min, bb.y_min, bb.x_max, bb.y_max], "comps": comps, "instr": jb(c.instructions)})
        }
    }
}

fn real_bytes(op: &Operand) -> Vec<u8> {
    // Real's nibble bytes are private: read them off the Debug rendering "Real([10, 0, 31])"
    let s = format!("{:?}", op);
    let inner = s.split('[').nth(1).and_then(|t| t.split(']').next()).unwrap_or("");
    inner.split(',').filter_map(|t| t.trim().parse::<u8>().ok()).collect()
}

pub fn op_code(op: Operator) -> i64 {
    let v = op as u16;
    if v > 0xFF { 3072 + (v & 0xFF) as i64 } else { v as i64 }
}

pub fn proj_operand(a: &Operand) -> Value {
    match a {
        Operand::Integer(v) => json!({"t": "i", "v": v}),
        Operand::Offset(v) => json!({"t": "o", "v": v}),
        Operand::Real(_) => json!({"t": "r", "v": jb(&real_bytes(a))}),
    }
}

pub fn proj_dict<T: DictDefault>(d: &Dict<T>) -> Value {
    Value::Array(d.iter().map(|(op, args)| json!({"op": op_code(*op), "args": args.iter().map(proj_operand).collect::<Vec<_>>()})).collect())
}

pub fn proj_charset(c: &CustomCharset<'_>) -> Value {
    match c {
        CustomCharset::Format0 { glyphs } => json!({"fmt": 0, "sids": glyphs.iter().map(|x| json!(x)).collect::<Vec<_>>()}),
        CustomCharset::Format1 { ranges } => json!({"fmt": 1, "ranges": ranges.iter().map(|r| json!([r.first, r.n_left])).collect::<Vec<_>>()}),
        CustomCharset::Format2 { ranges } => json!({"fmt": 2, "ranges": ranges.iter().map(|r| json!([r.first, r.n_left])).collect::<Vec<_>>()}),
    }
}

pub fn proj_encoding(c: &CustomEncoding<'_>) -> Value {
    match c {
        CustomEncoding::Format0 { codes } => json!({"fmt": 0, "codes": codes.iter().map(|x| json!(x)).collect::<Vec<_>>()}),
        CustomEncoding::Format1 { ranges } => json!({"fmt": 1, "ranges": ranges.iter().map(|r| json!([r.first, r.n_left])).collect::<Vec<_>>()}),
    }
}

pub fn proj_fdselect(f: &FDSelect<'_>) -> Value {
    match f {
        FDSelect::Format0 { glyph_font_dict_indices } => json!({"fmt": 0, "fds": glyph_font_dict_indices.iter().map(|x| json!(x)).collect::<Vec<_>>()}),
        FDSelect::Format3 { ranges, sentinel } => json!({"fmt": 3, "ranges": ranges.iter().map(|r| json!([r.first, r.n_left])).collect::<Vec<_>>(), "sentinel": sentinel}),
    }
}

// ---- builders --------------------------------------------------------------------------------

fn build_head(v: &Value) -> HeadTable {
    HeadTable {
        major_version: gi(v, "major") as u16,
        minor_version: gi(v, "minor") as u16,
        font_revision: Fixed::from_raw(gi(v, "rev") as i32),
        check_sum_adjustment: b4(v, "csa"),
        magic_number: b4(v, "magic"),
        flags: gi(v, "flags") as u16,
        units_per_em: gi(v, "upem") as u16,
        created: b8(v, "created"),
        modified: b8(v, "modified"),
        x_min: gi(v, "xmin") as i16,
        y_min: gi(v, "ymin") as i16,
        x_max: gi(v, "xmax") as i16,
        y_max: gi(v, "ymax") as i16,
        mac_style: MacStyle::from_bits_truncate(gi(v, "mac") as u16),
        lowest_rec_ppem: gi(v, "ppem") as u16,
        font_direction_hint: gi(v, "fdh") as i16,
        index_to_loc_format: if gi(v, "loc") == 0 { IndexToLocFormat::Short } else { IndexToLocFormat::Long },
        glyph_data_format: gi(v, "gdf") as i16,
    }
}

fn build_hhea(v: &Value) -> HheaTable {
    HheaTable {
        ascender: gi(v, "asc") as i16,
        descender: gi(v, "desc") as i16,
        line_gap: gi(v, "gap") as i16,
        advance_width_max: gi(v, "awm") as u16,
        min_left_side_bearing: gi(v, "minlsb") as i16,
        min_right_side_bearing: gi(v, "minrsb") as i16,
        x_max_extent: gi(v, "xme") as i16,
        caret_slope_rise: gi(v, "rise") as i16,
        caret_slope_run: gi(v, "run") as i16,
        caret_offset: gi(v, "coff") as i16,
        num_h_metrics: gi(v, "nhm") as u16,
    }
}

fn build_maxp(v: &Value) -> MaxpTable {
    let s = ints(&v["sub"]);
    MaxpTable {
        num_glyphs: gi(v, "ng") as u16,
        version1_sub_table: if s.is_empty() { None } else {
            Some(MaxpVersion1SubTable {
                max_points: s[0] as u16, max_contours: s[1] as u16, max_composite_points: s[2] as u16,
                max_composite_contours: s[3] as u16, max_zones: s[4] as u16, max_twilight_points: s[5] as u16,
                max_storage: s[6] as u16, max_function_defs: s[7] as u16, max_instruction_defs: s[8] as u16,
                max_stack_elements: s[9] as u16, max_size_of_instructions: s[10] as u16,
                max_component_elements: s[11] as u16, max_component_depth: s[12] as u16,
            })
        },
    }
}

fn build_os2(v: &Value) -> Os2 {
    let t0 = ints(&v["v0"]);
    let t2 = ints(&v["v2"]);
    let t5 = ints(&v["v5"]);
    let t1: Vec<u32> = seq(v, "v1").iter().map(|b| { let x = bytes_of(b); u32::from_be_bytes([x[0], x[1], x[2], x[3]]) }).collect();
    let mut panose = [0u8; 10];
    panose.copy_from_slice(&gb(v, "panose"));
    Os2 {
        version: gi(v, "version") as u16,
        x_avg_char_width: gi(v, "xavg") as i16,
        us_weight_class: gi(v, "wgt") as u16,
        us_width_class: gi(v, "wdt") as u16,
        fs_type: gi(v, "fstype") as u16,
        y_subscript_x_size: gi(v, "subxs") as i16,
        y_subscript_y_size: gi(v, "subys") as i16,
        y_subscript_x_offset: gi(v, "subxo") as i16,
        y_subscript_y_offset: gi(v, "subyo") as i16,
        y_superscript_x_size: gi(v, "supxs") as i16,
        y_superscript_y_size: gi(v, "supys") as i16,
        y_superscript_x_offset: gi(v, "supxo") as i16,
        y_superscript_y_offset: gi(v, "supyo") as i16,
        y_strikeout_size: gi(v, "strs") as i16,
        y_strikeout_position: gi(v, "strp") as i16,
        s_family_class: gi(v, "fam") as i16,
        panose,
        ul_unicode_range1: b4(v, "ur1"),
        ul_unicode_range2: b4(v, "ur2"),
        ul_unicode_range3: b4(v, "ur3"),
        ul_unicode_range4: b4(v, "ur4"),
        ach_vend_id: b4(v, "vend"),
        fs_selection: FsSelection::from_bits_truncate(gi(v, "fssel") as u16),
        us_first_char_index: gi(v, "first") as u16,
        us_last_char_index: gi(v, "last") as u16,
        version0: if t0.is_empty() { None } else { Some(os2::Version0 { s_typo_ascender: t0[0] as i16, s_typo_descender: t0[1] as i16, s_typo_line_gap: t0[2] as i16, us_win_ascent: t0[3] as u16, us_win_descent: t0[4] as u16 }) },
        version1: if t1.is_empty() { None } else { Some(os2::Version1 { ul_code_page_range1: t1[0], ul_code_page_range2: t1[1] }) },
        version2to4: if t2.is_empty() { None } else { Some(os2::Version2to4 { sx_height: t2[0] as i16, s_cap_height: t2[1] as i16, us_default_char: t2[2] as u16, us_break_char: t2[3] as u16, us_max_context: t2[4] as u16 }) },
        version5: if t5.is_empty() { None } else { Some(os2::Version5 { us_lower_optical_point_size: t5[0] as u16, us_upper_optical_point_size: t5[1] as u16 }) },
    }
}

fn build_post(v: &Value) -> PostTable<'static> {
    let header = post::Header {
        version: gi(v, "version") as i32,
        italic_angle: gi(v, "angle") as i32,
        underline_position: gi(v, "upos") as i16,
        underline_thickness: gi(v, "uthick") as i16,
        is_fixed_pitch: b4(v, "fixed"),
        min_mem_type_42: b4(v, "min42"),
        max_mem_type_42: b4(v, "max42"),
        min_mem_type_1: b4(v, "min1"),
        max_mem_type_1: b4(v, "max1"),
    };
    let opt_sub_table = if header.version == 0x0002_0000 {
        let idx = ints(&v["idx"]);
        let data = leak(be16s(&idx));
        let glyph_name_index: ReadArray<'static, U16Be> = ReadScope::new(data).ctxt().read_array::<U16Be>(idx.len()).expect("idx array");
        let names = seq(v, "names").iter().map(|n| post::PascalString { bytes: leak(bytes_of(n)) }).collect();
        Some(post::SubTable { glyph_name_index, names })
    } else {
        None
    };
    PostTable { header, opt_sub_table }
}

fn build_name(v: &Value) -> otables::NameTable<'static> {
    otables::NameTable {
        name_records: seq(v, "recs").iter().map(|r| otables::NameRecord {
            platform_id: gi(r, "p") as u16, encoding_id: gi(r, "e") as u16, language_id: gi(r, "l") as u16,
            name_id: gi(r, "n") as u16, string: Cow::Owned(gb(r, "s")),
        }).collect(),
        langtag_records: seq(v, "tags").iter().map(|t| Cow::Owned(bytes_of(t))).collect(),
    }
}

fn build_cmapsub(v: &Value) -> ocmap::CmapSubtable {
    let u16s = |k: &str| -> Vec<u16> { ints(&v[k]).iter().map(|x| *x as u16).collect() };
    match gi(v, "fmt") {
        0 => {
            let g = gb(v, "gids");
            let mut a = Box::new([0u8; 256]);
            a.copy_from_slice(&g);
            ocmap::CmapSubtable::Format0 { language: gi(v, "lang") as u16, glyph_id_array: a }
        }
        4 => ocmap::CmapSubtable::Format4(ocmap::CmapSubtableFormat4 {
            language: gi(v, "lang") as u16,
            end_codes: u16s("ends"),
            start_codes: u16s("starts"),
            id_deltas: ints(&v["deltas"]).iter().map(|x| *x as i16).collect(),
            id_range_offsets: u16s("ros"),
            glyph_id_array: u16s("gids"),
        }),
        6 => ocmap::CmapSubtable::Format6 { language: gi(v, "lang") as u16, first_code: gi(v, "first") as u16, glyph_id_array: u16s("gids") },
        10 => ocmap::CmapSubtable::Format10 { language: gi(v, "lang") as u32, start_char_code: gi(v, "start") as u32, glyph_id_array: u16s("gids") },
        12 => {
            let groups = seq(v, "groups").iter().map(|g| {
                let t = ints(g);
                let mut d = Vec::new();
                for x in &t { d.extend_from_slice(&(*x as u32).to_be_bytes()); }
                ReadScope::new(&d).read::<SequentialMapGroup>().expect("group")
            }).collect();
            ocmap::CmapSubtable::Format12(ocmap::CmapSubtableFormat12 { language: gi(v, "lang") as u32, groups })
        }
        f => panic!("cmap format {}", f),
    }
}

fn build_glyph(v: &Value) -> Glyph<'static> {
    let bbox = |v: &Value| { let b = ints(&v["bbox"]); BoundingBox { x_min: b[0] as i16, y_min: b[1] as i16, x_max: b[2] as i16, y_max: b[3] as i16 } };
    match v["t"].as_str().unwrap_or("") {
        "e" => Glyph::Empty(EmptyGlyph::new()),
        "s" => Glyph::Simple(SimpleGlyph {
            bounding_box: bbox(v),
            end_pts_of_contours: ints(&v["ends"]).iter().map(|x| *x as u16).collect(),
            instructions: leak(gb(v, "instr")),
            coordinates: seq(v, "pts").iter().map(|p| { let t = ints(p); (SimpleGlyphFlag::from_bits_truncate(t[0] as u8), Point(t[1] as i16, t[2] as i16)) }).collect(),
            phantom_points: None,
        }),
        "c" => Glyph::Composite(CompositeGlyph {
            bounding_box: bbox(v),
            glyphs: seq(v, "comps").iter().map(|c| {
                let flags = CompositeGlyphFlag::from_bits_truncate(gi(c, "flags") as u16);
                let arg = |x: i64| match (flags.arg_1_and_2_are_words(), flags.args_are_xy_values()) {
                    (true, true) => CompositeGlyphArgument::I16(x as i16),
                    (true, false) => CompositeGlyphArgument::U16(x as u16),
                    (false, true) => CompositeGlyphArgument::I8(x as i8),
                    (false, false) => CompositeGlyphArgument::U8(x as u8),
                };
                let sc: Vec<F2Dot14> = ints(&c["sc"]).iter().map(|x| F2Dot14::from_raw(*x as i16)).collect();
                let scale = match sc.len() {
                    0 => None,
                    1 => Some(CompositeGlyphScale::Scale(sc[0])),
                    2 => Some(CompositeGlyphScale::XY { x_scale: sc[0], y_scale: sc[1] }),
                    _ => Some(CompositeGlyphScale::Matrix([[sc[0], sc[1]], [sc[2], sc[3]]])),
                };
                CompositeGlyphComponent { flags, glyph_index: gi(c, "gid") as u16, argument1: arg(gi(c, "a1")), argument2: arg(gi(c, "a2")), scale }
            }).collect(),
            instructions: leak(gb(v, "instr")),
            phantom_points: None,
        }),
        t => panic!("glyph kind {}", t),
    }
}

// ---- running a case -----------------------------------------------------------------------------

fn werr(e: &WriteError) -> String {
    format!("{:?}", e)
}

/// Write with `w`, then read back with `r` (which returns projection, bytes left, and the
/// outcome of writing the read-back value once more: "same" / "diff" / "n/a" / error text).
fn roundtrip(
    w: impl FnOnce(&mut WriteBuffer) -> Result<(), WriteError>,
    r: impl FnOnce(&[u8]) -> Result<(Value, i64, String), String>,
) -> Value {
    let wr = guarded(|| {
        let mut b = WriteBuffer::new();
        w(&mut b).map(|_| b.into_inner())
    });
    let none = json!([]);
    match wr {
        Outcome::Panicked(m) => json!({"res": format!("Panic:{}", panic_key(&m)), "bytes": [], "back": none, "rem": -1, "again": "n/a"}),
        Outcome::Returned(Err(e)) => json!({"res": "Err", "err": werr(&e), "bytes": [], "back": none, "rem": -1, "again": "n/a"}),
        Outcome::Returned(Ok(bytes)) => match guarded(|| r(&bytes)) {
            Outcome::Panicked(m) => json!({"res": format!("ReadPanic:{}", panic_key(&m)), "bytes": jb(&bytes), "back": none, "rem": -1, "again": "n/a"}),
            Outcome::Returned(Err(e)) => json!({"res": format!("ReadErr:{}", e), "bytes": jb(&bytes), "back": none, "rem": -1, "again": "n/a"}),
            Outcome::Returned(Ok((back, rem, again))) => json!({"res": "Ok", "bytes": jb(&bytes), "back": back, "rem": rem, "again": again}),
        },
    }
}

fn again_of(first: &[u8], second: Result<Vec<u8>, WriteError>) -> String {
    match second {
        Ok(b) if b == first => "same".to_string(),
        Ok(b) => format!("diff:{}", b.len()),
        Err(e) => format!("Err:{:?}", e),
    }
}

fn pe<E: std::fmt::Debug>(e: E) -> String {
    format!("{:?}", e)
}

fn left(c: &ReadCtxt<'_>) -> i64 {
    c.scope().data().len() as i64
}

pub fn write_head(b: &mut WriteBuffer, h: &HeadTable) -> Result<(), WriteError> {
    let ph = HeadTable::write(b, h)?;
    b.write_placeholder(ph, h.check_sum_adjustment)
}

fn write_vec(f: impl FnOnce(&mut WriteBuffer) -> Result<(), WriteError>) -> Result<Vec<u8>, WriteError> {
    let mut b = WriteBuffer::new();
    f(&mut b)?;
    Ok(b.into_inner())
}

fn run_table(k: &str, v: &Value) -> Value {
    match k {
        "head" => {
            let h = build_head(v);
            roundtrip(|b| write_head(b, &h), |d| {
                let mut c = ReadScope::new(d).ctxt();
                let t = c.read::<HeadTable>().map_err(pe)?;
                Ok((proj_head(&t), left(&c), again_of(d, write_vec(|b| write_head(b, &t)))))
            })
        }
        "hhea" => {
            let h = build_hhea(v);
            roundtrip(|b| HheaTable::write(b, &h), |d| {
                let mut c = ReadScope::new(d).ctxt();
                let t = c.read::<HheaTable>().map_err(pe)?;
                Ok((proj_hhea(&t), left(&c), again_of(d, write_vec(|b| HheaTable::write(b, &t)))))
            })
        }
        "maxp" => {
            let m = build_maxp(v);
            roundtrip(|b| MaxpTable::write(b, &m), |d| {
                let mut c = ReadScope::new(d).ctxt();
                let t = c.read::<MaxpTable>().map_err(pe)?;
                Ok((proj_maxp(&t), left(&c), again_of(d, write_vec(|b| MaxpTable::write(b, &t)))))
            })
        }
        "hmtx" => {
            let hm: Vec<LongHorMetric> = seq(v, "hm").iter().map(|m| { let t = ints(m); LongHorMetric { advance_width: t[0] as u16, lsb: t[1] as i16 } }).collect();
            let lsb: Vec<i16> = ints(&v["lsb"]).iter().map(|x| *x as i16).collect();
            let (nh, nl) = (hm.len(), lsb.len());
            let t = HmtxTable { h_metrics: ReadArrayCow::Owned(hm), left_side_bearings: ReadArrayCow::Owned(lsb) };
            roundtrip(|b| HmtxTable::write(b, &t), |d| {
                let mut c = ReadScope::new(d).ctxt();
                let t = c.read_dep::<HmtxTable<'_>>((nh + nl, nh)).map_err(pe)?;
                Ok((proj_hmtx(&t), left(&c), again_of(d, write_vec(|b| HmtxTable::write(b, &t)))))
            })
        }
        "cvt" => {
            let vals: Vec<i16> = ints(&v["vals"]).iter().map(|x| *x as i16).collect();
            let t = CvtTable { values: ReadArrayCow::Owned(vals) };
            roundtrip(|b| CvtTable::write(b, &t), |d| {
                let mut c = ReadScope::new(d).ctxt();
                let t = c.read_dep::<CvtTable<'_>>(d.len() as u32).map_err(pe)?;
                Ok((proj_cvt(&t), left(&c), again_of(d, write_vec(|b| CvtTable::write(b, &t)))))
            })
        }
        "loca" => {
            let fmt = gi(v, "fmt");
            let f = if fmt == 0 { IndexToLocFormat::Short } else { IndexToLocFormat::Long };
            let offs: Vec<u32> = ints(&v["offs"]).iter().map(|x| *x as u32).collect();
            let n = offs.len();
            roundtrip(|b| loca::owned::LocaTable::write_dep(b, loca::owned::LocaTable { offsets: offs }, f), |d| {
                let mut c = ReadScope::new(d).ctxt();
                let t = c.read_dep::<LocaTable<'_>>((n - 1, f)).map_err(pe)?;
                let p = proj_loca(&t, fmt);
                Ok((p, left(&c), again_of(d, write_vec(|b| LocaTable::write(b, t)))))
            })
        }
        "os2" => {
            let o = build_os2(v);
            roundtrip(|b| Os2::write(b, &o), |d| {
                let mut c = ReadScope::new(d).ctxt();
                let t = c.read_dep::<Os2>(d.len()).map_err(pe)?;
                Ok((proj_os2(&t), left(&c), again_of(d, write_vec(|b| Os2::write(b, &t)))))
            })
        }
        "post" => {
            let p = build_post(v);
            roundtrip(|b| PostTable::write(b, &p), |d| {
                let mut c = ReadScope::new(d).ctxt();
                let t = c.read::<PostTable<'_>>().map_err(pe)?;
                Ok((proj_post(&t), left(&c), again_of(d, write_vec(|b| PostTable::write(b, &t)))))
            })
        }
        "name" => {
            let n = build_name(v);
            roundtrip(|b| otables::NameTable::write(b, &n), |d| {
                let t = ReadScope::new(d).read::<NameTable<'_>>().map_err(pe)?;
                let o = otables::NameTable::try_from(&t).map_err(pe)?;
                // both writers on what was read: the borrowed table and its owned form
                let a1 = again_of(d, write_vec(|b| NameTable::write(b, &t)));
                let a2 = again_of(d, write_vec(|b| otables::NameTable::write(b, &o)));
                Ok((proj_name_owned(&o), -1, if a1 == "same" { a2 } else { a1 }))
            })
        }
        "cmapsub" => {
            let s = build_cmapsub(v);
            roundtrip(|b| ocmap::CmapSubtable::write(b, s), |d| {
                let mut c = ReadScope::new(d).ctxt();
                let t = c.read::<CmapSubtable<'_>>().map_err(pe)?;
                Ok((proj_cmapsub(&t), left(&c), again_of(d, write_vec(|b| CmapSubtable::write(b, &t)))))
            })
        }
        "cmap" => {
            let recs: Vec<ocmap::EncodingRecord> = seq(v, "recs").iter().map(|r| ocmap::EncodingRecord {
                platform_id: PlatformId(gi(r, "p") as u16), encoding_id: EncodingId(gi(r, "e") as u16), sub_table: build_cmapsub(&r["sub"]),
            }).collect();
            roundtrip(|b| ocmap::Cmap::write(b, ocmap::Cmap { encoding_records: recs }), |d| {
                let t = ReadScope::new(d).read::<Cmap<'_>>().map_err(pe)?;
                let mut out = Vec::new();
                for r in t.encoding_records() {
                    let s = t.scope.offset(r.offset as usize).read::<CmapSubtable<'_>>().map_err(pe)?;
                    out.push(json!({"p": r.platform_id.0, "e": r.encoding_id.0, "sub": proj_cmapsub(&s)}));
                }
                Ok((json!({"recs": out}), -1, "n/a".to_string()))
            })
        }
        "glyph" => {
            let g = build_glyph(v);
            roundtrip(|b| Glyph::write(b, g), |d| {
                if d.is_empty() {
                    return Ok((json!({"t": "e"}), 0, "n/a".to_string()));
                }
                let mut c = ReadScope::new(d).ctxt();
                let t = c.read::<Glyph<'_>>().map_err(pe)?;
                let p = proj_glyph(&t, false);
                let rem = left(&c);
                Ok((p, rem, again_of(d, write_vec(|b| Glyph::write(b, t)))))
            })
        }
        _ => panic!("unknown table kind {}", k),
    }
}

fn read_dict_entries(kind: &str, d: &[u8]) -> Result<Value, String> {
    let s = ReadScope::new(d);
    match kind {
        "top" => s.read_dep::<cff::TopDict>(cff::MAX_OPERANDS).map(|x| proj_dict(&x)).map_err(pe),
        "priv" => s.read_dep::<cff::PrivateDict>(cff::MAX_OPERANDS).map(|x| proj_dict(&x)).map_err(pe),
        "font" => s.read_dep::<cff::FontDict>(cff::MAX_OPERANDS).map(|x| proj_dict(&x)).map_err(pe),
        "top2" => s.read_dep::<cff2::TopDict>(cff2::MAX_OPERANDS).map(|x| proj_dict(&x)).map_err(pe),
        "priv2" => s.read_dep::<cff2::PrivateDict>(cff2::MAX_OPERANDS).map(|x| proj_dict(&x)).map_err(pe),
        _ => Err(format!("dict kind {}", kind)),
    }
}

fn rewrite_dict(kind: &str, d: &[u8]) -> Result<Result<Vec<u8>, WriteError>, String> {
    fn go<T: DictDefault>(d: &[u8], max: usize) -> Result<Result<Vec<u8>, WriteError>, String> {
        let x = ReadScope::new(d).read_dep::<Dict<T>>(max).map_err(pe)?;
        Ok(write_vec(|b| Dict::<T>::write_dep(b, &x, DictDelta::new()).map(|_| ())))
    }
    match kind {
        "top" => go::<cff::TopDictDefault>(d, cff::MAX_OPERANDS),
        "priv" => go::<cff::PrivateDictDefault>(d, cff::MAX_OPERANDS),
        "font" => go::<cff::FontDictDefault>(d, cff::MAX_OPERANDS),
        "top2" => go::<cff2::TopDictDefault>(d, cff2::MAX_OPERANDS),
        "priv2" => go::<cff2::PrivateDictDefault>(d, cff2::MAX_OPERANDS),
        _ => Err(format!("dict kind {}", kind)),
    }
}

fn index_objs(i: &cff::Index<'_>) -> Value {
    Value::Array(i.iter().map(jb).collect())
}

// -- a minimal CFF table, the vehicle for an owned INDEX (MaybeOwnedIndex::replace) ---------------

pub fn mk_index(objs: &[Vec<u8>], off_size: u8, count32: bool) -> Vec<u8> {
    let mut v = Vec::new();
    if count32 { v.extend_from_slice(&(objs.len() as u32).to_be_bytes()); } else { v.extend_from_slice(&(objs.len() as u16).to_be_bytes()); }
    if objs.is_empty() {
        return v;
    }
    v.push(off_size);
    let mut off = 1u32;
    let push = |v: &mut Vec<u8>, o: u32| v.extend_from_slice(&o.to_be_bytes()[4 - off_size as usize..]);
    push(&mut v, off);
    for o in objs {
        off += o.len() as u32;
        push(&mut v, off);
    }
    for o in objs {
        v.extend_from_slice(o);
    }
    v
}

pub fn int5(v: i32) -> Vec<u8> {
    let mut o = vec![29];
    o.extend_from_slice(&v.to_be_bytes());
    o
}

/// Options of the synthetic Type 1 flavoured CFF.
#[derive(Default, Clone)]
pub struct MiniCff {
    pub gsubrs: usize,
    pub explicit_charset0: bool,
    pub custom_charset: Option<Vec<u8>>,   // bytes of a charset for 3 glyphs
    pub custom_encoding: Option<Vec<u8>>,
    pub local_subrs: Option<Vec<Vec<u8>>>,
    pub private: Vec<u8>,                  // Private DICT bytes (without Subrs)
    pub top_extra: Vec<u8>,                // extra Top DICT bytes, placed first
    pub glyphs: usize,
    pub strings: Vec<Vec<u8>>,             // String INDEX (SIDs 391 ..)
    pub hdr_pad: Vec<u8>,                  // bytes between the four header fields and the Name INDEX (hdrSize = 4 + len)
    pub hdr_minor: u8,
    pub hdr_off_size: u8,                  // 0: the usual 1
}

pub fn mini_cff(o: &MiniCff) -> Vec<u8> {
    let nglyphs = o.glyphs.max(1);
    let name = mk_index(&[b"A".to_vec()], 1, false);
    let strings = mk_index(&o.strings, 1, false);
    // global subroutines differ from one another (and from the strings): a structure read at the wrong place shows
    let gsubr = mk_index(&(0..o.gsubrs).map(|i| { let mut v = vec![139u8; i % 3]; v.push(11); v }).collect::<Vec<_>>(), 1, false);
    let cs = mk_index(&vec![vec![14u8]; nglyphs], 1, false);
    // Private DICT followed by its local subrs (offset relative to the start of the DICT)
    let mut private = o.private.clone();
    let mut subrs = Vec::new();
    if let Some(ls) = &o.local_subrs {
        let plen = private.len() + 6;
        private.extend(int5(plen as i32));
        private.push(19);
        subrs = mk_index(ls, 1, false);
    }
    let mk_top = |cs_off: i32, charset_off: i32, enc_off: i32, priv_off: i32| {
        let mut t = o.top_extra.clone();
        if o.explicit_charset0 {
            t.extend_from_slice(&[139, 15]);
        }
        if o.custom_charset.is_some() {
            t.extend(int5(charset_off));
            t.push(15);
        }
        if o.custom_encoding.is_some() {
            t.extend(int5(enc_off));
            t.push(16);
        }
        t.extend(int5(cs_off));
        t.push(17);
        t.extend(int5(private.len() as i32));
        t.extend(int5(priv_off));
        t.push(18);
        t
    };
    let top_osz = if mk_top(0, 0, 0, 0).len() + 1 > 255 { 2 } else { 1 };
    let top0 = mk_index(&[mk_top(0, 0, 0, 0)], top_osz, false);
    let cs_off = 4 + o.hdr_pad.len() + name.len() + top0.len() + strings.len() + gsubr.len();
    let charset_off = cs_off + cs.len();
    let enc_off = charset_off + o.custom_charset.as_ref().map(|c| c.len()).unwrap_or(0);
    let priv_off = enc_off + o.custom_encoding.as_ref().map(|c| c.len()).unwrap_or(0);
    let top = mk_index(&[mk_top(cs_off as i32, charset_off as i32, enc_off as i32, priv_off as i32)], top_osz, false);
    assert_eq!(top.len(), top0.len());
    let mut d = vec![1, o.hdr_minor, 4 + o.hdr_pad.len() as u8, o.hdr_off_size.max(1)];
    d.extend_from_slice(&o.hdr_pad);
    d.extend(name);
    d.extend(top);
    d.extend(strings);
    d.extend(gsubr);
    d.extend(cs);
    if let Some(c) = &o.custom_charset { d.extend_from_slice(c); }
    if let Some(c) = &o.custom_encoding { d.extend_from_slice(c); }
    d.extend(private);
    d.extend(subrs);
    d
}

/// The same table with a longer header: `pad` is inserted behind the four header fields (hdrSize grows by its length)
/// and every absolute offset - Top DICT: charset (> 2), Encoding (> 1), CharStrings, Private, FDArray, FDSelect; Font
/// DICTs: Private - grows with it.  Works in place, hence only on tables whose offset operands all have the
/// five-byte form and whose header has four bytes (None otherwise).  Independent of allsorts (own DICT walker).
pub fn cff_longer_header(src: &[u8], pad: &[u8]) -> Option<Vec<u8>> {
    let k = pad.len() as i64;
    if src.len() < 4 || src[2] != 4 || 4 + pad.len() > 255 {
        return None;
    }
    let mut d = src.to_vec();
    // patch the offset operands of one DICT (bytes a .. b of d); returns the FDArray offset found (before patching)
    fn patch(d: &mut [u8], a: usize, b: usize, k: i64, top: bool) -> Option<Option<usize>> {
        let mut at = a;
        let mut operands: Vec<(usize, usize)> = Vec::new(); // (position, size)
        let mut fdarray = None;
        while at < b {
            let b0 = d[at];
            let n = match b0 {
                12 => 2,
                0..=11 | 13..=24 => 1,
                28 => 3,
                29 => 5,
                30 => {
                    let mut e = at + 1;
                    while e < b && (d[e] & 0x0f) != 0x0f && (d[e] >> 4) != 0x0f { e += 1; }
                    e + 1 - at
                }
                32..=246 => 1,
                247..=254 => 2,
                _ => return None,
            };
            if at + n > b { return None; }
            if b0 <= 24 {
                let op: u16 = if b0 == 12 { 0x0c00 | d[at + 1] as u16 } else { b0 as u16 };
                // which operands are absolute offsets
                let which: &[usize] = match op {
                    15 | 16 | 17 if top => &[0],
                    0x0c24 | 0x0c25 if top => &[0],
                    18 => &[1],
                    _ => &[],
                };
                for w in which {
                    let (p, sz) = *operands.get(*w)?;
                    // predefined charset / encoding ids are not offsets (allsorts writes `0 Encoding` as a one-byte integer)
                    if sz == 1 && ((op == 15 && (139..=141).contains(&d[p])) || (op == 16 && (139..=140).contains(&d[p]))) { continue; }
                    if sz != 5 { return None; }
                    let v = i32::from_be_bytes([d[p + 1], d[p + 2], d[p + 3], d[p + 4]]) as i64;
                    if (op == 15 && v <= 2) || (op == 16 && v <= 1) { continue; }
                    if op == 0x0c24 { fdarray = Some(v as usize); }
                    d[p + 1..p + 5].copy_from_slice(&((v + k) as i32).to_be_bytes());
                }
                operands.clear();
            } else {
                operands.push((at, n));
            }
            at += n;
        }
        Some(fdarray)
    }
    let (_, _, _, name_end) = walk_index(&d, 4)?;
    let (count, sz, offs, _) = walk_index(&d, name_end)?;
    if count != 1 { return None; }
    let data0 = name_end + 3 + 2 * sz as usize;
    let fdarray = patch(&mut d, data0 + offs[0] as usize - 1, data0 + offs[1] as usize - 1, k, true)?;
    if let Some(fa) = fdarray {
        let (n, fsz, foffs, _) = walk_index(&d, fa)?;
        let fdata = fa + 3 + (n + 1) * fsz as usize;
        for i in 0..n {
            patch(&mut d, fdata + foffs[i] as usize - 1, fdata + foffs[i + 1] as usize - 1, k, false)?;
        }
    }
    d[2] = 4 + pad.len() as u8;
    let mut out = d[..4].to_vec();
    out.extend_from_slice(pad);
    out.extend_from_slice(&d[4..]);
    Some(out)
}

/// Independent reading of an INDEX header: (count, offSize, offsets, end of the INDEX).
pub fn walk_index(d: &[u8], at: usize) -> Option<(usize, u8, Vec<u64>, usize)> {
    let count = u16::from_be_bytes([*d.get(at)?, *d.get(at + 1)?]) as usize;
    if count == 0 {
        return Some((0, 0, vec![], at + 2));
    }
    let sz = *d.get(at + 2)? as usize;
    if !(1..=4).contains(&sz) {
        return None;
    }
    let mut offs = Vec::with_capacity(count + 1);
    for i in 0..=count {
        let p = at + 3 + i * sz;
        let mut x = 0u64;
        for j in 0..sz {
            x = (x << 8) | *d.get(p + j)? as u64;
        }
        offs.push(x);
    }
    let end = at + 3 + (count + 1) * sz + (*offs.last()? as usize) - 1;
    Some((count, sz as u8, offs, end))
}

fn obj_facts(o: &[u8]) -> Value {
    if o.is_empty() {
        return json!([0, 0, 0, 0]);
    }
    let sum: u64 = o.iter().map(|x| *x as u64).sum::<u64>() % 65521;
    json!([o.len(), o[0], o[o.len() - 1], sum])
}

fn run_indexo(v: &Value) -> Value {
    let lens: Vec<usize> = ints(&v["lens"]).iter().map(|x| *x as usize).collect();
    let fill: Vec<u8> = ints(&v["fill"]).iter().map(|x| *x as u8).collect();
    let base = mini_cff(&MiniCff { gsubrs: lens.len(), ..Default::default() });
    let out = guarded(|| -> Result<Value, String> {
        let mut cff = ReadScope::new(&base).read::<CFF<'_>>().map_err(|e| format!("base {:?}", e))?;
        for (i, n) in lens.iter().enumerate() {
            cff.global_subr_index.replace(i, vec![fill[i]; *n]);
        }
        let mut b = WriteBuffer::new();
        if let Err(e) = CFF::write(&mut b, &cff) {
            return Ok(json!({"res": "Err", "err": werr(&e), "count": -1, "offSize": -1, "offsets": [], "objs": []}));
        }
        let d = b.into_inner();
        // locate the global subr INDEX independently: header, name, top dict, string, gsubr
        let mut at = d[2] as usize;
        for _ in 0..3 {
            at = walk_index(&d, at).ok_or("walk")?.3;
        }
        let (count, sz, offs, _) = walk_index(&d, at).ok_or("walk gsubr")?;
        let back = ReadScope::new(&d).read::<CFF<'_>>().map_err(|e| format!("reread {:?}", e))?;
        let objs: Vec<Value> = back.global_subr_index.iter().map(obj_facts).collect();
        Ok(json!({"res": "Ok", "count": count, "offSize": sz, "offsets": offs, "objs": objs}))
    });
    match out {
        Outcome::Returned(Ok(v)) => v,
        Outcome::Returned(Err(e)) => json!({"res": format!("ReadErr:{}", e), "count": -1, "offSize": -1, "offsets": [], "objs": []}),
        Outcome::Panicked(m) => json!({"res": format!("Panic:{}", panic_key(&m)), "count": -1, "offSize": -1, "offsets": [], "objs": []}),
    }
}

/// A simple glyph in a foreign packing (short vectors, "same" coordinates, repeated flags): the bytes
/// TLC prescribed are parsed, the parsed glyph is written, the written bytes are parsed again.
fn run_glyphp(case: &Value) -> Value {
    let src = gb(case, "src");
    let fail = |res: String| json!({"res": res, "back1": [], "rem1": -1, "bytes": [], "back": [], "rem": -1, "again": "n/a"});
    let out = guarded(|| -> Result<Value, String> {
        let mut c = ReadScope::new(&src).ctxt();
        let g = c.read::<Glyph<'_>>().map_err(|e| format!("src {:?}", e))?;
        let back1 = proj_glyph(&g, false);
        let rem1 = left(&c);
        match write_vec(|b| Glyph::write(b, g)) {
            Err(e) => Ok(json!({"res": "Err", "err": werr(&e), "back1": back1, "rem1": rem1, "bytes": [], "back": [], "rem": -1, "again": "n/a"})),
            Ok(bytes) => {
                let mut c2 = ReadScope::new(&bytes).ctxt();
                let t = c2.read::<Glyph<'_>>().map_err(|e| format!("reread {:?}", e))?;
                let back = proj_glyph(&t, false);
                let rem = left(&c2);
                let again = again_of(&bytes, write_vec(|b| Glyph::write(b, t)));
                Ok(json!({"res": "Ok", "back1": back1, "rem1": rem1, "bytes": jb(&bytes), "back": back, "rem": rem, "again": again}))
            }
        }
    });
    match out {
        Outcome::Returned(Ok(v)) => v,
        Outcome::Returned(Err(e)) => fail(format!("ReadErr:{}", e)),
        Outcome::Panicked(m) => fail(format!("Panic:{}", panic_key(&m))),
    }
}


// -- the parts of an item variation store on their own ------------------------------------------------

/// ItemVariationData: TLC's bytes are parsed, written, parsed again. The fields are private: what can be
/// observed is how much was consumed, for how many indices `delta_set` has a row, and the bytes written.
fn run_ivd(case: &Value) -> Value {
    let src = gb(case, "src");
    let probes = gi(&case["exp"], "probes") as u16;
    let fail = |res: String| json!({"res": res, "rem1": -1, "rows1": -1, "bytes": [], "rem": -1, "rows": -1, "again": "n/a"});
    let out = guarded(|| -> Result<Value, String> {
        let rows = |d: &ItemVariationData<'_>| (0..probes).filter(|i| d.delta_set(*i).is_some()).count();
        let mut c = ReadScope::new(&src).ctxt();
        let d = c.read::<ItemVariationData<'_>>().map_err(|e| format!("src {:?}", e))?;
        let (rem1, rows1) = (left(&c), rows(&d));
        match write_vec(|b| ItemVariationData::write(b, &d)) {
            Err(e) => Ok(json!({"res": "Err", "err": werr(&e), "rem1": rem1, "rows1": rows1, "bytes": [], "rem": -1, "rows": -1, "again": "n/a"})),
            Ok(bytes) => {
                let mut c2 = ReadScope::new(&bytes).ctxt();
                let t = c2.read::<ItemVariationData<'_>>().map_err(|e| format!("reread {:?}", e))?;
                let again = again_of(&bytes, write_vec(|b| ItemVariationData::write(b, &t)));
                Ok(json!({"res": "Ok", "rem1": rem1, "rows1": rows1, "bytes": jb(&bytes), "rem": left(&c2), "rows": rows(&t), "again": again}))
            }
        }
    });
    match out {
        Outcome::Returned(Ok(v)) => v,
        Outcome::Returned(Err(e)) => fail(format!("ReadErr:{}", e)),
        Outcome::Panicked(m) => fail(format!("Panic:{}", panic_key(&m))),
    }
}

fn run_ivr(case: &Value) -> Value {
    let src = gb(case, "src");
    let fail = |res: String| json!({"res": res, "rem1": -1, "nreg1": -1, "bytes": [], "rem": -1, "nreg": -1, "again": "n/a"});
    let out = guarded(|| -> Result<Value, String> {
        let mut c = ReadScope::new(&src).ctxt();
        let d = c.read::<VariationRegionList<'_>>().map_err(|e| format!("src {:?}", e))?;
        let (rem1, nreg1) = (left(&c), d.variation_regions.len());
        match write_vec(|b| VariationRegionList::write(b, &d)) {
            Err(e) => Ok(json!({"res": "Err", "err": werr(&e), "rem1": rem1, "nreg1": nreg1, "bytes": [], "rem": -1, "nreg": -1, "again": "n/a"})),
            Ok(bytes) => {
                let mut c2 = ReadScope::new(&bytes).ctxt();
                let t = c2.read::<VariationRegionList<'_>>().map_err(|e| format!("reread {:?}", e))?;
                let again = again_of(&bytes, write_vec(|b| VariationRegionList::write(b, &t)));
                Ok(json!({"res": "Ok", "rem1": rem1, "nreg1": nreg1, "bytes": jb(&bytes), "rem": left(&c2), "nreg": t.variation_regions.len(), "again": again}))
            }
        }
    });
    match out {
        Outcome::Returned(Ok(v)) => v,
        Outcome::Returned(Err(e)) => fail(format!("ReadErr:{}", e)),
        Outcome::Panicked(m) => fail(format!("Panic:{}", panic_key(&m))),
    }
}

// -- a whole CFF table -----------------------------------------------------------------------------------

const OFFSET_OPS: [i64; 7] = [15, 16, 17, 18, 19, 3108, 3109];

fn ops_of<T: DictDefault>(d: &Dict<T>) -> Vec<i64> {
    d.iter().map(|(op, _)| op_code(*op)).filter(|o| !OFFSET_OPS.contains(o)).collect()
}

fn facts_of<'a>(objs: impl Iterator<Item = &'a [u8]>) -> Value {
    Value::Array(objs.map(obj_facts).collect())
}

/// What allsorts reports of a CFF table it has read (the vocabulary of CffCodec!CffFacts).
pub fn cff_facts(c: &CFF<'_>) -> Result<Value, String> {
    let f = c.fonts.first().ok_or("no font")?;
    let sids: Vec<u16> = match &f.charset {
        Charset::ISOAdobe => vec![],
        Charset::Custom(CustomCharset::Format0 { glyphs }) => glyphs.iter().collect(),
        _ => vec![65535],
    };
    let mut sidstr = Vec::new();
    for (op, args) in f.top_dict.iter() {
        if (0..=4).contains(&op_code(*op)) && args.len() == 1 {
            if let Operand::Integer(sid) = args[0] {
                sidstr.push(if sid < 391 {
                    json!([-1, 0, 0, 0])
                } else {
                    match c.string_index.read_object(sid as usize - 391) {
                        Some(s) => obj_facts(s),
                        None => json!([-2, 0, 0, 0]),
                    }
                });
            }
        }
    }
    let n = f.char_strings_index.len();
    let lsf = |i: &Option<cff::MaybeOwnedIndex<'_>>| match i {
        Some(i) => (true, facts_of(i.iter())),
        None => (false, json!([])),
    };
    let (privs, fdops, fdsel) = match &f.data {
        CFFVariant::Type1(t) => {
            let (has, ls) = lsf(&t.local_subr_index);
            (vec![json!({"ops": ops_of(&t.private_dict), "hasLs": has, "ls": ls})], vec![], vec![])
        }
        CFFVariant::CID(cid) => {
            let mut privs = Vec::new();
            for (p, l) in cid.private_dicts.iter().zip(cid.local_subr_indices.iter()) {
                let (has, ls) = lsf(l);
                privs.push(json!({"ops": ops_of(p), "hasLs": has, "ls": ls}));
            }
            let mut fdops = Vec::new();
            for i in 0..cid.font_dict_index.len() {
                fdops.push(json!(ops_of(&cid.font_dict(i).map_err(pe)?)));
            }
            let sel: Vec<i64> = (0..n as u16).map(|g| cid.fd_select.font_dict_index(g).map(|x| x as i64).unwrap_or(-1)).collect();
            (privs, fdops, sel)
        }
    };
    Ok(json!({"hdr": [c.header.major, c.header.minor, c.header.off_size],
              "names": facts_of(c.name_index.iter()), "strs": facts_of(c.string_index.iter()), "gs": facts_of(c.global_subr_index.iter()),
              "cs": facts_of(f.char_strings_index.iter()), "sids": sids, "topops": ops_of(&f.top_dict), "sidstr": sidstr,
              "privs": privs, "fdops": fdops, "fdsel": fdsel}))
}

fn run_cfft(case: &Value) -> Value {
    let src = gb(case, "src");
    let none = json!([]);
    // hs1 / hs: the header size allsorts reports on the first / the second reading; reread: outcome of the second reading
    // (when it fails the bytes still go to the judge, which decodes them with the specification)
    let fail = |res: String| json!({"res": res, "back1": none, "hs1": -1, "bytes": [], "reread": "n/a", "back": none, "hs": -1, "again": "n/a"});
    let out = guarded(|| -> Result<Value, String> {
        let c = ReadScope::new(&src).read::<CFF<'_>>().map_err(|e| format!("src {:?}", e))?;
        let back1 = cff_facts(&c)?;
        let hs1 = c.header.hdr_size;
        match write_vec(|b| CFF::write(b, &c)) {
            Err(e) => Ok(json!({"res": "Err", "err": werr(&e), "back1": back1, "hs1": hs1, "bytes": [], "reread": "n/a", "back": none, "hs": -1, "again": "n/a"})),
            Ok(bytes) => {
                let second = guarded(|| -> Result<(Value, u8, String), String> {
                    let t = ReadScope::new(&bytes).read::<CFF<'_>>().map_err(|e| format!("Err:{:?}", e))?;
                    let back = cff_facts(&t).map_err(|e| format!("Err:{}", e))?;
                    Ok((back, t.header.hdr_size, again_of(&bytes, write_vec(|b| CFF::write(b, &t)))))
                });
                Ok(match second {
                    Outcome::Returned(Ok((back, hs, again))) =>
                        json!({"res": "Ok", "back1": back1, "hs1": hs1, "bytes": jb(&bytes), "reread": "Ok", "back": back, "hs": hs, "again": again}),
                    Outcome::Returned(Err(e)) =>
                        json!({"res": "Ok", "back1": back1, "hs1": hs1, "bytes": jb(&bytes), "reread": e, "back": none, "hs": -1, "again": "n/a"}),
                    Outcome::Panicked(m) =>
                        json!({"res": "Ok", "back1": back1, "hs1": hs1, "bytes": jb(&bytes), "reread": format!("Panic:{}", panic_key(&m)), "back": none, "hs": -1, "again": "n/a"}),
                })
            }
        }
    });
    match out {
        Outcome::Returned(Ok(v)) => v,
        Outcome::Returned(Err(e)) => fail(format!("ReadErr:{}", e)),
        Outcome::Panicked(m) => fail(format!("Panic:{}", panic_key(&m))),
    }
}

fn run_cff_kind(k: &str, case: &Value) -> Value {
    let v = &case["v"];
    match k {
        "cffint" => {
            let op = if v["t"] == "o" { Operand::Offset(gi(v, "v") as i32) } else { Operand::Integer(gi(v, "v") as i32) };
            roundtrip(|b| Operand::write(b, &op), |d| {
                let mut x = d.to_vec();
                x.push(1); // Notice: an operator without special treatment of its operands
                let dict = ReadScope::new(&x).read_dep::<cff::TopDict>(cff::MAX_OPERANDS).map_err(pe)?;
                let e = proj_dict(&dict);
                let args = e[0]["args"].as_array().cloned().unwrap_or_default();
                if e.as_array().map(|a| a.len()) != Some(1) || args.len() != 1 {
                    return Err(format!("reads as {}", e));
                }
                Ok((args[0].clone(), 0, "n/a".to_string()))
            })
        }
        "dict" => {
            let kind = v["kind"].as_str().unwrap_or("");
            let src = gb(case, "src");
            let out = guarded(|| -> Result<Value, String> {
                let back1 = read_dict_entries(kind, &src)?;
                match rewrite_dict(kind, &src)? {
                    Err(e) => Ok(json!({"res": "Err", "err": werr(&e), "back1": back1, "bytes": [], "back": []})),
                    Ok(bytes) => {
                        let back = read_dict_entries(kind, &bytes)?;
                        let again = again_of(&bytes, rewrite_dict(kind, &bytes)?);
                        Ok(json!({"res": "Ok", "back1": back1, "bytes": jb(&bytes), "back": back, "again": again}))
                    }
                }
            });
            match out {
                Outcome::Returned(Ok(v)) => v,
                Outcome::Returned(Err(e)) => json!({"res": format!("ReadErr:{}", e), "back1": [], "bytes": [], "back": []}),
                Outcome::Panicked(m) => json!({"res": format!("Panic:{}", panic_key(&m)), "back1": [], "bytes": [], "back": []}),
            }
        }
        "index" => {
            let src = gb(case, "src");
            let c32 = v["c32"].as_bool().unwrap_or(false);
            let out = guarded(|| -> Result<Value, String> {
                let rd = |d: &[u8]| -> Result<(Value, i64, Result<Vec<u8>, WriteError>), String> {
                    let mut c = ReadScope::new(d).ctxt();
                    let i = if c32 { c.read::<IndexU32>().map_err(pe)? } else { c.read::<IndexU16>().map_err(pe)? };
                    let w = write_vec(|b| if c32 { IndexU32::write(b, &i) } else { IndexU16::write(b, &i) });
                    Ok((index_objs(&i), left(&c), w))
                };
                let (back1, rem1, w) = rd(&src)?;
                match w {
                    Err(e) => Ok(json!({"res": "Err", "err": werr(&e), "back1": back1, "bytes": [], "back": [], "rem": rem1})),
                    Ok(bytes) => {
                        let (back, rem, w2) = rd(&bytes)?;
                        Ok(json!({"res": "Ok", "back1": back1, "bytes": jb(&bytes), "back": back, "rem": rem.max(rem1), "again": again_of(&bytes, w2)}))
                    }
                }
            });
            match out {
                Outcome::Returned(Ok(v)) => v,
                Outcome::Returned(Err(e)) => json!({"res": format!("ReadErr:{}", e), "back1": [], "bytes": [], "back": [], "rem": -1}),
                Outcome::Panicked(m) => json!({"res": format!("Panic:{}", panic_key(&m)), "back1": [], "bytes": [], "back": [], "rem": -1}),
            }
        }
        "indexo" => run_indexo(v),
        "charset" => {
            let n = gi(case, "n") as usize;
            let c = match gi(v, "fmt") {
                0 => CustomCharset::Format0 { glyphs: ReadArrayCow::Owned(ints(&v["sids"]).iter().map(|x| *x as u16).collect()) },
                1 => CustomCharset::Format1 { ranges: ReadArrayCow::Owned(seq(v, "ranges").iter().map(|r| { let t = ints(r); Range { first: t[0] as u16, n_left: t[1] as u8 } }).collect()) },
                _ => CustomCharset::Format2 { ranges: ReadArrayCow::Owned(seq(v, "ranges").iter().map(|r| { let t = ints(r); Range { first: t[0] as u16, n_left: t[1] as u16 } }).collect()) },
            };
            roundtrip(|b| CustomCharset::write(b, &c), |d| {
                let mut x = ReadScope::new(d).ctxt();
                let t = x.read_dep::<CustomCharset<'_>>(n).map_err(pe)?;
                Ok((proj_charset(&t), left(&x), again_of(d, write_vec(|b| CustomCharset::write(b, &t)))))
            })
        }
        "encoding" => {
            let c = if gi(v, "fmt") == 0 {
                let codes = leak(gb(v, "codes"));
                CustomEncoding::Format0 { codes: ReadScope::new(codes).ctxt().read_array::<U8>(codes.len()).expect("codes") }
            } else {
                let rs: Vec<u8> = seq(v, "ranges").iter().flat_map(|r| { let t = ints(r); vec![t[0] as u8, t[1] as u8] }).collect();
                let n = rs.len() / 2;
                CustomEncoding::Format1 { ranges: ReadScope::new(leak(rs)).ctxt().read_array::<Range<u8, u8>>(n).expect("ranges") }
            };
            roundtrip(|b| CustomEncoding::write(b, &c), |d| {
                let mut x = ReadScope::new(d).ctxt();
                let t = x.read::<CustomEncoding<'_>>().map_err(pe)?;
                Ok((proj_encoding(&t), left(&x), again_of(d, write_vec(|b| CustomEncoding::write(b, &t)))))
            })
        }
        "fdselect" => {
            let n = gi(case, "n") as usize;
            let f = if gi(v, "fmt") == 0 {
                FDSelect::Format0 { glyph_font_dict_indices: ReadArrayCow::Owned(gb(v, "fds")) }
            } else {
                FDSelect::Format3 {
                    ranges: ReadArrayCow::Owned(seq(v, "ranges").iter().map(|r| { let t = ints(r); Range { first: t[0] as u16, n_left: t[1] as u8 } }).collect()),
                    sentinel: gi(v, "sentinel") as u16,
                }
            };
            roundtrip(|b| FDSelect::write(b, &f), |d| {
                let mut x = ReadScope::new(d).ctxt();
                let t = x.read_dep::<FDSelect<'_>>(n).map_err(pe)?;
                Ok((proj_fdselect(&t), left(&x), again_of(d, write_vec(|b| FDSelect::write(b, &t)))))
            })
        }
        "ivs" => {
            let src = gb(case, "src");
            let out = guarded(|| -> Result<Value, String> {
                let s = ReadScope::new(&src).read::<ItemVariationStore<'_>>().map_err(|e| format!("src {:?}", e))?;
                let (nreg, ndata) = (s.variation_region_list.variation_regions.len(), s.item_variation_data.len());
                match write_vec(|b| ItemVariationStore::write(b, &s)) {
                    Err(e) => Ok(json!({"res": "Err", "err": werr(&e), "nreg": nreg, "ndata": ndata, "bytes": [], "res2": "n/a", "nreg2": -1, "ndata2": -1})),
                    Ok(bytes) => {
                        let (res2, nreg2, ndata2) = match ReadScope::new(&bytes).read::<ItemVariationStore<'_>>() {
                            Ok(t) => ("Ok".to_string(), t.variation_region_list.variation_regions.len() as i64, t.item_variation_data.len() as i64),
                            Err(e) => (format!("Err:{:?}", e), -1, -1),
                        };
                        Ok(json!({"res": "Ok", "nreg": nreg, "ndata": ndata, "bytes": jb(&bytes), "res2": res2, "nreg2": nreg2, "ndata2": ndata2}))
                    }
                }
            });
            match out {
                Outcome::Returned(Ok(v)) => v,
                Outcome::Returned(Err(e)) => json!({"res": format!("ReadErr:{}", e), "nreg": -1, "ndata": -1, "bytes": [], "res2": "n/a", "nreg2": -1, "ndata2": -1}),
                Outcome::Panicked(m) => json!({"res": format!("Panic:{}", panic_key(&m)), "nreg": -1, "ndata": -1, "bytes": [], "res2": "n/a", "nreg2": -1, "ndata2": -1}),
            }
        }
        _ => panic!("unknown kind {}", k),
    }
}

pub fn codec_replay(cases: &str, trace: &str) {
    let mut tw = NdWriter::create(trace);
    let mut per_kind: Map<String, Value> = Map::new();
    let mut outcomes: Map<String, Value> = Map::new();
    let mut bump = |m: &mut Map<String, Value>, k: String| {
        let n = m.get(&k).and_then(|x| x.as_i64()).unwrap_or(0);
        m.insert(k, json!(n + 1));
    };
    for (i, case) in read_ndjson(cases).iter().enumerate() {
        let k = case["k"].as_str().unwrap_or("").to_string();
        let o = match k.as_str() {
            "cffint" | "dict" | "index" | "indexo" | "charset" | "encoding" | "fdselect" | "ivs" => run_cff_kind(&k, case),
            "glyphp" => run_glyphp(case),
            "ivd" => run_ivd(case),
            "ivr" => run_ivr(case),
            "cfft" => run_cfft(case),
            _ => run_table(&k, &case["v"]),
        };
        bump(&mut per_kind, k.clone());
        let want = case["exp"]["res"].as_str().unwrap_or("").to_string();
        let got = o["res"].as_str().unwrap_or("").split(':').next().unwrap_or("").to_string();
        bump(&mut outcomes, format!("{}|want={}|got={}", k, want, got));
        // variant of the structure, for stable finding keys
        let v = &case["v"];
        let var = if let Some(f) = v.get("fmt").and_then(|x| x.as_i64()) {
            format!(".fmt{}", f)
        } else if k == "glyph" || k == "glyphp" {
            format!(".{}", v["t"].as_str().unwrap_or(""))
        } else if k == "dict" {
            format!(".{}", v["kind"].as_str().unwrap_or(""))
        } else {
            String::new()
        };
        let mut a = json!({"k": k, "id": case["id"], "var": var, "exp": case["exp"]});
        if k == "cfft" {
            // the judge decodes TLC's table with the specification and compares what allsorts wrote with it
            a["src"] = case["src"].clone();
        }
        tw.write(&json!({"i": i, "case": format!("{}/{}", k, case["id"]), "ev": "Gen", "a": a, "o": o}));
    }
    let n = tw.n;
    tw.finish();
    println!("{}", json!({"events": n, "per_kind": per_kind, "outcomes": outcomes}));
}
