//! probe (temporary)
use allsorts::binary::read::ReadScope;
use allsorts::binary::write::{WriteBinary, WriteBuffer, WriteContext};
use allsorts::binary::{U16Be, U8};
use allsorts::cff::CFF;
use allsorts::error::WriteError;
use allsorts::tables::glyf::{BoundingBox, Glyph, Point, SimpleGlyph, SimpleGlyphFlag};
use allsorts::tables::variable_fonts::ItemVariationStore;
use vh::sup::{guarded, Outcome};

struct Comp;
enum Part {
    U8(u8),
    U16(u16),
    Z(usize),
    B(Vec<u8>),
}
impl<'a> WriteBinary<&'a Vec<Part>> for Comp {
    type Output = ();
    fn write<C: WriteContext>(ctxt: &mut C, val: &'a Vec<Part>) -> Result<(), WriteError> {
        for p in val {
            match p {
                Part::U8(v) => U8::write(ctxt, *v)?,
                Part::U16(v) => U16Be::write(ctxt, *v)?,
                Part::Z(n) => ctxt.write_zeros(*n)?,
                Part::B(b) => ctxt.write_bytes(b)?,
            }
        }
        Ok(())
    }
}

fn show<T: std::fmt::Debug>(name: &str, o: Outcome<T>) {
    match o {
        Outcome::Returned(v) => println!("{}: {:?}", name, v),
        Outcome::Panicked(m) => println!("{}: PANIC {}", name, m),
    }
}

fn main() {
    // 1. reserve(3), write (u16,u16)
    show("reserve3_u16x2", guarded(|| {
        let mut b = WriteBuffer::new();
        let ph = b.reserve::<Comp, Vec<Part>>(3).unwrap();
        let v = vec![Part::U16(0x0102), Part::U16(0x0304)];
        let r = b.write_placeholder(ph, &v).map_err(|e| format!("{:?}", e));
        (r, b.bytes().to_vec())
    }));
    show("reserve1_u16", guarded(|| {
        let mut b = WriteBuffer::new();
        let ph = b.reserve::<Comp, Vec<Part>>(1).unwrap();
        let v = vec![Part::U16(0x0102)];
        let r = b.write_placeholder(ph, &v).map_err(|e| format!("{:?}", e));
        (r, b.bytes().to_vec())
    }));
    show("reserve4_u8_z2_u8", guarded(|| {
        let mut b = WriteBuffer::new();
        let ph = b.reserve::<Comp, Vec<Part>>(4).unwrap();
        let v = vec![Part::U8(7), Part::Z(2), Part::U8(9)];
        let r = b.write_placeholder(ph, &v).map_err(|e| format!("{:?}", e));
        (r, b.bytes().to_vec())
    }));
    show("reserve4_b3_b3", guarded(|| {
        let mut b = WriteBuffer::new();
        let ph = b.reserve::<Comp, Vec<Part>>(4).unwrap();
        let v = vec![Part::B(vec![1, 2, 3]), Part::B(vec![4, 5, 6])];
        let r = b.write_placeholder(ph, &v).map_err(|e| format!("{:?}", e));
        (r, b.bytes().to_vec())
    }));
    // 2. glyph with 32768 contours
    show("glyph_32768_contours", guarded(|| {
        let n = 32768usize;
        let g = SimpleGlyph {
            bounding_box: BoundingBox { x_min: 0, x_max: 0, y_min: 0, y_max: 0 },
            end_pts_of_contours: (0..n).map(|i| i as u16).collect(),
            instructions: &[],
            coordinates: (0..n).map(|_| (SimpleGlyphFlag::ON_CURVE_POINT, Point(0, 0))).collect(),
            phantom_points: None,
        };
        let mut b = WriteBuffer::new();
        let r = Glyph::write(&mut b, Glyph::Simple(g)).map_err(|e| format!("{:?}", e));
        (r, b.bytes()[..4].to_vec(), b.len())
    }));
    // 3. IVS round trip
    show("ivs", guarded(|| {
        // format=1, regionListOffset=12 (u32), count=1, offsets[1] = 12+4+6=22
        let mut d: Vec<u8> = vec![0, 1, 0, 0, 0, 12, 0, 1, 0, 0, 0, 22];
        // region list: axisCount=1, regionCount=1, region: (start,peak,end)
        d.extend_from_slice(&[0, 1, 0, 1, 0, 0, 0x40, 0, 0x40, 0]);
        // item variation data: itemCount=1 wordDeltaCount=0 regionIndexCount=1 regionIndexes=[0] deltas: 1 byte
        d.extend_from_slice(&[0, 1, 0, 0, 0, 1, 0, 0, 5]);
        let ivs = ReadScope::new(&d).read::<ItemVariationStore<'_>>().map_err(|e| format!("{:?}", e))?;
        let mut b = WriteBuffer::new();
        ItemVariationStore::write(&mut b, &ivs).map_err(|e| format!("{:?}", e))?;
        let out = b.bytes().to_vec();
        let back = ReadScope::new(&out).read::<ItemVariationStore<'_>>().map(|_| "ok").map_err(|e| format!("{:?}", e));
        Ok::<_, String>((d, out, back))
    }));
    // 4. CFF with explicit `0 charset`
    for explicit in [false, true] {
        show(&format!("cff_charset0_explicit={}", explicit), guarded(|| {
            let d = mini_cff(explicit);
            let cff = ReadScope::new(&d).read::<CFF<'_>>().map_err(|e| format!("read {:?}", e))?;
            let mut b = WriteBuffer::new();
            CFF::write(&mut b, &cff).map_err(|e| format!("write {:?}", e))?;
            let out = b.bytes().to_vec();
            let back = ReadScope::new(&out).read::<CFF<'_>>().map(|_| "ok").map_err(|e| format!("{:?}", e));
            Ok::<_, String>((d.len(), out.len(), back))
        }));
    }
}

fn index(objs: &[Vec<u8>]) -> Vec<u8> {
    let mut v = vec![(objs.len() >> 8) as u8, objs.len() as u8];
    if objs.is_empty() {
        return v;
    }
    v.push(1);
    let mut off = 1u8;
    v.push(off);
    for o in objs {
        off += o.len() as u8;
        v.push(off);
    }
    for o in objs {
        v.extend_from_slice(o);
    }
    v
}

fn int5(v: i32) -> Vec<u8> {
    let mut o = vec![29];
    o.extend_from_slice(&v.to_be_bytes());
    o
}

fn mini_cff(explicit_charset0: bool) -> Vec<u8> {
    // layout: header, name INDEX, top dict INDEX, string INDEX, gsubr INDEX, charstrings INDEX, private dict
    let name = index(&[b"A".to_vec()]);
    let strings = index(&[]);
    let gsubr = index(&[]);
    let cs = index(&[vec![14]]);
    let mk_top = |cs_off: i32, priv_off: i32| {
        let mut t = Vec::new();
        if explicit_charset0 {
            t.extend_from_slice(&[139, 15]); // 0 charset
        }
        t.extend(int5(cs_off));
        t.push(17);
        t.extend(int5(0));
        t.extend(int5(priv_off));
        t.push(18);
        t
    };
    let top0 = index(&[mk_top(0, 0)]);
    let cs_off = 4 + name.len() + top0.len() + strings.len() + gsubr.len();
    let priv_off = cs_off + cs.len();
    let top = index(&[mk_top(cs_off as i32, priv_off as i32)]);
    let mut d = vec![1, 0, 4, 1];
    d.extend(name);
    d.extend(top);
    d.extend(strings);
    d.extend(gsubr);
    d.extend(cs);
    d
}
