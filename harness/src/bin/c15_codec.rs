//! C15 harness: reading is the inverse of writing (WriteBinary / ReadBinary pairs of allsorts).
//!
//! The harness decides nothing.  It builds values, calls allsorts' writers and readers under
//! `guarded`, and records what happened; expectations come from TLC (CASE lines) and verdicts
//! from TLC (Trace_Codec) or from plain JSON equality with the observation TLC prescribed.
//!
//!   c15_codec writer-replay <cases.ndjson> <mismatches.ndjson> <trace.ndjson>
//!       CASE lines of MC_BinaryWriter: a script and a fan of operations with the observation
//!       BinaryWriter.tla prescribes for each.  Every fan operation is executed on a fresh
//!       WriteBuffer after the script; accepted typed writes are read back with ReadScope.
//!       Deterministic expectations are compared by JSON equality (mismatches file); the ones
//!       that leave bytes unspecified (Dev_PartialOnErr) become WOp events for the judge.
//!   c15_codec codec-replay <cases.ndjson> <trace.ndjson>
//!       CASE lines of MC_TableCodec: the abstract value is built as the allsorts Rust value,
//!       written, parsed back and projected; one Gen event per case for the judge.
//!   c15_codec record <trace.ndjson>
//!       every parseable table of every repository font: parse, write, parse, write; one Table
//!       event per table (projections, bytes or digests), plus synthetic CFF tables.
use allsorts::binary::read::ReadScope;
use allsorts::binary::write::{Placeholder, WriteBinary, WriteBuffer, WriteContext};
use allsorts::binary::{I16Be, I32Be, I64Be, U16Be, U24Be, U32Be, I8, U8};
use allsorts::error::WriteError;
use serde_json::{json, Value};
use vh::sup::{guarded, panic_key, Outcome};
use vh::util::{read_ndjson, NdWriter};

#[path = "c15_codec/kinds.rs"]
mod kinds;
#[path = "c15_codec/record.rs"]
mod record;

// ---- composite values for reservations -----------------------------------------------------

pub enum Part {
    U8(u8),
    U16(u16),
    U24(u32),
    Zeros(usize),
    Bytes(Vec<u8>),
}

/// A value written with several primitive calls, as IndexU16 / Dict are in cff.rs.
pub struct Comp;

impl<'a> WriteBinary<&'a Vec<Part>> for Comp {
    type Output = ();
    fn write<C: WriteContext>(ctxt: &mut C, val: &'a Vec<Part>) -> Result<(), WriteError> {
        for p in val {
            match p {
                Part::U8(v) => U8::write(ctxt, *v)?,
                Part::U16(v) => U16Be::write(ctxt, *v)?,
                Part::U24(v) => U24Be::write(ctxt, *v)?,
                Part::Zeros(n) => ctxt.write_zeros(*n)?,
                Part::Bytes(b) => ctxt.write_bytes(b)?,
            }
        }
        Ok(())
    }
}

enum Ph {
    U8(Placeholder<U8, u8>),
    U16(Placeholder<U16Be, u16>),
    I16(Placeholder<I16Be, i16>),
    U24(Placeholder<U24Be, u32>),
    U32(Placeholder<U32Be, u32>),
    Res(Placeholder<Comp, &'static Vec<Part>>),
}

struct WState {
    buf: WriteBuffer,
    phs: Vec<Option<(Ph, usize, String)>>, // placeholder, offset, type
}

fn jbytes(b: &[u8]) -> Value {
    Value::Array(b.iter().map(|x| json!(*x)).collect())
}

fn vbytes(v: &Value) -> Vec<u8> {
    v.as_array().map(|a| a.iter().map(|x| x.as_i64().unwrap_or(0) as u8).collect()).unwrap_or_default()
}

fn errname(e: &WriteError) -> String {
    format!("{:?}", e)
}

fn parts_of(v: &Value) -> Vec<Part> {
    v.as_array()
        .map(|a| {
            a.iter()
                .map(|p| {
                    let k = p["p"].as_str().unwrap_or("");
                    match k {
                        "u8" => Part::U8(p["v"].as_i64().unwrap() as u8),
                        "u16" => Part::U16(p["v"].as_i64().unwrap() as u16),
                        "u24" => Part::U24(p["v"].as_i64().unwrap() as u32),
                        "z" => Part::Zeros(p["v"].as_i64().unwrap() as usize),
                        "b" => Part::Bytes(vbytes(&p["v"])),
                        _ => panic!("unknown part kind {}", k),
                    }
                })
                .collect()
        })
        .unwrap_or_default()
}

/// Read `ty` back at `from` with the real reader: (value bytes, bytes left after the read).
fn read_back(buf: &[u8], from: usize, ty: &str) -> (Vec<u8>, i64) {
    let mut c = ReadScope::new(buf).offset(from).ctxt();
    let v: Option<Vec<u8>> = match ty {
        "u8" => c.read::<U8>().ok().map(|x| vec![x]),
        "i8" => c.read::<I8>().ok().map(|x| x.to_be_bytes().to_vec()),
        "u16" => c.read::<U16Be>().ok().map(|x| x.to_be_bytes().to_vec()),
        "i16" => c.read::<I16Be>().ok().map(|x| x.to_be_bytes().to_vec()),
        "u24" => c.read::<U24Be>().ok().map(|x| x.to_be_bytes()[1..].to_vec()),
        "i32" => c.read::<I32Be>().ok().map(|x| x.to_be_bytes().to_vec()),
        "u32" => c.read::<U32Be>().ok().map(|x| x.to_be_bytes().to_vec()),
        "i64" => c.read::<I64Be>().ok().map(|x| x.to_be_bytes().to_vec()),
        _ => None,
    };
    match v {
        Some(b) => (b, c.scope().data().len() as i64),
        None => (vec![], -2),
    }
}

fn u32_of(v: &Value) -> u32 {
    let b = vbytes(v);
    u32::from_be_bytes([b[0], b[1], b[2], b[3]])
}

fn i64_of(v: &Value) -> i64 {
    let b = vbytes(v);
    let mut a = [0u8; 8];
    a.copy_from_slice(&b[..8]);
    i64::from_be_bytes(a)
}

/// Apply one operation. Returns (res, read-back).
fn apply(st: &mut WState, o: &Value) -> (String, Value) {
    let op = o["op"].as_str().unwrap_or("");
    let ty = o["ty"].as_str().unwrap_or("");
    let k = o["k"].as_i64().unwrap_or(0) as usize;
    let norb = json!({"v": [], "rem": -1});
    let old = st.buf.len();
    let r: Result<(), WriteError> = match op {
        "W" => match ty {
            "u8" => U8::write(&mut st.buf, o["v"].as_i64().unwrap() as u8),
            "i8" => I8::write(&mut st.buf, o["v"].as_i64().unwrap() as i8),
            "u16" => U16Be::write(&mut st.buf, o["v"].as_i64().unwrap() as u16),
            "i16" => I16Be::write(&mut st.buf, o["v"].as_i64().unwrap() as i16),
            "u24" => U24Be::write(&mut st.buf, o["v"].as_i64().unwrap() as u32),
            "i32" => I32Be::write(&mut st.buf, o["v"].as_i64().unwrap() as i32),
            "u32" => U32Be::write(&mut st.buf, u32_of(&o["v"])),
            "i64" => I64Be::write(&mut st.buf, i64_of(&o["v"])),
            _ => panic!("type {}", ty),
        },
        "WB" => st.buf.write_bytes(&vbytes(&o["v"])),
        "WZ" => st.buf.write_zeros(k),
        "PH" => {
            let off = st.buf.len();
            let ph = match ty {
                "u8" => st.buf.placeholder::<U8, u8>().map(Ph::U8),
                "u16" => st.buf.placeholder::<U16Be, u16>().map(Ph::U16),
                "i16" => st.buf.placeholder::<I16Be, i16>().map(Ph::I16),
                "u24" => st.buf.placeholder::<U24Be, u32>().map(Ph::U24),
                "u32" => st.buf.placeholder::<U32Be, u32>().map(Ph::U32),
                _ => panic!("placeholder type {}", ty),
            };
            ph.map(|p| st.phs.push(Some((p, off, ty.to_string()))))
        }
        "RS" => {
            let off = st.buf.len();
            st.buf
                .reserve::<Comp, Vec<Part>>(k)
                .map(|p| st.phs.push(Some((Ph::Res(p), off, String::new()))))
        }
        "WPT" | "WPC" => {
            let (ph, off, pty) = st.phs[k - 1].take().expect("placeholder already used");
            let r = match ph {
                Ph::U8(p) => st.buf.write_placeholder(p, o["v"].as_i64().unwrap() as u8),
                Ph::U16(p) => st.buf.write_placeholder(p, o["v"].as_i64().unwrap() as u16),
                Ph::I16(p) => st.buf.write_placeholder(p, o["v"].as_i64().unwrap() as i16),
                Ph::U24(p) => st.buf.write_placeholder(p, o["v"].as_i64().unwrap() as u32),
                Ph::U32(p) => st.buf.write_placeholder(p, u32_of(&o["v"])),
                Ph::Res(p) => {
                    let parts: &'static Vec<Part> = Box::leak(Box::new(parts_of(&o["v"])));
                    st.buf.write_placeholder(p, parts)
                }
            };
            if r.is_ok() && op == "WPT" {
                let (v, rem) = read_back(st.buf.bytes(), off, &pty);
                return ("Ok".to_string(), json!({"v": jbytes(&v), "rem": rem}));
            }
            r
        }
        _ => panic!("unknown op {}", op),
    };
    match r {
        Ok(()) => {
            if op == "W" {
                let (v, rem) = read_back(st.buf.bytes(), old, ty);
                ("Ok".to_string(), json!({"v": jbytes(&v), "rem": rem}))
            } else {
                ("Ok".to_string(), norb)
            }
        }
        Err(e) => (errname(&e), norb),
    }
}

fn obs_of(st: &WState, res: &str) -> Value {
    json!({"res": res, "buf": jbytes(st.buf.bytes()), "len": st.buf.bytes_written()})
}

fn writer_replay(cases: &str, mism: &str, trace: &str) {
    let mut mw = NdWriter::create(mism);
    let mut tw = NdWriter::create(trace);
    let (mut n_cases, mut n_ops, mut n_rel, mut n_rb) = (0u64, 0u64, 0u64, 0u64);
    let mut classes = std::collections::BTreeSet::new();
    let mut evi = 0u64;
    for (ci, case) in read_ndjson(cases).iter().enumerate() {
        n_cases += 1;
        let path = case["path"].as_array().cloned().unwrap_or_default();
        let fan = case["fan"].as_array().cloned().unwrap_or_default();
        // the script itself is checked once per case
        let run_path = |check: Option<&mut NdWriter>| -> Result<WState, String> {
            let mut st = WState { buf: WriteBuffer::new(), phs: Vec::new() };
            let mut check = check;
            for step in &path {
                let (res, _) = apply(&mut st, &step["o"]);
                let got = obs_of(&st, &res);
                if got != step["exp"] {
                    if let Some(w) = check.as_deref_mut() {
                        w.write(&json!({"case": ci, "where": "path", "path": path, "o": step["o"], "want": step["exp"], "got": got}));
                    }
                    return Err("path diverged".into());
                }
            }
            Ok(st)
        };
        match guarded(|| run_path(Some(&mut mw))) {
            Outcome::Returned(Ok(_)) => {}
            Outcome::Returned(Err(_)) => continue,
            Outcome::Panicked(m) => {
                mw.write(&json!({"case": ci, "where": "path", "path": path, "o": {"op": "path"}, "want": {"res": "Ok"},
                                 "got": {"res": format!("Panic:{}", panic_key(&m))}}));
                continue;
            }
        }
        for f in &fan {
            n_ops += 1;
            let o = &f["o"];
            let out = guarded(|| {
                let mut st = run_path(None).expect("script replays");
                let (res, rb) = apply(&mut st, o);
                (obs_of(&st, &res), rb)
            });
            let (got, rb) = match out {
                Outcome::Returned(x) => x,
                Outcome::Panicked(m) => (
                    json!({"res": format!("Panic:{}", panic_key(&m)), "buf": [], "len": -1}),
                    json!({"v": [], "rem": -1}),
                ),
            };
            classes.insert(format!("{}/{}/{}", o["op"].as_str().unwrap_or(""), o["ty"].as_str().unwrap_or(""),
                                   got["res"].as_str().unwrap_or("").split(':').next().unwrap_or("")));
            if rb["rem"].as_i64().unwrap_or(-1) >= 0 {
                n_rb += 1;
            }
            let free = f["free"].as_array().map(|a| !a.is_empty()).unwrap_or(false);
            if free {
                n_rel += 1;
                tw.write(&json!({"i": evi, "case": format!("w{}", ci), "ev": "WOp",
                                 "a": {"path": path.iter().map(|s| s["o"].clone()).collect::<Vec<_>>(), "o": o,
                                       "exp": f["exp"], "free": f["free"]},
                                 "o": got}));
                evi += 1;
            } else if got != f["exp"] || rb != f["rb"] {
                mw.write(&json!({"case": ci, "where": "fan", "path": path, "o": o,
                                 "want": {"obs": f["exp"], "rb": f["rb"]}, "got": {"obs": got, "rb": rb}}));
            }
        }
    }
    let n_m = mw.n;
    mw.finish();
    tw.finish();
    println!("{}", json!({"cases": n_cases, "ops_executed": n_ops, "relational_events": n_rel, "read_backs": n_rb,
                          "mismatches": n_m, "op_type_outcome_classes": classes.len()}));
}

fn main() {
    let args: Vec<String> = std::env::args().collect();
    match args.get(1).map(|s| s.as_str()) {
        Some("writer-replay") => writer_replay(&args[2], &args[3], &args[4]),
        Some("codec-replay") => kinds::codec_replay(&args[2], &args[3]),
        Some("record") => record::record(&args[2]),
        _ => {
            eprintln!("usage: c15_codec writer-replay|codec-replay|record ...");
            std::process::exit(2);
        }
    }
}
