//! C04 extractor: an independent reader of GDEF and GSUB (no allsorts code involved) that turns the
//! `latn` (else `DFLT`) default language system of a repository font into the abstract program
//! format of specs/Gsub.tla, and picks glyph strings that make its lookups fire.
//!
//! Only the lookups reachable from the requested features (directly or as nested lookups) are
//! extracted; the other entries of the lookup list become empty placeholder lookups so that lookup
//! indices stay what the font says. Fonts whose program leaves the fragment the property/model
//! talks about are skipped with a reason (counted in the evidence): required feature index set,
//! duplicate feature tags in the language system, no default language system, unreadable tables,
//! program too large for the judge.
use serde_json::{json, Value};
use std::collections::{BTreeMap, BTreeSet};

pub struct Extracted {
    pub name: String,
    pub path: String,
    pub prog: Value,
    pub n_glyphs: u16,
    /// the script whose default language system was extracted (latn, else DFLT, else the font's first script)
    pub script: String,
    pub inputs: Vec<Vec<i64>>,
}

type R<T> = Result<T, String>;

#[derive(Clone, Copy)]
struct Tbl<'a> {
    d: &'a [u8],
}

impl<'a> Tbl<'a> {
    fn u16(&self, at: usize) -> R<u16> {
        self.d.get(at..at + 2).map(|b| u16::from_be_bytes([b[0], b[1]])).ok_or_else(|| format!("eof at {}", at))
    }
    fn i16(&self, at: usize) -> R<i16> {
        self.u16(at).map(|v| v as i16)
    }
    fn u32(&self, at: usize) -> R<u32> {
        self.d
            .get(at..at + 4)
            .map(|b| u32::from_be_bytes([b[0], b[1], b[2], b[3]]))
            .ok_or_else(|| format!("eof at {}", at))
    }
    fn tag(&self, at: usize) -> R<String> {
        self.d
            .get(at..at + 4)
            .map(|b| b.iter().map(|c| *c as char).collect())
            .ok_or_else(|| format!("eof at {}", at))
    }
    fn u16s(&self, at: usize, n: usize) -> R<Vec<i64>> {
        (0..n).map(|k| self.u16(at + 2 * k).map(|v| v as i64)).collect()
    }
}

fn coverage(t: Tbl, at: usize) -> R<Value> {
    match t.u16(at)? {
        1 => {
            let n = t.u16(at + 2)? as usize;
            Ok(json!({"fmt": 1, "glyphs": t.u16s(at + 4, n)?}))
        }
        2 => {
            let n = t.u16(at + 2)? as usize;
            let mut rs = Vec::new();
            for k in 0..n {
                rs.push(Value::from(t.u16s(at + 4 + 6 * k, 3)?));
            }
            Ok(json!({"fmt": 2, "ranges": rs}))
        }
        f => Err(format!("coverage format {}", f)),
    }
}

fn classdef(t: Tbl, at: usize) -> R<Value> {
    match t.u16(at)? {
        1 => {
            let start = t.u16(at + 2)?;
            let n = t.u16(at + 4)? as usize;
            Ok(json!({"fmt": 1, "start": start, "classes": t.u16s(at + 6, n)?}))
        }
        2 => {
            let n = t.u16(at + 2)? as usize;
            let mut rs = Vec::new();
            for k in 0..n {
                rs.push(Value::from(t.u16s(at + 4 + 6 * k, 3)?));
            }
            Ok(json!({"fmt": 2, "ranges": rs}))
        }
        f => Err(format!("classdef format {}", f)),
    }
}

fn opt_classdef(t: Tbl, base: usize, off: usize) -> R<Value> {
    if off == 0 {
        Ok(json!({"fmt": 0}))
    } else {
        classdef(t, base + off)
    }
}

fn coverages(t: Tbl, base: usize, at: usize, n: usize) -> R<Vec<Value>> {
    (0..n).map(|k| coverage(t, base + t.u16(at + 2 * k)? as usize)).collect()
}

fn records(t: Tbl, at: usize, n: usize) -> R<Vec<Value>> {
    (0..n).map(|k| Ok(json!([t.u16(at + 4 * k)?, t.u16(at + 4 * k + 2)?]))).collect()
}

fn rule(t: Tbl, at: usize, chain: bool) -> R<Value> {
    if chain {
        let mut p = at;
        let bn = t.u16(p)? as usize;
        let back = t.u16s(p + 2, bn)?;
        p += 2 + 2 * bn;
        let inn = t.u16(p)? as usize;
        if inn == 0 {
            return Err("chain rule with input count 0".into());
        }
        let input = t.u16s(p + 2, inn - 1)?;
        p += 2 + 2 * (inn - 1);
        let ln = t.u16(p)? as usize;
        let look = t.u16s(p + 2, ln)?;
        p += 2 + 2 * ln;
        let rn = t.u16(p)? as usize;
        Ok(json!({"back": back, "input": input, "look": look, "recs": records(t, p + 2, rn)?}))
    } else {
        let gn = t.u16(at)? as usize;
        let rn = t.u16(at + 2)? as usize;
        if gn == 0 {
            return Err("rule with glyph count 0".into());
        }
        let input = t.u16s(at + 4, gn - 1)?;
        Ok(json!({"input": input, "recs": records(t, at + 4 + 2 * (gn - 1), rn)?}))
    }
}

fn rule_sets(t: Tbl, st: usize, at: usize, chain: bool) -> R<Vec<Value>> {
    let n = t.u16(at)? as usize;
    let mut sets = Vec::new();
    for k in 0..n {
        let off = t.u16(at + 2 + 2 * k)? as usize;
        if off == 0 {
            sets.push(json!([]));
            continue;
        }
        let rs = st + off;
        let rn = t.u16(rs)? as usize;
        let mut rules = Vec::new();
        for j in 0..rn {
            rules.push(rule(t, rs + t.u16(rs + 2 + 2 * j)? as usize, chain)?);
        }
        sets.push(Value::Array(rules));
    }
    Ok(sets)
}

fn subtable(t: Tbl, ty: u16, st: usize) -> R<Value> {
    let fmt = t.u16(st)?;
    match (ty, fmt) {
        (1, 1) => Ok(json!({"fmt": 1, "cov": coverage(t, st + t.u16(st + 2)? as usize)?, "delta": t.i16(st + 4)?})),
        (1, 2) => {
            let n = t.u16(st + 4)? as usize;
            Ok(json!({"fmt": 2, "cov": coverage(t, st + t.u16(st + 2)? as usize)?, "subst": t.u16s(st + 6, n)?}))
        }
        (2, 1) | (3, 1) => {
            let n = t.u16(st + 4)? as usize;
            let mut seqs = Vec::new();
            for k in 0..n {
                let s = st + t.u16(st + 6 + 2 * k)? as usize;
                let c = t.u16(s)? as usize;
                seqs.push(Value::from(t.u16s(s + 2, c)?));
            }
            let cov = coverage(t, st + t.u16(st + 2)? as usize)?;
            Ok(if ty == 2 { json!({"fmt": 1, "cov": cov, "seqs": seqs}) } else { json!({"fmt": 1, "cov": cov, "alts": seqs}) })
        }
        (4, 1) => {
            let n = t.u16(st + 4)? as usize;
            let mut sets = Vec::new();
            for k in 0..n {
                let ls = st + t.u16(st + 6 + 2 * k)? as usize;
                let ln = t.u16(ls)? as usize;
                let mut ligs = Vec::new();
                for j in 0..ln {
                    let lg = ls + t.u16(ls + 2 + 2 * j)? as usize;
                    let cc = t.u16(lg + 2)? as usize;
                    if cc == 0 {
                        return Err("ligature with component count 0".into());
                    }
                    ligs.push(json!({"lig": t.u16(lg)?, "comps": t.u16s(lg + 4, cc - 1)?}));
                }
                sets.push(Value::Array(ligs));
            }
            Ok(json!({"fmt": 1, "cov": coverage(t, st + t.u16(st + 2)? as usize)?, "sets": sets}))
        }
        (5, 1) | (6, 1) => Ok(json!({"fmt": 1, "cov": coverage(t, st + t.u16(st + 2)? as usize)?,
                                      "sets": rule_sets(t, st, st + 4, ty == 6)?})),
        (5, 2) => Ok(json!({"fmt": 2, "cov": coverage(t, st + t.u16(st + 2)? as usize)?,
                             "icd": opt_classdef(t, st, t.u16(st + 4)? as usize)?,
                             "sets": rule_sets(t, st, st + 6, false)?})),
        (6, 2) => Ok(json!({"fmt": 2, "cov": coverage(t, st + t.u16(st + 2)? as usize)?,
                             "bcd": opt_classdef(t, st, t.u16(st + 4)? as usize)?,
                             "icd": opt_classdef(t, st, t.u16(st + 6)? as usize)?,
                             "lcd": opt_classdef(t, st, t.u16(st + 8)? as usize)?,
                             "sets": rule_sets(t, st, st + 10, true)?})),
        (5, 3) => {
            let gn = t.u16(st + 2)? as usize;
            let rn = t.u16(st + 4)? as usize;
            Ok(json!({"fmt": 3, "input": coverages(t, st, st + 6, gn)?, "recs": records(t, st + 6 + 2 * gn, rn)?}))
        }
        (6, 3) => {
            let mut p = st + 2;
            let bn = t.u16(p)? as usize;
            let back = coverages(t, st, p + 2, bn)?;
            p += 2 + 2 * bn;
            let inn = t.u16(p)? as usize;
            let input = coverages(t, st, p + 2, inn)?;
            p += 2 + 2 * inn;
            let ln = t.u16(p)? as usize;
            let look = coverages(t, st, p + 2, ln)?;
            p += 2 + 2 * ln;
            let rn = t.u16(p)? as usize;
            Ok(json!({"fmt": 3, "back": back, "input": input, "look": look, "recs": records(t, p + 2, rn)?}))
        }
        (8, 1) => {
            let mut p = st + 4;
            let bn = t.u16(p)? as usize;
            let back = coverages(t, st, p + 2, bn)?;
            p += 2 + 2 * bn;
            let ln = t.u16(p)? as usize;
            let look = coverages(t, st, p + 2, ln)?;
            p += 2 + 2 * ln;
            let gn = t.u16(p)? as usize;
            Ok(json!({"fmt": 1, "cov": coverage(t, st + t.u16(st + 2)? as usize)?, "back": back, "look": look,
                      "subst": t.u16s(p + 2, gn)?}))
        }
        _ => Err(format!("lookup type {} format {}", ty, fmt)),
    }
}

fn lookup(t: Tbl, at: usize) -> R<Value> {
    let ty = t.u16(at)?;
    let flag = t.u16(at + 2)?;
    let n = t.u16(at + 4)? as usize;
    let mfs = if flag & 0x10 != 0 { t.u16(at + 6 + 2 * n)? } else { 0 };
    let mut subs = Vec::new();
    let mut etype = 0u16;
    for k in 0..n {
        let st = at + t.u16(at + 6 + 2 * k)? as usize;
        if ty == 7 {
            if t.u16(st)? != 1 {
                return Err("extension format".into());
            }
            let et = t.u16(st + 2)?;
            if etype != 0 && et != etype {
                return Err("extension subtables of different types".into());
            }
            etype = et;
            subs.push(subtable(t, et, st + t.u32(st + 4)? as usize)?);
        } else {
            subs.push(subtable(t, ty, st)?);
        }
    }
    if ty == 7 && etype == 0 {
        return Err("extension lookup without subtables".into());
    }
    Ok(json!({"type": ty, "etype": etype, "flag": flag, "mfs": mfs, "subs": subs}))
}

fn nested_of(l: &Value) -> Vec<usize> {
    let mut out = Vec::new();
    let eff = if l["type"] == 7 { l["etype"].as_i64() } else { l["type"].as_i64() };
    if eff != Some(5) && eff != Some(6) {
        return out;
    }
    let mut take = |recs: &Value| {
        for r in recs.as_array().into_iter().flatten() {
            out.push(r[1].as_u64().unwrap_or(0) as usize);
        }
    };
    for st in l["subs"].as_array().into_iter().flatten() {
        if st["fmt"] == 3 {
            take(&st["recs"]);
        } else {
            for set in st["sets"].as_array().into_iter().flatten() {
                for r in set.as_array().into_iter().flatten() {
                    take(&r["recs"]);
                }
            }
        }
    }
    out
}

fn gdef(t: Tbl) -> R<Value> {
    let minor = t.u16(2)?;
    let cls = opt_classdef(t, 0, t.u16(4)? as usize)?;
    let att = opt_classdef(t, 0, t.u16(10)? as usize)?;
    let mut sets = Vec::new();
    if minor >= 2 {
        let off = t.u16(12)? as usize;
        if off != 0 {
            if t.u16(off)? != 1 {
                return Err("mark glyph sets format".into());
            }
            let n = t.u16(off + 2)? as usize;
            for k in 0..n {
                sets.push(coverage(t, off + t.u32(off + 4 + 4 * k)? as usize)?);
            }
        }
    }
    Ok(json!({"cls": cls, "att": att, "sets": sets}))
}

/// features whose lookups are requested from a real font (when the language system has them)
const WANTED: [&str; 22] = [
    "ccmp", "locl", "rlig", "liga", "clig", "calt", "dlig", "hlig", "smcp", "c2sc", "onum", "lnum", "pnum", "tnum", "frac",
    "sups", "subs", "ordn", "zero", "ss01", "ss02", "salt",
];
const MAX_JSON: usize = 300_000;

pub fn program_of(gsub: &[u8], gdef_bytes: Option<&[u8]>) -> R<(Value, String)> {
    let t = Tbl { d: gsub };
    if t.u16(0)? != 1 {
        return Err("gsub-version".into());
    }
    let (sl, fl, ll) = (t.u16(4)? as usize, t.u16(6)? as usize, t.u16(8)? as usize);
    if sl == 0 || fl == 0 || ll == 0 {
        return Err("gsub-without-lists".into());
    }
    // script: latn, else DFLT (what find_script_or_default(latn) does), else the font's first script
    let n_scripts = t.u16(sl)? as usize;
    let mut script = None;
    for want in ["latn", "DFLT"] {
        for k in 0..n_scripts {
            if script.is_none() && t.tag(sl + 2 + 6 * k)? == want {
                script = Some((sl + t.u16(sl + 2 + 6 * k + 4)? as usize, want.to_string()));
            }
        }
    }
    if script.is_none() && n_scripts > 0 {
        script = Some((sl + t.u16(sl + 2 + 4)? as usize, t.tag(sl + 2)?));
    }
    let (script, script_tag) = script.ok_or("no-script")?;
    let dl = t.u16(script)? as usize;
    if dl == 0 {
        return Err("no-default-langsys".into());
    }
    let ls = script + dl;
    if t.u16(ls + 2)? != 0xFFFF {
        return Err("required-feature".into());
    }
    let nf = t.u16(ls + 4)? as usize;
    let fidx = t.u16s(ls + 6, nf)?;
    let mut features = Vec::new();
    let mut tags = BTreeSet::new();
    let mut request = Vec::new();
    let mut roots: Vec<usize> = Vec::new();
    let mut all_feats: Vec<(String, Vec<i64>)> = Vec::new();
    for fi in &fidx {
        let rec = fl + 2 + 6 * (*fi as usize);
        let tag = t.tag(rec)?;
        let ft = fl + t.u16(rec + 4)? as usize;
        let n = t.u16(ft + 2)? as usize;
        let lookups = t.u16s(ft + 4, n)?;
        if !tags.insert(tag.clone()) {
            return Err("duplicate-feature-tag".into());
        }
        all_feats.push((tag.clone(), lookups.clone()));
        if WANTED.contains(&tag.as_str()) && request.len() < 12 {
            request.push(json!({"tag": tag, "alt": 0}));
            roots.extend(lookups.iter().map(|x| *x as usize));
        }
        features.push(json!({"tag": tag, "lookups": lookups}));
    }
    if request.is_empty() {
        // a font without any of the usual features (test fonts): ask for every feature the language
        // system has, except those gsub::apply treats specially
        for (tag, lookups) in &all_feats {
            if !["rvrn", "fina", "vert", "vrt2"].contains(&tag.as_str()) && request.len() < 12 {
                request.push(json!({"tag": tag, "alt": 0}));
                roots.extend(lookups.iter().map(|x| *x as usize));
            }
        }
    }
    if request.is_empty() {
        return Err("no-feature".into());
    }
    let n_lookups = t.u16(ll)? as usize;
    let mut lookups: Vec<Value> = vec![json!({"type": 1, "etype": 0, "flag": 0, "mfs": 0, "subs": []}); n_lookups];
    let mut done = BTreeSet::new();
    let mut todo = roots;
    while let Some(li) = todo.pop() {
        if li >= n_lookups {
            return Err("lookup-index-out-of-range".into());
        }
        if !done.insert(li) {
            continue;
        }
        let l = lookup(t, ll + t.u16(ll + 2 + 2 * li)? as usize).map_err(|e| format!("unreadable-lookup:{}", e))?;
        todo.extend(nested_of(&l));
        lookups[li] = l;
    }
    // features that are not requested keep their tag but need not keep lookups the program never runs;
    // they are kept as the font has them (indices stay valid: placeholders exist)
    let g = match gdef_bytes {
        Some(b) => gdef(Tbl { d: b }).map_err(|e| format!("unreadable-gdef:{}", e))?,
        None => json!({"cls": {"fmt": 0}, "att": {"fmt": 0}, "sets": []}),
    };
    let prog = json!({"gdef": g, "lookups": lookups, "features": features, "vars": [], "request": request, "tuple": []});
    if prog.to_string().len() > MAX_JSON {
        return Err("program-too-large-for-the-judge".into());
    }
    Ok((prog, script_tag))
}

/// glyph sequences that make the program's lookups fire: per reachable subtable a few sequences
/// spelled out by its rules, plus the glyphs they mention (the pool for random strings)
fn seeds(prog: &Value) -> (Vec<Vec<i64>>, Vec<i64>) {
    fn cov_first(c: &Value, k: usize) -> Option<i64> {
        if c["fmt"] == 1 {
            let gs = c["glyphs"].as_array()?;
            gs.get(k % gs.len().max(1))?.as_i64()
        } else {
            let rs = c["ranges"].as_array()?;
            rs.get(k % rs.len().max(1))?[0].as_i64()
        }
    }
    fn cov_nth_glyph(c: &Value, idx: usize) -> Option<i64> {
        if c["fmt"] == 1 {
            c["glyphs"].as_array()?.get(idx)?.as_i64()
        } else {
            for r in c["ranges"].as_array()? {
                let (s, e, i) = (r[0].as_i64()?, r[1].as_i64()?, r[2].as_i64()?);
                if (idx as i64) >= i && (idx as i64) <= i + (e - s) {
                    return Some(s + idx as i64 - i);
                }
            }
            None
        }
    }
    let ints = |v: &Value| -> Vec<i64> { v.as_array().into_iter().flatten().filter_map(|x| x.as_i64()).collect() };
    let mut seqs: Vec<Vec<i64>> = Vec::new();
    let mut pool: BTreeSet<i64> = BTreeSet::new();
    for l in prog["lookups"].as_array().into_iter().flatten() {
        let ty = if l["type"] == 7 { l["etype"].as_i64().unwrap_or(0) } else { l["type"].as_i64().unwrap_or(0) };
        for st in l["subs"].as_array().into_iter().flatten() {
            let per_sub_cap = seqs.len() + 6;
            match ty {
                1 | 2 | 3 | 8 => {
                    for k in 0..3 {
                        if let Some(g) = cov_first(&st["cov"], k * 7) {
                            pool.insert(g);
                        }
                    }
                }
                4 => {
                    for (ci, set) in st["sets"].as_array().into_iter().flatten().enumerate() {
                        if let Some(first) = cov_nth_glyph(&st["cov"], ci) {
                            for lg in set.as_array().into_iter().flatten().take(2) {
                                let mut s = vec![first];
                                s.extend(ints(&lg["comps"]));
                                pool.extend(s.iter().copied());
                                if seqs.len() < per_sub_cap {
                                    seqs.push(s);
                                }
                            }
                        }
                    }
                }
                5 | 6 => {
                    if st["fmt"] == 1 {
                        for (ci, set) in st["sets"].as_array().into_iter().flatten().enumerate() {
                            if let Some(first) = cov_nth_glyph(&st["cov"], ci) {
                                for r in set.as_array().into_iter().flatten().take(2) {
                                    let mut s: Vec<i64> = ints(&r["back"]);
                                    s.reverse();
                                    s.push(first);
                                    s.extend(ints(&r["input"]));
                                    s.extend(ints(&r["look"]));
                                    pool.extend(s.iter().copied());
                                    if seqs.len() < per_sub_cap {
                                        seqs.push(s);
                                    }
                                }
                            }
                        }
                    } else if st["fmt"] == 3 {
                        for k in 0..2 {
                            let mut s: Vec<i64> = Vec::new();
                            let mut back: Vec<i64> =
                                st["back"].as_array().into_iter().flatten().filter_map(|c| cov_first(c, k)).collect();
                            back.reverse();
                            s.extend(back);
                            s.extend(st["input"].as_array().into_iter().flatten().filter_map(|c| cov_first(c, k)));
                            s.extend(st["look"].as_array().into_iter().flatten().filter_map(|c| cov_first(c, k)));
                            pool.extend(s.iter().copied());
                            if seqs.len() < per_sub_cap {
                                seqs.push(s);
                            }
                        }
                    } else {
                        for k in 0..4 {
                            if let Some(g) = cov_first(&st["cov"], k * 5) {
                                pool.insert(g);
                            }
                        }
                    }
                }
                _ => {}
            }
        }
    }
    (seqs, pool.into_iter().collect())
}

const WORDS: [&str; 14] = [
    "office", "affluent", "fjord", "Waffle fi ffl", "1/2 3/4", "Th Qu ct st", "The quick brown fox", "a\u{301}e\u{308}\u{301}",
    "difficult", "AVATAR To", "x\u{302}\u{303}y", "1st 2nd", "fi\u{301}", "--> != <=",
];

/// Extract programs from repository fonts. Deterministic in `seed`.
pub fn repo_programs(seed: u64, max_fonts: usize, n_words: usize) -> Vec<Result<Extracted, String>> {
    use rand::rngs::StdRng;
    use rand::seq::SliceRandom;
    use rand::{Rng, SeedableRng};
    let mut out = Vec::new();
    let mut fonts = vh::util::repo_fonts();
    // the AOTS conformance fonts (tests/aots) as well: tiny fonts written by an independent compiler
    if let Ok(rd) = std::fs::read_dir(format!("{}/tests/aots", vh::util::repo_root())) {
        for e in rd.flatten() {
            let p = e.path();
            if p.extension().and_then(|x| x.to_str()) == Some("otf") {
                fonts.push(p.to_string_lossy().to_string());
            }
        }
    }
    fonts.sort();
    let mut rng = StdRng::seed_from_u64(seed ^ 0xC04);
    let mut seen_gsub: BTreeMap<Vec<u8>, ()> = BTreeMap::new();
    let mut used = 0usize;
    for path in fonts {
        if used >= max_fonts {
            break;
        }
        let name = path.rsplit('/').next().unwrap_or(&path).to_string();
        let data = match std::fs::read(&path) {
            Ok(d) => d,
            Err(_) => continue,
        };
        // plain sfnt only (containers are C10/C11's business)
        let dir = match vh::fontgen::read_sfnt_dir(&data, 0) {
            Some(d) if d.version == 0x0001_0000 || d.version == 0x4F54_544F || d.version == 0x7472_7565 => d,
            _ => continue,
        };
        let gsub = match vh::fontgen::table_bytes(&data, &dir, "GSUB") {
            Some(b) => b,
            None => continue,
        };
        if seen_gsub.insert(gsub.to_vec(), ()).is_some() {
            continue; // the same GSUB table again (font families share it)
        }
        let gdef = vh::fontgen::table_bytes(&data, &dir, "GDEF");
        let n_glyphs = match vh::fontgen::table_bytes(&data, &dir, "maxp").and_then(|m| vh::fontgen::be16(m, 4)) {
            Some(n) => n,
            None => continue,
        };
        let (prog, script) = match program_of(gsub, gdef) {
            Ok(p) => p,
            Err(why) => {
                let why = why.split(':').next().unwrap_or("").to_string();
                out.push(Err(why));
                continue;
            }
        };
        let (seqs, pool) = seeds(&prog);
        let mut inputs: Vec<Vec<i64>> = Vec::new();
        // a third words through the font's own cmap (allsorts' cmap lookup chooses inputs only), a third
        // sequences spelled out by the rules, the rest random strings over the glyphs the rules mention
        if let Some(mut mapped) = map_words(&data) {
            mapped.retain(|w| !w.is_empty());
            mapped.shuffle(&mut rng);
            inputs.extend(mapped.into_iter().take((n_words / 3).max(1)));
        }
        let mut seqs = seqs;
        seqs.shuffle(&mut rng);
        inputs.extend(seqs.into_iter().take(n_words / 3));
        while inputs.len() < n_words && !pool.is_empty() {
            let len = rng.gen_range(1..=7);
            inputs.push((0..len).map(|_| *pool.choose(&mut rng).unwrap()).collect());
        }
        inputs.retain(|w| w.iter().all(|g| *g < n_glyphs as i64));
        used += 1;
        out.push(Ok(Extracted { name, path: path.clone(), prog, n_glyphs, script, inputs }));
    }
    out
}

fn map_words(data: &[u8]) -> Option<Vec<Vec<i64>>> {
    use allsorts::binary::read::ReadScope;
    use allsorts::font::MatchingPresentation;
    use allsorts::font_data::FontData;
    let r = vh::sup::guarded(|| {
        let fd = ReadScope::new(data).read::<FontData<'_>>().ok()?;
        let prov = fd.table_provider(0).ok()?;
        let mut font = allsorts::Font::new(prov).ok()?;
        let mut out = Vec::new();
        for w in WORDS {
            let gs: Vec<i64> = w
                .chars()
                .map(|ch| font.lookup_glyph_index(ch, MatchingPresentation::NotRequired, None).0 as i64)
                .filter(|g| *g != 0)
                .collect();
            out.push(gs);
        }
        Some(out)
    });
    match r {
        vh::sup::Outcome::Returned(x) => x,
        vh::sup::Outcome::Panicked(_) => None,
    }
}
