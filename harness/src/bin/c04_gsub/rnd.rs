//! C04 random substitution programs (impl -> spec direction). Programs are well formed by
//! construction (Gsub!WFProgram, which the judge re-checks): coverage tables ascend, one set per
//! covered glyph / class, sequence indices inside the input sequence, nested lookups exist, context
//! nesting depth <= 3, no reverse-chaining lookup nested in a context, flags without reserved bits
//! (markAttachmentType + useMarkFilteringSet together in about a third of the lookups that use a
//! filtering set: Dev_MarkFilterPrecedence), output glyphs inside the font.
//! `rng2` is a second stream for choices added later, so that the programs drawn from `rng` stay
//! what they were.
use rand::rngs::StdRng;
use rand::seq::SliceRandom;
use rand::{Rng, SeedableRng};
use serde_json::{json, Value};

struct Gen {
    rng: StdRng,
    rng2: StdRng,
    n: i64,
    hot: Vec<i64>,
    n_sets: usize,
    has_gdef: bool,
}

pub fn coverage_json(fmt: i64, glyphs: &[i64]) -> Value {
    if fmt == 1 {
        json!({"fmt": 1, "glyphs": glyphs})
    } else {
        let mut ranges: Vec<(i64, i64, i64)> = Vec::new();
        for (i, g) in glyphs.iter().enumerate() {
            match ranges.last_mut() {
                Some(r) if r.1 + 1 == *g => r.1 = *g,
                _ => ranges.push((*g, *g, i as i64)),
            }
        }
        json!({"fmt": 2, "ranges": ranges.iter().map(|r| json!([r.0, r.1, r.2])).collect::<Vec<_>>()})
    }
}

/// class definition from a map glyph -> class (0 = unlisted)
pub fn classdef_json(fmt: i64, map: &[i64]) -> Value {
    if fmt == 1 {
        let first = map.iter().position(|&x| x != 0);
        let last = map.iter().rposition(|&x| x != 0);
        match (first, last) {
            (Some(a), Some(b)) => json!({"fmt": 1, "start": a, "classes": map[a..=b].to_vec()}),
            _ => json!({"fmt": 1, "start": 0, "classes": []}),
        }
    } else {
        let mut ranges: Vec<(i64, i64, i64)> = Vec::new();
        for (g, &cl) in map.iter().enumerate() {
            if cl == 0 {
                continue;
            }
            match ranges.last_mut() {
                Some(r) if r.1 + 1 == g as i64 && r.2 == cl => r.1 = g as i64,
                _ => ranges.push((g as i64, g as i64, cl)),
            }
        }
        json!({"fmt": 2, "ranges": ranges.iter().map(|r| json!([r.0, r.1, r.2])).collect::<Vec<_>>()})
    }
}

impl Gen {
    fn fmt12(&mut self) -> i64 {
        self.rng.gen_range(1..=2)
    }
    fn glyph(&mut self) -> i64 {
        if self.rng.gen_bool(0.8) {
            *self.hot.choose(&mut self.rng).unwrap()
        } else {
            self.rng.gen_range(1..self.n)
        }
    }
    fn glyph_seq(&mut self, lo: usize, hi: usize) -> Vec<i64> {
        let k = self.rng.gen_range(lo..=hi);
        (0..k).map(|_| self.glyph()).collect()
    }
    fn glyph_set(&mut self, lo: usize, hi: usize) -> Vec<i64> {
        let k = self.rng.gen_range(lo..=hi);
        let mut s: Vec<i64> = (0..k).map(|_| self.glyph()).collect();
        s.sort();
        s.dedup();
        s
    }
    fn cov(&mut self, lo: usize, hi: usize) -> (Vec<i64>, Value) {
        let s = self.glyph_set(lo, hi);
        let f = self.fmt12();
        let v = coverage_json(f, &s);
        (s, v)
    }
    fn covs(&mut self, lo: usize, hi: usize) -> Vec<Value> {
        let k = self.rng.gen_range(lo..=hi);
        (0..k).map(|_| self.cov(1, 4).1).collect()
    }
    /// class definition over (mostly) hot glyphs with classes 0..=maxc; returns the largest class used
    fn small_classdef(&mut self) -> (Value, i64) {
        let mut map = vec![0i64; self.n as usize];
        let maxc = self.rng.gen_range(1..=3);
        let hot = self.hot.clone();
        for g in hot {
            map[g as usize] = self.rng.gen_range(0..=maxc);
        }
        for _ in 0..self.rng.gen_range(0..3) {
            let g = self.rng.gen_range(1..self.n);
            map[g as usize] = self.rng.gen_range(0..=maxc);
        }
        let used = *map.iter().max().unwrap();
        let f = self.fmt12();
        (classdef_json(f, &map), used)
    }
    fn flag(&mut self) -> (i64, i64) {
        let menu: [i64; 18] = [0, 0, 0, 0, 1, 2, 4, 8, 0x100, 0x200, 0x300, 0x10, 0x10, 0x12, 0x18, 0x104, 6, 0xE];
        let mut f = *menu.choose(&mut self.rng).unwrap();
        let mut mfs = 0;
        if f & 0x10 != 0 {
            if self.n_sets == 0 || !self.has_gdef {
                f &= !0x10;
            } else {
                mfs = self.rng.gen_range(0..self.n_sets as i64);
                // markAttachmentType on top of the filtering set (never with ignoreMarks' menu entry 0x18 only:
                // that combination is drawn too, ignoreMarks then supersedes both filters)
                if self.rng2.gen_bool(0.35) {
                    f |= 0x100 * self.rng2.gen_range(1..=3);
                }
            }
        }
        (f, mfs)
    }
    fn recs(&mut self, input_len: usize, targets: &[i64]) -> Vec<Value> {
        if targets.is_empty() {
            return vec![];
        }
        let k = *[0usize, 1, 1, 1, 2, 2, 3].choose(&mut self.rng).unwrap();
        (0..k)
            .map(|_| {
                let si = self.rng.gen_range(0..input_len as i64);
                let li = *targets.choose(&mut self.rng).unwrap();
                json!([si, li])
            })
            .collect()
    }
    fn context_sub(&mut self, chain: bool, targets: &[i64]) -> Value {
        let fmt = self.rng.gen_range(1..=3);
        match fmt {
            1 => {
                let (gs, cov) = self.cov(1, 4);
                let mut sets = Vec::new();
                for _ in &gs {
                    let nr = *[0usize, 1, 1, 2].choose(&mut self.rng).unwrap();
                    let mut rules = Vec::new();
                    for _ in 0..nr {
                        let input = self.glyph_seq(0, 2);
                        let recs = self.recs(input.len() + 1, targets);
                        if chain {
                            rules.push(json!({"back": self.glyph_seq(0, 2), "input": input, "look": self.glyph_seq(0, 2), "recs": recs}));
                        } else {
                            rules.push(json!({"input": input, "recs": recs}));
                        }
                    }
                    sets.push(Value::Array(rules));
                }
                json!({"fmt": 1, "cov": cov, "sets": sets})
            }
            2 => {
                let (_, cov) = self.cov(2, 6);
                let (icd, imax) = self.small_classdef();
                let (bcd, bmax) = self.small_classdef();
                let (lcd, lmax) = self.small_classdef();
                let n_sets = imax as usize + 1 + if self.rng.gen_bool(0.2) { 1 } else { 0 };
                let mut sets = Vec::new();
                for _ in 0..n_sets {
                    let nr = *[0usize, 1, 1, 2].choose(&mut self.rng).unwrap();
                    let mut rules = Vec::new();
                    for _ in 0..nr {
                        let il = self.rng.gen_range(0..=2usize);
                        let input: Vec<i64> = (0..il).map(|_| self.rng.gen_range(0..=imax)).collect();
                        let recs = self.recs(il + 1, targets);
                        if chain {
                            let bl = self.rng.gen_range(0..=2usize);
                            let ll = self.rng.gen_range(0..=2usize);
                            let back: Vec<i64> = (0..bl).map(|_| self.rng.gen_range(0..=bmax)).collect();
                            let look: Vec<i64> = (0..ll).map(|_| self.rng.gen_range(0..=lmax)).collect();
                            rules.push(json!({"back": back, "input": input, "look": look, "recs": recs}));
                        } else {
                            rules.push(json!({"input": input, "recs": recs}));
                        }
                    }
                    sets.push(Value::Array(rules));
                }
                if chain {
                    json!({"fmt": 2, "cov": cov, "bcd": bcd, "icd": icd, "lcd": lcd, "sets": sets})
                } else {
                    json!({"fmt": 2, "cov": cov, "icd": icd, "sets": sets})
                }
            }
            _ => {
                let input = self.covs(1, 3);
                let recs = self.recs(input.len(), targets);
                if chain {
                    json!({"fmt": 3, "back": self.covs(0, 2), "input": input, "look": self.covs(0, 2), "recs": recs})
                } else {
                    json!({"fmt": 3, "input": input, "recs": recs})
                }
            }
        }
    }
    fn subtable(&mut self, ty: i64, targets: &[i64]) -> Value {
        match ty {
            1 => {
                if self.rng.gen_bool(0.35) {
                    let (gs, cov) = self.cov(1, 4);
                    let (lo, hi) = (*gs.first().unwrap_or(&1), *gs.last().unwrap_or(&1));
                    let delta = self.rng.gen_range(-(lo)..=(self.n - 1 - hi));
                    json!({"fmt": 1, "cov": cov, "delta": delta})
                } else {
                    let (gs, cov) = self.cov(1, 5);
                    let subst: Vec<i64> = gs.iter().map(|_| self.glyph()).collect();
                    json!({"fmt": 2, "cov": cov, "subst": subst})
                }
            }
            2 => {
                let (gs, cov) = self.cov(1, 4);
                let seqs: Vec<Vec<i64>> = gs
                    .iter()
                    .map(|_| {
                        let k = *[0usize, 1, 2, 2, 2, 3].choose(&mut self.rng).unwrap();
                        (0..k).map(|_| self.glyph()).collect()
                    })
                    .collect();
                json!({"fmt": 1, "cov": cov, "seqs": seqs})
            }
            3 => {
                let (gs, cov) = self.cov(1, 4);
                let alts: Vec<Vec<i64>> = gs.iter().map(|_| self.glyph_seq(1, 3)).collect();
                json!({"fmt": 1, "cov": cov, "alts": alts})
            }
            4 => {
                let (gs, cov) = self.cov(1, 4);
                let mut sets = Vec::new();
                for _ in &gs {
                    let nl = self.rng.gen_range(1..=3);
                    let ligs: Vec<Value> = (0..nl)
                        .map(|_| {
                            let k = *[0usize, 1, 1, 1, 2, 2, 3].choose(&mut self.rng).unwrap();
                            let comps: Vec<i64> = (0..k).map(|_| self.glyph()).collect();
                            json!({"lig": self.glyph(), "comps": comps})
                        })
                        .collect();
                    sets.push(Value::Array(ligs));
                }
                json!({"fmt": 1, "cov": cov, "sets": sets})
            }
            5 => self.context_sub(false, targets),
            6 => self.context_sub(true, targets),
            _ => {
                let (gs, cov) = self.cov(1, 4);
                let subst: Vec<i64> = gs.iter().map(|_| self.glyph()).collect();
                json!({"fmt": 1, "cov": cov, "back": self.covs(0, 2), "look": self.covs(0, 2), "subst": subst})
            }
        }
    }
}

/// (kind, program, number of glyphs, input strings)
pub fn programs(seed: u64, n_prog: usize, n_str: usize) -> Vec<(String, Value, u16, Vec<Vec<i64>>)> {
    let mut out = Vec::new();
    for pi in 0..n_prog {
        let mut rng = StdRng::seed_from_u64(seed.wrapping_mul(0x9E37_79B9_7F4A_7C15).wrapping_add(pi as u64));
        let n: i64 = rng.gen_range(20..=40);
        let has_gdef = !rng.gen_bool(0.1);
        // GDEF
        let mut cls = vec![0i64; n as usize];
        let mut att = vec![0i64; n as usize];
        for g in 1..n as usize {
            cls[g] = *[0i64, 0, 1, 1, 1, 1, 2, 2, 3, 3, 3].choose(&mut rng).unwrap();
            if cls[g] == 3 {
                att[g] = rng.gen_range(0..=3);
            }
        }
        let marks: Vec<i64> = (1..n).filter(|g| cls[*g as usize] == 3).collect();
        let n_sets = if has_gdef { rng.gen_range(0..=3usize) } else { 0 };
        let mut sets = Vec::new();
        for _ in 0..n_sets {
            let s: Vec<i64> = marks.iter().copied().filter(|_| rng.gen_bool(0.5)).collect();
            sets.push(coverage_json(rng.gen_range(1..=2), &s));
        }
        let gdef = if has_gdef {
            json!({"cls": classdef_json(rng.gen_range(1..=2), &cls), "att": classdef_json(rng.gen_range(1..=2), &att), "sets": sets})
        } else {
            json!({"cls": {"fmt": 0}, "att": {"fmt": 0}, "sets": []})
        };
        // hot glyphs: most tables and strings draw from these so that rules do match
        let mut hot: Vec<i64> = Vec::new();
        let mut pool: Vec<i64> = (1..n).collect();
        pool.shuffle(&mut rng);
        hot.extend(pool.iter().take(rng.gen_range(4..=6)));
        for m in marks.iter().take(2) {
            if !hot.contains(m) {
                hot.push(*m);
            }
        }
        let rng2 = StdRng::seed_from_u64(seed.wrapping_mul(0xD1B5_4A32_D192_ED03).wrapping_add(pi as u64) ^ 0x5bd1_e995);
        let mut g = Gen { rng, rng2, n, hot, n_sets, has_gdef };
        // lookup types; contexts refer to lookups decided from the back so that nesting depth <= 3
        let n_lookups = g.rng.gen_range(1..=8usize);
        let mut types: Vec<i64> =
            (0..n_lookups).map(|_| *[1i64, 1, 2, 2, 3, 4, 4, 4, 5, 5, 6, 6, 6, 8].choose(&mut g.rng).unwrap()).collect();
        if types.iter().all(|t| *t == 5 || *t == 6 || *t == 8) {
            types.push(*[1i64, 2, 4].choose(&mut g.rng).unwrap());
        }
        let nl = types.len();
        let mut depth = vec![0usize; nl];
        let mut lookups: Vec<Value> = vec![Value::Null; nl];
        for li in (0..nl).rev() {
            let ty = types[li];
            let mut targets: Vec<i64> = Vec::new();
            if ty == 5 || ty == 6 {
                for (j, t) in types.iter().enumerate() {
                    let leaf = *t != 5 && *t != 6 && *t != 8;
                    if leaf || (j > li && (*t == 5 || *t == 6) && depth[j] <= 2 && g.rng.gen_bool(0.5)) {
                        targets.push(j as i64);
                    }
                }
            }
            let n_subs = *[0usize, 1, 1, 1, 1, 1, 2, 2, 3].choose(&mut g.rng).unwrap();
            let subs: Vec<Value> = (0..n_subs).map(|_| g.subtable(ty, &targets)).collect();
            if ty == 5 || ty == 6 {
                // depth from the records actually written
                let mut d = 0;
                for j in 0..nl {
                    if (types[j] == 5 || types[j] == 6) && j > li && nested_mentions(&subs, j as i64) {
                        d = d.max(depth[j]);
                    }
                }
                depth[li] = d + 1;
            }
            let (flag, mfs) = g.flag();
            let ext = g.rng.gen_bool(0.2) && n_subs > 0;
            lookups[li] = json!({"type": if ext { 7 } else { ty }, "etype": if ext { ty } else { 0 }, "flag": flag, "mfs": mfs, "subs": subs});
        }
        // features
        let pool = ["calt", "ccmp", "clig", "dlig", "liga", "locl", "rlig", "ss01"];
        let n_tags = *[1usize, 1, 2, 2, 3, 4].choose(&mut g.rng).unwrap();
        let mut tags: Vec<&str> = pool.choose_multiple(&mut g.rng, n_tags).copied().collect();
        tags.sort();
        let list = |g: &mut Gen| -> Vec<i64> {
            let k = *[0usize, 1, 1, 2, 2, 3, 4].choose(&mut g.rng).unwrap();
            (0..k).map(|_| g.rng.gen_range(0..nl as i64)).collect()
        };
        let features: Vec<Value> = tags.iter().map(|t| json!({"tag": t, "lookups": list(&mut g)})).collect();
        let mut request: Vec<Value> = Vec::new();
        for t in &tags {
            if g.rng.gen_bool(0.75) {
                request.push(json!({"tag": t, "alt": *[0i64, 0, 0, 0, 0, 0, 1, 2].choose(&mut g.rng).unwrap()}));
            }
        }
        if g.rng.gen_bool(0.1) {
            request.push(json!({"tag": "smcp", "alt": 0}));
        }
        request.shuffle(&mut g.rng);
        // feature variations
        let vals = [-16384i64, -8192, -1, 0, 1, 4096, 8192, 16384];
        let mut vars: Vec<Value> = Vec::new();
        let with_vars = g.rng.gen_bool(0.3);
        if with_vars {
            for _ in 0..g.rng.gen_range(1..=3) {
                let conds: Vec<Value> = (0..*[0usize, 1, 1, 2].choose(&mut g.rng).unwrap())
                    .map(|_| {
                        let a = *vals.choose(&mut g.rng).unwrap();
                        let b = *vals.choose(&mut g.rng).unwrap();
                        json!([g.rng.gen_range(0..=1), a.min(b), a.max(b)])
                    })
                    .collect();
                let mut fis: Vec<i64> = (0..tags.len() as i64).filter(|_| g.rng.gen_bool(0.5)).collect();
                fis.sort();
                let subst: Vec<Value> = fis.iter().map(|fi| json!({"fi": fi, "lookups": list(&mut g)})).collect();
                vars.push(json!({"conds": conds, "subst": subst}));
            }
        }
        let tuple: Vec<i64> = if (with_vars && g.rng.gen_bool(0.85)) || g.rng.gen_bool(0.05) {
            (0..g.rng.gen_range(1..=2)).map(|_| *vals.choose(&mut g.rng).unwrap()).collect()
        } else {
            vec![]
        };
        let prog = json!({"gdef": gdef, "lookups": lookups, "features": features, "vars": vars, "request": request, "tuple": tuple});
        let mut inputs: Vec<Vec<i64>> = Vec::new();
        for _ in 0..n_str {
            let len = *[0usize, 1, 2, 3, 4, 5, 6, 6, 8, 8, 10, 12].choose(&mut g.rng).unwrap();
            inputs.push((0..len).map(|_| g.glyph()).collect());
        }
        let has_ctx = types.iter().any(|t| *t == 5 || *t == 6);
        let kind = format!("random{}{}", if has_ctx { "-context" } else { "-flat" }, if with_vars { "-variations" } else { "" });
        out.push((kind, prog, n as u16, inputs));
    }
    out
}

/// does any lookup record of these (context) subtables name lookup `li`?
fn nested_mentions(subs: &[Value], li: i64) -> bool {
    fn recs_mention(recs: &Value, li: i64) -> bool {
        recs.as_array().map_or(false, |rs| rs.iter().any(|r| r[1].as_i64() == Some(li)))
    }
    subs.iter().any(|st| {
        if st["fmt"].as_i64() == Some(3) {
            recs_mention(&st["recs"], li)
        } else {
            st["sets"].as_array().map_or(false, |sets| {
                sets.iter().any(|set| set.as_array().map_or(false, |rules| rules.iter().any(|r| recs_mention(&r["recs"], li))))
            })
        }
    })
}
