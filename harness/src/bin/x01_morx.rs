//! X01 harness: drives allsorts' AAT `morx` shaping (src/tables/morx.rs parser, src/layout/morx.rs).
//!
//!   x01_morx replay <progs.ndjson> <cases.ndjson> <mismatches.ndjson>
//!       every program printed by MC_Morx (PROG lines) is encoded into real `morx` table bytes (own
//!       encoder, enc.rs) and parsed with allsorts' production reader; every CASE is run through
//!         (prefix) `morx::apply` on the table cut after its 1st, 2nd, ... subtable: the run after
//!                  EVERY subtable is compared,
//!         (apply)  `morx::apply` on the whole table,
//!         (shape)  `Font::shape` on a synthesized font that has `morx` and no GSUB,
//!       each result is projected (glyph id, characters carried, glyph origin; glyphs 0xFFFF dropped)
//!       and compared by JSON equality with the conformant outcomes the specification lists.
//!   x01_morx record <seed> <programs> <strings> <trace.ndjson>
//!       random programs (rnd.rs) on random strings: one "Prog" event per program, one "Apply" event
//!       per call, judged by Trace_Morx.  Also scans the repository fonts for `morx` / `mort` tables
//!       with the harness' own sfnt directory reader (none at present).
//!   x01_morx one <prog.json> <glyph ids, comma separated>      (manual reproduction)
//!   x01_morx hang-probe                 a contextual table with a DONT_ADVANCE cycle (never returns
//!                                       if allsorts has no bound; the driver runs it under a timeout)
//!
//! The harness decides nothing: it builds bytes, calls allsorts, records facts.
#[path = "x01_morx/enc.rs"]
mod enc;
#[path = "x01_morx/rnd.rs"]
mod rnd;

use allsorts::binary::read::ReadScope;
use allsorts::font::Font;
use allsorts::font_data::{DynamicFontTableProvider, FontData};
use allsorts::gsub::{FeatureMask, Features, GlyphOrigin, RawGlyph, RawGlyphFlags};
use allsorts::layout::morx;
use allsorts::tables::morx::MorxTable;
use serde_json::{json, Value};
use std::collections::{BTreeMap, HashMap};
use tinyvec::tiny_vec;
use vh::fontgen::{tag_u32, GlyphSpec, TtFont};
use vh::sup::{guarded, Outcome};
use vh::util::{read_ndjson, NdWriter};

type F = Font<DynamicFontTableProvider<'static>>;

/// input position k (1-based) carries the character CHAR_BASE + k
const CHAR_BASE: u32 = 0x4E00;

fn leak(v: Vec<u8>) -> &'static [u8] {
    Box::leak(v.into_boxed_slice())
}

fn guarded_str<T>(f: impl FnOnce() -> Result<T, String>) -> Result<T, String> {
    match guarded(f) {
        Outcome::Returned(r) => r,
        Outcome::Panicked(m) => Err(format!("Panic:{}", vh::sup::panic_key(&m))),
    }
}

pub struct Prepared {
    prog: Value,
    n_glyphs: u16,
    /// tables cut after the k-th subtable (k = 1..), parsed by allsorts; the last one is the whole table
    prefixes: Vec<Result<MorxTable<'static>, String>>,
    font: Option<F>,
    pub bytes: usize,
}

fn parse(bytes: &'static [u8], n: u16) -> Result<MorxTable<'static>, String> {
    guarded_str(|| ReadScope::new(bytes).read_dep::<MorxTable<'static>>(n).map_err(|e| format!("morx: Err({:?})", e)))
}

pub fn prepare(prog: &Value, with_prefixes: bool, with_font: bool) -> Result<Prepared, String> {
    let n = enc::int(&prog["n"]) as u16;
    let total = enc::n_subtables(prog);
    let mut prefixes = Vec::new();
    let mut bytes = 0usize;
    let from = if with_prefixes { 1 } else { total.max(1) };
    for k in from..=total.max(1) {
        let b = leak(enc::morx(prog, if k >= total { None } else { Some(k) }));
        bytes += b.len();
        prefixes.push(parse(b, n));
    }
    let font = if with_font {
        let n = n as usize;
        let mut f = TtFont::new((0..n).map(|_| GlyphSpec::Empty).collect());
        f.metrics = (0..n).map(|i| (500u16, i as i16)).collect();
        f.num_h_metrics = n as u16;
        f.cmap = (1..n).map(|g| (0x40 + g as u32, g as u16)).collect();
        f.extra_tables.push(("morx".into(), enc::morx(prog, None)));
        let font_bytes = leak(f.build());
        let r = guarded_str(|| {
            let fd = ReadScope::new(font_bytes).read::<FontData<'static>>().map_err(|e| format!("FontData: {:?}", e))?;
            let prov = fd.table_provider(0).map_err(|e| format!("provider: {:?}", e))?;
            Font::new(prov).map_err(|e| format!("Font::new: {:?}", e))
        });
        Some(r?)
    } else {
        None
    };
    Ok(Prepared { prog: prog.clone(), n_glyphs: n, prefixes, font, bytes })
}

fn raw_glyphs(input: &[i64]) -> Vec<RawGlyph<()>> {
    input
        .iter()
        .enumerate()
        .map(|(k, g)| {
            let ch = char::from_u32(CHAR_BASE + k as u32 + 1).unwrap();
            RawGlyph {
                unicodes: tiny_vec![[char; 1] => ch],
                glyph_index: *g as u16,
                liga_component_pos: 0,
                glyph_origin: GlyphOrigin::Char(ch),
                flags: RawGlyphFlags::empty(),
                variation: None,
                extra_data: (),
            }
        })
        .collect()
}

/// Projection of a run: glyph id, characters carried (input positions), origin (0 character,
/// 1 direct); glyphs 0xFFFF ("deleted") are not part of what a client displays and are dropped.
fn project(glyphs: &[RawGlyph<()>]) -> (Value, usize) {
    let mut ndel = 0;
    let v = glyphs
        .iter()
        .filter(|g| {
            if g.glyph_index == 0xFFFF {
                ndel += 1;
                false
            } else {
                true
            }
        })
        .map(|g| {
            let c: Vec<i64> = g.unicodes.iter().map(|ch| *ch as i64 - CHAR_BASE as i64).collect();
            let o = match g.glyph_origin {
                GlyphOrigin::Char(_) => 0,
                GlyphOrigin::Direct => 1,
            };
            json!({"g": g.glyph_index, "c": c, "o": o})
        })
        .collect();
    (Value::Array(v), ndel)
}

fn features_of(prog: &Value) -> Features {
    let req = &prog["req"];
    if enc::text(&req["kind"]) == "custom" {
        return Features::Custom(Vec::new());
    }
    let mut m = FeatureMask::empty();
    for t in enc::arr(&req["tags"]) {
        let bit = FeatureMask::from_tag(tag_u32(enc::text(t)));
        assert!(!bit.is_empty(), "tag {} has no FeatureMask bit", t);
        m |= bit;
    }
    Features::Mask(m)
}

/// morx::apply on one parsed table: the projected run, or the error / panic text
fn run_apply(table: &Result<MorxTable<'static>, String>, input: &[i64], features: &Features, ndel: &mut usize) -> Value {
    let table = match table {
        Ok(t) => t,
        Err(e) => return json!(e),
    };
    let mut glyphs = raw_glyphs(input);
    let r = {
        let g = &mut glyphs;
        guarded_str(|| morx::apply(table, g, features).map_err(|e| format!("Err({:?})", e)))
    };
    match r {
        Ok(()) => {
            let (v, d) = project(&glyphs);
            *ndel += d;
            v
        }
        Err(e) => json!(e),
    }
}

fn run_shape(p: &mut Prepared, input: &[i64], features: &Features) -> Value {
    let glyphs = raw_glyphs(input);
    let font = match p.font.as_mut() {
        Some(f) => f,
        None => return json!("no font"),
    };
    let r = guarded_str(|| font.shape(glyphs, tag_u32("latn"), None, features, None, false).map_err(|(e, _)| format!("Err({:?})", e)));
    match r {
        Ok(infos) => {
            let gs: Vec<RawGlyph<()>> = infos.into_iter().map(|i| i.glyph).collect();
            project(&gs).0
        }
        Err(e) => json!(e),
    }
}

// ---- replay -----------------------------------------------------------------------------------
fn replay(prog_path: &str, cases_path: &str, out_path: &str) {
    let mut prepared: HashMap<i64, (String, Result<Prepared, String>)> = HashMap::new();
    let mut table_bytes = 0usize;
    for t in read_ndjson(prog_path) {
        let pi = enc::int(&t["p"]);
        let prog = t["prog"].clone();
        let r = guarded_str(|| prepare(&prog, true, true));
        if let Ok(p) = &r {
            table_bytes += p.bytes;
        }
        prepared.insert(pi, (enc::text(&t["name"]).to_string(), r));
    }
    let mut out = NdWriter::create(out_path);
    let mut tags: BTreeMap<String, u64> = BTreeMap::new();
    let mut stats: BTreeMap<&'static str, u64> = BTreeMap::new();
    let mut bump = |k: &'static str, by: u64| *stats.entry(k).or_insert(0) += by;
    let (mut n_cases, mut n_mism) = (0u64, 0u64);
    for case in read_ndjson(cases_path) {
        n_cases += 1;
        let pi = enc::int(&case["p"]);
        let input = enc::ints(&case["in"]);
        let (name, prep) = prepared.get_mut(&pi).unwrap_or_else(|| panic!("case refers to unknown program {}", pi));
        let name = name.clone();
        let report = |stage: &str, want: &Value, got: &Value, bug: &Value, out: &mut NdWriter| {
            out.write(&json!({"p": pi, "name": name, "in": case["in"], "stage": stage, "want": want, "got": got,
                              "bug": bug["name"], "bugtags": bug["tags"], "tags": case["tags"], "selftest": case["selftest"]}));
        };
        let p = match prep {
            Ok(p) => p,
            Err(e) => {
                n_mism += 1;
                report("load", &json!("Ok"), &json!(e), &Value::Null, &mut out);
                continue;
            }
        };
        for t in enc::arr(&case["tags"]) {
            *tags.entry(enc::text(t).to_string()).or_insert(0) += 1;
        }
        let features = features_of(&p.prog);
        let init = project(&raw_glyphs(&input)).0;
        let mut allowed: Vec<&Value> = vec![&case["steps"]];
        allowed.extend(enc::arr(&case["alts"]).iter());
        let bugs = enc::arr(&case["bugs"]);
        let last_or = |steps: &Value| -> Value { enc::arr(steps).last().cloned().unwrap_or_else(|| init.clone()) };
        if allowed.len() > 1 {
            bump("cases_with_several_conformant_outcomes", 1);
        }
        if !bugs.is_empty() {
            bump("cases_where_a_known_wrong_reading_differs", 1);
        }
        if last_or(&case["steps"]) != init {
            bump("cases_changing_the_run", 1);
        }
        if enc::arr(&case["steps"]).len() > 1 {
            bump("cases_with_several_subtables", 1);
        }
        if enc::arr(&last_or(&case["steps"])).len() < input.len() {
            bump("cases_shortening_the_run", 1);
        }
        let mut ok = true;
        // (prefix): the run after every subtable
        let mut ndel = 0usize;
        let got = Value::Array(p.prefixes.iter().map(|t| run_apply(t, &input, &features, &mut ndel)).collect());
        bump("route_prefix", p.prefixes.len() as u64);
        bump("deleted_glyphs_dropped_by_projection", ndel as u64);
        let n_sub = enc::n_subtables(&p.prog);
        let got_steps = if n_sub == 0 { json!([]) } else { got };
        if !allowed.iter().any(|a| **a == got_steps) {
            ok = false;
            let bug = bugs.iter().find(|b| b["steps"] == got_steps).cloned().unwrap_or(Value::Null);
            report("prefix", &case["steps"], &got_steps, &bug, &mut out);
        }
        // whole-table routes
        let finals: Vec<Value> = allowed.iter().map(|a| last_or(a)).collect();
        let mut routes: Vec<(&str, Value)> = Vec::new();
        let mut nd = 0usize;
        routes.push(("apply", run_apply(p.prefixes.last().unwrap(), &input, &features, &mut nd)));
        bump("route_apply", 1);
        routes.push(("shape", run_shape(p, &input, &features)));
        bump("route_shape", 1);
        for (stage, got) in routes {
            if !finals.iter().any(|f| *f == got) {
                ok = false;
                let bug = bugs.iter().find(|b| last_or(&b["steps"]) == got).cloned().unwrap_or(Value::Null);
                report(stage, &finals[0], &got, &bug, &mut out);
            }
        }
        if !ok {
            n_mism += 1;
        }
    }
    out.finish();
    println!(
        "{}",
        json!({"cases": n_cases, "cases_with_mismatch": n_mism, "programs": prepared.len(),
               "table_bytes_encoded": table_bytes, "stats": stats, "tags": tags})
    );
}

// ---- record -------------------------------------------------------------------------------------
fn scan_repo_fonts() -> (usize, Vec<String>) {
    let mut with = Vec::new();
    let fonts = vh::util::repo_fonts();
    for path in &fonts {
        let d = match std::fs::read(path) {
            Ok(d) => d,
            Err(_) => continue,
        };
        let mut offsets = vec![0usize];
        if d.len() >= 12 && &d[0..4] == b"ttcf" {
            let k = vh::fontgen::be32(&d, 8).unwrap_or(0) as usize;
            offsets = (0..k.min(64)).filter_map(|i| vh::fontgen::be32(&d, 12 + 4 * i).map(|o| o as usize)).collect();
        }
        for at in offsets {
            if let Some(dir) = vh::fontgen::read_sfnt_dir(&d, at) {
                if vh::fontgen::table_bytes(&d, &dir, "morx").is_some() || vh::fontgen::table_bytes(&d, &dir, "mort").is_some() {
                    with.push(path.clone());
                    break;
                }
            }
        }
    }
    (fonts.len(), with)
}

fn record(seed: u64, n_prog: usize, n_str: usize, out_path: &str) {
    let mut out = NdWriter::create(out_path);
    let mut i = 0u64;
    let mut kinds: BTreeMap<String, u64> = BTreeMap::new();
    let mut n_apply = 0u64;
    let mut bytes = 0usize;
    for (pi, (kind, prog, inputs)) in rnd::programs(seed, n_prog, n_str).into_iter().enumerate() {
        *kinds.entry(kind.clone()).or_insert(0) += 1;
        let case = format!("r{}", pi);
        let with_font = pi % 4 == 0;
        let mut prep = guarded_str(|| prepare(&prog, false, with_font));
        let load = match &prep {
            Ok(p) => match p.prefixes.last().unwrap() {
                Ok(_) => "".to_string(),
                Err(e) => e.clone(),
            },
            Err(e) => e.clone(),
        };
        i += 1;
        out.write(&json!({"i": i, "case": case, "ev": "Prog", "a": {"prog": prog, "kind": kind}, "o": {"err": load}}));
        if let Ok(p) = &mut prep {
            bytes += p.bytes;
            let features = features_of(&p.prog);
            for input in inputs {
                let mut nd = 0usize;
                let mut routes: Vec<(&str, Value)> = vec![("apply", run_apply(p.prefixes.last().unwrap(), &input, &features, &mut nd))];
                if with_font {
                    routes.push(("shape", run_shape(p, &input, &features)));
                }
                for (route, got) in routes {
                    i += 1;
                    n_apply += 1;
                    let o = match &got {
                        Value::String(e) => json!({"err": e, "run": []}),
                        run => json!({"err": "", "run": run}),
                    };
                    out.write(&json!({"i": i, "case": case, "ev": "Apply", "a": {"in": input, "route": route}, "o": o}));
                }
            }
        }
    }
    out.finish();
    let (scanned, with) = scan_repo_fonts();
    println!(
        "{}",
        json!({"events": i, "apply_events": n_apply, "programs": n_prog, "kinds": kinds, "table_bytes_encoded": bytes,
               "repo_fonts_scanned": scanned, "repo_fonts_with_morx": with})
    );
}

// ---- one / hang-probe ---------------------------------------------------------------------------
fn one(prog_path: &str, glyphs: &str) {
    let v: Value = serde_json::from_str(&std::fs::read_to_string(prog_path).expect("read prog")).expect("json");
    let prog = if v.get("prog").is_some() { v["prog"].clone() } else { v };
    let input: Vec<i64> = glyphs.split(',').filter(|s| !s.is_empty()).map(|s| s.trim().parse().expect("glyph id")).collect();
    let mut p = prepare(&prog, true, true).expect("prepare");
    let features = features_of(&p.prog);
    let mut nd = 0;
    let steps: Vec<Value> = p.prefixes.iter().map(|t| run_apply(t, &input, &features, &mut nd)).collect();
    println!("prefix {}", Value::Array(steps));
    println!("apply  {}", run_apply(p.prefixes.last().unwrap(), &input, &features, &mut nd));
    println!("shape  {}", run_shape(&mut p, &input, &features));
    let _ = p.n_glyphs;
}

fn hang_probe() {
    // contextual subtable: class 4 = glyph 1; (state 0, class 4) -> state 0 with DONT_ADVANCE
    let lk = json!({"f": 6, "first": 0, "unit": 2, "vals": [], "segs": [{"lo": 1, "hi": 1, "v": 4, "vs": []}]});
    let sb = json!({"f": 6, "first": 0, "unit": 2, "vals": [], "segs": [{"lo": 1, "hi": 1, "v": 2, "vs": []}]});
    let prog = json!({"ver": 2, "n": 8, "lay": 0, "req": {"kind": "mask", "tags": []},
        "chains": [{"def": 1, "sh": 0, "feats": [], "subs": [{"type": 1, "cov": 0, "flags": 1, "nc": 5, "cls": lk,
            "rows": [[0, 0, 0, 0, 1], [0, 0, 0, 0, 1]],
            "ents": [{"ns": 0, "mark": 0, "da": 0, "mi": -1, "ci": -1}, {"ns": 0, "mark": 0, "da": 1, "mi": -1, "ci": -1}],
            "subst": [sb]}]}]});
    let p = prepare(&prog, false, false).expect("prepare");
    let mut nd = 0;
    println!("probe: calling morx::apply on a table with a DONT_ADVANCE cycle");
    let r = run_apply(p.prefixes.last().unwrap(), &[1], &Features::Mask(FeatureMask::empty()), &mut nd);
    println!("returned {}", r);
}

fn main() {
    vh::sup::install_quiet_panic_hook();
    let args: Vec<String> = std::env::args().collect();
    match args.get(1).map(|s| s.as_str()) {
        Some("replay") => replay(&args[2], &args[3], &args[4]),
        Some("record") => record(args[2].parse().expect("seed"), args[3].parse().expect("programs"), args[4].parse().expect("strings"), &args[5]),
        Some("one") => one(&args[2], &args[3]),
        Some("hang-probe") => hang_probe(),
        _ => {
            eprintln!("usage: x01_morx replay <progs> <cases> <mismatches> | record <seed> <programs> <strings> <trace> | one <prog.json> <gids> | hang-probe");
            std::process::exit(2);
        }
    }
}
