//! C02 harness: drives Font::map_glyphs -> Font::shape -> GlyphLayout::glyph_positions.
//!
//!   c02_shape run <tier> <seed> <cases.ndjson> <outdir> <nworkers>
//!       supervisor.  Builds the deterministic job plan from the syllable-class strings TLC
//!       generated (MC_Shaper CASE lines) and the repository fonts, splits it into shards and
//!       runs one `worker` child per shard.  A child that dies (stack exhaustion, abort) or that
//!       exceeds the per-call CPU budget is data: an event with outcome Abort / Timeout is
//!       appended to the shard's trace and a new child resumes after the offending job.
//!   c02_shape worker <tier> <seed> <cases.ndjson> <trace> <from> <to>
//!       executes jobs [from, to) of the plan, one ndjson event per job, flushed per event.
//!   c02_shape one <tier> <seed> <cases.ndjson> <job index>
//!       executes one job of the plan and prints its event (replay of a finding).
//!   c02_shape plan <tier> <seed> <cases.ndjson>
//!       prints the size of the plan.
//!
//! The harness decides nothing: it concretises class strings, calls allsorts under
//! `vh::sup::guarded`, and projects the returned run (glyph ids, unicodes, placement variants with
//! their indices) into events.  Trace_Shaper judges them.
//!
//! Two class alphabets come from TLC (MC_Shaper): the syllable classes (fam "syl", concretised per
//! script) and the text shape classes of the default shaper (fam "txt": ligating letter, digit,
//! ASCII slash, fraction slash, space, mark, joiner ..., see c02_shape/synth.rs).  Fonts: the
//! repository fonts, seeded corruptions of their layout tables, and the systematically
//! synthesized fonts of c02_shape/synth.rs ("synth/<name>"), each shaped with every text class
//! string over its glyph roles.  `o.f` carries facts measured on the returned run (which special
//! path was reached); they feed the vacuity counters only, never the verdict.
//!
//! Second strengthening: the font CASES of MC_ShaperFonts (file `<cases>.fonts`, one JSON object per
//! line) become fonts through c02_shape/synth2.rs - graphs of contextual lookups that name each other
//! (cycles, chains around the recursion limit, GSUB and GPOS, through Extension lookups) and fonts
//! with a `morx` table and no GSUB (ligature / contextual / noncontextual subtables, several chains,
//! tables that are adversarial for totality) - plus seeded random morx programs.  A worker forks one
//! child per stretch of jobs: when the child dies (stack exhaustion = SIGSEGV / SIGABRT) or exceeds
//! the CPU budget of the job, the parent - which still holds the plan - knows from a shared counter
//! which job was running, records Abort / Timeout for exactly that job and forks again behind it.
//! After two timeouts / three deaths on one font the rest of the font's jobs is recorded as Skipped,
//! after MAX_TIMEOUTS_PER_SHARD timeouts / MAX_ABORTS_PER_SHARD deaths the rest of the shard.  `plan_*` counters are computed from the plan
//! (inputs), never from what allsorts returned.
#[path = "c02_shape/enc_gpos.rs"]
mod enc_gpos;
#[path = "c02_shape/enc_gsub.rs"]
mod enc_gsub;
#[path = "c02_shape/enc_morx.rs"]
mod enc_morx;
#[path = "c02_shape/rnd_morx.rs"]
mod rnd_morx;
#[path = "c02_shape/synth.rs"]
mod synth;
#[path = "c02_shape/synth2.rs"]
mod synth2;

use allsorts::binary::read::ReadScope;
use allsorts::font::{Font, MatchingPresentation};
use allsorts::font_data::FontData;
use allsorts::glyph_position::{GlyphLayout, TextDirection};
use allsorts::gpos::{Info, Placement};
use allsorts::gsub::{FeatureInfo, FeatureMask, Features, RawGlyph};
use allsorts::tables::variable_fonts::fvar::FvarTable;
use allsorts::tables::{F2Dot14, FontTableProvider};
use allsorts::tag;
use serde_json::{json, Value};
use std::io::Write;
use std::sync::atomic::{AtomicBool, AtomicU64, Ordering};
use std::sync::{Arc, Mutex};
use std::collections::BTreeMap;
use synth::{SynthFont, FEAT_NAMES};
use vh::fontgen::{read_sfnt_dir, tag_str};
use vh::sup::{guarded, Outcome};
use vh::util::{read_ndjson, repo_root};

const CPU_BUDGET_MS: u64 = 2_000; // per job (three calls), thread CPU time; SynthFont.budget_ms for synthesized fonts
const EXIT_TIMEOUT: i32 = 75;
/// after this many timeouts / process deaths on one (font, corruption) the rest of its jobs is skipped
const GROUP_TIMEOUTS: u32 = 2;
const GROUP_DEATHS: u32 = 3;
/// after this many timeouts (each costs its CPU budget) / process deaths (each costs a fork) the rest
/// of a shard is skipped
const MAX_TIMEOUTS_PER_SHARD: u64 = 20;
const MAX_ABORTS_PER_SHARD: u64 = 1000;

// ---- deterministic hashing ------------------------------------------------------------------

fn mix(mut z: u64) -> u64 {
    z = z.wrapping_add(0x9E37_79B9_7F4A_7C15);
    z = (z ^ (z >> 30)).wrapping_mul(0xBF58_476D_1CE4_E5B9);
    z = (z ^ (z >> 27)).wrapping_mul(0x94D0_49BB_1331_11EB);
    z ^ (z >> 31)
}
fn h(parts: &[u64]) -> u64 {
    let mut x = 0x5EED_C02u64;
    for &p in parts {
        x = mix(x ^ p);
    }
    x
}

// ---- scripts: class -> code point sequences ---------------------------------------------------

struct ScriptSpec {
    tag: &'static str,
    lang: &'static str,
    cls: &'static [(&'static str, &'static [&'static [u32]])],
}

macro_rules! cps { ($($($c:expr),+);+) => { &[ $( &[ $($c),+ ] ),+ ] }; }

const COMMON: &[(&str, &[&[u32]])] = &[
    ("ZWJ", cps![0x200D]),
    ("ZWNJ", cps![0x200C]),
    // text / emoji presentation selectors, the selectors VS1..VS3 that request neither, and VS4 which
    // allsorts does not treat as a selector (it is mapped like any character)
    ("VS15", cps![0xFE0E; 0xFE00; 0xFE02]),
    ("VS16", cps![0xFE0F; 0xFE01; 0xFE03]),
    ("For", cps![0x0041; 0x4E00; 0x1F600; 0x0E01; 0x0628; 0x0915; 0x00E9]),
    ("DC", cps![0x25CC]),
];

const SCRIPTS: &[ScriptSpec] = &[
    ScriptSpec { tag: "deva", lang: "HIN ", cls: &[
        ("C", cps![0x0915; 0x0924; 0x0938; 0x091C]), ("Ra", cps![0x0930]), ("H", cps![0x094D]), ("N", cps![0x093C]),
        ("Mpre", cps![0x093F]), ("Mabv", cps![0x0947; 0x0948; 0x0945]), ("Mblw", cps![0x0941; 0x0943]),
        ("Mpst", cps![0x093E; 0x0940]), ("Msplit", cps![0x094B; 0x094C]), ("Anu", cps![0x0902; 0x0903; 0x0901]),
        ("Dig", cps![0x0966; 0x0031]), ("Lone", cps![0x0951; 0x0952; 0x0301]) ] },
    ScriptSpec { tag: "beng", lang: "BEN ", cls: &[
        ("C", cps![0x0995; 0x09A4; 0x09AF; 0x09B8]), ("Ra", cps![0x09B0]), ("H", cps![0x09CD]), ("N", cps![0x09BC]),
        ("Mpre", cps![0x09BF; 0x09C7; 0x09C8]), ("Mabv", cps![0x0981]), ("Mblw", cps![0x09C1; 0x09C3]),
        ("Mpst", cps![0x09BE; 0x09C0; 0x09D7]), ("Msplit", cps![0x09CB; 0x09CC]), ("Anu", cps![0x0982; 0x0983]),
        ("Dig", cps![0x09E6]), ("Lone", cps![0x09FE; 0x0301]) ] },
    ScriptSpec { tag: "guru", lang: "PAN ", cls: &[
        ("C", cps![0x0A15; 0x0A38; 0x0A39]), ("Ra", cps![0x0A30]), ("H", cps![0x0A4D]), ("N", cps![0x0A3C]),
        ("Mpre", cps![0x0A3F]), ("Mabv", cps![0x0A47; 0x0A48; 0x0A4B]), ("Mblw", cps![0x0A41; 0x0A42]),
        ("Mpst", cps![0x0A3E; 0x0A40]), ("Msplit", cps![0x0A4C]), ("Anu", cps![0x0A02; 0x0A70; 0x0A71]),
        ("Dig", cps![0x0A66]), ("Lone", cps![0x0A51; 0x0301]) ] },
    ScriptSpec { tag: "gujr", lang: "GUJ ", cls: &[
        ("C", cps![0x0A95; 0x0AA4; 0x0AB8]), ("Ra", cps![0x0AB0]), ("H", cps![0x0ACD]), ("N", cps![0x0ABC]),
        ("Mpre", cps![0x0ABF]), ("Mabv", cps![0x0AC7; 0x0AC8; 0x0AC5]), ("Mblw", cps![0x0AC1; 0x0AC3]),
        ("Mpst", cps![0x0ABE; 0x0AC0]), ("Msplit", cps![0x0ACB; 0x0AC9]), ("Anu", cps![0x0A82; 0x0A83]),
        ("Dig", cps![0x0AE6]), ("Lone", cps![0x0AFA; 0x0301]) ] },
    ScriptSpec { tag: "orya", lang: "ORI ", cls: &[
        ("C", cps![0x0B15; 0x0B24; 0x0B38]), ("Ra", cps![0x0B30]), ("H", cps![0x0B4D]), ("N", cps![0x0B3C]),
        ("Mpre", cps![0x0B47]), ("Mabv", cps![0x0B3F; 0x0B56]), ("Mblw", cps![0x0B41; 0x0B43]),
        ("Mpst", cps![0x0B3E; 0x0B40; 0x0B57]), ("Msplit", cps![0x0B48; 0x0B4B; 0x0B4C]),
        ("Anu", cps![0x0B02; 0x0B03; 0x0B01]), ("Dig", cps![0x0B66]), ("Lone", cps![0x0301]) ] },
    ScriptSpec { tag: "taml", lang: "TAM ", cls: &[
        ("C", cps![0x0B95; 0x0BA4; 0x0BB8]), ("Ra", cps![0x0BB0]), ("H", cps![0x0BCD]), ("N", cps![0x0B82]),
        ("Mpre", cps![0x0BC6; 0x0BC7; 0x0BC8]), ("Mabv", cps![0x0BBF; 0x0BC0]), ("Mblw", cps![0x0BC1; 0x0BC2]),
        ("Mpst", cps![0x0BBE; 0x0BD7]), ("Msplit", cps![0x0BCA; 0x0BCB; 0x0BCC]), ("Anu", cps![0x0B82; 0x0B83]),
        ("Dig", cps![0x0BE6]), ("Lone", cps![0x0301]) ] },
    ScriptSpec { tag: "telu", lang: "TEL ", cls: &[
        ("C", cps![0x0C15; 0x0C24; 0x0C38]), ("Ra", cps![0x0C30]), ("H", cps![0x0C4D]), ("N", cps![0x0C3C]),
        ("Mpre", cps![0x0C46]), ("Mabv", cps![0x0C3E; 0x0C3F; 0x0C46; 0x0C4A]), ("Mblw", cps![0x0C56; 0x0C62]),
        ("Mpst", cps![0x0C41; 0x0C42; 0x0C43]), ("Msplit", cps![0x0C48]), ("Anu", cps![0x0C02; 0x0C03; 0x0C00]),
        ("Dig", cps![0x0C66]), ("Lone", cps![0x0C55; 0x0301]) ] },
    ScriptSpec { tag: "knda", lang: "KAN ", cls: &[
        ("C", cps![0x0C95; 0x0CA4; 0x0CB8]), ("Ra", cps![0x0CB0]), ("H", cps![0x0CCD]), ("N", cps![0x0CBC]),
        ("Mpre", cps![0x0CC6]), ("Mabv", cps![0x0CBF; 0x0CC6; 0x0CCC]), ("Mblw", cps![0x0CE2]),
        ("Mpst", cps![0x0CBE; 0x0CC1; 0x0CC2; 0x0CD5]), ("Msplit", cps![0x0CC0; 0x0CC7; 0x0CC8; 0x0CCA; 0x0CCB]),
        ("Anu", cps![0x0C82; 0x0C83]), ("Dig", cps![0x0CE6]), ("Lone", cps![0x0301]) ] },
    ScriptSpec { tag: "mlym", lang: "MAL ", cls: &[
        ("C", cps![0x0D15; 0x0D24; 0x0D38; 0x0D7B]), ("Ra", cps![0x0D30]), ("H", cps![0x0D4D]), ("N", cps![0x0D3B; 0x0D3C]),
        ("Mpre", cps![0x0D46; 0x0D47; 0x0D48]), ("Mabv", cps![0x0D00; 0x0D01]), ("Mblw", cps![0x0D41; 0x0D43]),
        ("Mpst", cps![0x0D3E; 0x0D3F; 0x0D40; 0x0D57]), ("Msplit", cps![0x0D4A; 0x0D4B; 0x0D4C]),
        ("Anu", cps![0x0D02; 0x0D03]), ("Dig", cps![0x0D66]), ("Lone", cps![0x0301]) ] },
    ScriptSpec { tag: "sinh", lang: "SNH ", cls: &[
        ("C", cps![0x0D9A; 0x0DAD; 0x0DC3]), ("Ra", cps![0x0DBB]), ("H", cps![0x0DCA]), ("N", cps![0x0DCA, 0x200D]),
        ("Mpre", cps![0x0DD9; 0x0DDB]), ("Mabv", cps![0x0DD2; 0x0DD3]), ("Mblw", cps![0x0DD4; 0x0DD6]),
        ("Mpst", cps![0x0DCF; 0x0DD0; 0x0DD8; 0x0DDF]), ("Msplit", cps![0x0DDA; 0x0DDC; 0x0DDD; 0x0DDE]),
        ("Anu", cps![0x0D82; 0x0D83]), ("Dig", cps![0x0DE6]), ("Lone", cps![0x0301]) ] },
    ScriptSpec { tag: "khmr", lang: "KHM ", cls: &[
        ("C", cps![0x1780; 0x1784; 0x1798]), ("Ra", cps![0x179A]), ("H", cps![0x17D2]), ("N", cps![0x17C9; 0x17CA]),
        ("Mpre", cps![0x17C1; 0x17C2; 0x17C3]), ("Mabv", cps![0x17B7; 0x17B8; 0x17B9; 0x17BA]),
        ("Mblw", cps![0x17BB; 0x17BC; 0x17BD]), ("Mpst", cps![0x17B6; 0x17C7; 0x17C8]),
        ("Msplit", cps![0x17BE; 0x17BF; 0x17C0; 0x17C4; 0x17C5]), ("Anu", cps![0x17C6]), ("Dig", cps![0x17E0]),
        ("Lone", cps![0x17DD; 0x17CB; 0x17D1]) ] },
    ScriptSpec { tag: "mymr", lang: "BRM ", cls: &[
        ("C", cps![0x1000; 0x1004; 0x1019]), ("Ra", cps![0x101B]), ("H", cps![0x1039]), ("N", cps![0x103A]),
        ("Mpre", cps![0x1031; 0x1084]), ("Mabv", cps![0x102D; 0x102E; 0x1032]), ("Mblw", cps![0x102F; 0x1030]),
        ("Mpst", cps![0x102B; 0x102C; 0x1038]), ("Msplit", cps![0x103B; 0x103C; 0x103D; 0x103E]),
        ("Anu", cps![0x1036; 0x1037]), ("Dig", cps![0x1040]), ("Lone", cps![0x0301]) ] },
    ScriptSpec { tag: "arab", lang: "ARA ", cls: &[
        ("C", cps![0x0628; 0x0633; 0x0644; 0x0647]), ("Ra", cps![0x0631; 0x0627; 0x062F; 0x0648]), ("H", cps![0x0640]),
        ("N", cps![0x0651]), ("Mpre", cps![0x064B]), ("Mabv", cps![0x064E; 0x064F; 0x0652; 0x0670]),
        ("Mblw", cps![0x0650; 0x064D; 0x0655]), ("Mpst", cps![0x0654; 0x0653]), ("Msplit", cps![0x0644, 0x0627; 0x0622]),
        ("Anu", cps![0x06E1; 0x06DC]), ("Dig", cps![0x0661; 0x06F1; 0x0031]), ("Lone", cps![0x06D6; 0x0301]) ] },
    ScriptSpec { tag: "syrc", lang: "SYR ", cls: &[
        ("C", cps![0x0712; 0x0713; 0x0721]), ("Ra", cps![0x0715; 0x0710; 0x0718]), ("H", cps![0x0640]), ("N", cps![0x0711]),
        ("Mpre", cps![0x0748]), ("Mabv", cps![0x0730; 0x0733; 0x0741]), ("Mblw", cps![0x0731; 0x0734; 0x0742]),
        ("Mpst", cps![0x0747]), ("Msplit", cps![0x0720, 0x0710]), ("Anu", cps![0x0740]), ("Dig", cps![0x0661; 0x0031]),
        ("Lone", cps![0x0301]) ] },
    ScriptSpec { tag: "thai", lang: "THA ", cls: &[
        ("C", cps![0x0E01; 0x0E19; 0x0E1B]), ("Ra", cps![0x0E23]), ("H", cps![0x0E3A]), ("N", cps![0x0E4C]),
        ("Mpre", cps![0x0E40; 0x0E41; 0x0E42]), ("Mabv", cps![0x0E34; 0x0E35; 0x0E31; 0x0E47]), ("Mblw", cps![0x0E38; 0x0E39]),
        ("Mpst", cps![0x0E32; 0x0E30]), ("Msplit", cps![0x0E33]), ("Anu", cps![0x0E4D]), ("Dig", cps![0x0E50]),
        ("Lone", cps![0x0E48; 0x0E49]) ] },
    ScriptSpec { tag: "lao ", lang: "LAO ", cls: &[
        ("C", cps![0x0E81; 0x0E99; 0x0E9B]), ("Ra", cps![0x0EA3]), ("H", cps![0x0EBA]), ("N", cps![0x0ECC]),
        ("Mpre", cps![0x0EC0; 0x0EC1]), ("Mabv", cps![0x0EB4; 0x0EB5; 0x0EB1; 0x0EBB]), ("Mblw", cps![0x0EB8; 0x0EB9; 0x0EBC]),
        ("Mpst", cps![0x0EB2; 0x0EB0]), ("Msplit", cps![0x0EB3]), ("Anu", cps![0x0ECD]), ("Dig", cps![0x0ED0]),
        ("Lone", cps![0x0EC8; 0x0EC9]) ] },
    ScriptSpec { tag: "latn", lang: "ENG ", cls: &[
        ("C", cps![0x0061; 0x0066; 0x0069; 0x0041]), ("Ra", cps![0x0072]), ("H", cps![0x002D]), ("N", cps![0x0307]),
        ("Mpre", cps![0x0027]), ("Mabv", cps![0x0301; 0x0302; 0x0308]), ("Mblw", cps![0x0323; 0x0327]), ("Mpst", cps![0x02BC]),
        ("Msplit", cps![0x00E9; 0xFB01; 0x0066, 0x0066, 0x0069]), ("Anu", cps![0x0303]), ("Dig", cps![0x0031; 0x0032]),
        ("Lone", cps![0x0301]) ] },
];

fn script_spec(tag: &str) -> &'static ScriptSpec {
    SCRIPTS.iter().find(|s| s.tag == tag).unwrap_or_else(|| panic!("no script spec {}", tag))
}

#[derive(Clone, Debug)]
struct Case {
    txt: bool, // fam "txt": text shape classes of the default shaper; otherwise syllable classes
    cls: Vec<String>,
}

fn concretise(spec: &ScriptSpec, case: &Case, salt: u64) -> Vec<u32> {
    if case.txt {
        return synth::concretise_text(&case.cls);
    }
    let classes = &case.cls;
    let mut out = Vec::new();
    for (pos, c) in classes.iter().enumerate() {
        let cands = spec
            .cls
            .iter()
            .chain(COMMON.iter())
            .find(|(n, _)| *n == c.as_str())
            .map(|(_, v)| *v)
            .unwrap_or_else(|| panic!("class {} not concretised for {}", c, spec.tag));
        let k = (h(&[salt, pos as u64, 17]) % cands.len() as u64) as usize;
        out.extend_from_slice(cands[k]);
    }
    out
}

// ---- fonts ------------------------------------------------------------------------------------

#[derive(Clone, Debug)]
struct FontEntry {
    rel: String, // path relative to tests/fonts
    script: &'static str,
    variable: bool,
    synth: Option<usize>, // index into the catalogue
    via: String,          // how the font is shaped: GSUB | morx | morx/<subtable type> | none
    budget_ms: u64,       // thread-CPU budget of one call sequence on this font
    ckey: u64,            // what the seeded corruptions of the font are derived from
}

/// the synthesized fonts of one run: the fixed catalogue, then the fonts of the TLC font cases and
/// the seeded random morx programs
fn full_catalog(cases_path: &str, tier: &str, seed: u64) -> Vec<SynthFont> {
    let mut c = synth::catalog();
    let fc = format!("{}.fonts", cases_path);
    let font_cases: Vec<Value> = if std::path::Path::new(&fc).exists() { read_ndjson(&fc) } else { Vec::new() };
    c.extend(synth2::catalog2(&font_cases, tier, seed));
    c
}

fn via_of_bytes(b: &[u8]) -> String {
    let has = |t: &str| read_sfnt_dir(b, 0).map_or(false, |d| d.records.iter().any(|r| tag_str(r.0) == t));
    if has("GSUB") { "GSUB".into() } else if has("morx") { "morx".into() } else { "none".into() }
}

fn font_entries(catalog: &[SynthFont]) -> Vec<FontEntry> {
    let dir_script: &[(&str, &str)] = &[
        ("arabic", "arab"), ("bengali", "beng"), ("devanagari", "deva"), ("gujarati", "gujr"), ("gurmukhi", "guru"),
        ("kannada", "knda"), ("khmer", "khmr"), ("malayalam", "mlym"), ("myanmar", "mymr"), ("oriya", "orya"),
        ("syriac", "syrc"), ("tamil", "taml"), ("telugu", "telu"), ("opentype", "latn"), ("variable", "latn"),
    ];
    let name_script: &[(&str, &str)] = &[
        ("Arabic", "arab"), ("Bengali", "beng"), ("Devanagari", "deva"), ("Gujarati", "gujr"), ("Gurmukhi", "guru"),
        ("Kannada", "knda"), ("Khmer", "khmr"), ("Lao", "lao "), ("Malayalam", "mlym"), ("Oriya", "orya"),
        ("Sinhala", "sinh"), ("Syriac", "syrc"), ("Tamil", "taml"), ("Telugu", "telu"), ("Thai", "thai"), ("JP", "latn"),
    ];
    let root = format!("{}/tests/fonts", repo_root());
    let mut out = Vec::new();
    let mut dirs: Vec<_> = std::fs::read_dir(&root).expect("tests/fonts").flatten().map(|e| e.path()).collect();
    dirs.sort();
    for d in dirs {
        if !d.is_dir() {
            continue;
        }
        let dname = d.file_name().unwrap().to_string_lossy().to_string();
        let mut files: Vec<_> = std::fs::read_dir(&d).unwrap().flatten().map(|e| e.path()).collect();
        files.sort();
        for f in files {
            let fname = f.file_name().unwrap().to_string_lossy().to_string();
            let lower = fname.to_ascii_lowercase();
            if !(lower.ends_with(".ttf") || lower.ends_with(".otf")) {
                continue;
            }
            let script = if dname == "noto" {
                name_script.iter().find(|(n, _)| fname.contains(n)).map(|(_, s)| *s)
            } else {
                dir_script.iter().find(|(n, _)| *n == dname).map(|(_, s)| *s)
            };
            if let Some(script) = script {
                // only fonts allsorts loads are inside the property's quantifier
                let bytes = std::fs::read(&f).unwrap_or_default();
                let loads = matches!(guarded(|| {
                    let scope = ReadScope::new(&bytes);
                    let fd = scope.read::<FontData<'_>>().ok()?;
                    let provider = fd.table_provider(0).ok()?;
                    Font::new(provider).ok().map(|_| ())
                }), Outcome::Returned(Some(())));
                if !loads {
                    continue;
                }
                let variable = dname == "variable" || fname.contains("-VF");
                out.push(FontEntry { rel: format!("{}/{}", dname, fname), script, variable, synth: None, via: via_of_bytes(&bytes), budget_ms: CPU_BUDGET_MS, ckey: out.len() as u64 });
            }
        }
    }
    let n_fixed = synth::catalog().len();
    for (si, sf) in catalog.iter().enumerate() {
        // fonts of the fixed catalogue: their position (as before the second strengthening); fonts made
        // from font cases: their name, so that a replay outside the plan corrupts the same bytes
        let ckey = if si < n_fixed { out.len() as u64 } else { sf.name.bytes().fold(0xC02u64, |a, b| mix(a ^ b as u64)) };
        out.push(FontEntry { rel: format!("synth/{}", sf.name), script: "latn", variable: sf.fvar, synth: Some(si), via: synth2::via(sf), budget_ms: sf.budget_ms, ckey });
    }
    out
}

fn font_bytes(f: &FontEntry, catalog: &[SynthFont]) -> Vec<u8> {
    match f.synth {
        Some(si) => synth::build(&catalog[si]),
        None => {
            let path = format!("{}/tests/fonts/{}", repo_root(), f.rel);
            std::fs::read(&path).unwrap_or_else(|e| panic!("read {}: {}", path, e))
        }
    }
}

// ---- plan ---------------------------------------------------------------------------------------

#[derive(Clone, Debug)]
struct Job {
    font: usize,     // index into font_entries
    corrupt: u32,    // 0 = intact font, k > 0 = k-th seeded corruption of the font
    case: usize,     // index of the class string
    text_script: &'static str,
    script: &'static str, // script tag handed to allsorts
    use_lang: bool,
    feat: u8,  // index into synth::FEAT_NAMES
    kern: bool,
    vert: bool, // glyph_positions(vertical = true)
    tuple: u8, // 0 None, 1 default, 2 off-default (variable fonts only)
    rtl: bool,
    salt: u64,
    text: Option<Vec<u32>>, // explicit text (exec, call sequences), otherwise concretised from the class string
    pres: bool,    // Font::map_glyphs(.., MatchingPresentation::Required)
    noshape: bool, // the step maps the text only (shape and glyph_positions are not called)
    fresh: bool,   // the job starts on a new Font object (first step of a call sequence)
    /// call sequences (MC_ShaperCalls): (sequence, step); `pre` = the steps before this one
    seq: Option<(usize, usize)>,
    pre: Vec<PreStep>,
}

/// an earlier step of a call sequence: (Required presentation, map only, text)
type PreStep = (bool, bool, Vec<u32>);

/// one step of a call sequence of MC_ShaperCalls
#[derive(Clone, Debug)]
struct CallStep {
    pres: bool,
    txt: String,
    shape: bool,
}

fn load_calls(cases_path: &str) -> Vec<Vec<CallStep>> {
    let p = format!("{}.calls", cases_path);
    if !std::path::Path::new(&p).exists() {
        return Vec::new();
    }
    read_ndjson(&p)
        .into_iter()
        .map(|c| {
            c["steps"].as_array().expect("steps").iter()
                .map(|s| CallStep { pres: s["pres"].as_str() == Some("R"), txt: s["txt"].as_str().expect("txt").to_string(), shape: s["shape"].as_bool().expect("shape") })
                .collect()
        })
        .collect()
}

/// the text of a step kind; `c` = a letter of the font's script
fn step_text(kind: &str, c: u32) -> Vec<u32> {
    match kind {
        "plain" => vec![c, c],
        "dc" => vec![0x25CC, c],
        "dcvs" => vec![0x25CC, 0xFE0F, c],
        "dcdc" => vec![0x25CC, c, 0x25CC],
        x => panic!("step text kind {}", x),
    }
}

/// U+25CC not followed by a variation selector
fn has_plain_dotted_circle(t: &[u32]) -> bool {
    t.iter().enumerate().any(|(i, &c)| c == 0x25CC && !t.get(i + 1).map_or(false, |&n| matches!(n, 0xFE00..=0xFE02 | 0xFE0E | 0xFE0F)))
}

const TUPLE_NAMES: [&str; 3] = ["none", "default", "off-default"];

fn alien_script(script: &'static str, x: u64) -> &'static str {
    let others: Vec<&'static str> = SCRIPTS.iter().map(|s| s.tag).filter(|t| *t != script).chain(["mym2", "DFLT", "hang"]).collect();
    others[(x % others.len() as u64) as usize]
}

fn build_plan(tier: &str, seed: u64, cases: &[Case], catalog: &[SynthFont], calls: &[Vec<CallStep>]) -> (Vec<FontEntry>, Vec<Job>) {
    let fonts = font_entries(catalog);
    let quick = tier == "quick";
    let mut jobs = Vec::new();
    // repository fonts of each script
    let mut by_script: Vec<(&'static str, Vec<usize>)> = Vec::new();
    for (fi, f) in fonts.iter().enumerate() {
        if f.synth.is_some() {
            continue;
        }
        match by_script.iter_mut().find(|(s, _)| *s == f.script) {
            Some((_, v)) => v.push(fi),
            None => by_script.push((f.script, vec![fi])),
        }
    }
    let mk = |fi: usize, ci: usize, corrupt: u32, feat: u8, kern: bool, x: u64, fonts: &Vec<FontEntry>| -> Job {
        let f = &fonts[fi];
        let alien = x % 11 == 0;
        Job {
            font: fi,
            corrupt,
            case: ci,
            text_script: f.script,
            script: if alien { alien_script(f.script, x >> 8) } else if f.script == "mymr" && x % 3 == 0 { "mym2" } else { f.script },
            use_lang: (x >> 4) % 2 == 0,
            feat,
            kern,
            vert: (x >> 9) % 8 == 0,
            tuple: if f.variable { ((x >> 5) % 3) as u8 } else { 0 },
            rtl: (x >> 7) % 2 == 0,
            salt: x,
            text: None,
            // a quarter of the jobs map the text with MatchingPresentation::Required
            pres: (x >> 10) % 4 == 0,
            noshape: false,
            fresh: false,
            seq: None,
            pre: Vec::new(),
        }
    };
    // Part A: syllable class strings on the intact repository fonts of each script
    for (ci, case) in cases.iter().enumerate() {
        if case.txt {
            continue;
        }
        let n = case.cls.len();
        for (si, (_script, fis)) in by_script.iter().enumerate() {
            if n <= 2 {
                // every font of the script, every feature configuration, kerning alternating
                // (thorough: both kerning settings)
                for &fi in fis {
                    for feat in 0..4u8 {
                        let x = h(&[seed, ci as u64, fi as u64, feat as u64]);
                        if quick {
                            jobs.push(mk(fi, ci, 0, feat, x % 2 == 0, x, &fonts));
                        } else {
                            jobs.push(mk(fi, ci, 0, feat, true, x, &fonts));
                            jobs.push(mk(fi, ci, 0, feat, false, x ^ 1, &fonts));
                        }
                    }
                }
            } else if n == 3 {
                // every font of the script, one configuration drawn by hash (thorough: two)
                for &fi in fis {
                    let x = h(&[seed, ci as u64, fi as u64, 3]);
                    jobs.push(mk(fi, ci, 0, ((x >> 12) % 4) as u8, (x >> 16) % 2 == 0, x, &fonts));
                    if !quick {
                        let y = h(&[seed, ci as u64, fi as u64, 33]);
                        jobs.push(mk(fi, ci, 0, ((y >> 12) % 4) as u8, (y >> 16) % 2 == 0, y, &fonts));
                    }
                }
            } else {
                let x = h(&[seed, ci as u64, si as u64, n as u64]);
                let keep = if n == 4 { if quick { 8 } else { 1 } } else { 48 };
                if (x >> 20) % keep != 0 {
                    continue;
                }
                let fi = fis[(x % fis.len() as u64) as usize];
                jobs.push(mk(fi, ci, 0, ((x >> 12) % 4) as u8, (x >> 16) % 2 == 0, x, &fonts));
            }
        }
    }
    // the text class strings
    let txt: Vec<usize> = cases.iter().enumerate().filter(|(_, c)| c.txt).map(|(i, _)| i).collect();
    let is_fraction = |c: &Case| c.cls.windows(3).any(|w| w[0] == "Dg" && w[1] == "Sl" && w[2] == "Dg");
    // Part C: text class strings on the intact repository fonts of the default shaper, under the
    // feature configurations with a special-cased path (frac, numeric, vertical, alternates, GPOS list)
    const TXT_CONFIGS: [u8; 6] = [4, 5, 6, 7, 9, 10];
    if let Some((_, latn)) = by_script.iter().find(|(s, _)| *s == "latn") {
        for &ci in &txt {
            let case = &cases[ci];
            let n = case.cls.len();
            for &fi in latn {
                let x = h(&[seed, ci as u64, fi as u64, 0xC]);
                let push = |feat: u8, x: u64, plain: bool, jobs: &mut Vec<Job>| {
                    let mut j = mk(fi, ci, 0, feat, (x >> 16) % 2 == 0, x, &fonts);
                    if plain {
                        j.script = fonts[fi].script;
                    }
                    j.vert = if feat == 6 { (x >> 9) % 2 == 0 } else { (x >> 9) % 8 == 0 };
                    jobs.push(j);
                };
                if n <= 3 {
                    for (k, feat) in TXT_CONFIGS.iter().enumerate() {
                        push(*feat, h(&[x, k as u64]), false, &mut jobs);
                    }
                } else {
                    // a fraction in the text: always, through the frac configuration and the default script
                    if is_fraction(case) {
                        push(4, h(&[x, 40]), true, &mut jobs);
                        if !quick {
                            push(1, h(&[x, 41]), true, &mut jobs);
                        }
                    }
                    let keep = match (n, quick) { (4, true) => 4, (4, false) => 1, (5, true) => 64, (5, false) => 8, _ => 96 };
                    if (x >> 20) % keep == 0 {
                        push(TXT_CONFIGS[((x >> 12) % 6) as usize], x, false, &mut jobs);
                    }
                }
            }
        }
    }
    // Part D: every text class string over the roles of a synthesized font, on that font
    let alien_cycle: [&'static str; 10] = ["DFLT", "arab", "deva", "khmr", "mymr", "thai", "syrc", "hang", "mlm2", "lao "];
    // the strings over an alphabet, computed once per alphabet (hundreds of fonts share a few)
    let mut over: std::collections::HashMap<Vec<&'static str>, Vec<usize>> = std::collections::HashMap::new();
    // the thorough tier shapes the fonts with a length cap with strings one class longer
    let cap = |sf: &SynthFont| if quick { sf.max_len } else { sf.max_len.saturating_add(1) };
    for (fi, f) in fonts.iter().enumerate() {
        let sf = match f.synth { Some(si) => &catalog[si], None => continue };
        let mine = over
            .entry(sf.alphabet.to_vec())
            .or_insert_with(|| txt.iter().copied().filter(|&ci| cases[ci].cls.iter().all(|c| sf.alphabet.contains(&c.as_str()))).collect())
            .clone();
        for ci in mine {
            let case = &cases[ci];
            let n = case.cls.len();
            if n > cap(sf) {
                continue;
            }
            let x = h(&[seed, ci as u64, fi as u64, 0xD]);
            let has_slash = case.cls.iter().any(|c| c == "Sl");
            if n >= 6 && sf.alphabet.len() > 5 && !has_slash && (x >> 24) % 4 != 0 {
                continue; // thorough only: the longest strings over the big alphabets are sampled
            }
            let all_configs = n <= 3 || (sf.family == "frac" && has_slash && n <= 5);
            let picks: Vec<usize> = if all_configs { (0..sf.configs.len()).collect() } else { vec![((x >> 3) % sf.configs.len() as u64) as usize] };
            for k in picks {
                let y = h(&[x, k as u64]);
                let mut j = mk(fi, ci, 0, sf.configs[k], (y >> 16) % 2 == 0, y, &fonts);
                // the first configuration always runs under the font's own script; the others reach the
                // script shapers (and DFLT) through a foreign script tag once in four
                j.script = if k > 0 && y % 4 == 0 && sf.family != "extreme" && sf.aliens { alien_cycle[((y >> 8) % alien_cycle.len() as u64) as usize] } else { "latn" };
                j.vert = if sf.family == "vert" { (y >> 9) % 2 == 0 } else { (y >> 9) % 8 == 0 };
                jobs.push(j);
            }
        }
    }
    // Part B: corrupted GSUB / GPOS / GDEF / kern / morx
    let (n_corrupt, n_texts) = if quick { (12u32, 24usize) } else { (60u32, 60usize) };
    let long_cases: Vec<usize> = cases.iter().enumerate().filter(|(_, c)| !c.txt && c.cls.len() >= 2 && c.cls.len() <= 4).map(|(i, _)| i).collect();
    let long_txt: Vec<usize> = txt.iter().copied().filter(|&i| cases[i].cls.len() >= 2 && cases[i].cls.len() <= 5).collect();
    for fi in 0..fonts.len() {
        let pool: Vec<usize> = match fonts[fi].synth {
            None => long_cases.clone(),
            Some(si) => long_txt.iter().copied().filter(|&i| cases[i].cls.len() <= cap(&catalog[si]) && cases[i].cls.iter().all(|c| catalog[si].alphabet.contains(&c.as_str()))).collect(),
        };
        if pool.is_empty() || fonts[fi].synth.map_or(false, |si| catalog[si].family == "extreme" || !catalog[si].corruptible) {
            continue; // the fonts with extreme values (and those marked so) are shaped as they are only
        }
        // synthesized fonts: half as many corruptions as repository fonts; the hundreds of fonts made from
        // font cases: a quarter
        let n_corrupt = match fonts[fi].synth.map(|si| catalog[si].family) {
            None => n_corrupt,
            Some("lkp") | Some("morx") | Some("morxrnd") | Some("cnt") => n_corrupt / 4,
            Some(_) => n_corrupt / 2,
        };
        for k in 1..=n_corrupt {
            for t in 0..n_texts {
                let x = h(&[seed, fi as u64, k as u64, t as u64, 0xC0]);
                let ci = pool[(x % pool.len() as u64) as usize];
                let feat = match fonts[fi].synth {
                    None => ((x >> 12) % 4) as u8,
                    Some(si) => catalog[si].configs[((x >> 12) % catalog[si].configs.len() as u64) as usize],
                };
                let mut j = mk(fi, ci, k, feat, (x >> 16) % 2 == 0, x, &fonts);
                j.script = fonts[fi].script; // corrupted tables are exercised through their own script
                jobs.push(j);
            }
        }
    }
    // Part E: the call sequences of MC_ShaperCalls, each on a fresh Font object: every sequence on the first
    // font of the three shapers with most state, the colour emoji font (Required presentation differs there)
    // and two synthesized fonts; the sequences of at most two steps on the first font of every other script
    {
        let mut deep: Vec<usize> = Vec::new();
        let mut shallow: Vec<usize> = Vec::new();
        for (script, fis) in by_script.iter() {
            if matches!(*script, "latn" | "deva" | "arab") { deep.push(fis[0]) } else { shallow.push(fis[0]) }
        }
        if let Some(fi) = fonts.iter().position(|f| f.rel.contains("Emoji")) {
            if !deep.contains(&fi) {
                deep.push(fi);
            }
        }
        for pre in ["synth/frac-liga", "synth/mx-lig-"] {
            if let Some(fi) = fonts.iter().position(|f| f.rel.starts_with(pre)) {
                deep.push(fi);
            }
        }
        // thorough: the sequences of four steps on the first two of these fonts only
        let max_deep = if quick { 3 } else { 4 };
        for (depth_cap, fis) in [(3usize, &deep), (2usize, &shallow)] {
            for (pos, &fi) in fis.iter().enumerate() {
                let depth_cap = if depth_cap == 3 && pos < 2 { max_deep } else { depth_cap };
                let letter = script_spec(fonts[fi].script).cls.iter().find(|(n, _)| *n == "C").map(|(_, v)| v[0][0]).unwrap_or(0x61);
                for (qi, steps) in calls.iter().enumerate() {
                    if steps.len() > depth_cap {
                        continue;
                    }
                    let x = h(&[seed, qi as u64, fi as u64, 0xE]);
                    let mut pre: Vec<PreStep> = Vec::new();
                    for (k, st) in steps.iter().enumerate() {
                        let mut j = mk(fi, usize::MAX, 0, (x % 2) as u8, true, x, &fonts);
                        j.script = fonts[fi].script;
                        j.vert = false;
                        j.text = Some(step_text(&st.txt, letter));
                        j.pres = st.pres;
                        j.noshape = !st.shape;
                        j.fresh = k == 0;
                        j.seq = Some((qi, k));
                        j.pre = pre.clone();
                        pre.push((j.pres, j.noshape, j.text.clone().unwrap()));
                        jobs.push(j);
                    }
                }
            }
        }
    }
    // group by font (and corruption) so that a worker loads each font once and calls it repeatedly
    // (the sort is stable: the steps of a call sequence stay together and in order)
    jobs.sort_by_key(|j| (j.font, j.corrupt));
    (fonts, jobs)
}

// ---- corruption --------------------------------------------------------------------------------

const TARGETS: [&str; 5] = ["GSUB", "GPOS", "GDEF", "kern", "morx"];

/// Seeded corruption inside the layout tables only. Returns the bytes and a description.
fn corrupt_font(orig: &[u8], seed: u64, fi: u64, k: u32) -> Option<(Vec<u8>, String)> {
    let dir = read_sfnt_dir(orig, 0)?;
    if dir.version == 0x7474_6366 {
        return None; // ttcf
    }
    let targets: Vec<(usize, String, usize, usize)> = dir
        .records
        .iter()
        .enumerate()
        .filter(|(_, r)| TARGETS.contains(&tag_str(r.0).as_str()) && r.3 > 4 && (r.2 as usize + r.3 as usize) <= orig.len())
        .map(|(i, r)| (i, tag_str(r.0), r.2 as usize, r.3 as usize))
        .collect();
    if targets.is_empty() {
        return None;
    }
    let mut x = h(&[seed, fi, k as u64, 0xBAD]);
    let mut next = || {
        x = mix(x);
        x
    };
    let (rec, name, off, len) = targets[(next() % targets.len() as u64) as usize].clone();
    let mut out = orig.to_vec();
    let mode = next() % 4;
    let pick_at = |r: u64, r2: u64| -> usize {
        // half of the time in the first 64 bytes (headers and offsets), otherwise anywhere
        if r2 % 2 == 0 { (r % len.min(64) as u64) as usize } else { (r % len as u64) as usize }
    };
    let desc;
    match mode {
        0 => {
            let n = 1 + (next() % 4) as usize;
            let mut d = Vec::new();
            for _ in 0..n {
                let at = pick_at(next(), next());
                let v = (next() & 0xFF) as u8;
                out[off + at] = v;
                d.push(format!("{}={:02x}", at, v));
            }
            desc = format!("{}:bytes:{}", name, d.join(","));
        }
        1 | 2 => {
            let at = pick_at(next(), next()) & !1;
            let vals = [0u16, 1, 2, 0xFFFF, 0x7FFF, 0x8000, (len & 0xFFFF) as u16, ((len - 1) & 0xFFFF) as u16, 0x0100];
            let v = vals[(next() % vals.len() as u64) as usize];
            if at + 1 < len {
                out[off + at] = (v >> 8) as u8;
                out[off + at + 1] = (v & 0xFF) as u8;
            }
            desc = format!("{}:u16:{}={:04x}", name, at, v);
        }
        _ => {
            let new_len = (next() % len as u64) as u32;
            let p = 12 + 16 * rec + 12;
            out[p..p + 4].copy_from_slice(&new_len.to_be_bytes());
            desc = format!("{}:truncate:{}->{}", name, len, new_len);
        }
    }
    Some((out, desc))
}

// ---- execution ----------------------------------------------------------------------------------

fn custom(tags: &[(u32, Option<usize>)]) -> Features {
    Features::Custom(tags.iter().map(|&(t, a)| FeatureInfo { feature_tag: t, alternate: a }).collect())
}

/// index = position in synth::FEAT_NAMES
fn features_of(feat: u8) -> Features {
    match feat {
        0 => Features::Mask(FeatureMask::default()),
        1 => Features::Mask(FeatureMask::all()),
        2 => custom(&[tag::CCMP, tag::LIGA, tag::RLIG, tag::LOCL, tag::INIT, tag::FINA, tag::HALF, tag::AKHN, tag::PRES, tag::ABVS].map(|t| (t, None))),
        3 => Features::Custom(Vec::new()),
        // the fraction path of the default shaper
        4 => Features::Mask(FeatureMask::default() | FeatureMask::FRAC),
        // numeric / ordinal / case features (with frac and afrc)
        5 => Features::Mask(
            FeatureMask::default() | FeatureMask::FRAC | FeatureMask::AFRC | FeatureMask::LNUM | FeatureMask::ONUM | FeatureMask::PNUM
                | FeatureMask::TNUM | FeatureMask::ORDN | FeatureMask::ZERO | FeatureMask::SMCP | FeatureMask::C2SC,
        ),
        // vertical alternates
        6 => Features::Mask(FeatureMask::default() | FeatureMask::VRT2_OR_VERT),
        // custom list: alternates (first), features with special handling (fina: last glyph only, rvrn: early,
        // vert/vrt2: flag), the same tag twice, tags that only GPOS has
        7 => custom(&[
            (tag::RVRN, None), (tag4("aalt"), Some(0)), (tag4("salt"), None), (tag::FRAC, None), (tag::LIGA, None), (tag::CCMP, None), (tag::CALT, None),
            (tag::VERT, None), (tag::VRT2, None), (tag::FINA, None), (tag::LIGA, Some(3)), (tag::CURS, None), (tag::MARK, None), (tag::MKMK, None),
        ]),
        8 => Features::Mask(FeatureMask::empty()),
        // custom list led by positioning features
        9 => custom(&[
            (tag::CURS, None), (tag::KERN, None), (tag::DIST, None), (tag::MARK, None), (tag::MKMK, None), (tag4("vkrn"), None), (tag::LIGA, None),
            (tag::CALT, None), (tag::CCMP, None), (tag::FINA, None),
        ]),
        // alternates: second and out-of-range alternate index
        _ => custom(&[(tag4("aalt"), Some(1)), (tag4("salt"), Some(7)), (tag::LIGA, None), (tag::FRAC, None), (tag::ORDN, None), (tag::FINA, Some(1))]),
    }
}

/// does the feature selection ask for `frac` (Mask: only the default shaper honours it specially)
fn asks_frac(feat: u8) -> bool {
    matches!(feat, 1 | 4 | 5)
}

fn tag4(s: &str) -> u32 {
    let b = s.as_bytes();
    u32::from_be_bytes([b[0], b[1], b[2], b[3]])
}

fn project_raw(gs: &[RawGlyph<()>]) -> Value {
    Value::Array(
        gs.iter()
            .map(|g| json!([g.glyph_index, g.unicodes.iter().map(|c| *c as u32).collect::<Vec<u32>>()]))
            .collect(),
    )
}

fn project_infos(infos: &[Info]) -> Value {
    Value::Array(
        infos
            .iter()
            .map(|i| {
                let (pk, pi): (&str, i64) = match i.placement {
                    Placement::None => ("none", -1),
                    Placement::Distance(_, _) => ("dist", -1),
                    Placement::MarkAnchor(b, _, _) => ("mark", clamp_idx(b)),
                    Placement::MarkOverprint(b) => ("over", clamp_idx(b)),
                    Placement::CursiveAnchor(b, _, _, _) => ("curs", clamp_idx(b)),
                };
                json!([i.glyph.glyph_index, i.glyph.unicodes.iter().map(|c| *c as u32).collect::<Vec<u32>>(), pk, pi])
            })
            .collect(),
    )
}

/// indices are logged exactly up to 2^30 (anything larger is certainly outside any run)
fn clamp_idx(i: usize) -> i64 {
    i.min(1 << 30) as i64
}

struct Shared {
    active: AtomicBool,
    start_cpu: AtomicU64,
    budget_ns: AtomicU64,                 // CPU budget of the job that is running
    current: Mutex<Option<(u64, Value)>>, // (job index, args)
    writer: Mutex<Option<std::io::BufWriter<std::fs::File>>>,
    progress: Progress,
}

impl Shared {
    fn new(writer: Option<std::io::BufWriter<std::fs::File>>, progress: Progress) -> Shared {
        Shared {
            active: AtomicBool::new(false),
            start_cpu: AtomicU64::new(0),
            budget_ns: AtomicU64::new(CPU_BUDGET_MS * 1_000_000),
            current: Mutex::new(None),
            writer: Mutex::new(writer),
            progress,
        }
    }
}

/// One counter in memory that a worker shares with the children it forks: the index of the first job
/// of the plan that has no event yet.  A child moves it on after every event it has flushed; when the
/// child dies the parent reads which job was running.
#[derive(Clone, Copy)]
struct Progress(*mut u64);
unsafe impl Send for Progress {}
unsafe impl Sync for Progress {}

impl Progress {
    fn shared() -> Progress {
        let p = unsafe {
            libc::mmap(std::ptr::null_mut(), 8, libc::PROT_READ | libc::PROT_WRITE, libc::MAP_SHARED | libc::MAP_ANONYMOUS, -1, 0)
        };
        assert!(p != libc::MAP_FAILED, "mmap of the progress counter");
        Progress(p as *mut u64)
    }
    /// a counter nobody else looks at (exec / one)
    fn private() -> Progress {
        Progress(Box::leak(Box::new(0u64)) as *mut u64)
    }
    fn cell(&self) -> &AtomicU64 {
        unsafe { &*(self.0 as *const AtomicU64) }
    }
    fn get(&self) -> u64 {
        self.cell().load(Ordering::SeqCst)
    }
    fn set(&self, v: u64) {
        self.cell().store(v, Ordering::SeqCst)
    }
}

fn thread_cpu_ns() -> u64 {
    let mut ts = libc::timespec { tv_sec: 0, tv_nsec: 0 };
    unsafe { libc::clock_gettime(libc::CLOCK_THREAD_CPUTIME_ID, &mut ts) };
    ts.tv_sec as u64 * 1_000_000_000 + ts.tv_nsec as u64
}

fn event(i: u64, a: &Value, o: Value) -> Value {
    let case = format!("{}|{}|{}", a["font"].as_str().unwrap_or(""), a["corrupt"].as_str().unwrap_or(""), a["script"].as_str().unwrap_or(""));
    json!({"i": i, "case": case, "ev": "Shape", "a": a, "o": o})
}

fn skipped_obs(shape: &str, msg: &str) -> Value {
    json!({"map": "Ok", "mapped": [], "shape": shape, "run": [], "pos": "Skipped", "npos": -1, "msg": msg, "f": {}})
}

fn job_args(fonts: &[FontEntry], cases: &[Case], j: &Job, idx: usize, wf: bool, ng: i64, cdesc: &str) -> Value {
    let spec = script_spec(j.text_script);
    let text = match &j.text {
        Some(t) => t.clone(),
        None => concretise(spec, &cases[j.case], j.salt),
    };
    let empty: Vec<String> = Vec::new();
    let cls = cases.get(j.case).map(|c| &c.cls).unwrap_or(&empty);
    let fam = if j.seq.is_some() { "seq" } else if cases.get(j.case).map_or(false, |c| c.txt) { "txt" } else { "syl" };
    let via = &fonts[j.font].via;
    json!({
        "fam": fam,
        // the subtable type is known for the intact synthesized font only
        "via": if j.corrupt == 0 { via.as_str() } else { via.split('/').next().unwrap_or("") },
        "budget_ms": fonts[j.font].budget_ms,
        "vert": j.vert,
        "pres": if j.pres { "Required" } else { "NotRequired" },
        "noshape": j.noshape,
        "step": j.seq.map_or(-1, |s| s.1 as i64),
        // the calls made on the Font object before this one, when the job is a step of a call sequence
        "pre": j.pre.iter().map(|(p, n, t)| json!([p, n, t])).collect::<Vec<Value>>(),
        "job": idx,
        "font": fonts[j.font].rel,
        "corrupt": if j.corrupt == 0 { String::new() } else { format!("#{}:{}", j.corrupt, cdesc) },
        "script": j.script,
        "lang": if j.use_lang { script_spec(j.text_script).lang } else { "" },
        "feat": FEAT_NAMES[j.feat as usize],
        "kern": j.kern,
        "tuple": TUPLE_NAMES[j.tuple as usize],
        "dir": if j.rtl { "rtl" } else { "ltr" },
        "cls": cls,
        "seed_k": j.corrupt,
        "text": text,
        "wf": wf,
        "ng": ng,
    })
}

fn load_cases(path: &str) -> Vec<Case> {
    read_ndjson(path)
        .into_iter()
        .map(|c| Case {
            txt: c["fam"].as_str() == Some("txt"),
            cls: c["cls"].as_array().expect("cls").iter().map(|x| x.as_str().unwrap().to_string()).collect(),
        })
        .collect()
}

fn is_default_script(tag: &str) -> bool {
    !SCRIPTS.iter().any(|s| s.tag == tag && s.tag != "latn") && !matches!(tag, "mym2" | "mlm2" | "dev2" | "bng2" | "gur2" | "gjr2" | "ory2" | "tml2" | "tel2" | "knd2")
}

/// Facts measured on one returned run: which special-cased path / table boundary the call reached.
/// They feed the vacuity counters of the driver, never the verdict.
fn facts(j: &Job, sf: Option<&SynthFont>, mapped: &[(u16, Vec<char>)], infos: &[Info], shape_err: bool) -> BTreeMap<String, u64> {
    use synth::*;
    let mut f: BTreeMap<String, u64> = BTreeMap::new();
    let mut hit = |k: &str| {
        f.insert(k.to_string(), 1);
    };
    let is_mark = |g: u16| g == G_ACUTE || g == G_DOTBELOW;
    let run_chars: Vec<&[char]> = infos.iter().map(|i| &i.glyph.unicodes[..]).collect();
    // --- the fraction path of the default shaper (gsub_apply_lookups_frac / find_fraction)
    let chars: Vec<char> = mapped.iter().map(|(_, u)| u.first().copied().unwrap_or('\0')).collect();
    if chars.windows(3).any(|w| w[0].is_ascii_digit() && w[1] == '\u{2044}' && w[2].is_ascii_digit()) {
        hit("text_u2044_between_digits");
    }
    if asks_frac(j.feat) && is_default_script(j.script) {
        if let Some(slash) = chars.iter().position(|&c| c == '/') {
            let mut start = slash;
            while start > 0 && chars[start - 1].is_ascii_digit() {
                start -= 1;
            }
            let mut end = slash;
            while end + 1 < chars.len() && chars[end + 1].is_ascii_digit() {
                end += 1;
            }
            if start < slash && slash < end {
                let fracfont = sf.map_or(false, |s| s.has_frac);
                let both = |k: &str, hit: &mut dyn FnMut(&str)| {
                    hit(k);
                    if fracfont {
                        hit(&format!("{}_fracfont", k));
                    }
                };
                both("frac_requested_on_fraction", &mut hit);
                if start > 0 {
                    both("frac_fraction_has_prefix", &mut hit);
                    // the glyphs of the run in front of the glyph that carries the slash
                    let s_at = run_chars.iter().position(|u| u.contains(&'/')).unwrap_or(run_chars.len());
                    let before = &run_chars[..s_at];
                    let letter = |c: &char| !c.is_ascii_digit() && *c != '/';
                    if before.iter().any(|u| u.len() >= 2 && u.iter().all(letter)) {
                        both("frac_prefix_ligated", &mut hit);
                    }
                    if before.windows(2).any(|w| w[0].len() == 1 && w[0] == w[1] && letter(&w[0][0]) && chars[..start].iter().filter(|c| **c == w[0][0]).count() == 1) {
                        both("frac_prefix_decomposed", &mut hit);
                    }
                    let prefix_chars: usize = before.iter().filter(|u| !u.is_empty() && u.iter().all(letter)).count();
                    if prefix_chars < start {
                        both("frac_prefix_shrunk", &mut hit);
                    }
                    if end + 1 == chars.len() {
                        both("frac_fraction_ends_run", &mut hit);
                    }
                }
            }
        }
    }
    // --- placements
    let n_curs = infos.iter().filter(|i| matches!(i.placement, Placement::CursiveAnchor(..))).count();
    if n_curs >= 1 {
        hit("cursive_attachment");
    }
    if n_curs >= 2 {
        hit("cursive_chain_of_3");
    }
    if infos.iter().any(|i| matches!(i.placement, Placement::MarkOverprint(_))) {
        hit("mark_overprint_fallback");
    }
    if j.vert {
        hit("vertical_layout");
        if infos.iter().any(|i| i.glyph.is_vert_alt()) {
            hit("vert_alternate_in_vertical_layout");
        }
    }
    if !infos.is_empty() && infos.len() != mapped.len() {
        let first_changed = infos[0].glyph.glyph_index != mapped[0].0 || infos[0].glyph.unicodes[..] != mapped[0].1[..];
        let (li, lm) = (infos.last().unwrap(), mapped.last().unwrap());
        let last_changed = li.glyph.glyph_index != lm.0 || li.glyph.unicodes[..] != lm.1[..];
        if first_changed {
            hit("run_length_changed_at_start");
        }
        if last_changed {
            hit("run_length_changed_at_end");
        }
    }
    if infos.is_empty() && !mapped.is_empty() {
        hit("run_emptied");
    }
    let sf = match sf {
        Some(s) => s,
        None => return f,
    };
    // --- facts that need to know what the synthesized tables contain
    let nontrivial = shape_err
        || infos.len() != mapped.len()
        || infos.iter().zip(mapped.iter()).any(|(i, m)| i.glyph.glyph_index != m.0)
        || infos.iter().any(|i| i.placement != Placement::None || i.kerning != 0);
    if nontrivial {
        hit(&format!("synth_{}_nontrivial", sf.family));
    }
    // --- the families of the second strengthening
    if sf.family.starts_with("morx") {
        let is_lig = |i: &Info| matches!(i.glyph.glyph_index, G_LIG2 | G_LIG3 | G_LIG4) && i.glyph.unicodes.len() >= 2;
        if infos.iter().any(is_lig) {
            hit("morx_ligature_formed");
            if infos.len() >= 2 && infos.last().map_or(false, is_lig) {
                hit("morx_ligature_at_run_end");
            }
            if infos.len() >= 2 && infos.first().map_or(false, is_lig) {
                hit("morx_ligature_at_run_start");
            }
            if infos.len() >= 3 && infos[1..infos.len() - 1].iter().any(is_lig) {
                hit("morx_ligature_inside_run");
            }
        }
        if sf.tags.iter().any(|t| t == "morx_contextual") && nontrivial {
            hit("morx_contextual_substitution");
        }
        if sf.tags.iter().any(|t| t == "morx_noncontextual") && nontrivial {
            hit("morx_noncontextual_substitution");
        }
        if shape_err {
            hit("morx_shape_err");
        }
    }
    if sf.family == "cnt" {
        let napply: i64 = sf.tags.iter().find_map(|t| t.strip_prefix("cnt_napply_").and_then(|v| v.parse().ok())).unwrap_or(0);
        let above = sf.tags.iter().any(|t| t == "cnt_list_above_inline_capacity");
        let gpos_all = sf.tags.iter().any(|t| t == "cnt_gpos")
            && infos.iter().any(|i| i.glyph.glyph_index == G_X && i.kerning != 0 && i.kerning as i64 % napply == 0);
        // an odd number of GSUB lookups that turn x into xalt and back leaves xalt
        let gsub_all = sf.tags.iter().any(|t| t == "cnt_gsub") && napply % 2 == 1 && infos.iter().any(|i| i.glyph.glyph_index == G_XALT);
        if gpos_all || gsub_all {
            hit("cnt_every_lookup_of_the_list_applied");
            if above {
                hit("cnt_every_lookup_applied_list_above_inline_capacity");
            }
        }
    }
    if sf.family == "lkp" {
        if shape_err {
            hit("lkp_shape_err");
        }
        if sf.name.contains("-chain-") && infos.iter().any(|i| i.glyph.glyph_index == G_XALT || i.kerning == 11) {
            hit("lkp_chain_terminal_applied");
        }
    }
    if let Some(counts) = sf.marklig {
        for (k, info) in infos.iter().enumerate() {
            if !is_mark(info.glyph.glyph_index) {
                continue;
            }
            let base = (0..k).rev().find(|&b| !is_mark(infos[b].glyph.glyph_index));
            if let Some(b) = base {
                let lig = match infos[b].glyph.glyph_index {
                    G_LIG2 => 0,
                    G_LIG3 => 1,
                    G_LIG4 => 2,
                    _ => continue,
                };
                let c = info.glyph.liga_component_pos as usize;
                hit(if c < counts[lig] { "marklig_component_lt_records" } else if c == counts[lig] { "marklig_component_eq_records" } else { "marklig_component_gt_records" });
                if counts[lig] == 0 {
                    hit("marklig_no_component_record");
                }
                if matches!(info.placement, Placement::MarkAnchor(t, _, _) if t == b) {
                    hit("marklig_mark_attached_to_ligature");
                }
            }
        }
    }
    if sf.family == "mark" {
        if shape_err && (sf.name.contains("classeq") || sf.name.contains("nc0")) {
            hit("mark_class_ge_class_count_err");
        }
        if shape_err && sf.name.contains("shortbases") {
            hit("mark_base_array_short_err");
        }
        if infos.iter().any(|i| matches!(i.placement, Placement::MarkAnchor(t, _, _) if is_mark(infos.get(t).map_or(0, |b| b.glyph.glyph_index)))) {
            hit("mark_to_mark_attached");
        }
        if sf.name.contains("null") && infos.iter().enumerate().any(|(k, i)| k > 0 && is_mark(i.glyph.glyph_index) && i.placement == Placement::None) {
            hit("mark_left_unattached_null_anchor_font");
        }
    }
    if sf.name == "edge-alternates" {
        if infos.iter().any(|i| i.glyph.glyph_index == G_XVERT) {
            hit("alternate_second_selected");
        }
        if infos.iter().any(|i| i.glyph.glyph_index == G_XALT || i.glyph.glyph_index == G_I) {
            hit("alternate_first_selected");
        }
    }
    if let Some(m) = sf.fv_marker {
        if j.tuple == 2 && infos.iter().any(|i| i.glyph.glyph_index == m) {
            hit("feature_variation_substitution_applied");
        }
    }
    if sf.name == "edge-lastgid" && infos.iter().any(|i| i.glyph.glyph_index == G_LAST) {
        hit("last_glyph_id_in_run");
    }
    if sf.name == "edge-missinggid" && infos.iter().any(|i| i.glyph.glyph_index == 0 && i.glyph.unicodes.is_empty()) {
        hit("missing_glyph_id_replaced");
    }
    if sf.gpos.is_none() && sf.kern.is_some() && infos.iter().any(|i| i.kerning != 0) {
        hit("kern_table_fallback_applied");
    }
    if sf.gdef.is_none() && nontrivial {
        hit("gdef_absent_nontrivial");
    }
    if sf.name.starts_with("edge-emptycov") {
        hit("empty_coverage_font_shaped");
    }
    if sf.name == "marklig-shortarray" && shape_err {
        hit("marklig_array_short_err");
    }
    if sf.name == "frac-ccmp" && j.feat == 7 && infos.is_empty() && !mapped.is_empty() {
        hit("custom_fina_on_emptied_run");
    }
    if sf.name == "edge-badlangsys" && shape_err {
        hit("bad_langsys_err");
    }
    f
}

/// Runs jobs [from, to) that share one font: one Font object serves consecutive calls (a fresh one
/// only after a panic), so every call but the first sees the caches earlier calls left behind,
/// including those of calls that returned Err.
fn run_group(
    shared: &Arc<Shared>,
    fonts: &[FontEntry],
    catalog: &[SynthFont],
    cases: &[Case],
    jobs: &[Job],
    range: std::ops::Range<usize>,
    seed: u64,
    stats: &mut Stats,
) {
    let j0 = &jobs[range.start];
    let sf: Option<&SynthFont> = fonts[j0.font].synth.map(|si| &catalog[si]);
    let orig = font_bytes(&fonts[j0.font], catalog);
    let (bytes, cdesc) = if j0.corrupt == 0 {
        (orig, String::new())
    } else {
        match corrupt_font(&orig, seed, fonts[j0.font].ckey, j0.corrupt) {
            Some(x) => x,
            None => {
                // nothing to corrupt in this font: the jobs are recorded as not applicable
                for idx in range {
                    let a = job_args(fonts, cases, &jobs[idx], idx, false, 0, "none");
                    write_event(shared, idx as u64, &a, json!({"map": "Skipped", "mapped": [], "shape": "Skipped", "run": [], "pos": "Skipped", "npos": -1, "msg": "no layout table", "f": {}}));
                    stats.not_applicable += 1;
                }
                return;
            }
        }
    };
    let wf = j0.corrupt == 0 && sf.map_or(true, |s| s.wf);
    let mut idx = range.start;
    while idx < range.end {
        // (re)load the font: a fresh object at the start and after every panic
        let loaded = guarded(|| {
            let scope = ReadScope::new(&bytes);
            let fd = scope.read::<FontData<'_>>().ok()?;
            let provider = fd.table_provider(0).ok()?;
            let fvar_data = provider.read_table_data(tag::FVAR).ok().map(|d| d.into_owned());
            let font = Font::new(provider).ok()?;
            Some((font, fvar_data))
        });
        let (mut font, fvar_data) = match loaded {
            Outcome::Returned(Some(x)) => x,
            Outcome::Returned(None) | Outcome::Panicked(_) => {
                if sf.is_some() && j0.corrupt == 0 {
                    panic!("synthesized font {} does not load: the generator is wrong", fonts[j0.font].rel);
                }
                // corrupted layout tables never prevent loading; anything else is reported as unloadable
                for k in idx..range.end {
                    let a = job_args(fonts, cases, &jobs[k], k, wf, 0, &cdesc);
                    write_event(shared, k as u64, &a, json!({"map": "Skipped", "mapped": [], "shape": "Skipped", "run": [], "pos": "Skipped", "npos": -1, "msg": "font does not load", "f": {}}));
                    stats.unloadable += 1;
                }
                return;
            }
        };
        let ng = font.num_glyphs() as i64;
        // tuples for variable fonts
        let tuples: Vec<Option<allsorts::tables::variable_fonts::OwnedTuple>> = {
            let mk = |raw: i16| -> Option<allsorts::tables::variable_fonts::OwnedTuple> {
                let d = fvar_data.as_ref()?;
                let fvar = ReadScope::new(d).read::<FvarTable<'_>>().ok()?;
                let v: Vec<F2Dot14> = (0..fvar.axis_count()).map(|_| F2Dot14::from_raw(raw)).collect();
                fvar.owned_tuple(&v)
            };
            vec![None, mk(0), mk(8192)]
        };
        let mut poisoned = false;
        let mut had_err = false; // this Font object has already returned Err from shape
        let mut calls = 0u64;
        // a step of a call sequence that meets a new Font object (shard boundary, restart after a panic or a
        // process death, replay): the earlier steps of the sequence are made first, unrecorded
        for (pres, noshape, t) in jobs[idx].pre.iter() {
            let j = &jobs[idx];
            let text: String = t.iter().filter_map(|c| char::from_u32(*c)).collect();
            let mp = if *pres { MatchingPresentation::Required } else { MatchingPresentation::NotRequired };
            let script = tag4(j.script);
            let lang = if j.use_lang { Some(tag4(script_spec(j.text_script).lang)) } else { None };
            let feats = features_of(j.feat);
            let noshape = *noshape;
            let _ = guarded(|| {
                let glyphs = font.map_glyphs(&text, script, mp);
                if !noshape {
                    let _ = font.shape(glyphs, script, lang, &feats, None, j.kern);
                }
            });
        }
        while idx < range.end && !poisoned {
            let j = &jobs[idx];
            if j.fresh && calls > 0 {
                break; // the first step of a call sequence: a new Font object
            }
            let mut a = job_args(fonts, cases, j, idx, wf, ng, &cdesc);
            a["used"] = json!(calls > 0);
            let text: String = a["text"].as_array().unwrap().iter().map(|c| char::from_u32(c.as_u64().unwrap() as u32).unwrap()).collect();
            *shared.current.lock().unwrap() = Some((idx as u64, a.clone()));
            shared.budget_ns.store(fonts[j.font].budget_ms * 1_000_000, Ordering::SeqCst);
            shared.start_cpu.store(thread_cpu_ns(), Ordering::SeqCst);
            shared.active.store(true, Ordering::SeqCst);

            let script = tag4(j.script);
            let lang = if j.use_lang { Some(tag4(script_spec(j.text_script).lang)) } else { None };
            let feats = features_of(j.feat);
            let tuple = tuples[j.tuple as usize].as_ref().map(|t| t.as_tuple());
            let mut o = json!({"map": "Skipped", "mapped": [], "shape": "Skipped", "run": [], "pos": "Skipped", "npos": -1, "msg": "", "f": {}});
            let mut fx: BTreeMap<String, u64> = BTreeMap::new();
            if calls > 0 {
                fx.insert("call_on_used_font".into(), 1);
            }
            if had_err {
                fx.insert("call_on_font_after_err".into(), 1);
            }
            calls += 1;
            let mp = if j.pres { MatchingPresentation::Required } else { MatchingPresentation::NotRequired };
            match guarded(|| font.map_glyphs(&text, script, mp)) {
                Outcome::Panicked(m) => {
                    o["map"] = json!("Panic");
                    o["msg"] = json!(m);
                    poisoned = true;
                }
                Outcome::Returned(glyphs) if j.noshape => {
                    o["map"] = json!("Ok");
                    o["mapped"] = project_raw(&glyphs);
                }
                Outcome::Returned(glyphs) => {
                    o["map"] = json!("Ok");
                    o["mapped"] = project_raw(&glyphs);
                    let mapped: Vec<(u16, Vec<char>)> = glyphs.iter().map(|g| (g.glyph_index, g.unicodes.to_vec())).collect();
                    let shaped = guarded(|| font.shape(glyphs, script, lang, &feats, tuple, j.kern));
                    let infos: Option<Vec<Info>> = match shaped {
                        Outcome::Panicked(m) => {
                            o["shape"] = json!("Panic");
                            o["msg"] = json!(m);
                            poisoned = true;
                            None
                        }
                        Outcome::Returned(Ok(infos)) => {
                            o["shape"] = json!("Ok");
                            Some(infos)
                        }
                        Outcome::Returned(Err((e, infos))) => {
                            o["shape"] = json!("Err");
                            o["msg"] = json!(format!("{:?}", e));
                            if had_err {
                                fx.insert("err_again_on_same_font".into(), 1);
                            }
                            had_err = true;
                            Some(infos)
                        }
                    };
                    if let Some(infos) = infos {
                        o["run"] = project_infos(&infos);
                        fx.extend(facts(j, if j.corrupt == 0 { sf } else { None }, &mapped, &infos, o["shape"] == json!("Err")));
                        let dir = if j.rtl { TextDirection::RightToLeft } else { TextDirection::LeftToRight };
                        match guarded(|| GlyphLayout::new(&mut font, &infos, dir, j.vert).glyph_positions()) {
                            Outcome::Panicked(m) => {
                                o["pos"] = json!("Panic");
                                o["msg"] = json!(m);
                                poisoned = true;
                            }
                            Outcome::Returned(Ok(p)) => {
                                o["pos"] = json!("Ok");
                                o["npos"] = json!(p.len());
                            }
                            Outcome::Returned(Err(e)) => {
                                o["pos"] = json!("Err");
                                if o["msg"] == json!("") {
                                    o["msg"] = json!(format!("positions: {:?}", e));
                                }
                            }
                        }
                    }
                }
            }
            shared.active.store(false, Ordering::SeqCst);
            o["f"] = json!(fx);
            stats.count(&o, sf.is_some(), a["fam"].as_str() == Some("txt"));
            write_event(shared, idx as u64, &a, o);
            idx += 1;
        }
    }
}

fn write_event(shared: &Arc<Shared>, i: u64, a: &Value, o: Value) {
    let mut g = shared.writer.lock().unwrap();
    if let Some(w) = g.as_mut() {
        serde_json::to_writer(&mut *w, &event(i, a, o)).expect("write");
        w.write_all(b"\n").expect("nl");
        w.flush().expect("flush");
    } else {
        println!("{}", event(i, a, o));
    }
    shared.progress.set(i + 1);
}

#[derive(Default)]
struct Stats {
    jobs: u64,
    shape_ok: u64,
    shape_err: u64,
    panics: u64,
    pos_err: u64,
    with_attach: u64,
    with_dotted_circle: u64,
    ligated: u64,
    unloadable: u64,
    not_applicable: u64,
    nontrivial: u64,
    synth_jobs: u64,
    txt_jobs: u64,
    txt_jobs_repo_fonts: u64,
    facts: BTreeMap<String, u64>, // events per fact
}

impl Stats {
    fn count(&mut self, o: &Value, synth: bool, txt: bool) {
        self.jobs += 1;
        if synth {
            self.synth_jobs += 1;
        }
        if txt {
            self.txt_jobs += 1;
            if !synth {
                self.txt_jobs_repo_fonts += 1;
            }
        }
        if let Some(f) = o["f"].as_object() {
            for k in f.keys() {
                *self.facts.entry(k.clone()).or_insert(0) += 1;
            }
        }
        match o["shape"].as_str().unwrap_or("") {
            "Ok" => self.shape_ok += 1,
            "Err" => self.shape_err += 1,
            _ => {}
        }
        if [&o["map"], &o["shape"], &o["pos"]].iter().any(|x| x.as_str() == Some("Panic")) {
            self.panics += 1;
        }
        if o["pos"].as_str() == Some("Err") {
            self.pos_err += 1;
        }
        let mut nontrivial = o["shape"].as_str() == Some("Err");
        if let Some(run) = o["run"].as_array() {
            let mapped_gids: Vec<u64> = o["mapped"].as_array().map_or(Vec::new(), |m| m.iter().map(|g| g[0].as_u64().unwrap_or(0)).collect());
            let run_gids: Vec<u64> = run.iter().map(|g| g[0].as_u64().unwrap_or(0)).collect();
            nontrivial |= run_gids != mapped_gids; // substitution, reordering, insertion or deletion happened
            nontrivial |= run.iter().any(|g| g[2].as_str() != Some("none"));
            if run.iter().any(|g| matches!(g[2].as_str(), Some("mark") | Some("over") | Some("curs"))) {
                self.with_attach += 1;
            }
            if run.iter().any(|g| g[1].as_array().map_or(false, |u| u.len() > 1)) {
                self.ligated += 1;
            }
            let submitted_dc = o["mapped"].as_array().map_or(false, |m| m.iter().any(|g| g[1].as_array().map_or(false, |u| u.iter().any(|c| c.as_u64() == Some(0x25CC)))));
            if !submitted_dc && run.iter().any(|g| g[1].as_array().map_or(false, |u| u.iter().any(|c| c.as_u64() == Some(0x25CC)))) {
                self.with_dotted_circle += 1;
            }
        }
        if nontrivial {
            self.nontrivial += 1;
        }
    }
    fn json(&self) -> Value {
        let mut v = json!({"jobs": self.jobs, "shape_ok": self.shape_ok, "shape_err": self.shape_err, "panics": self.panics,
               "pos_err": self.pos_err, "runs_with_attachment": self.with_attach, "runs_with_inserted_dotted_circle": self.with_dotted_circle,
               "runs_with_ligature": self.ligated, "unloadable": self.unloadable, "not_applicable": self.not_applicable, "nontrivial": self.nontrivial,
               "jobs_on_synthesized_fonts": self.synth_jobs, "jobs_text_classes": self.txt_jobs, "jobs_text_classes_on_repository_fonts": self.txt_jobs_repo_fonts});
        for (k, n) in &self.facts {
            v[format!("f_{}", k)] = json!(n);
        }
        v
    }
}

/// the watchdog of a process that executes jobs: thread CPU time of the main thread (deterministic
/// w.r.t. machine load) against the budget of the job that is running
fn spawn_watchdog(shared: &Arc<Shared>) {
    let main_thread = unsafe { libc::pthread_self() } as usize;
    let shared = shared.clone();
    std::thread::spawn(move || {
        let mut clock: libc::clockid_t = 0;
        if unsafe { libc::pthread_getcpuclockid(main_thread as libc::pthread_t, &mut clock) } != 0 {
            return;
        }
        loop {
            std::thread::sleep(std::time::Duration::from_millis(25));
            if !shared.active.load(Ordering::SeqCst) {
                continue;
            }
            let mut ts = libc::timespec { tv_sec: 0, tv_nsec: 0 };
            unsafe { libc::clock_gettime(clock, &mut ts) };
            let now = ts.tv_sec as u64 * 1_000_000_000 + ts.tv_nsec as u64;
            let start = shared.start_cpu.load(Ordering::SeqCst);
            let budget = shared.budget_ns.load(Ordering::SeqCst);
            if shared.active.load(Ordering::SeqCst) && now > start + budget {
                let cur = shared.current.lock().unwrap().clone();
                if let Some((i, a)) = cur {
                    write_event(&shared, i, &a, skipped_obs("Timeout", &format!("CPU budget of {} ms exceeded", budget / 1_000_000)));
                }
                std::process::exit(EXIT_TIMEOUT);
            }
        }
    });
}

struct Plan {
    cases: Vec<Case>,
    catalog: Vec<SynthFont>,
    fonts: Vec<FontEntry>,
    jobs: Vec<Job>,
}

fn load_plan(tier: &str, seed: u64, cases_path: &str) -> Plan {
    let cases = load_cases(cases_path);
    let catalog = full_catalog(cases_path, tier, seed);
    let calls = load_calls(cases_path);
    let (fonts, jobs) = build_plan(tier, seed, &cases, &catalog, &calls);
    Plan { cases, catalog, fonts, jobs }
}

/// executes jobs [from, to) in this process, one event per job; `stats_path`: counters are appended
/// per font group (what a dying process loses is the group it died in)
fn run_range(plan: &Plan, shared: &Arc<Shared>, seed: u64, from: usize, to: usize, stats_path: Option<&str>) {
    let mut stats = Stats::default();
    let mut idx = from;
    while idx < to {
        let mut end = idx + 1;
        while end < to && plan.jobs[end].font == plan.jobs[idx].font && plan.jobs[end].corrupt == plan.jobs[idx].corrupt {
            end += 1;
        }
        run_group(shared, &plan.fonts, &plan.catalog, &plan.cases, &plan.jobs, idx..end, seed, &mut stats);
        if let Some(sp) = stats_path {
            append_line(sp, &stats.json().to_string());
            stats = Stats::default();
        }
        idx = end;
    }
}

fn append_line(path: &str, line: &str) {
    let mut f = std::fs::OpenOptions::new().create(true).append(true).open(path).unwrap_or_else(|e| panic!("open {}: {}", path, e));
    writeln!(f, "{}", line).expect("append");
}

/// a partial last line (a process died while writing) is cut off
fn fix_tail(path: &str) {
    if let Ok(b) = std::fs::read(path) {
        if b.last().map_or(false, |&c| c != b'\n') {
            let keep = b.iter().rposition(|&c| c == b'\n').map_or(0, |p| p + 1);
            let f = std::fs::OpenOptions::new().write(true).open(path).expect("open trace");
            f.set_len(keep as u64).expect("truncate");
        }
    }
}

fn append_event(path: &str, ev: &Value) {
    fix_tail(path);
    append_line(path, &ev.to_string());
}

/// Executes jobs [from, to) of the plan (None: one job, printed; Some: the shard of that trace file).
fn worker(tier: &str, seed: u64, cases_path: &str, trace: Option<&str>, from: usize, to: usize) {
    let plan = load_plan(tier, seed, cases_path);
    let to = to.min(plan.jobs.len());
    match trace {
        Some(t) => run_shard(&plan, seed, t, from, to),
        None => {
            let shared = Arc::new(Shared::new(None, Progress::private()));
            spawn_watchdog(&shared);
            run_range(&plan, &shared, seed, from, to, None);
        }
    }
}

/// Executes the jobs [from, to) of a shard into `trace`, resuming behind the events that are on file.
/// The jobs run in forked children; this process only keeps the plan and the books: when a child
/// dies or runs out of budget, the shared counter says in which job.
fn run_shard(plan: &Plan, seed: u64, trace: &str, from: usize, to: usize) {
    let stats_path = format!("{}.stats", trace);
    fix_tail(trace);
    let progress = Progress::shared();
    progress.set((from + count_lines(trace)) as u64);
    let same_group = |a: usize, b: usize| plan.jobs[a].font == plan.jobs[b].font && plan.jobs[a].corrupt == plan.jobs[b].corrupt;
    let args_of = |k: usize| -> Value {
        let j = &plan.jobs[k];
        let f = &plan.fonts[j.font];
        let wf = j.corrupt == 0 && f.synth.map_or(true, |si| plan.catalog[si].wf);
        let cdesc = if j.corrupt == 0 {
            String::new()
        } else {
            corrupt_font(&font_bytes(f, &plan.catalog), seed, f.ckey, j.corrupt).map_or("none".to_string(), |x| x.1)
        };
        job_args(&plan.fonts, &plan.cases, j, k, wf, 0, &cdesc)
    };
    let (mut aborts, mut timeouts, mut abandoned) = (0u64, 0u64, 0u64);
    let mut group: (usize, u32, u32) = (usize::MAX, 0, 0); // (a job of the group, timeouts, deaths)
    while (progress.get() as usize) < to {
        let start = progress.get() as usize;
        std::io::stdout().flush().ok();
        let pid = unsafe { libc::fork() };
        assert!(pid >= 0, "fork");
        if pid == 0 {
            let writer = std::io::BufWriter::new(std::fs::OpenOptions::new().create(true).append(true).open(trace).unwrap_or_else(|e| panic!("open {}: {}", trace, e)));
            let shared = Arc::new(Shared::new(Some(writer), progress));
            spawn_watchdog(&shared);
            run_range(plan, &shared, seed, start, to, Some(&stats_path));
            std::process::exit(0);
        }
        let mut status: libc::c_int = 0;
        let r = unsafe { libc::waitpid(pid, &mut status, 0) };
        assert!(r == pid, "waitpid");
        let exited = libc::WIFEXITED(status);
        let code = if exited { libc::WEXITSTATUS(status) } else { -1 };
        if exited && code == 0 {
            break;
        }
        let timed_out = exited && code == EXIT_TIMEOUT;
        let bad;
        if timed_out {
            timeouts += 1; // the child has written the Timeout event itself and moved the counter on
            bad = (progress.get() as usize).saturating_sub(1);
            fix_tail(trace);
        } else {
            // died: the counter names the job that was running
            bad = progress.get() as usize;
            if bad >= to {
                eprintln!("child died after its last job: status {}", status);
                break;
            }
            aborts += 1;
            let how = if libc::WIFSIGNALED(status) { format!("signal {}", libc::WTERMSIG(status)) } else { format!("exit code {}", code) };
            append_event(trace, &event(bad as u64, &args_of(bad), skipped_obs("Abort", &format!("the process died in this job: {}", how))));
            progress.set(bad as u64 + 1);
        }
        if group.0 == usize::MAX || !same_group(group.0, bad) {
            group = (bad, 0, 0);
        }
        if timed_out {
            group.1 += 1;
        } else {
            group.2 += 1;
        }
        let give_up_shard = timeouts >= MAX_TIMEOUTS_PER_SHARD || aborts >= MAX_ABORTS_PER_SHARD;
        if group.1 >= GROUP_TIMEOUTS || group.2 >= GROUP_DEATHS || give_up_shard {
            let why = if give_up_shard { "not executed: too many timeouts / process deaths in this shard" } else { "not executed: repeated timeouts / process deaths on this font" };
            let mut k = progress.get() as usize;
            while k < to && (give_up_shard || same_group(bad, k)) {
                let o = json!({"map": "Skipped", "mapped": [], "shape": "Skipped", "run": [], "pos": "Skipped", "npos": -1, "msg": why, "f": {}});
                append_event(trace, &event(k as u64, &args_of(k), o));
                abandoned += 1;
                k += 1;
            }
            progress.set(k as u64);
        }
    }
    append_line(&stats_path, &json!({"aborts": aborts, "timeouts": timeouts, "jobs_abandoned_after_deaths": abandoned}).to_string());
}

/// Execute one explicitly described job (replay of a finding): JSON with the fields of an event's
/// `a` plus `seed`.
fn exec_one(spec: &str) {
    let a: Value = serde_json::from_str(spec).expect("json");
    let seed = a["seed"].as_u64().unwrap_or(1);
    let rel = a["font"].as_str().expect("font");
    let mut catalog = synth::catalog();
    if let Some(name) = rel.strip_prefix("synth/") {
        if !catalog.iter().any(|f| f.name == name) {
            catalog.push(synth2::from_name(name, seed).unwrap_or_else(|| panic!("no synthesized font {}", name)));
        }
    }
    let fonts = font_entries(&catalog);
    let fi = fonts.iter().position(|f| f.rel == rel).unwrap_or_else(|| panic!("font {} is not in the plan", rel));
    let st = |k: &str| -> &'static str { Box::leak(a[k].as_str().unwrap_or("").to_string().into_boxed_str()) };
    let script = st("script");
    let lang = a["lang"].as_str().unwrap_or("");
    let job = Job {
        font: fi,
        corrupt: a["seed_k"].as_u64().unwrap_or(0) as u32,
        case: usize::MAX,
        text_script: fonts[fi].script,
        script,
        use_lang: !lang.is_empty(),
        feat: FEAT_NAMES.iter().position(|n| Some(*n) == a["feat"].as_str()).unwrap_or(0) as u8,
        kern: a["kern"].as_bool().unwrap_or(true),
        vert: a["vert"].as_bool().unwrap_or(false),
        tuple: TUPLE_NAMES.iter().position(|n| Some(*n) == a["tuple"].as_str()).unwrap_or(0) as u8,
        rtl: a["dir"].as_str() == Some("rtl"),
        salt: 0,
        text: Some(a["text"].as_array().expect("text").iter().map(|c| c.as_u64().unwrap() as u32).collect()),
        pres: a["pres"].as_str() == Some("Required"),
        noshape: a["noshape"].as_bool().unwrap_or(false),
        fresh: true,
        seq: None,
        pre: Vec::new(),
    };
    let mut job = job;
    let to_text = |v: &Value| -> Vec<u32> { v.as_array().map_or(Vec::new(), |t| t.iter().map(|c| c.as_u64().unwrap_or(0) as u32).collect()) };
    match a["pre"].as_array() {
        Some(pre) if !pre.is_empty() => {
            job.pre = pre.iter().map(|s| (s[0].as_bool().unwrap_or(false), s[1].as_bool().unwrap_or(false), to_text(&s[2]))).collect();
        }
        // a job that met a Font object other calls had used: the same call is made once before (the calls that
        // really preceded it are those of the plan; `c02_shape one` re-executes a job of the plan)
        _ if a["used"].as_bool() == Some(true) => {
            job.pre = vec![(job.pres, job.noshape, job.text.clone().unwrap())];
        }
        _ => {}
    }
    let shared = Arc::new(Shared::new(None, Progress::private()));
    spawn_watchdog(&shared);
    let mut stats = Stats::default();
    let jobs = vec![job];
    run_group(&shared, &fonts, &catalog, &[], &jobs, 0..1, seed, &mut stats);
}

fn count_lines(path: &str) -> usize {
    std::fs::read(path).map(|b| b.iter().filter(|&&c| c == b'\n').count()).unwrap_or(0)
}

/// counters of the plan: computed from the inputs only (which fonts, which texts), never from what
/// allsorts returned
fn plan_counters(plan: &Plan) -> BTreeMap<String, u64> {
    let mut c: BTreeMap<String, u64> = BTreeMap::new();
    let mut bump = |k: String, n: u64| *c.entry(k).or_insert(0) += n;
    let mut seen_font = vec![false; plan.fonts.len()];
    let mut prev: Option<(usize, u32)> = None;
    for j in &plan.jobs {
        let f = &plan.fonts[j.font];
        // ---- how the text is mapped, and what the Font object has seen before (inputs only)
        let used = prev == Some((j.font, j.corrupt)) && !j.fresh;
        prev = Some((j.font, j.corrupt));
        if j.pres {
            bump("plan_jobs_required_presentation".into(), 1);
            let text: Vec<u32> = match &j.text {
                Some(t) => t.clone(),
                None => concretise(script_spec(j.text_script), &plan.cases[j.case], j.salt),
            };
            if has_plain_dotted_circle(&text) {
                bump("plan_jobs_required_presentation_dotted_circle".into(), 1);
                if used {
                    bump("plan_jobs_required_presentation_dotted_circle_on_used_font".into(), 1);
                }
            }
        }
        if let Some((_, k)) = j.seq {
            bump("plan_jobs_seq".into(), 1);
            if k == 0 {
                bump("plan_call_sequences".into(), 1);
            }
            if j.noshape {
                bump("plan_jobs_seq_map_only".into(), 1);
            }
            let dc = j.text.as_ref().map_or(false, |t| has_plain_dotted_circle(t));
            // the cache is filled by an earlier shape call or an earlier plain lookup of U+25CC
            let filled = j.pre.iter().any(|(p, n, t)| !*n || (!*p && has_plain_dotted_circle(t)));
            if j.pres && dc && filled {
                bump("plan_jobs_seq_required_dotted_circle_on_filled_cache".into(), 1);
            }
            if j.pres && dc && !filled {
                bump("plan_jobs_seq_required_dotted_circle_on_empty_cache".into(), 1);
            }
            if !j.pres && dc && filled {
                bump("plan_jobs_seq_plain_dotted_circle_on_filled_cache".into(), 1);
            }
            continue;
        }
        let sf = match f.synth {
            Some(si) => &plan.catalog[si],
            None => continue,
        };
        if !seen_font[j.font] {
            seen_font[j.font] = true;
            bump(format!("plan_fonts_{}", sf.family), 1);
        }
        if j.corrupt > 0 {
            bump(format!("plan_corrupt_jobs_{}", sf.family), 1);
            continue;
        }
        bump(format!("plan_jobs_{}", sf.family), 1);
        for t in &sf.tags {
            bump(format!("plan_jobs_{}", t), 1);
        }
        // where a morx ligature f..f i sits in the text, and components left over at the end of text
        if sf.tags.iter().any(|t| t == "morx_ligature") {
            let ncomp: usize = sf.tags.iter().find_map(|t| t.strip_prefix("morx_lig_components_").and_then(|v| v.parse().ok())).unwrap_or(0);
            let cls = &plan.cases[j.case].cls;
            let word: Vec<&str> = std::iter::repeat("Lf").take(ncomp - 1).chain(std::iter::once("Li")).collect();
            let n = cls.len();
            if ncomp > 0 && n >= ncomp {
                let at = |p: usize| (0..ncomp).all(|k| cls[p + k] == word[k]);
                if at(0) && n > ncomp {
                    bump("plan_jobs_morx_ligature_at_start".into(), 1);
                }
                if at(n - ncomp) && n > ncomp {
                    bump("plan_jobs_morx_ligature_at_end".into(), 1);
                    if sf.tags.iter().any(|t| t == "morx_lig_action_entry_dont_advance") {
                        bump("plan_jobs_morx_ligature_at_end_dont_advance".into(), 1);
                    }
                }
                if n > ncomp + 1 && (1..n - ncomp).any(at) {
                    bump("plan_jobs_morx_ligature_in_middle".into(), 1);
                }
                if n == ncomp && at(0) {
                    bump("plan_jobs_morx_ligature_whole_text".into(), 1);
                }
            }
            if cls.last().map_or(false, |c| c == "Lf") {
                bump("plan_jobs_morx_components_left_at_end_of_text".into(), 1);
            }
        }
        if sf.family == "lkp" && plan.cases[j.case].cls.iter().any(|c| c == "Lx") {
            bump("plan_jobs_lkp_text_matches".into(), 1);
        }
    }
    c
}

fn supervisor(tier: &str, seed: u64, cases_path: &str, outdir: &str, nworkers: usize) {
    let plan = load_plan(tier, seed, cases_path);
    let n = plan.jobs.len();
    std::fs::create_dir_all(outdir).expect("outdir");
    // more shards than workers (fonts differ a lot in cost); every shard process is a fork of this
    // one, which is single threaded and holds the plan
    let nshards = (nworkers * 6).max(1);
    let per = (n + nshards - 1) / nshards;
    let shards: Vec<(usize, usize, usize)> = (0..nshards).map(|w| (w, w * per, ((w + 1) * per).min(n))).filter(|s| s.1 < s.2).collect();
    let trace_of = |w: usize| format!("{}/trace.{}.ndjson", outdir, w);
    for (w, _, _) in &shards {
        let _ = std::fs::remove_file(trace_of(*w));
        let _ = std::fs::remove_file(format!("{}.stats", trace_of(*w)));
    }
    let mut pending: Vec<(usize, usize, usize, u32)> = shards.iter().rev().map(|s| (s.0, s.1, s.2, 0)).collect();
    let mut running: Vec<(libc::pid_t, (usize, usize, usize, u32))> = Vec::new();
    let mut restarts = 0u64;
    loop {
        while running.len() < nworkers.max(1) {
            let sh = match pending.pop() {
                Some(x) => x,
                None => break,
            };
            std::io::stdout().flush().ok();
            let pid = unsafe { libc::fork() };
            assert!(pid >= 0, "fork");
            if pid == 0 {
                run_shard(&plan, seed, &trace_of(sh.0), sh.1, sh.2);
                std::process::exit(0);
            }
            running.push((pid, sh));
        }
        if running.is_empty() {
            break;
        }
        let mut status: libc::c_int = 0;
        let pid = unsafe { libc::waitpid(-1, &mut status, 0) };
        let k = match running.iter().position(|r| r.0 == pid) {
            Some(k) => k,
            None => continue,
        };
        let (_, sh) = running.remove(k);
        if !(libc::WIFEXITED(status) && libc::WEXITSTATUS(status) == 0) {
            // the bookkeeping process of the shard failed (not a job): it resumes behind what is on file
            restarts += 1;
            if sh.3 >= 5 {
                eprintln!("shard {} failed repeatedly: status {}", sh.0, status);
                std::process::exit(3);
            }
            pending.push((sh.0, sh.1, sh.2, sh.3 + 1));
        }
    }
    let mut total = serde_json::Map::new();
    for (w, _, _) in &shards {
        let sp = format!("{}.stats", trace_of(*w));
        if !std::path::Path::new(&sp).exists() {
            continue;
        }
        for v in read_ndjson(&sp) {
            for (k, x) in v.as_object().unwrap() {
                let e = total.entry(k.clone()).or_insert(json!(0));
                *e = json!(e.as_u64().unwrap_or(0) + x.as_u64().unwrap_or(0));
            }
        }
    }
    for k in ["aborts", "timeouts", "jobs_abandoned_after_deaths"] {
        total.entry(k.to_string()).or_insert(json!(0));
    }
    for (k, v) in plan_counters(&plan) {
        total.insert(k, json!(v));
    }
    total.insert("plan".into(), json!(n));
    total.insert("fonts".into(), json!(plan.fonts.len()));
    total.insert("synth_fonts".into(), json!(plan.fonts.iter().filter(|f| f.synth.is_some()).count()));
    total.insert("worker_restarts".into(), json!(restarts));
    total.insert("workers".into(), json!(nworkers));
    total.insert("shards".into(), json!(shards.len()));
    println!("{}", Value::Object(total));
}

fn main() {
    // a process that dies (allocation failure, stack overflow) must die at once: symbolising a
    // backtrace costs more CPU than the budget of a small job and would be recorded as Timeout
    std::env::set_var("RUST_BACKTRACE", "0");
    let args: Vec<String> = std::env::args().collect();
    match args.get(1).map(|s| s.as_str()) {
        Some("run") => supervisor(&args[2], args[3].parse().expect("seed"), &args[4], &args[5], args[6].parse().expect("n")),
        Some("worker") => worker(&args[2], args[3].parse().expect("seed"), &args[4], Some(&args[5]), args[6].parse().unwrap(), args[7].parse().unwrap()),
        Some("one") => {
            let i: usize = args[5].parse().expect("job index");
            worker(&args[2], args[3].parse().expect("seed"), &args[4], None, i, i + 1)
        }
        Some("exec") => exec_one(&args[2]),
        // the bytes of one synthesized font (triage): font <name> <seed> <out file>
        Some("font") => {
            let seed: u64 = args[3].parse().expect("seed");
            let sf = synth::catalog().into_iter().find(|f| f.name == args[2]).or_else(|| synth2::from_name(&args[2], seed)).expect("font name");
            std::fs::write(&args[4], synth::build(&sf)).expect("write");
        }
        Some("plan") => {
            let plan = load_plan(&args[2], args[3].parse().expect("seed"), &args[4]);
            let corrupt = plan.jobs.iter().filter(|j| j.corrupt > 0).count();
            println!("{}", json!({"fonts": plan.fonts.len(), "jobs": plan.jobs.len(), "corrupt_jobs": corrupt, "counters": plan_counters(&plan),
                                  "font_list": plan.fonts.iter().map(|f| format!("{}:{}", f.rel, f.script)).collect::<Vec<_>>()}));
        }
        _ => {
            eprintln!("usage: c02_shape run <tier> <seed> <cases> <outdir> <nworkers> | worker ... | one <tier> <seed> <cases> <job> | plan <tier> <seed> <cases> | exec <json> | font <name> <seed> <out>");
            std::process::exit(2);
        }
    }
}
