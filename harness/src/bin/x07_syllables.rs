//! X07 harness: syllable segmentation of the Indic, Khmer and Myanmar shapers.
//!
//! The segmentation functions (`to_indic_syllables`, `to_khmer_syllables`, `to_myanmar_syllables`) are
//! private; they are reached through the add-only `#[cfg(allsorts_verif)]` hooks
//! `allsorts::scripts::{indic,khmer,myanmar}::verif_syllables` (call the REAL function, return the glyph
//! indices and the kind of every cluster) and `verif_class` (the grammar terminals a character belongs to,
//! evaluated with the REAL predicates of the file - an INPUT of the check).
//!
//!   x07_syllables classes <out.json>
//!       dump verif_class over the universe of every family: {"indic": {"C": [cp..], "C+Ra": [..]}, ..}
//!       (key = `+`-joined terminals, "" = no terminal)
//!   x07_syllables replay <cases.ndjson> <mismatches.ndjson> <variants>
//!       every CASE of MC_Syllables {id,f,r,e,x,k,d}: `r` = class string (list of terminal lists); for
//!       `variants` choices of concrete characters of these classes (rotating through scripts / blocks) run
//!       the real segmentation and compare its projection with `e` (primary reading), the alternatives `x`
//!       (Dev_ readings), the code model `k` (named defects `d`) by JSON equality.
//!   x07_syllables record <seed> <n-per-family> <trace.ndjson>
//!       seeded random strings over each script's Unicode blocks (plus joiners, dotted circle, NBSP, Latin,
//!       Direct-origin glyphs); text -> Font-independent glyph run; one event per call for Trace_Syllables.
//!       A third of the strings goes through Font::map_glyphs of a repository font first (the run is what
//!       text preprocessing produced) and is also shaped by Font::shape: the number of dotted circles the
//!       PUBLIC path inserted is recorded as o.dc (-1 = not observed).
//!   x07_syllables one <family> <trace.ndjson> <hex cp>...      (one event, for --replay)
//!   x07_syllables seg <family> <hex cp>...                     (probe)
//!
//! Projection of a segmentation: list of [positions, kind]; positions are 1-based indices into the input
//! run, 0 stands for a glyph that is not from the input (the dotted circle the Khmer splitter prepends).
//! The harness decides nothing: it records what allsorts returned.
use allsorts::binary::read::ReadScope;
use allsorts::font::MatchingPresentation;
use allsorts::font_data::FontData;
use allsorts::gsub::{FeatureMask, Features, GlyphOrigin, RawGlyph, RawGlyphFlags};
use allsorts::scripts::{indic, khmer, myanmar};
use allsorts::Font;
use rand::rngs::StdRng;
use rand::{Rng, SeedableRng};
use serde_json::{json, Value};
use std::collections::BTreeMap;
use tinyvec::tiny_vec;
use vh::sup::{guarded, Outcome};
use vh::util::{repo_root, NdWriter};

const FAMILIES: [&str; 3] = ["indic", "khmer", "myanmar"];
const DC_INDEX: u16 = 7; // dotted_circle_index handed to the Khmer splitter
const BASE: u16 = 100; // glyph index of input position 1 is BASE + 1
const DIRECT: u32 = 0x11_0000; // stands for a glyph with GlyphOrigin::Direct

fn ranges(fam: &str) -> Vec<(u32, u32)> {
    match fam {
        "indic" => vec![(0x0900, 0x0DFF), (0x1CD0, 0x1CFF), (0xA8E0, 0xA8FF)],
        "khmer" => vec![(0x1780, 0x17FF), (0x19E0, 0x19FF)],
        "myanmar" => vec![(0x1000, 0x109F), (0xAA60, 0xAA7F), (0xA9E0, 0xA9FF)],
        _ => panic!("family"),
    }
}

const COMMON: &[u32] = &[
    0x0020, 0x002D, 0x0041, 0x00A0, 0x00D7, 0x0964, 0x200B, 0x200C, 0x200D, 0x2010, 0x2012, 0x2013, 0x2014, 0x2015,
    0x2022, 0x25CC, 0x25FB, 0x25FC, 0x25FD, 0x25FE, 0xFE00, 0xFFFF,
];

fn universe(fam: &str) -> Vec<u32> {
    let mut v: Vec<u32> = Vec::new();
    for (a, b) in ranges(fam) {
        v.extend(a..=b);
    }
    v.extend_from_slice(COMMON);
    v.sort();
    v.dedup();
    v
}

fn class_of(fam: &str, cp: u32) -> String {
    let ch = if cp == DIRECT { '\u{FFFF}' } else { char::from_u32(cp).expect("scalar") };
    match fam {
        "indic" => indic::verif_class(ch),
        "khmer" => khmer::verif_class(ch),
        "myanmar" => myanmar::verif_class(ch),
        _ => panic!("family"),
    }
}

fn terminals(cls: &str) -> Vec<String> {
    if cls.is_empty() {
        vec![]
    } else {
        cls.split('+').map(|s| s.to_string()).collect()
    }
}

fn glyphs_of(cps: &[u32]) -> Vec<RawGlyph<()>> {
    cps.iter()
        .enumerate()
        .map(|(i, cp)| {
            let (ch, origin) = if *cp == DIRECT {
                ('\u{0}', GlyphOrigin::Direct)
            } else {
                let c = char::from_u32(*cp).expect("scalar");
                (c, GlyphOrigin::Char(c))
            };
            RawGlyph {
                unicodes: tiny_vec![[char; 1] => ch],
                glyph_index: BASE + 1 + i as u16,
                liga_component_pos: 0,
                glyph_origin: origin,
                flags: RawGlyphFlags::empty(),
                variation: None,
                extra_data: (),
            }
        })
        .collect()
}

/// The real segmentation, projected. Err = panic message.
fn segment(fam: &str, cps: &[u32]) -> Result<Value, String> {
    let glyphs = glyphs_of(cps);
    let r = guarded(|| match fam {
        "indic" => indic::verif_syllables(&glyphs),
        "khmer" => khmer::verif_syllables(DC_INDEX, &glyphs),
        "myanmar" => myanmar::verif_syllables(&glyphs),
        _ => panic!("family"),
    });
    match r {
        Outcome::Panicked(m) => Err(m),
        Outcome::Returned(v) => Ok(Value::Array(
            v.into_iter()
                .map(|(idx, kind)| {
                    let pos: Vec<i64> = idx
                        .iter()
                        .map(|g| {
                            if *g > BASE {
                                (*g - BASE) as i64
                            } else if *g == DC_INDEX {
                                0
                            } else {
                                -1
                            }
                        })
                        .collect();
                    json!([pos, kind])
                })
                .collect(),
        )),
    }
}

fn dump_classes() -> BTreeMap<String, BTreeMap<String, Vec<u32>>> {
    let mut out = BTreeMap::new();
    for fam in FAMILIES {
        let mut m: BTreeMap<String, Vec<u32>> = BTreeMap::new();
        for cp in universe(fam) {
            if char::from_u32(cp).is_none() {
                continue;
            }
            m.entry(class_of(fam, cp)).or_default().push(cp);
        }
        out.insert(fam.to_string(), m);
    }
    out
}

fn bump(m: &mut BTreeMap<String, usize>, k: String) {
    *m.entry(k).or_insert(0) += 1;
}

fn block_of(cp: u32) -> u32 {
    cp >> 7
}

/// Choose a character of class `key`: variant 0 takes the first one, other variants rotate; characters of
/// the block chosen for this variant are preferred so that a case is also tried within ONE script.
fn pick(list: &[u32], pref_block: Option<u32>, salt: u64) -> u32 {
    if let Some(b) = pref_block {
        let same: Vec<u32> = list.iter().copied().filter(|c| block_of(*c) == b).collect();
        if !same.is_empty() {
            return same[(salt % same.len() as u64) as usize];
        }
    }
    list[(salt % list.len() as u64) as usize]
}

fn mix(a: u64, b: u64) -> u64 {
    let mut x = a.wrapping_mul(0x9E37_79B9_7F4A_7C15) ^ b.wrapping_add(0xD1B5_4A32_D192_ED03);
    x ^= x >> 29;
    x = x.wrapping_mul(0xBF58_476D_1CE4_E5B9);
    x ^ (x >> 32)
}

fn replay(cases: &str, out: &str, variants: u64) {
    let classes = dump_classes();
    let mut w = NdWriter::create(out);
    let (mut n_cases, mut n_runs, mut ok_primary, mut ok_dev, mut code_model, mut mism, mut panics) = (0usize, 0usize, 0usize, 0usize, 0usize, 0usize, 0usize);
    let mut by_defects: BTreeMap<String, usize> = BTreeMap::new();
    let mut kinds: BTreeMap<String, usize> = BTreeMap::new();
    let mut per_fam: BTreeMap<String, usize> = BTreeMap::new();
    let mut samples_by_defects: BTreeMap<String, usize> = BTreeMap::new();
    let mut chars_used: BTreeMap<String, std::collections::BTreeSet<u32>> = BTreeMap::new();
    let file = std::fs::File::open(cases).expect("cases");
    use std::io::BufRead;
    for (ln, line) in std::io::BufReader::new(file).lines().enumerate() {
        let line = line.expect("line");
        if line.trim().is_empty() {
            continue;
        }
        let c: Value = serde_json::from_str(&line).expect("case json");
        let fam = c["f"].as_str().expect("f");
        let cm = &classes[fam];
        n_cases += 1;
        bump(&mut per_fam, fam.to_string());
        let syms: Vec<String> = c["r"]
            .as_array()
            .expect("r")
            .iter()
            .map(|s| s.as_array().expect("sym").iter().map(|t| t.as_str().unwrap().to_string()).collect::<Vec<_>>().join("+"))
            .collect();
        for cl in c["e"].as_array().expect("e") {
            bump(&mut kinds, format!("{}|{}", fam, cl[1].as_str().unwrap_or("?")));
        }
        // blocks available for the "one script" variants: blocks of the characters of the first symbol
        let nv = if syms.is_empty() { 1 } else { variants };
        for v in 0..nv {
            let salt0 = mix(ln as u64, v);
            let pref = if v == 0 || syms.is_empty() {
                None
            } else {
                let l0 = cm.get(&syms[(salt0 % syms.len() as u64) as usize]);
                l0.map(|l| block_of(l[(mix(salt0, 1) % l.len() as u64) as usize]))
            };
            let mut cps = Vec::new();
            let mut missing = None;
            for (p, s) in syms.iter().enumerate() {
                match cm.get(s) {
                    Some(l) if !l.is_empty() => cps.push(if v == 0 { l[0] } else { pick(l, pref, mix(salt0, 7 + p as u64)) }),
                    _ => missing = Some(s.clone()),
                }
            }
            if let Some(s) = missing {
                w.write(&json!({"id": c["id"], "kind": "binding", "f": fam, "r": c["r"], "what": format!("no character of class {:?}", s)}));
                break;
            }
            chars_used.entry(fam.to_string()).or_default().extend(cps.iter().copied());
            n_runs += 1;
            let (got, panic) = match segment(fam, &cps) {
                Ok(g) => (g, String::new()),
                Err(m) => (Value::Null, m),
            };
            if !panic.is_empty() {
                panics += 1;
            }
            if panic.is_empty() && got == c["e"] {
                ok_primary += 1;
            } else if panic.is_empty() && c["x"].as_array().map(|x| x.iter().any(|a| *a == got)).unwrap_or(false) {
                ok_dev += 1;
            } else if panic.is_empty() && !c["k"].is_null() && c["k"].as_array().map(|k| !k.is_empty()).unwrap_or(false) && got == c["k"] {
                code_model += 1;
                let ds = format!("{}|{}", fam, c["d"].as_array().unwrap().iter().map(|d| d.as_str().unwrap()).collect::<Vec<_>>().join("+"));
                bump(&mut by_defects, ds.clone());
                let n = samples_by_defects.entry(ds).or_insert(0);
                if *n < 3 {
                    *n += 1;
                    w.write(&json!({"id": c["id"], "kind": "known", "f": fam, "r": c["r"], "cps": cps, "got": got, "e": c["e"], "d": c["d"], "panic": ""}));
                }
            } else {
                mism += 1;
                // the planted self-check case (it carries an id) is always written
                if mism <= 2000 || !c["id"].is_null() {
                    w.write(&json!({"id": c["id"], "kind": "mismatch", "f": fam, "r": c["r"], "cps": cps, "got": got, "e": c["e"], "d": [], "panic": panic}));
                }
            }
        }
    }
    w.finish();
    let used: BTreeMap<String, usize> = chars_used.iter().map(|(k, v)| (k.clone(), v.len())).collect();
    println!(
        "{}",
        json!({"cases": n_cases, "runs": n_runs, "ok_primary": ok_primary, "ok_dev_reading": ok_dev, "code_model": code_model,
               "code_model_by_defects": by_defects, "mismatches": mism, "panics": panics, "expected_kinds": kinds,
               "cases_per_family": per_fam, "distinct_characters_used": used})
    );
}

// ---- public path --------------------------------------------------------------------------------
struct Pub {
    font: Font<allsorts::font_data::DynamicFontTableProvider<'static>>,
    script: u32,
    dc_gid: u16,
    name: String,
}

fn tag(s: &str) -> u32 {
    let b = s.as_bytes();
    ((b[0] as u32) << 24) | ((b[1] as u32) << 16) | ((b[2] as u32) << 8) | (b[3] as u32)
}

fn open_pub(rel: &str, script: &str) -> Option<Pub> {
    let path = format!("{}/tests/fonts/{}", repo_root(), rel);
    let bytes: &'static [u8] = Box::leak(std::fs::read(&path).ok()?.into_boxed_slice());
    let r = guarded(|| {
        let fd = ReadScope::new(bytes).read::<FontData<'static>>().ok()?;
        let provider = fd.table_provider(0).ok()?;
        let mut font = Font::new(provider).ok()?;
        let dc = font.lookup_glyph_index('\u{25CC}', MatchingPresentation::NotRequired, None).0;
        Some((font, dc))
    });
    match r {
        Outcome::Returned(Some((font, dc))) if dc != 0 => Some(Pub { font, script: tag(script), dc_gid: dc, name: rel.to_string() }),
        _ => None,
    }
}

/// text -> (run as map_glyphs produced it, dotted circles inserted by shape or -1, error / panic text)
fn public_path(p: &mut Pub, cps: &[u32]) -> (Vec<u32>, i64, String) {
    let text: String = cps.iter().filter(|c| **c != DIRECT).map(|c| char::from_u32(*c).expect("scalar")).collect();
    let script = p.script;
    let dc_gid = p.dc_gid;
    let font = &mut p.font;
    let r = guarded(|| {
        let glyphs = font.map_glyphs(&text, script, MatchingPresentation::NotRequired);
        let run: Vec<u32> = glyphs
            .iter()
            .map(|g| match g.glyph_origin {
                GlyphOrigin::Char(c) => c as u32,
                GlyphOrigin::Direct => DIRECT,
            })
            .collect();
        let dc_in = glyphs.iter().filter(|g| g.glyph_index == dc_gid).count() as i64;
        let res = font.shape(glyphs, script, None, &Features::Mask(FeatureMask::default()), None, false);
        (run, dc_in, res)
    });
    match r {
        Outcome::Panicked(m) => (vec![], -1, format!("panic: {}", m)),
        Outcome::Returned((run, dc_in, res)) => match res {
            Ok(infos) => {
                let dc_out = infos.iter().filter(|i| i.glyph.glyph_index == dc_gid).count() as i64;
                (run, dc_out - dc_in, String::new())
            }
            Err((e, _)) => (run, -1, format!("error: {:?}", e)),
        },
    }
}

fn event(i: usize, case: &str, fam: &str, text: &[u32], run: &[u32], via: &str, dc: i64, pub_err: &str) -> (Value, bool) {
    let cls: Vec<Vec<String>> = run.iter().map(|c| terminals(&class_of(fam, *c))).collect();
    let (seg, panic) = match segment(fam, run) {
        Ok(g) => (g, String::new()),
        Err(m) => (json!([]), m),
    };
    let panicked = !panic.is_empty();
    (
        json!({"i": i, "case": case, "ev": "Seg",
               "a": {"f": fam, "text": text, "run": run, "cls": cls, "via": via},
               "o": {"seg": seg, "panic": panic, "dc": dc, "perr": pub_err}}),
        panicked,
    )
}

fn record(seed: u64, per_family: usize, out: &str) {
    let classes = dump_classes();
    let mut rng = StdRng::seed_from_u64(seed ^ 0x5807);
    let mut w = NdWriter::create(out);
    let mut n = 0usize;
    let (mut panics, mut via_font, mut reordered, mut with_direct, mut dc_observed, mut pub_errs) = (0usize, 0usize, 0usize, 0usize, 0usize, 0usize);
    let mut kinds: BTreeMap<String, usize> = BTreeMap::new();
    let mut lens: BTreeMap<String, usize> = BTreeMap::new();
    let mut fonts_used: BTreeMap<String, usize> = BTreeMap::new();
    // repository fonts for the public path: (family, block, font, script tag)
    let font_table: [(&str, u32, &str, &str); 6] = [
        ("indic", 0x0D00 >> 7, "malayalam/Rachana-Regular.ttf", "mlym"),
        ("indic", 0x0900 >> 7, "devanagari/AnnapurnaSIL-Regular.ttf", "deva"),
        ("indic", 0x0B80 >> 7, "tamil/lohit_ta.ttf", "taml"),
        ("indic", 0x0980 >> 7, "bengali/Lohit-Bengali.ttf", "beng"),
        ("khmer", 0x1780 >> 7, "khmer/Battambang-Regular.ttf", "khmr"),
        ("myanmar", 0x1000 >> 7, "myanmar/Padauk-Regular.ttf", "mymr"),
    ];
    let mut pubs: Vec<(String, u32, Option<Pub>)> = font_table.iter().map(|(f, b, p, s)| (f.to_string(), *b, open_pub(p, s))).collect();
    for fam in FAMILIES {
        let cm = &classes[fam];
        let keys: Vec<&String> = cm.keys().collect();
        let blocks: Vec<u32> = {
            let mut b: Vec<u32> = ranges(fam).iter().flat_map(|(a, z)| block_of(*a)..=block_of(*z)).collect();
            b.dedup();
            b
        };
        for k in 0..per_family {
            let len = match rng.gen_range(0..10) {
                0 => rng.gen_range(1..=3),
                1..=6 => rng.gen_range(2..=8),
                _ => rng.gen_range(6..=24),
            };
            // one block (= script) per string most of the time, so that real syllables are frequent
            let block = blocks[rng.gen_range(0..blocks.len())];
            let mode = rng.gen_range(0..10);
            let mut cps: Vec<u32> = Vec::new();
            for _ in 0..len {
                let cp = if mode < 6 {
                    // class-aware: uniform over classes, then a character of the class (of the block if any)
                    let key = keys[rng.gen_range(0..keys.len())];
                    pick(&cm[key], Some(block), rng.gen::<u64>())
                } else if mode < 9 {
                    // uniform over the block plus the common characters
                    if rng.gen_range(0..6) == 0 {
                        COMMON[rng.gen_range(0..COMMON.len())]
                    } else {
                        (block << 7) + rng.gen_range(0..128)
                    }
                } else {
                    let u = universe(fam);
                    u[rng.gen_range(0..u.len())]
                };
                if char::from_u32(cp).is_some() {
                    cps.push(cp);
                }
            }
            if cps.is_empty() {
                cps.push(0x25CC);
            }
            let mut text = cps.clone();
            let mut run = cps.clone();
            let mut via = "direct".to_string();
            let (mut dc, mut perr) = (-1i64, String::new());
            if k % 3 == 0 {
                // through the public path of a repository font of that script
                if let Some((_, _, Some(p))) = pubs.iter_mut().find(|(f, b, p)| f == fam && *b == block && p.is_some()) {
                    text.retain(|c| *c != 0xFFFF);
                    let (r, d, e) = public_path(p, &text);
                    if !e.starts_with("panic") && !r.is_empty() {
                        if r != text {
                            reordered += 1;
                        }
                        run = r;
                        via = p.name.clone();
                        dc = d;
                        via_font += 1;
                        bump(&mut fonts_used, p.name.clone());
                        if d >= 0 {
                            dc_observed += 1;
                        }
                    }
                    if !e.is_empty() {
                        pub_errs += 1;
                    }
                    perr = e;
                }
            } else if k % 7 == 0 {
                // a glyph that lost its character (GlyphOrigin::Direct)
                let p = rng.gen_range(0..run.len());
                run[p] = DIRECT;
                text = run.clone();
                with_direct += 1;
            }
            let (ev, panicked) = event(n, &format!("{}-{}", fam, k), fam, &text, &run, &via, dc, &perr);
            if panicked {
                panics += 1;
            }
            for cl in ev["o"]["seg"].as_array().unwrap() {
                bump(&mut kinds, format!("{}|{}", fam, cl[1].as_str().unwrap_or("?")));
            }
            bump(&mut lens, format!("{}", run.len().min(24)));
            w.write(&ev);
            n += 1;
        }
    }
    w.finish();
    let fonts_missing: Vec<String> = pubs.iter().filter(|(_, _, p)| p.is_none()).map(|(f, b, _)| format!("{}:{:X}", f, b << 7)).collect();
    println!(
        "{}",
        json!({"events": n, "panics": panics, "via_map_glyphs": via_font, "preprocessing_changed": reordered, "events_with_direct_glyphs": with_direct,
               "public_dc_observed": dc_observed, "public_errors": pub_errs, "observed_kinds": kinds, "fonts_used": fonts_used,
               "fonts_missing": fonts_missing})
    );
}

fn main() {
    let args: Vec<String> = std::env::args().collect();
    match args.get(1).map(|s| s.as_str()) {
        Some("classes") => {
            let c = dump_classes();
            std::fs::write(&args[2], serde_json::to_string(&c).unwrap()).expect("write");
            let sizes: BTreeMap<String, usize> = c.iter().map(|(k, v)| (k.clone(), v.len())).collect();
            println!("{}", json!({"classes": sizes}));
        }
        Some("replay") => replay(&args[2], &args[3], args.get(4).map(|s| s.parse().expect("variants")).unwrap_or(3)),
        Some("record") => record(args[2].parse().expect("seed"), args[3].parse().expect("n"), &args[4]),
        Some("one") => {
            let fam = args[2].as_str();
            let cps: Vec<u32> = args[4..].iter().map(|h| u32::from_str_radix(h, 16).expect("hex")).collect();
            let mut w = NdWriter::create(&args[3]);
            let (ev, _) = event(0, "replay", fam, &cps, &cps, "direct", -1, "");
            w.write(&ev);
            w.finish();
            println!("{}", json!({"events": 1, "seg": ev["o"]["seg"]}));
        }
        Some("seg") => {
            let fam = args[2].as_str();
            let cps: Vec<u32> = args[3..].iter().map(|h| u32::from_str_radix(h, 16).expect("hex")).collect();
            for c in &cps {
                println!("  {:04X} {}", c, class_of(fam, *c));
            }
            println!("{:?}", segment(fam, &cps));
        }
        Some("shape") => {
            // x07_syllables shape <font rel path> <script> <hex cp>... : public path probe
            let mut p = open_pub(&args[2], &args[3]).expect("font with a dotted circle");
            let cps: Vec<u32> = args[4..].iter().map(|h| u32::from_str_radix(h, 16).expect("hex")).collect();
            let (run, dc, err) = public_path(&mut p, &cps);
            println!("run {:X?} dotted circles inserted {} {}", run, dc, err);
        }
        _ => {
            eprintln!("usage: x07_syllables classes|replay|record|one|seg|shape ...");
            std::process::exit(2);
        }
    }
}
