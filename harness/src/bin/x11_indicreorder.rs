//! X11 harness: the initial reordering stage of the Indic shaper (base consonant, reph, pre-base matras,
//! position tags, stable sort, old-spec halant order, basic-feature masks).
//!
//! `initial_reorder_consonant_syllable` is private and its result is overwritten by the later stages, so
//! it is reached through the add-only `#[cfg(allsorts_verif)]` hook
//! `allsorts::scripts::indic::verif_initial_reorder` (notes/X11-hook.diff): it performs the set-up of
//! `gsub_apply_indic`, splits the run, inserts the dotted circle into broken clusters, calls the REAL
//! `initial_reorder_consonant_syllable` and returns per cluster kind, error text and per glyph
//! (glyph index, Pos tag, basic-feature mask).
//!
//! The font influence is explicit: a case carries the font as the record of what `would substitute` must
//! answer - {rphf: bool, blwf / pstf / pref: [consonant symbols]} - and the shaping model (indic2 = the
//! font has the new-spec script tag `dev2` ..., indic1 = only the old one). This file ENCODES that record
//! into a GSUB table: one LigatureSubst lookup per feature, ligatures (Halant, c) for new-spec and
//! (c, Halant) for old-spec fonts, (Ra, Halant) for rphf.
//! Glyph id = 100 + 32 * (input position, 0-based) + index of the symbol: the position and the symbol of
//! every glyph can be read off the result; id 7 is the dotted circle handed to the shaper.
//!
//!   x11_indicreorder replay <cases.ndjson> <mismatches.ndjson>
//!       every CASE of MC_IndicReorder {sc,m,f,k,r,c,e}: run the stage on code points `c` and compare the
//!       projection {order,sym,pos,mask,base} with `e` by JSON equality.
//!   x11_indicreorder record <seed> <n> <trace.ndjson>
//!       seeded random clusters (longer, more decorations, random fonts, several characters per symbol);
//!       one event per call for Trace_IndicReorder.
//!   x11_indicreorder one <trace.ndjson> <script> <indic2|indic1> <rphf 0|1> <blwf,> <pstf,> <pref,> <kind> <sym>...
//!   x11_indicreorder probe <script> <indic2|indic1> <rphf 0|1> <blwf,> <pstf,> <pref,> <kind> <sym>...
//!
//! The harness decides nothing: it records what allsorts returned.
use allsorts::binary::read::ReadScope;
use allsorts::gsub::{GlyphOrigin, RawGlyph, RawGlyphFlags};
use allsorts::layout::{new_layout_cache, LayoutCache, LayoutTable, GSUB};
use allsorts::scripts::indic;
use rand::rngs::StdRng;
use rand::{Rng, SeedableRng};
use serde_json::{json, Value};
use std::collections::BTreeMap;
use tinyvec::tiny_vec;
use vh::sup::{guarded, Outcome};
use vh::util::{read_ndjson, NdWriter};

const SYMS: [&str; 21] = [
    "K", "B", "P", "Ra", "H", "N", "ZWJ", "ZWNJ", "Mpre", "Mabv", "Mblw", "Mpst", "Mpst2", "SM", "A", "SMc", "V", "GB", "DC",
    "Repha", "CM",
];
const DC_INDEX: u16 = 7;
const BASE: u16 = 100;
const NPOS: u16 = 16;
const LIG: u16 = 9; // result of every ligature (never produced: the stage only asks `would substitute`)

fn sym_idx(s: &str) -> u16 {
    SYMS.iter().position(|x| *x == s).unwrap_or_else(|| panic!("symbol {:?}", s)) as u16
}
fn gid(pos: usize, sym: &str) -> u16 {
    assert!((pos as u16) < NPOS, "cluster too long");
    BASE + 32 * pos as u16 + sym_idx(sym)
}

// ---- own small GSUB encoder (as in x02_joining.rs) -------------------------------------------------
struct Obj {
    d: Vec<u8>,
    refs: Vec<(usize, usize)>,
    kids: Vec<Obj>,
}
impl Obj {
    fn new() -> Obj {
        Obj { d: Vec::new(), refs: Vec::new(), kids: Vec::new() }
    }
    fn u16(&mut self, v: u16) -> &mut Obj {
        self.d.extend_from_slice(&v.to_be_bytes());
        self
    }
    fn tag(&mut self, t: &str) -> &mut Obj {
        assert_eq!(t.len(), 4, "tag {:?}", t);
        self.d.extend_from_slice(t.as_bytes());
        self
    }
    fn off16(&mut self, child: Obj) -> &mut Obj {
        self.refs.push((self.d.len(), self.kids.len()));
        self.kids.push(child);
        self.u16(0)
    }
    fn flatten(self) -> Vec<u8> {
        let mut out = self.d;
        let mut at = Vec::new();
        for k in self.kids {
            at.push(out.len());
            out.extend(k.flatten());
        }
        for (pos, kid) in self.refs {
            let off = at[kid];
            assert!(off <= 0xFFFF, "16-bit offset overflow");
            out[pos..pos + 2].copy_from_slice(&(off as u16).to_be_bytes());
        }
        out
    }
}

#[derive(Clone, Debug)]
struct FontRec {
    rphf: bool,
    blwf: Vec<String>,
    pstf: Vec<String>,
    pref: Vec<String>,
}
fn strs(v: &Value) -> Vec<String> {
    let mut r: Vec<String> = v.as_array().map(|a| a.iter().map(|x| x.as_str().unwrap().to_string()).collect()).unwrap_or_default();
    r.sort();
    r
}
fn font_of(v: &Value) -> FontRec {
    FontRec { rphf: v["rphf"].as_bool().expect("rphf"), blwf: strs(&v["blwf"]), pstf: strs(&v["pstf"]), pref: strs(&v["pref"]) }
}
fn font_json(f: &FontRec) -> Value {
    json!({"rphf": f.rphf, "blwf": f.blwf, "pstf": f.pstf, "pref": f.pref})
}

/// LigatureSubst lookup: every (first symbol at any position, second symbol at any position) pair.
fn lig_lookup(pairs: &[(String, String)]) -> Obj {
    let mut firsts: BTreeMap<u16, Vec<u16>> = BTreeMap::new();
    for (a, b) in pairs {
        for p in 0..NPOS as usize {
            let e = firsts.entry(gid(p, a)).or_default();
            for q in 0..NPOS as usize {
                e.push(gid(q, b));
            }
        }
    }
    let mut cov = Obj::new();
    cov.u16(1).u16(firsts.len() as u16);
    for g in firsts.keys() {
        cov.u16(*g);
    }
    let mut st = Obj::new();
    st.u16(1).off16(cov).u16(firsts.len() as u16);
    for seconds in firsts.values() {
        let mut set = Obj::new();
        set.u16(seconds.len() as u16);
        for s in seconds {
            let mut lig = Obj::new();
            lig.u16(LIG).u16(2).u16(*s);
            set.off16(lig);
        }
        st.off16(set);
    }
    let mut lk = Obj::new();
    lk.u16(4).u16(0).u16(1).off16(st);
    lk
}

fn script_tag(sc: &str, model: &str) -> String {
    if model == "indic1" {
        return sc.to_string();
    }
    match sc {
        "deva" => "dev2",
        "beng" => "bng2",
        "guru" => "gur2",
        "gujr" => "gjr2",
        "orya" => "ory2",
        "taml" => "tml2",
        "telu" => "tel2",
        "knda" => "knd2",
        "mlym" => "mlm2",
        _ => panic!("script"),
    }
    .to_string()
}

fn build_gsub(sc: &str, model: &str, f: &FontRec) -> Vec<u8> {
    let pair = |c: &String| if model == "indic1" { (c.clone(), "H".to_string()) } else { ("H".to_string(), c.clone()) };
    let mut feats: Vec<(&str, Vec<(String, String)>)> = Vec::new();
    if !f.blwf.is_empty() {
        feats.push(("blwf", f.blwf.iter().map(pair).collect()));
    }
    if !f.pref.is_empty() {
        feats.push(("pref", f.pref.iter().map(pair).collect()));
    }
    if !f.pstf.is_empty() {
        feats.push(("pstf", f.pstf.iter().map(pair).collect()));
    }
    if f.rphf {
        feats.push(("rphf", vec![("Ra".to_string(), "H".to_string())]));
    }
    let mut ll = Obj::new();
    ll.u16(feats.len() as u16);
    let mut fl = Obj::new();
    fl.u16(feats.len() as u16);
    for (k, (tag, pairs)) in feats.iter().enumerate() {
        ll.off16(lig_lookup(pairs));
        let mut ft = Obj::new();
        ft.u16(0).u16(1).u16(k as u16);
        fl.tag(tag).off16(ft);
    }
    let mut ls = Obj::new();
    ls.u16(0).u16(0xFFFF).u16(feats.len() as u16);
    for k in 0..feats.len() {
        ls.u16(k as u16);
    }
    let mut scr = Obj::new();
    scr.off16(ls).u16(0);
    let mut sl = Obj::new();
    sl.u16(1).tag(&script_tag(sc, model)).off16(scr);
    let mut gsub = Obj::new();
    gsub.u16(1).u16(0).off16(sl).off16(fl).off16(ll);
    gsub.flatten()
}

fn tag(s: &str) -> u32 {
    let b = s.as_bytes();
    ((b[0] as u32) << 24) | ((b[1] as u32) << 16) | ((b[2] as u32) << 8) | (b[3] as u32)
}

struct Caches {
    m: BTreeMap<String, &'static LayoutCache<GSUB>>,
}
impl Caches {
    fn get(&mut self, sc: &str, model: &str, f: &FontRec) -> &'static LayoutCache<GSUB> {
        let key = format!("{}|{}|{:?}", sc, model, f);
        if let Some(c) = self.m.get(&key) {
            return c;
        }
        let bytes: &'static [u8] = Box::leak(build_gsub(sc, model, f).into_boxed_slice());
        let table = ReadScope::new(bytes).read::<LayoutTable<GSUB>>().expect("synthesized GSUB parses");
        let cache: &'static LayoutCache<GSUB> = Box::leak(Box::new(new_layout_cache(table)));
        self.m.insert(key, cache);
        cache
    }
}

/// One supervised call. Returns (observation, binding problem text).
fn run_stage(caches: &mut Caches, sc: &str, model: &str, f: &FontRec, kind: &str, syms: &[String], cps: &[u32]) -> (Value, String) {
    let cache = caches.get(sc, model, f);
    let glyphs: Vec<RawGlyph<()>> = syms
        .iter()
        .zip(cps.iter())
        .enumerate()
        .map(|(i, (s, cp))| {
            let ch = char::from_u32(*cp).expect("scalar");
            RawGlyph {
                unicodes: tiny_vec![[char; 1] => ch],
                glyph_index: gid(i, s),
                liga_component_pos: 0,
                glyph_origin: GlyphOrigin::Char(ch),
                flags: RawGlyphFlags::empty(),
                variation: None,
                extra_data: (),
            }
        })
        .collect();
    let sct = tag(sc);
    let r = guarded(|| indic::verif_initial_reorder(DC_INDEX, cache, &cache.layout_table, None, sct, None, &glyphs));
    let none = json!({"order": [], "sym": [], "pos": [], "mask": [], "base": 0});
    match r {
        Outcome::Panicked(m) => (json!({"r": none, "kind": "", "model": "", "err": "", "panic": m, "clusters": 0}), String::new()),
        Outcome::Returned(Err(e)) => (json!({"r": none, "kind": "", "model": "", "err": format!("{}", e), "panic": "", "clusters": 0}), String::new()),
        Outcome::Returned(Ok((got_model, clusters))) => {
            let n = clusters.len();
            let mut binding = String::new();
            if n != 1 {
                binding = format!("{} clusters", n);
            }
            let (k, err, gl) = match clusters.into_iter().next() {
                Some(c) => c,
                None => ("", String::new(), Vec::new()),
            };
            if binding.is_empty() && k != kind {
                binding = format!("kind {} instead of {}", k, kind);
            }
            if binding.is_empty() && got_model != model {
                binding = format!("model {} instead of {}", got_model, model);
            }
            let order: Vec<i64> = gl.iter().map(|(g, _, _)| if *g == DC_INDEX { 0 } else { ((*g - BASE) / 32) as i64 + 1 }).collect();
            let sym: Vec<&str> = gl.iter().map(|(g, _, _)| if *g == DC_INDEX { "DC" } else { SYMS[((*g - BASE) % 32) as usize] }).collect();
            let pos: Vec<&str> = gl.iter().map(|(_, p, _)| *p).collect();
            let mask: Vec<Vec<&str>> = gl.iter().map(|(_, _, m)| if m.is_empty() { vec![] } else { m.split('+').collect() }).collect();
            let base = pos.iter().position(|p| *p == "base").map(|p| p as i64 + 1).unwrap_or(0);
            (
                json!({"r": {"order": order, "sym": sym, "pos": pos, "mask": mask, "base": base},
                       "kind": k, "model": got_model, "err": err, "panic": "", "clusters": n}),
                binding,
            )
        }
    }
}

fn bump(m: &mut BTreeMap<String, usize>, k: String) {
    *m.entry(k).or_insert(0) += 1;
}

fn class_of_result(e: &Value) -> String {
    // vacuity classes computed from the EXPECTED result (TLC data)
    let pos: Vec<&str> = e["pos"].as_array().map(|a| a.iter().map(|p| p.as_str().unwrap_or("")).collect()).unwrap_or_default();
    let order: Vec<i64> = e["order"].as_array().map(|a| a.iter().map(|p| p.as_i64().unwrap_or(0)).collect()).unwrap_or_default();
    let mut v = Vec::new();
    if e["base"].as_i64() == Some(0) {
        v.push("nobase");
    }
    if pos.contains(&"reph") {
        v.push("reph");
    }
    if pos.contains(&"prem") {
        v.push("prem");
    }
    if pos.contains(&"belowc") {
        v.push("belowc");
    }
    if pos.contains(&"postc") {
        v.push("postc");
    }
    if pos.contains(&"prec") {
        v.push("prec");
    }
    let mut sorted = order.iter().filter(|x| **x != 0).cloned().collect::<Vec<_>>();
    let orig = sorted.clone();
    sorted.sort();
    if orig != sorted {
        v.push("moved");
    }
    v.join("+")
}

fn replay(cases: &str, out: &str) {
    let mut caches = Caches { m: BTreeMap::new() };
    let mut w = NdWriter::create(out);
    let (mut n, mut ok, mut mism, mut panics, mut binding) = (0usize, 0usize, 0usize, 0usize, 0usize);
    let mut classes: BTreeMap<String, usize> = BTreeMap::new();
    let mut feats: BTreeMap<String, usize> = BTreeMap::new();
    let mut per: BTreeMap<String, usize> = BTreeMap::new();
    let file = std::fs::File::open(cases).expect("cases");
    use std::io::BufRead;
    for line in std::io::BufReader::new(file).lines() {
        let line = line.expect("line");
        if line.trim().is_empty() {
            continue;
        }
        let c: Value = serde_json::from_str(&line).expect("case json");
        n += 1;
        let sc = c["sc"].as_str().expect("sc");
        let model = c["m"].as_str().expect("m");
        let kind = c["k"].as_str().expect("k");
        let f = font_of(&c["f"]);
        let syms = strs_keep(&c["r"]);
        let cps: Vec<u32> = c["c"].as_array().expect("c").iter().map(|x| x.as_u64().unwrap() as u32).collect();
        bump(&mut per, format!("{}|{}|{}", sc, model, kind));
        for cl in class_of_result(&c["e"]).split('+') {
            if !cl.is_empty() {
                bump(&mut classes, cl.to_string());
            }
        }
        for m in c["e"]["mask"].as_array().into_iter().flatten() {
            for x in m.as_array().into_iter().flatten() {
                bump(&mut feats, x.as_str().unwrap_or("").to_string());
            }
        }
        let (o, b) = run_stage(&mut caches, sc, model, &f, kind, &syms, &cps);
        let panic = o["panic"].as_str().unwrap_or("");
        if !panic.is_empty() {
            panics += 1;
        }
        if !b.is_empty() {
            binding += 1;
            w.write(&json!({"id": c["id"], "what": "binding", "why": b, "sc": sc, "m": model, "f": font_json(&f), "k": kind, "r": c["r"], "c": c["c"], "o": o}));
        } else if panic.is_empty() && o["err"] == "" && o["r"] == c["e"] {
            ok += 1;
        } else {
            mism += 1;
            if mism <= 3000 || !c["id"].is_null() {
                w.write(&json!({"id": c["id"], "what": "mismatch", "sc": sc, "m": model, "fn": c["fn"], "f": font_json(&f), "k": kind, "r": c["r"], "c": c["c"], "e": c["e"], "o": o}));
            }
        }
    }
    w.finish();
    println!(
        "{}",
        json!({"cases": n, "ok": ok, "mismatches": mism, "panics": panics, "binding": binding, "fonts_encoded": caches.m.len(),
               "expected_classes": classes, "expected_masks": feats, "cases_per_script_model_kind": per})
    );
}

fn strs_keep(v: &Value) -> Vec<String> {
    v.as_array().expect("array").iter().map(|x| x.as_str().unwrap().to_string()).collect()
}

// ---- alphabets for `record` (several characters per symbol) ----------------------------------------
fn chars_of(sc: &str, sym: &str) -> Vec<u32> {
    let base: u32 = match sc {
        "deva" => 0x0900,
        "beng" => 0x0980,
        "guru" => 0x0A00,
        "gujr" => 0x0A80,
        "orya" => 0x0B00,
        "taml" => 0x0B80,
        "telu" => 0x0C00,
        "knda" => 0x0C80,
        "mlym" => 0x0D00,
        _ => panic!("script"),
    };
    let rel = |v: &[u32]| v.iter().map(|x| base + x).collect::<Vec<u32>>();
    match sym {
        "ZWJ" => vec![0x200D],
        "ZWNJ" => vec![0x200C],
        "GB" => vec![0x00A0],
        "DC" => vec![0x25CC],
        "K" => {
            if sc == "taml" {
                rel(&[0x15, 0x1A, 0x1F])
            } else {
                rel(&[0x15, 0x16, 0x17, 0x24])
            }
        }
        "B" => {
            if sc == "taml" {
                rel(&[0x2A])
            } else {
                rel(&[0x2C])
            }
        }
        "P" => rel(&[0x2F]),
        "Ra" => rel(&[0x30]),
        "H" => rel(&[0x4D]),
        "N" => match sc {
            "taml" | "telu" | "mlym" => vec![],
            _ => rel(&[0x3C]),
        },
        "V" => rel(&[0x05, 0x07]),
        "SM" => match sc {
            "taml" => rel(&[0x02]),
            _ => rel(&[0x02, 0x03]),
        },
        "A" => {
            if sc == "deva" {
                vec![0x0951, 0x0952]
            } else {
                vec![]
            }
        }
        "SMc" => {
            if sc == "orya" {
                vec![0x0B01]
            } else {
                vec![]
            }
        }
        "Repha" => {
            if sc == "mlym" {
                vec![0x0D4E]
            } else {
                vec![]
            }
        }
        "CM" => {
            if sc == "guru" {
                vec![0x0A75]
            } else {
                vec![]
            }
        }
        "Mpre" => match sc {
            "deva" | "guru" | "gujr" => rel(&[0x3F]),
            "beng" => rel(&[0x3F, 0x47, 0x48]),
            "orya" => rel(&[0x47]),
            "taml" => rel(&[0x46, 0x47, 0x48]),
            "mlym" => rel(&[0x46, 0x47, 0x48]),
            _ => vec![],
        },
        "Mabv" => match sc {
            "deva" => rel(&[0x47, 0x48, 0x45]),
            "guru" => rel(&[0x47, 0x48, 0x4B]),
            "gujr" => rel(&[0x47, 0x48, 0x45]),
            "orya" => rel(&[0x3F]),
            "taml" => rel(&[0x40]),
            "telu" => rel(&[0x3E, 0x3F, 0x46]),
            "knda" => rel(&[0x3F, 0x46]),
            _ => vec![],
        },
        "Mblw" => match sc {
            "deva" | "gujr" => rel(&[0x41, 0x42, 0x43]),
            "beng" => rel(&[0x41, 0x42, 0x43]),
            "guru" => rel(&[0x41, 0x42]),
            "orya" => rel(&[0x41, 0x42, 0x43]),
            "telu" => rel(&[0x56]),
            "knda" => rel(&[0x62]),
            "mlym" => rel(&[0x43]),
            _ => vec![],
        },
        "Mpst" => match sc {
            "deva" => rel(&[0x3E, 0x40]),
            "beng" => rel(&[0x3E, 0x40]),
            "guru" => rel(&[0x3E, 0x40]),
            "gujr" => rel(&[0x3E, 0x40]),
            "orya" => rel(&[0x3E, 0x40]),
            "taml" => rel(&[0x3E, 0x3F, 0x41]),
            "telu" => rel(&[0x41, 0x42]),
            "knda" => rel(&[0x3E, 0x41, 0x42]),
            "mlym" => rel(&[0x3E, 0x3F, 0x40]),
            _ => vec![],
        },
        "Mpst2" => match sc {
            "telu" => rel(&[0x43, 0x44]),
            "knda" => rel(&[0x43, 0x44]),
            _ => vec![],
        },
        _ => vec![],
    }
}

const SCRIPTS: [&str; 9] = ["deva", "beng", "guru", "gujr", "orya", "taml", "telu", "knda", "mlym"];

fn rand_subset(rng: &mut StdRng, p: u32) -> Vec<String> {
    let mut v = Vec::new();
    for c in ["B", "K", "P", "Ra"] {
        // K never takes a form in the abstract alphabet of the specification: keep it out
        if c != "K" && rng.gen_range(0..100) < p {
            v.push(c.to_string());
        }
    }
    v
}

fn gen_cluster(rng: &mut StdRng, sc: &str) -> (String, Vec<String>) {
    let has = |s: &str| !chars_of(sc, s).is_empty();
    let cons = ["K", "B", "P", "Ra"];
    let mut v: Vec<String> = Vec::new();
    let push = |v: &mut Vec<String>, s: &str| v.push(s.to_string());
    let kind = match rng.gen_range(0..10) {
        0..=5 => "consonant",
        6 => "vowel",
        7 => "standalone",
        _ => "broken",
    };
    let units = rng.gen_range(0..=3);
    let post_unit = |rng: &mut StdRng, v: &mut Vec<String>| {
        match rng.gen_range(0..6) {
            0 => {
                push(v, "H");
                push(v, "ZWJ");
            }
            1 => {
                push(v, "ZWJ");
                push(v, "H");
            }
            _ => push(v, "H"),
        }
        push(v, cons[rng.gen_range(0..4)]);
        if has("N") && rng.gen_range(0..8) == 0 {
            push(v, "N");
        }
    };
    match kind {
        "consonant" => {
            if has("Repha") && rng.gen_range(0..3) == 0 {
                push(&mut v, "Repha");
            }
            for _ in 0..units {
                push(&mut v, cons[rng.gen_range(0..4)]);
                if has("N") && rng.gen_range(0..6) == 0 {
                    push(&mut v, "N");
                }
                match rng.gen_range(0..8) {
                    0 => {
                        push(&mut v, "H");
                        push(&mut v, "ZWJ");
                    }
                    1 => {
                        push(&mut v, "ZWJ");
                        push(&mut v, "H");
                    }
                    2 => {
                        push(&mut v, "ZWNJ");
                        push(&mut v, "H");
                    }
                    _ => push(&mut v, "H"),
                }
            }
            push(&mut v, cons[rng.gen_range(0..4)]);
            if has("N") && rng.gen_range(0..5) == 0 {
                push(&mut v, "N");
            }
        }
        "vowel" => {
            if rng.gen_range(0..3) == 0 {
                push(&mut v, "Ra");
                push(&mut v, "H");
            }
            push(&mut v, "V");
            for _ in 0..rng.gen_range(0..=2) {
                post_unit(rng, &mut v);
            }
        }
        "standalone" => {
            match rng.gen_range(0..4) {
                0 => push(&mut v, "GB"),
                1 => push(&mut v, "DC"),
                2 => {
                    push(&mut v, "Ra");
                    push(&mut v, "H");
                    push(&mut v, "DC");
                }
                _ => {
                    if has("Repha") {
                        push(&mut v, "Repha");
                    }
                    push(&mut v, "GB");
                }
            }
            for _ in 0..rng.gen_range(0..=2) {
                post_unit(rng, &mut v);
            }
        }
        _ => {
            if has("Repha") && rng.gen_range(0..3) == 0 {
                push(&mut v, "Repha");
            }
            if has("N") && rng.gen_range(0..3) == 0 {
                push(&mut v, "N");
            }
            for _ in 0..rng.gen_range(0..=2) {
                post_unit(rng, &mut v);
            }
        }
    }
    // tail
    let start_len = v.len();
    if has("CM") && rng.gen_range(0..3) == 0 {
        push(&mut v, "CM");
    }
    let matras: Vec<&str> = ["Mpre", "Mabv", "Mblw", "Mpst", "Mpst2"].iter().cloned().filter(|m| has(m)).collect();
    match rng.gen_range(0..10) {
        0 => {}
        1 => push(&mut v, "H"),
        2 => {
            push(&mut v, "H");
            push(&mut v, if rng.gen() { "ZWJ" } else { "ZWNJ" });
        }
        _ => {
            for _ in 0..rng.gen_range(1..=3) {
                if rng.gen_range(0..8) == 0 {
                    push(&mut v, if rng.gen() { "ZWJ" } else { "ZWNJ" });
                }
                push(&mut v, matras[rng.gen_range(0..matras.len())]);
                if has("N") && rng.gen_range(0..8) == 0 {
                    push(&mut v, "N");
                }
                if rng.gen_range(0..8) == 0 {
                    push(&mut v, "H");
                    break;
                }
            }
        }
    }
    if rng.gen_range(0..3) == 0 {
        push(&mut v, "SM");
        if has("A") && rng.gen_range(0..3) == 0 {
            push(&mut v, "A");
        }
    } else if has("SMc") && rng.gen_range(0..4) == 0 {
        push(&mut v, "SMc");
    }
    if kind == "broken" && v.len() == start_len && (v.is_empty() || v == vec!["Repha".to_string()]) {
        push(&mut v, matras[0]);
    }
    v.truncate(NPOS as usize - 1);
    (kind.to_string(), v)
}

fn event(caches: &mut Caches, i: usize, case: &str, sc: &str, model: &str, f: &FontRec, kind: &str, syms: &[String], cps: &[u32]) -> (Value, String) {
    let (o, b) = run_stage(caches, sc, model, f, kind, syms, cps);
    (
        json!({"i": i, "case": case, "ev": "InitialReorder",
               "a": {"sc": sc, "m": model, "f": font_json(f), "k": kind, "r": syms, "c": cps},
               "o": o}),
        b,
    )
}

fn record(seed: u64, n: usize, out: &str) {
    let mut rng = StdRng::seed_from_u64(seed ^ 0x5811);
    let mut caches = Caches { m: BTreeMap::new() };
    let mut w = NdWriter::create(out);
    let (mut written, mut skipped, mut panics) = (0usize, 0usize, 0usize);
    let mut kinds: BTreeMap<String, usize> = BTreeMap::new();
    let mut lens: BTreeMap<String, usize> = BTreeMap::new();
    let mut skipped_why: BTreeMap<String, usize> = BTreeMap::new();
    let mut tries = 0usize;
    while written < n && tries < n * 4 {
        tries += 1;
        let sc = SCRIPTS[rng.gen_range(0..SCRIPTS.len())];
        let model = if rng.gen_range(0..3) == 0 { "indic1" } else { "indic2" };
        let f = FontRec { rphf: rng.gen_range(0..4) != 0, blwf: rand_subset(&mut rng, 40), pstf: rand_subset(&mut rng, 40), pref: rand_subset(&mut rng, 30) };
        let (kind, syms) = gen_cluster(&mut rng, sc);
        if syms.is_empty() {
            continue;
        }
        let cps: Vec<u32> = syms
            .iter()
            .map(|s| {
                let l = chars_of(sc, s);
                l[rng.gen_range(0..l.len())]
            })
            .collect();
        let (ev, b) = event(&mut caches, written, &format!("r{}", tries), sc, model, &f, &kind, &syms, &cps);
        if !b.is_empty() {
            // the real segmentation (X07's subject) does not make ONE cluster of this kind: not an input of this stage
            skipped += 1;
            bump(&mut skipped_why, b.split(' ').last().unwrap_or("").to_string());
            continue;
        }
        if ev["o"]["panic"] != "" {
            panics += 1;
        }
        bump(&mut kinds, format!("{}|{}", model, kind));
        bump(&mut lens, format!("{}", syms.len()));
        w.write(&ev);
        written += 1;
    }
    w.finish();
    println!(
        "{}",
        json!({"events": written, "skipped_not_one_cluster": skipped, "skipped_why": skipped_why, "panics": panics, "kinds": kinds, "lengths": lens,
               "fonts_encoded": caches.m.len()})
    );
}

fn list(s: &str) -> Vec<String> {
    let mut v: Vec<String> = s.split(',').filter(|x| !x.is_empty() && *x != "-").map(|x| x.to_string()).collect();
    v.sort();
    v
}

fn main() {
    let args: Vec<String> = std::env::args().collect();
    match args.get(1).map(|s| s.as_str()) {
        Some("replay") => replay(&args[2], &args[3]),
        Some("record") => record(args[2].parse().expect("seed"), args[3].parse().expect("n"), &args[4]),
        Some("one") => {
            // one <trace> <script> <model> <rphf> <blwf> <pstf> <pref> <kind> <sym>...
            let f = FontRec { rphf: args[5] == "1", blwf: list(&args[6]), pstf: list(&args[7]), pref: list(&args[8]) };
            let syms: Vec<String> = args[10..].to_vec();
            let cps: Vec<u32> = syms.iter().map(|s| chars_of(&args[3], s)[0]).collect();
            let mut caches = Caches { m: BTreeMap::new() };
            let mut w = NdWriter::create(&args[2]);
            let (ev, b) = event(&mut caches, 0, "replay", &args[3], &args[4], &f, &args[9], &syms, &cps);
            w.write(&ev);
            w.finish();
            println!("{}", json!({"events": 1, "binding": b, "o": ev["o"]}));
        }
        Some("probe") => {
            let f = FontRec { rphf: args[4] == "1", blwf: list(&args[5]), pstf: list(&args[6]), pref: list(&args[7]) };
            let syms: Vec<String> = args[9..].to_vec();
            let cps: Vec<u32> = syms.iter().map(|s| chars_of(&args[2], s)[0]).collect();
            let mut caches = Caches { m: BTreeMap::new() };
            let (o, b) = run_stage(&mut caches, &args[2], &args[3], &f, &args[8], &syms, &cps);
            println!("{} {}", o, b);
        }
        _ => {
            eprintln!("usage: x11_indicreorder replay|record|one|probe ...");
            std::process::exit(2);
        }
    }
    let _ = read_ndjson;
}
