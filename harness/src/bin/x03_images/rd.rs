//! Independent readers of the X03 harness: real table bytes -> the abstract vocabulary of
//! specs/BitmapLookup.tla and specs/GlyphNames.tla.  Nothing here calls allsorts (the SVG reader
//! inflates gzip documents with flate2, the library allsorts uses too).
use super::cmapio::Tab;
use serde_json::{json, Value};
use std::collections::BTreeMap;
use std::io::Read;
use vh::fontgen::{be16, be32};

fn i8at(d: &[u8], at: usize) -> Option<i64> {
    d.get(at).map(|b| *b as i8 as i64)
}

fn big_metrics(d: &[u8], at: usize) -> Option<Value> {
    Some(json!({"h": *d.get(at)?, "w": *d.get(at + 1)?, "hbx": i8at(d, at + 2)?, "hby": i8at(d, at + 3)?,
                "hadv": *d.get(at + 4)?, "vbx": i8at(d, at + 5)?, "vby": i8at(d, at + 6)?, "vadv": *d.get(at + 7)?}))
}

fn no_big() -> Value {
    json!({"h": 0, "w": 0, "hbx": 0, "hby": 0, "hadv": 0, "vbx": 0, "vby": 0, "vadv": 0})
}

/// EBLC / CBLC -> {ver, strikes: [...]}.  None: truncated or a format this reader does not know.
pub fn read_loc(d: &[u8]) -> Option<Value> {
    let ver = be16(d, 0)?;
    let n = be32(d, 4)? as usize;
    if n > 4096 {
        return None;
    }
    let mut strikes = Vec::new();
    for s in 0..n {
        let at = 8 + 48 * s;
        let arr_off = be32(d, at)? as usize;
        let nsub = be32(d, at + 8)? as usize;
        if nsub > 65536 {
            return None;
        }
        let mut subs = Vec::new();
        for k in 0..nsub {
            let r = arr_off + 8 * k;
            let first = be16(d, r)? as usize;
            let last = be16(d, r + 2)? as usize;
            let st = arr_off + be32(d, r + 4)? as usize;
            let ifmt = be16(d, st)?;
            let imf = be16(d, st + 2)?;
            let ido = be32(d, st + 4)?;
            let (mut offs, mut size, mut bm, mut gids, mut pairs) = (vec![], 0u32, no_big(), vec![], vec![]);
            match ifmt {
                1 => {
                    for j in 0..(last.checked_sub(first)? + 2) {
                        offs.push(be32(d, st + 8 + 4 * j)?);
                    }
                }
                2 => {
                    size = be32(d, st + 8)?;
                    bm = big_metrics(d, st + 12)?;
                }
                3 => {
                    for j in 0..(last.checked_sub(first)? + 2) {
                        offs.push(be16(d, st + 8 + 2 * j)? as u32);
                    }
                }
                4 => {
                    let ng = be32(d, st + 8)? as usize;
                    if ng > 65536 {
                        return None;
                    }
                    for j in 0..(ng + 1) {
                        pairs.push(json!([be16(d, st + 12 + 4 * j)?, be16(d, st + 14 + 4 * j)?]));
                    }
                }
                5 => {
                    size = be32(d, st + 8)?;
                    bm = big_metrics(d, st + 12)?;
                    let ng = be32(d, st + 20)? as usize;
                    if ng > 65536 {
                        return None;
                    }
                    for j in 0..ng {
                        gids.push(be16(d, st + 24 + 2 * j)?);
                    }
                }
                _ => return None,
            }
            subs.push(json!({"first": first, "last": last, "ifmt": ifmt, "imf": imf, "ido": ido, "offs": offs,
                             "size": size, "bm": bm, "gids": gids, "pairs": pairs}));
        }
        strikes.push(json!({
            "ha": i8at(d, at + 16)?, "hd": i8at(d, at + 17)?, "va": i8at(d, at + 28)?, "vd": i8at(d, at + 29)?,
            "start": be16(d, at + 40)?, "end": be16(d, at + 42)?,
            "px": *d.get(at + 44)?, "py": *d.get(at + 45)?, "bd": *d.get(at + 46)?, "fl": i8at(d, at + 47)?,
            "subs": subs,
        }));
    }
    Some(json!({"ver": ver, "strikes": strikes}))
}

/// sbix -> {strikes: [{ppem, ppi, offs, bytes}]}; the bytes of a strike run to the next strike
/// (by offset) or to the end of the table.
pub fn read_sbix(d: &[u8], num_glyphs: usize) -> Option<Value> {
    if be16(d, 0)? != 1 {
        return None;
    }
    let n = be32(d, 4)? as usize;
    if n > 4096 {
        return None;
    }
    let mut starts = Vec::new();
    for k in 0..n {
        starts.push(be32(d, 8 + 4 * k)? as usize);
    }
    let mut sorted = starts.clone();
    sorted.push(d.len());
    sorted.sort_unstable();
    let mut strikes = Vec::new();
    for &st in &starts {
        let end = *sorted.iter().find(|&&x| x > st)?;
        let body = d.get(st..end)?;
        let mut offs = Vec::new();
        for j in 0..(num_glyphs + 1) {
            offs.push(be32(body, 4 + 4 * j)?);
        }
        strikes.push(json!({"ppem": be16(body, 0)?, "ppi": be16(body, 2)?, "offs": offs, "bytes": body}));
    }
    Some(json!({"strikes": strikes}))
}

/// SVG -> {recs: [{s, e, doc}], docs: [{gz, plain}]}
pub fn read_svg(d: &[u8]) -> Option<Value> {
    if be16(d, 0)? != 0 {
        return None;
    }
    let list = be32(d, 2)? as usize;
    let n = be16(d, list)? as usize;
    let mut docs: Vec<Value> = Vec::new();
    let mut seen: BTreeMap<(usize, usize), usize> = BTreeMap::new();
    let mut recs = Vec::new();
    for k in 0..n {
        let r = list + 2 + 12 * k;
        let off = be32(d, r + 4)? as usize;
        let len = be32(d, r + 8)? as usize;
        let idx = match seen.get(&(off, len)) {
            Some(x) => *x,
            None => {
                let raw = d.get(list + off..(list + off).checked_add(len)?)?;
                let gz = raw.starts_with(&[0x1F, 0x8B, 0x08]);
                let plain = if gz {
                    let mut out = Vec::new();
                    flate2::read::GzDecoder::new(raw).read_to_end(&mut out).ok()?;
                    out
                } else {
                    raw.to_vec()
                };
                docs.push(json!({"gz": gz, "plain": plain}));
                seen.insert((off, len), docs.len());
                docs.len()
            }
        };
        recs.push(json!({"s": be16(d, r)?, "e": be16(d, r + 2)?, "doc": idx}));
    }
    Some(json!({"recs": recs, "docs": docs}))
}

/// post -> {ver, idx, strs, offs}.  Strings must be UTF-8 (else None: not in the modelled fragment).
/// All Pascal strings that fit in the table are read, not only those an index refers to.
pub fn read_post(d: &[u8]) -> Option<Value> {
    let v = be32(d, 0)?;
    let ver = match v {
        0x00010000 => 1,
        0x00020000 => 2,
        0x00025000 => 25,
        0x00030000 => 3,
        0x00040000 => 4,
        _ => return None,
    };
    let (mut idx, mut strs, mut offs): (Vec<u16>, Vec<String>, Vec<i64>) = (vec![], vec![], vec![]);
    if ver == 2 {
        let n = be16(d, 32)? as usize;
        for j in 0..n {
            idx.push(be16(d, 34 + 2 * j)?);
        }
        let mut at = 34 + 2 * n;
        while at < d.len() {
            let len = d[at] as usize;
            let b = match d.get(at + 1..at + 1 + len) {
                Some(b) => b,
                None => break,
            };
            strs.push(std::str::from_utf8(b).ok()?.to_string());
            at += 1 + len;
        }
    } else if ver == 25 {
        let n = be16(d, 32)? as usize;
        for j in 0..n {
            offs.push(i8at(d, 34 + j)?);
        }
    }
    Some(json!({"ver": ver, "idx": idx, "strs": strs, "offs": offs}))
}

/// Glyph lookup of an abstract cmap sub-table (formats 0, 4, 6, 10, 12), written from the format
/// descriptions.  None: format 2 (not handled here).
pub fn tab_lookup(t: &Tab, c: u32) -> Option<u16> {
    match t {
        Tab::F0 { gia } => Some(gia.get(c as usize).cloned().unwrap_or(0)),
        Tab::F2 { .. } => None,
        Tab::F4 { segs, gia } => {
            if c > 0xFFFF {
                return Some(0);
            }
            let c = c as u16;
            for (k, s) in segs.iter().enumerate() {
                if s.1 >= c {
                    if s.0 > c {
                        return Some(0);
                    }
                    let ro = if s.3 == 0xFFFF { 0 } else { s.3 };
                    if ro == 0 {
                        return Some(c.wrapping_add(s.2 as u16));
                    }
                    let at = (ro as usize / 2 + (c - s.0) as usize).checked_sub(segs.len() - k);
                    let g = at.and_then(|a| gia.get(a)).cloned().unwrap_or(0);
                    return Some(if g == 0 { 0 } else { g.wrapping_add(s.2 as u16) });
                }
            }
            Some(0)
        }
        Tab::F6 { first, gia } => Some(
            (c as usize).checked_sub(*first as usize).and_then(|k| gia.get(k)).cloned().unwrap_or(0),
        ),
        Tab::F10 { first, gia } => Some(
            (c as usize).checked_sub(*first as usize).and_then(|k| gia.get(k)).cloned().unwrap_or(0),
        ),
        Tab::F12 { groups } => {
            for g in groups {
                if g.0 <= c && c <= g.1 {
                    let v = g.2 as u64 + (c - g.0) as u64;
                    return Some(if v > 0xFFFF { 0 } else { v as u16 });
                }
            }
            Some(0)
        }
    }
}

/// gid -> the first (lowest) code that the sub-table maps to it.
pub fn first_codes(t: &Tab) -> Option<BTreeMap<u16, u32>> {
    let mut m = BTreeMap::new();
    for c in t.covered() {
        let g = tab_lookup(t, c)?;
        m.entry(g).or_insert(c);
    }
    Some(m)
}
