//! C05 encoder: abstract positioning program (the JSON shape printed by MC_Gpos / produced by
//! rnd.rs) -> real GDEF, GPOS and kern table bytes. Independent of allsorts' own writers.
//!
//! Every offset is written relative to the table OpenType says it is relative to; sub-objects are
//! laid out depth first behind their parent.
use serde_json::Value;

pub struct Obj {
    d: Vec<u8>,
    refs: Vec<(usize, usize, bool)>, // position of the offset field, child index, 32-bit
    kids: Vec<Obj>,
}

impl Obj {
    pub fn new() -> Obj {
        Obj { d: Vec::new(), refs: Vec::new(), kids: Vec::new() }
    }
    pub fn u16(&mut self, v: u16) -> &mut Obj {
        self.d.extend_from_slice(&v.to_be_bytes());
        self
    }
    pub fn i16(&mut self, v: i16) -> &mut Obj {
        self.d.extend_from_slice(&v.to_be_bytes());
        self
    }
    pub fn i8(&mut self, v: i8) -> &mut Obj {
        self.d.push(v as u8);
        self
    }
    pub fn u32(&mut self, v: u32) -> &mut Obj {
        self.d.extend_from_slice(&v.to_be_bytes());
        self
    }
    pub fn tag(&mut self, t: &str) -> &mut Obj {
        assert_eq!(t.len(), 4);
        self.d.extend_from_slice(t.as_bytes());
        self
    }
    /// 16-bit offset (from the start of this object) to `child`
    pub fn off16(&mut self, child: Obj) -> &mut Obj {
        self.refs.push((self.d.len(), self.kids.len(), false));
        self.kids.push(child);
        self.u16(0)
    }
    pub fn off32(&mut self, child: Obj) -> &mut Obj {
        self.refs.push((self.d.len(), self.kids.len(), true));
        self.kids.push(child);
        self.u32(0)
    }
    pub fn null16(&mut self) -> &mut Obj {
        self.u16(0)
    }
    pub fn opt16(&mut self, child: Option<Obj>) -> &mut Obj {
        match child {
            Some(c) => self.off16(c),
            None => self.null16(),
        }
    }
    pub fn flatten(self) -> Vec<u8> {
        let mut out = self.d;
        let mut at = Vec::new();
        for k in self.kids {
            at.push(out.len());
            out.extend(k.flatten());
        }
        for (pos, kid, wide) in self.refs {
            let off = at[kid];
            if wide {
                out[pos..pos + 4].copy_from_slice(&(off as u32).to_be_bytes());
            } else {
                assert!(off <= 0xFFFF, "16-bit offset overflow");
                out[pos..pos + 2].copy_from_slice(&(off as u16).to_be_bytes());
            }
        }
        out
    }
}

// ---- json access ------------------------------------------------------------------------------
pub fn int(v: &Value) -> i64 {
    v.as_i64().unwrap_or_else(|| panic!("expected integer, got {}", v))
}
pub fn arr(v: &Value) -> &Vec<Value> {
    v.as_array().unwrap_or_else(|| panic!("expected array, got {}", v))
}
pub fn ints(v: &Value) -> Vec<i64> {
    arr(v).iter().map(int).collect()
}
fn flag_of(v: &Value) -> bool {
    v.as_bool().unwrap_or_else(|| panic!("expected bool, got {}", v))
}

// ---- common tables -------------------------------------------------------------------------------
/// Coverage {f, g}: format 1 glyph list, format 2 ranges of consecutive glyphs.
pub fn coverage(c: &Value) -> Obj {
    let gs = ints(&c["g"]);
    let mut o = Obj::new();
    if int(&c["f"]) == 1 {
        o.u16(1).u16(gs.len() as u16);
        for g in &gs {
            o.u16(*g as u16);
        }
    } else {
        let mut ranges: Vec<(i64, i64, usize)> = Vec::new();
        for (i, g) in gs.iter().enumerate() {
            match ranges.last_mut() {
                Some(r) if r.1 + 1 == *g => r.1 = *g,
                _ => ranges.push((*g, *g, i)),
            }
        }
        o.u16(2).u16(ranges.len() as u16);
        for (s, e, i) in ranges {
            o.u16(s as u16).u16(e as u16).u16(i as u16);
        }
    }
    o
}

/// ClassDef {f, m}: m[g] = class of glyph g. Format 1 from the first to the last classified
/// glyph, format 2 ranges of consecutive glyphs of one non-zero class.
pub fn classdef(c: &Value) -> Obj {
    let m = ints(&c["m"]);
    let mut o = Obj::new();
    if int(&c["f"]) == 1 {
        let first = m.iter().position(|&x| x != 0);
        let last = m.iter().rposition(|&x| x != 0);
        match (first, last) {
            (Some(a), Some(b)) => {
                o.u16(1).u16(a as u16).u16((b - a + 1) as u16);
                for x in &m[a..=b] {
                    o.u16(*x as u16);
                }
            }
            _ => {
                o.u16(1).u16(0).u16(0);
            }
        }
    } else {
        let mut ranges: Vec<(usize, usize, i64)> = Vec::new();
        for (g, &cl) in m.iter().enumerate() {
            if cl == 0 {
                continue;
            }
            match ranges.last_mut() {
                Some(r) if r.1 + 1 == g && r.2 == cl => r.1 = g,
                _ => ranges.push((g, g, cl)),
            }
        }
        o.u16(2).u16(ranges.len() as u16);
        for (s, e, cl) in ranges {
            o.u16(s as u16).u16(e as u16).u16(cl as u16);
        }
    }
    o
}

/// How the program's font carries GDEF: "full" (default), "noclassdef" (GDEF table whose
/// glyphClassDefOffset is NULL), "absent" (no GDEF table at all).
pub fn gdef_tab(g: &Value) -> &str {
    g["tab"].as_str().unwrap_or("full")
}

/// ItemVariationStore (format 1) of `var`: region list (axisCount x [start, peak, end] F2Dot14 per
/// region) and one ItemVariationData per entry of var.data (wc 16-bit columns, the rest 8-bit).
fn item_variation_store(var: &Value) -> Obj {
    let regions = arr(&var["regions"]);
    let axes = arr(&var["tuple"]["c"]).len();
    let mut rl = Obj::new();
    rl.u16(axes as u16).u16(regions.len() as u16);
    for reg in regions {
        let reg = arr(reg);
        assert_eq!(reg.len(), axes, "region axis count");
        for a in reg {
            rl.i16(int(&a["s"]) as i16).i16(int(&a["p"]) as i16).i16(int(&a["e"]) as i16);
        }
    }
    let data = arr(&var["data"]);
    let mut o = Obj::new();
    o.u16(1).off32(rl).u16(data.len() as u16);
    for blk in data {
        let regs = ints(&blk["regs"]);
        let wc = int(&blk["wc"]) as usize;
        let sets = arr(&blk["sets"]);
        let mut d = Obj::new();
        d.u16(sets.len() as u16).u16(wc as u16).u16(regs.len() as u16);
        for r in &regs {
            d.u16(*r as u16);
        }
        for row in sets {
            let row = ints(row);
            assert_eq!(row.len(), regs.len(), "delta set width");
            for (k, v) in row.iter().enumerate() {
                if k < wc {
                    d.i16(*v as i16);
                } else {
                    assert!((-128..=127).contains(v), "8-bit delta column");
                    d.i8(*v as i8);
                }
            }
        }
        o.off32(d);
    }
    o
}

/// Device / VariationIndex table behind an offset of a value record or an anchor:
/// {k:"null"} -> NULL offset, {k:"hint", fmt} -> Device table for ppem 12..13 with non-zero pixel
/// deltas in delta format 1..3, {k:"var", o, i} -> VariationIndex (deltaFormat 0x8000).
fn device(d: &Value) -> Option<Obj> {
    let mut o = Obj::new();
    match d["k"].as_str().unwrap_or("null") {
        "null" => return None,
        "hint" => {
            let f = int(&d["fmt"]) as u16;
            let word = match f {
                1 => 0x6000u16, // 2-bit values 1, -2
                2 => 0x3F00,    // 4-bit values 3, -1
                _ => 0x05FD,    // 8-bit values 5, -3
            };
            o.u16(12).u16(13).u16(f).u16(word);
        }
        "var" => {
            o.u16(int(&d["o"]) as u16).u16(int(&d["i"]) as u16).u16(0x8000);
        }
        k => panic!("unknown device kind {}", k),
    }
    Some(o)
}

/// GDEF 1.2: glyph class definition (NULL offset for tab = "noclassdef"), mark attachment classes,
/// mark glyph sets; GDEF 1.3 with an ItemVariationStore when the program's `var` says the font has
/// one. `None` when the font has no GDEF table.
pub fn gdef(g: &Value, var: Option<&Value>) -> Option<Vec<u8>> {
    let tab = gdef_tab(g);
    if tab == "absent" {
        return None;
    }
    let cls = serde_json::json!({"f": 2, "m": g["cls"]});
    let att = serde_json::json!({"f": 1, "m": g["att"]});
    let store = var.filter(|v| v["store"].as_bool().unwrap_or(false));
    let mut o = Obj::new();
    o.u16(1).u16(if store.is_some() { 3 } else { 2 });
    if tab == "noclassdef" {
        o.null16();
    } else {
        assert_eq!(tab, "full", "unknown gdef.tab");
        o.off16(classdef(&cls));
    }
    o.null16().null16().off16(classdef(&att));
    let sets = arr(&g["sets"]);
    if sets.is_empty() {
        o.null16();
    } else {
        let mut s = Obj::new();
        s.u16(1).u16(sets.len() as u16);
        for (i, set) in sets.iter().enumerate() {
            let cov = serde_json::json!({"f": 1 + (i % 2), "g": set});
            s.off32(coverage(&cov));
        }
        o.off16(s);
    }
    if let Some(v) = store {
        o.off32(item_variation_store(v));
    }
    Some(o.flatten())
}

fn value_record(o: &mut Obj, vf: i64, v: &Value) {
    let fields = ["xp", "yp", "xa", "ya"];
    for (b, f) in fields.iter().enumerate() {
        if vf & (1 << b) != 0 {
            o.i16(int(&v[*f]) as i16);
        }
    }
    // device / variation index offsets, relative to the object the record is written into (the
    // SinglePos / PairPos format 2 subtable, the PairSet of PairPos format 1); null without v.dev
    for b in 4..8 {
        if vf & (1 << b) != 0 {
            match v.get("dev") {
                Some(dev) => {
                    o.opt16(device(&arr(dev)[b - 4]));
                }
                None => {
                    o.u16(0);
                }
            }
        }
    }
}

/// Anchor {f, x, y}; f = 0 is a null offset.
fn anchor(a: &Value) -> Option<Obj> {
    let f = int(&a["f"]);
    if f == 0 {
        return None;
    }
    let mut o = Obj::new();
    o.u16(f as u16).i16(int(&a["x"]) as i16).i16(int(&a["y"]) as i16);
    match f {
        2 => {
            o.u16(3); // anchorPoint (contour point index, unused without hinting)
        }
        3 => match a.get("dev") {
            // xDeviceOffset, yDeviceOffset from the beginning of the Anchor table
            Some(dev) => {
                o.opt16(device(&arr(dev)[0])).opt16(device(&arr(dev)[1]));
            }
            None => {
                o.null16().null16();
            }
        },
        _ => {}
    }
    Some(o)
}

fn lookup_records(o: &mut Obj, recs: &Value) {
    for r in arr(recs) {
        let r = ints(r);
        o.u16(r[0] as u16).u16(r[1] as u16);
    }
}

fn mark_array(marks: &Value) -> Obj {
    let ms = arr(marks);
    let mut o = Obj::new();
    o.u16(ms.len() as u16);
    for m in ms {
        o.u16(int(&m["c"]) as u16);
        o.off16(anchor(&m["a"]).expect("mark anchor must not be null"));
    }
    o
}

// ---- GPOS subtables ----------------------------------------------------------------------------
fn subtable(ty: i64, st: &Value) -> Obj {
    let mut o = Obj::new();
    match ty {
        1 => {
            let vf = int(&st["vf"]);
            if int(&st["f"]) == 1 {
                o.u16(1).off16(coverage(&st["cov"])).u16(vf as u16);
                value_record(&mut o, vf, &st["v"]);
            } else {
                let vs = arr(&st["vs"]);
                o.u16(2).off16(coverage(&st["cov"])).u16(vf as u16).u16(vs.len() as u16);
                for v in vs {
                    value_record(&mut o, vf, v);
                }
            }
        }
        2 => {
            let (vf1, vf2) = (int(&st["vf1"]), int(&st["vf2"]));
            if int(&st["f"]) == 1 {
                let sets = arr(&st["sets"]);
                o.u16(1).off16(coverage(&st["cov"])).u16(vf1 as u16).u16(vf2 as u16).u16(sets.len() as u16);
                for set in sets {
                    let recs = arr(set);
                    let mut ps = Obj::new();
                    ps.u16(recs.len() as u16);
                    for r in recs {
                        ps.u16(int(&r["g2"]) as u16);
                        value_record(&mut ps, vf1, &r["v1"]);
                        value_record(&mut ps, vf2, &r["v2"]);
                    }
                    o.off16(ps);
                }
            } else {
                let rows = arr(&st["recs"]);
                let c2n = rows.first().map(|r| arr(r).len()).unwrap_or(0);
                o.u16(2).off16(coverage(&st["cov"])).u16(vf1 as u16).u16(vf2 as u16);
                o.off16(classdef(&st["cd1"])).off16(classdef(&st["cd2"]));
                o.u16(rows.len() as u16).u16(c2n as u16);
                for row in rows {
                    for r in arr(row) {
                        value_record(&mut o, vf1, &r["v1"]);
                        value_record(&mut o, vf2, &r["v2"]);
                    }
                }
            }
        }
        3 => {
            let recs = arr(&st["recs"]);
            o.u16(1).off16(coverage(&st["cov"])).u16(recs.len() as u16);
            for r in recs {
                o.opt16(anchor(&r["en"]));
                o.opt16(anchor(&r["ex"]));
            }
        }
        4 | 6 => {
            o.u16(1).off16(coverage(&st["mcov"])).off16(coverage(&st["bcov"])).u16(int(&st["nc"]) as u16);
            o.off16(mark_array(&st["marks"]));
            let bases = arr(&st["bases"]);
            let mut ba = Obj::new();
            ba.u16(bases.len() as u16);
            for b in bases {
                for a in arr(b) {
                    ba.opt16(anchor(a));
                }
            }
            o.off16(ba);
        }
        5 => {
            o.u16(1).off16(coverage(&st["mcov"])).off16(coverage(&st["lcov"])).u16(int(&st["nc"]) as u16);
            o.off16(mark_array(&st["marks"]));
            let ligs = arr(&st["ligs"]);
            let mut la = Obj::new();
            la.u16(ligs.len() as u16);
            for lig in ligs {
                let comps = arr(lig);
                let mut att = Obj::new();
                att.u16(comps.len() as u16);
                for comp in comps {
                    for a in arr(comp) {
                        att.opt16(anchor(a));
                    }
                }
                la.off16(att);
            }
            o.off16(la);
        }
        7 | 8 => {
            let chain = ty == 8;
            let f = int(&st["f"]);
            if f == 3 {
                if chain {
                    o.u16(3);
                    for key in ["bt", "inp", "la"] {
                        let cs = arr(&st[key]);
                        o.u16(cs.len() as u16);
                        for c in cs {
                            o.off16(coverage(c));
                        }
                    }
                    let recs = arr(&st["recs"]);
                    o.u16(recs.len() as u16);
                    lookup_records(&mut o, &st["recs"]);
                } else {
                    let cs = arr(&st["covs"]);
                    let recs = arr(&st["recs"]);
                    o.u16(3).u16(cs.len() as u16).u16(recs.len() as u16);
                    for c in cs {
                        o.off16(coverage(c));
                    }
                    lookup_records(&mut o, &st["recs"]);
                }
            } else {
                o.u16(f as u16).off16(coverage(&st["cov"]));
                if f == 2 {
                    if chain {
                        o.off16(classdef(&st["bcd"])).off16(classdef(&st["icd"])).off16(classdef(&st["lcd"]));
                    } else {
                        o.off16(classdef(&st["cd"]));
                    }
                }
                let sets = arr(&st["sets"]);
                o.u16(sets.len() as u16);
                for set in sets {
                    let rules = arr(set);
                    if rules.is_empty() {
                        o.null16();
                        continue;
                    }
                    let mut rs = Obj::new();
                    rs.u16(rules.len() as u16);
                    for rule in rules {
                        let mut r = Obj::new();
                        let inp = ints(&rule["inp"]);
                        let recs = arr(&rule["recs"]);
                        if chain {
                            let bt = ints(&rule["bt"]);
                            let la = ints(&rule["la"]);
                            r.u16(bt.len() as u16);
                            for x in &bt {
                                r.u16(*x as u16);
                            }
                            r.u16(inp.len() as u16 + 1);
                            for x in &inp {
                                r.u16(*x as u16);
                            }
                            r.u16(la.len() as u16);
                            for x in &la {
                                r.u16(*x as u16);
                            }
                            r.u16(recs.len() as u16);
                        } else {
                            r.u16(inp.len() as u16 + 1).u16(recs.len() as u16);
                            for x in &inp {
                                r.u16(*x as u16);
                            }
                        }
                        lookup_records(&mut r, &rule["recs"]);
                        rs.off16(r);
                    }
                    o.off16(rs);
                }
            }
        }
        _ => panic!("lookup type {} not encodable", ty),
    }
    o
}

fn lookup(l: &Value) -> Obj {
    let ty = int(&l["ty"]);
    let flag = int(&l["flag"]) as u16;
    let ext = flag_of(&l["ext"]);
    let subs = arr(&l["subs"]);
    let mut o = Obj::new();
    o.u16(if ext { 9 } else { ty as u16 }).u16(flag).u16(subs.len() as u16);
    for st in subs {
        let body = subtable(ty, st);
        if ext {
            let mut e = Obj::new();
            e.u16(1).u16(ty as u16).off32(body);
            o.off16(e);
        } else {
            o.off16(body);
        }
    }
    if flag & 0x10 != 0 {
        o.u16(int(&l["mfs"]).max(0) as u16);
    }
    o
}

/// GPOS 1.0 with scripts DFLT and prog.script, one feature prog.tag listing prog.feat.
pub fn gpos(p: &Value) -> Vec<u8> {
    let script = p["script"].as_str().expect("script");
    let tag = p["tag"].as_str().expect("tag");
    let mut scripts: Vec<&str> = vec!["DFLT", script];
    scripts.sort();
    scripts.dedup();
    let mut sl = Obj::new();
    sl.u16(scripts.len() as u16);
    for s in &scripts {
        let mut langsys = Obj::new();
        langsys.u16(0).u16(0xFFFF).u16(1).u16(0);
        let mut st = Obj::new();
        st.off16(langsys).u16(0);
        sl.tag(s).off16(st);
    }
    let mut fl = Obj::new();
    let mut ft = Obj::new();
    let feat = ints(&p["feat"]);
    ft.u16(0).u16(feat.len() as u16);
    for i in &feat {
        ft.u16(*i as u16);
    }
    fl.u16(1).tag(tag).off16(ft);
    let lookups = arr(&p["lookups"]);
    let mut ll = Obj::new();
    ll.u16(lookups.len() as u16);
    for l in lookups {
        ll.off16(lookup(l));
    }
    let mut o = Obj::new();
    o.u16(1).u16(0).off16(sl).off16(fl).off16(ll);
    o.flatten()
}

/// kern table, version 0 header. Subtable {f:0, cov, pairs} | {f:2, cov, rw, ao, lt, rt, arr}.
/// `cov` is the low byte of the coverage field, written bit for bit: 0x01 horizontal (clear =
/// vertical), 0x02 minimum, 0x04 cross-stream, 0x08 override (0xF0 reserved); the high byte is
/// the format.
pub fn kern(k: &Value) -> Vec<u8> {
    let subs = arr(k);
    let mut out: Vec<u8> = Vec::new();
    out.extend_from_slice(&0u16.to_be_bytes());
    out.extend_from_slice(&(subs.len() as u16).to_be_bytes());
    for st in subs {
        let f = int(&st["f"]);
        let mut b: Vec<u8> = Vec::new();
        let push = |b: &mut Vec<u8>, v: u16| b.extend_from_slice(&v.to_be_bytes());
        if f == 0 {
            let pairs = arr(&st["pairs"]);
            let n = pairs.len() as u16;
            let mut es = 0u16;
            while (1u32 << (es + 1)) <= n as u32 {
                es += 1;
            }
            let sr = if n == 0 { 0 } else { 6 * (1u16 << es) };
            push(&mut b, n);
            push(&mut b, sr);
            push(&mut b, es);
            push(&mut b, (6 * n).wrapping_sub(sr));
            for p in pairs {
                let p = ints(p);
                push(&mut b, p[0] as u16);
                push(&mut b, p[1] as u16);
                push(&mut b, p[2] as i16 as u16);
            }
        } else {
            let lt = &st["lt"];
            let rt = &st["rt"];
            let lvals = ints(&lt["vals"]);
            let rvals = ints(&rt["vals"]);
            let left_off = 14u16;
            let right_off = left_off + 4 + 2 * lvals.len() as u16;
            let array_off = right_off + 4 + 2 * rvals.len() as u16;
            assert_eq!(array_off as i64, int(&st["ao"]), "kern format 2 layout differs from the program's ao");
            push(&mut b, int(&st["rw"]) as u16);
            push(&mut b, left_off);
            push(&mut b, right_off);
            push(&mut b, array_off);
            push(&mut b, int(&lt["first"]) as u16);
            push(&mut b, lvals.len() as u16);
            for v in &lvals {
                push(&mut b, *v as u16);
            }
            push(&mut b, int(&rt["first"]) as u16);
            push(&mut b, rvals.len() as u16);
            for v in &rvals {
                push(&mut b, *v as u16);
            }
            for v in ints(&st["arr"]) {
                push(&mut b, v as i16 as u16);
            }
        }
        let len = 6 + b.len();
        out.extend_from_slice(&0u16.to_be_bytes());
        out.extend_from_slice(&(len as u16).to_be_bytes());
        let cov = int(&st["cov"]);
        assert!((0..=0xFF).contains(&cov), "kern coverage byte out of range");
        let coverage = ((f as u16) << 8) | cov as u16;
        out.extend_from_slice(&coverage.to_be_bytes());
        out.extend(b);
    }
    out
}
