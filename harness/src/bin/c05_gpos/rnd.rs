//! C05 random positioning programs in the abstract JSON shape of Gpos.tla (impl -> spec).
//! Programs stay inside the fragment the specification models (see MC_Gpos!ProgWF and notes/C05.md):
//! no non-zero yAdvance, cursive lookups ignore marks and are not combined with placement
//! adjustments, MarkMark lookups filter exactly their Mark2Coverage.
//!
//! Every glyph has a ROLE (what the lookups use it for: base, ligature, mark, other) and a GDEF
//! class (what the font says). They agree in half of the programs; in the others the font has no
//! GDEF table, a GDEF without GlyphClassDef, or a GlyphClassDef that leaves some of the marks
//! unclassified or calls them bases (the variant is a function of the program index, so every
//! seed covers every variant for every kind of program).
use rand::rngs::StdRng;
use rand::seq::SliceRandom;
use rand::{Rng, SeedableRng};
use serde_json::{json, Value};

struct Uni {
    n: usize,
    /// GDEF table variant: "full" | "noclassdef" | "absent"
    tab: &'static str,
    /// what the lookups use the glyph for (1 base, 2 ligature, 3 mark, 0 other)
    role: Vec<i64>,
    /// what the GlyphClassDef says (differs from `role` for declassified marks)
    cls: Vec<i64>,
    att: Vec<i64>,
    adv: Vec<i64>,
    bases: Vec<i64>,
    ligs: Vec<i64>,
    marks: Vec<i64>,
    others: Vec<i64>,
    set0: Vec<i64>,
}

impl Uni {
    /// do GDEF's glyph classes say what the lookups assume?
    fn plain(&self) -> bool {
        self.tab == "full" && self.role == self.cls
    }
}

fn universe(r: &mut StdRng, variant: usize) -> Uni {
    let n = r.gen_range(9..=13);
    let mut cls = vec![0i64; n];
    // 0 .notdef; then a shuffled assignment with at least 3 bases, 1 ligature, 3 marks, 1 unclassified
    let mut kinds: Vec<i64> = vec![1, 1, 1, 2, 3, 3, 3, 0];
    while kinds.len() < n - 1 {
        kinds.push(*[0i64, 1, 1, 2, 3, 3].choose(r).unwrap());
    }
    kinds.shuffle(r);
    for g in 1..n {
        cls[g] = kinds[g - 1];
    }
    let pick = |c: i64, cls: &Vec<i64>| -> Vec<i64> { (1..n as i64).filter(|g| cls[*g as usize] == c).collect() };
    let marks = pick(3, &cls);
    let mut att = vec![0i64; n];
    for (k, m) in marks.iter().enumerate() {
        att[*m as usize] = 1 + (k as i64 % 2);
    }
    let set0: Vec<i64> = marks.iter().cloned().filter(|m| att[*m as usize] == 1).collect();
    let zero_mark_adv = r.gen_bool(0.5);
    let adv: Vec<i64> = (0..n)
        .map(|g| if cls[g] == 3 && zero_mark_adv { 0 } else { 100 + 53 * g as i64 + r.gen_range(0..40) })
        .collect();
    let role = cls.clone();
    let tab = match variant {
        3 => "absent",
        4 => "noclassdef",
        _ => "full",
    };
    if variant == 5 {
        // one or two of the marks are not marks for GDEF: unclassified, or classed as bases
        let mut ms = marks.clone();
        ms.shuffle(r);
        for m in ms.iter().take(r.gen_range(1..=2)) {
            cls[*m as usize] = if r.gen_bool(0.6) { 0 } else { 1 };
        }
    }
    Uni { n, tab, bases: pick(1, &role), ligs: pick(2, &role), others: pick(0, &role), marks, role, cls, att, adv, set0 }
}

fn subset(r: &mut StdRng, from: &[i64], min: usize) -> Vec<i64> {
    let mut v: Vec<i64> = from.iter().cloned().filter(|_| r.gen_bool(0.6)).collect();
    let mut pool: Vec<i64> = from.to_vec();
    pool.shuffle(r);
    for g in pool {
        if v.len() >= min.min(from.len()) {
            break;
        }
        if !v.contains(&g) {
            v.push(g);
        }
    }
    v.sort();
    v
}

fn cov(r: &mut StdRng, gs: &[i64]) -> Value {
    json!({"f": r.gen_range(1..=2), "g": gs})
}

fn val(r: &mut StdRng) -> Value {
    json!({"xp": r.gen_range(-90..=90), "yp": r.gen_range(-90..=90), "xa": r.gen_range(-120..=120), "ya": 0})
}

fn vf(r: &mut StdRng, placement: bool) -> i64 {
    let base: &[i64] = if placement { &[1, 2, 3, 4, 5, 6, 7, 15, 0x14, 0x47, 0xFF] } else { &[4, 4, 12, 0x44, 0x4C] };
    *base.choose(r).unwrap()
}

fn anchor(r: &mut StdRng) -> Value {
    json!({"f": r.gen_range(1..=3), "x": r.gen_range(-150..=300), "y": r.gen_range(-200..=400)})
}
fn null_anchor() -> Value {
    json!({"f": 0, "x": 0, "y": 0})
}

fn flag(r: &mut StdRng) -> (i64, i64) {
    let f = *[0i64, 0, 2, 4, 8, 8, 0x100, 0x200, 6].choose(r).unwrap();
    (f, -1)
}

fn lk(ty: i64, fl: (i64, i64), ext: bool, subs: Vec<Value>) -> Value {
    json!({"ty": ty, "flag": fl.0, "mfs": fl.1, "ext": ext, "subs": subs})
}

fn single_lookup(r: &mut StdRng, u: &Uni, glyphs: &[i64], placement: bool, fl: (i64, i64)) -> Value {
    let nsub = if r.gen_bool(0.3) { 2 } else { 1 };
    let mut subs = Vec::new();
    for _ in 0..nsub {
        let gs = subset(r, glyphs, 1);
        let v = vf(r, placement);
        if r.gen_bool(0.5) {
            subs.push(json!({"f": 1, "cov": cov(r, &gs), "vf": v, "v": val(r)}));
        } else {
            let vs: Vec<Value> = gs.iter().map(|_| val(r)).collect();
            subs.push(json!({"f": 2, "cov": cov(r, &gs), "vf": v, "vs": vs}));
        }
    }
    let _ = u;
    lk(1, fl, r.gen_bool(0.2), subs)
}

fn pair_sub(r: &mut StdRng, u: &Uni, glyphs: &[i64], placement: bool) -> Value {
    let gs = subset(r, glyphs, 2);
    let (v1, v2) = (vf(r, placement), if r.gen_bool(0.5) { 0 } else { vf(r, placement) });
    if r.gen_bool(0.5) {
        let sets: Vec<Value> = gs
            .iter()
            .map(|_| {
                let seconds = subset(r, glyphs, 1);
                Value::Array(seconds.iter().map(|g2| json!({"g2": g2, "v1": val(r), "v2": val(r)})).collect())
            })
            .collect();
        json!({"f": 1, "cov": cov(r, &gs), "vf1": v1, "vf2": v2, "sets": sets})
    } else {
        let (c1n, c2n) = (r.gen_range(1..=3usize), r.gen_range(1..=3usize));
        let m1: Vec<i64> = (0..u.n).map(|_| r.gen_range(0..c1n as i64)).collect();
        let m2: Vec<i64> = (0..u.n).map(|_| r.gen_range(0..c2n as i64)).collect();
        let recs: Vec<Value> = (0..c1n)
            .map(|_| Value::Array((0..c2n).map(|_| json!({"v1": val(r), "v2": val(r)})).collect()))
            .collect();
        json!({"f": 2, "cov": cov(r, &gs), "vf1": v1, "vf2": v2,
               "cd1": {"f": r.gen_range(1..=2), "m": m1}, "cd2": {"f": r.gen_range(1..=2), "m": m2}, "recs": recs})
    }
}

fn pair_lookup(r: &mut StdRng, u: &Uni, glyphs: &[i64], placement: bool, fl: (i64, i64)) -> Value {
    let nsub = if r.gen_bool(0.3) { 2 } else { 1 };
    let subs = (0..nsub).map(|_| pair_sub(r, u, glyphs, placement)).collect();
    lk(2, fl, r.gen_bool(0.2), subs)
}

fn mark_records(r: &mut StdRng, marks: &[i64], nc: usize) -> Vec<Value> {
    marks.iter().map(|_| json!({"c": r.gen_range(0..nc), "a": anchor(r)})).collect()
}

fn markbase_lookup(r: &mut StdRng, u: &Uni, alpha: &[i64]) -> Value {
    let marks: Vec<i64> = alpha.iter().cloned().filter(|g| u.role[*g as usize] == 3).collect();
    let nonmarks: Vec<i64> = alpha.iter().cloned().filter(|g| u.role[*g as usize] != 3).collect();
    let nsub = if r.gen_bool(0.3) { 2 } else { 1 };
    let subs = (0..nsub)
        .map(|_| {
            let m = subset(r, &marks, 1);
            let b = subset(r, &nonmarks, 1);
            let nc = r.gen_range(1..=3usize);
            let bases: Vec<Value> = b
                .iter()
                .map(|_| Value::Array((0..nc).map(|_| if r.gen_bool(0.2) { null_anchor() } else { anchor(r) }).collect()))
                .collect();
            json!({"mcov": cov(r, &m), "bcov": cov(r, &b), "nc": nc, "marks": mark_records(r, &m, nc), "bases": bases})
        })
        .collect();
    lk(4, (0, -1), r.gen_bool(0.2), subs)
}

fn marklig_lookup(r: &mut StdRng, u: &Uni, alpha: &[i64]) -> Value {
    let marks: Vec<i64> = alpha.iter().cloned().filter(|g| u.role[*g as usize] == 3).collect();
    let ligs: Vec<i64> = alpha.iter().cloned().filter(|g| u.role[*g as usize] == 2).collect();
    let m = subset(r, &marks, 1);
    let l = subset(r, &ligs, 1);
    let nc = r.gen_range(1..=2usize);
    let lig_attach: Vec<Value> = l
        .iter()
        .map(|_| {
            let comps = r.gen_range(1..=3usize);
            Value::Array(
                (0..comps)
                    .map(|_| Value::Array((0..nc).map(|_| if r.gen_bool(0.2) { null_anchor() } else { anchor(r) }).collect()))
                    .collect(),
            )
        })
        .collect();
    lk(5, (0, -1), false, vec![json!({"mcov": cov(r, &m), "lcov": cov(r, &l), "nc": nc,
        "marks": mark_records(r, &m, nc), "ligs": lig_attach})])
}

/// MarkMark whose flag filters exactly the marks its Mark2Coverage lists. Where GDEF does not
/// class every mark as a mark a flag cannot filter them: flag 0 and every mark in Mark2Coverage.
fn markmark_lookup(r: &mut StdRng, u: &Uni) -> Value {
    let (fl, m2): ((i64, i64), Vec<i64>) = if !u.plain() || r.gen_bool(0.5) {
        ((0, -1), u.marks.clone())
    } else {
        let c = r.gen_range(1..=2i64);
        ((c * 256, -1), u.marks.iter().cloned().filter(|m| u.att[*m as usize] == c).collect())
    };
    if m2.is_empty() {
        return lk(1, (0, -1), false, vec![json!({"f": 1, "cov": {"f": 1, "g": [1]}, "vf": 4, "v": val(r)})]);
    }
    let m1 = subset(r, &m2, 1);
    let nc = r.gen_range(1..=2usize);
    let bases: Vec<Value> = m2.iter().map(|_| Value::Array((0..nc).map(|_| anchor(r)).collect())).collect();
    lk(6, fl, false, vec![json!({"mcov": cov(r, &m1), "bcov": cov(r, &m2), "nc": nc,
        "marks": mark_records(r, &m1, nc), "bases": bases})])
}

fn curs_lookup(r: &mut StdRng, u: &Uni, alpha: &[i64]) -> Value {
    let nonmarks: Vec<i64> = alpha.iter().cloned().filter(|g| u.role[*g as usize] != 3).collect();
    let gs = subset(r, &nonmarks, 2);
    let fit = r.gen_bool(0.5);
    let flat = r.gen_bool(0.5);
    let recs: Vec<Value> = gs
        .iter()
        .map(|g| {
            let mut en = anchor(r);
            let mut ex = anchor(r);
            if fit {
                en["x"] = json!(u.adv[*g as usize]);
                ex["x"] = json!(0);
            }
            if flat {
                en["y"] = json!(0);
                ex["y"] = json!(0);
            }
            json!({"en": if r.gen_bool(0.15) { null_anchor() } else { en }, "ex": if r.gen_bool(0.15) { null_anchor() } else { ex }})
        })
        .collect();
    let fl = if r.gen_bool(0.5) { 8 } else { 9 };
    lk(3, (fl, -1), r.gen_bool(0.2), vec![json!({"cov": cov(r, &gs), "recs": recs})])
}

/// Cursive lookup for the combination programs. `mode` 0: entry anchors at x = 0 (allsorts'
/// left-to-right approximation is exact), 1: entry anchors at the advance width and exit anchors
/// at the origin (the right-to-left one is exact), 2: arbitrary. Exit/entry y differ unless `flat`.
fn comb_curs_lookup(r: &mut StdRng, u: &Uni, glyphs: &[i64], mode: usize, flat: bool, rtl_flag: bool) -> Value {
    let recs: Vec<Value> = glyphs
        .iter()
        .map(|g| {
            let mut en = anchor(r);
            let mut ex = anchor(r);
            match mode {
                0 => en["x"] = json!(0),
                1 => {
                    en["x"] = json!(u.adv[*g as usize]);
                    ex["x"] = json!(0);
                }
                _ => {}
            }
            if flat {
                en["y"] = json!(0);
                ex["y"] = json!(0);
            }
            json!({"en": if r.gen_bool(0.08) { null_anchor() } else { en }, "ex": if r.gen_bool(0.08) { null_anchor() } else { ex }})
        })
        .collect();
    lk(3, (if rtl_flag { 9 } else { 8 }, -1), r.gen_bool(0.2), vec![json!({"cov": cov(r, glyphs), "recs": recs})])
}

/// Plain horizontal kern table over `alpha`.
fn plain_kern_table(r: &mut StdRng, alpha: &[i64]) -> Value {
    let mut pairs: Vec<(i64, i64, i64)> = Vec::new();
    for a in alpha {
        for b in alpha {
            if r.gen_bool(0.4) {
                pairs.push((*a, *b, r.gen_range(-150..=150)));
            }
        }
    }
    pairs.sort();
    json!([{"f": 0, "cov": 1, "pairs": pairs.iter().map(|p| json!([p.0, p.1, p.2])).collect::<Vec<Value>>()}])
}

/// Strings for the combination programs: joined glyphs, each followed by up to two marks,
/// sometimes an uncovered glyph (with marks) before / after the chain.
fn comb_strings(r: &mut StdRng, n: usize, curs: &[i64], marks: &[i64], outside: &[i64]) -> Vec<Value> {
    (0..n)
        .map(|_| {
            let mut gs: Vec<i64> = Vec::new();
            let decorate = |r: &mut StdRng, gs: &mut Vec<i64>| {
                if !marks.is_empty() {
                    for _ in 0..*[0usize, 1, 1, 2].choose(r).unwrap() {
                        gs.push(*marks.choose(r).unwrap());
                    }
                }
            };
            if !outside.is_empty() && r.gen_bool(0.25) {
                gs.push(*outside.choose(r).unwrap());
                decorate(r, &mut gs);
            }
            for _ in 0..r.gen_range(2..=4) {
                gs.push(*curs.choose(r).unwrap());
                decorate(r, &mut gs);
            }
            if !outside.is_empty() && r.gen_bool(0.4) {
                gs.push(*outside.choose(r).unwrap());
                decorate(r, &mut gs);
            }
            Value::Array(gs.iter().map(|g| json!({"g": g, "lc": 0, "lig": false})).collect())
        })
        .collect()
}

/// Combination program: one feature whose lookups join glyphs cursively, attach marks (to bases
/// and to marks), and optionally kern (advance only where a joined glyph may be hit), displace
/// glyphs no cursive lookup covers, and a plain kern table.
fn comb_program(r: &mut StdRng, u: &Uni, alpha: &[i64], n_str: usize) -> (Value, Vec<Value>) {
    let nonmarks: Vec<i64> = alpha.iter().cloned().filter(|g| u.role[*g as usize] != 3).collect();
    let marks: Vec<i64> = alpha.iter().cloned().filter(|g| u.role[*g as usize] == 3).collect();
    // joined glyphs: all but (sometimes) one of the non-marks
    let mut curs: Vec<i64> = nonmarks.clone();
    curs.shuffle(r);
    if curs.len() > 2 && r.gen_bool(0.6) {
        curs.pop();
    }
    curs.sort();
    let outside: Vec<i64> = nonmarks.iter().cloned().filter(|g| !curs.contains(g)).collect();
    let mode = r.gen_range(0..3usize);
    let flat = r.gen_bool(0.25);
    let rtl_flag = r.gen_bool(0.6);
    let mut ls: Vec<Value> = vec![comb_curs_lookup(r, u, &curs, mode, flat, rtl_flag)];
    // marks on every non-mark (anchors for most classes)
    let nc = r.gen_range(1..=2usize);
    let bases: Vec<Value> = nonmarks
        .iter()
        .map(|_| Value::Array((0..nc).map(|_| if r.gen_bool(0.1) { null_anchor() } else { anchor(r) }).collect()))
        .collect();
    ls.push(lk(4, (0, -1), r.gen_bool(0.2), vec![json!({"mcov": cov(r, &marks), "bcov": cov(r, &nonmarks), "nc": nc,
        "marks": mark_records(r, &marks, nc), "bases": bases})]));
    if r.gen_bool(0.6) {
        ls.push(markmark_lookup(r, u));
    }
    if r.gen_bool(0.5) {
        // kerning that skips marks, advances only
        ls.push(pair_lookup(r, u, &nonmarks, false, (8, -1)));
    }
    if r.gen_bool(0.5) {
        // displacement of marks and of the glyphs outside the cursive coverage
        let mut gs: Vec<i64> = marks.clone();
        gs.extend(outside.iter());
        gs.sort();
        let fl = *[(0i64, -1i64), (0, -1), (2, -1)].choose(r).unwrap();
        ls.push(single_lookup(r, u, &gs, true, fl));
    } else if r.gen_bool(0.4) {
        // advance adjustments of any glyph
        ls.push(single_lookup(r, u, alpha, false, (0, -1)));
    }
    // the cursive lookup anywhere in the lookup list
    let first = ls.remove(0);
    let at = r.gen_range(0..=ls.len());
    ls.insert(at, first);
    let n = ls.len();
    let kern = if r.gen_bool(0.3) { plain_kern_table(r, alpha) } else { json!([]) };
    let tag = *["curs", "mark", "mkmk"].choose(r).unwrap();
    let prog = program(u, tag, "arab", ls, (0..n).collect(), kern, true);
    let ins = comb_strings(r, n_str, &curs, &marks, &outside);
    (prog, ins)
}

fn seq_of(r: &mut StdRng, alpha: &[i64], max: usize) -> Vec<i64> {
    (0..r.gen_range(0..=max)).map(|_| *alpha.choose(r).unwrap()).collect()
}

fn ctx_lookup(r: &mut StdRng, u: &Uni, alpha: &[i64], nested: &[usize], fl: (i64, i64)) -> Value {
    let chain = r.gen_bool(0.5);
    let f = r.gen_range(1..=3);
    let recs = |r: &mut StdRng, inputs: usize| -> Vec<Value> {
        (0..r.gen_range(1..=2)).map(|_| json!([r.gen_range(0..=inputs), *nested.choose(r).unwrap()])).collect()
    };
    let st = match f {
        1 => {
            let gs = subset(r, alpha, 2);
            let sets: Vec<Value> = gs
                .iter()
                .map(|_| {
                    Value::Array(
                        (0..r.gen_range(0..=2))
                            .map(|_| {
                                let inp = seq_of(r, alpha, 2);
                                let rc = recs(r, inp.len());
                                if chain {
                                    json!({"bt": seq_of(r, alpha, 1), "inp": inp, "la": seq_of(r, alpha, 1), "recs": rc})
                                } else {
                                    json!({"inp": inp, "recs": rc})
                                }
                            })
                            .collect(),
                    )
                })
                .collect();
            json!({"f": 1, "cov": cov(r, &gs), "sets": sets})
        }
        2 => {
            let gs = subset(r, alpha, 2);
            let ncls = r.gen_range(2..=3usize);
            let cd = |r: &mut StdRng| json!({"f": r.gen_range(1..=2), "m": (0..u.n).map(|_| r.gen_range(0..ncls as i64)).collect::<Vec<i64>>()});
            let classes: Vec<i64> = (0..ncls as i64).collect();
            let sets: Vec<Value> = (0..ncls)
                .map(|_| {
                    Value::Array(
                        (0..r.gen_range(0..=2))
                            .map(|_| {
                                let inp = seq_of(r, &classes, 2);
                                let rc = recs(r, inp.len());
                                if chain {
                                    json!({"bt": seq_of(r, &classes, 1), "inp": inp, "la": seq_of(r, &classes, 1), "recs": rc})
                                } else {
                                    json!({"inp": inp, "recs": rc})
                                }
                            })
                            .collect(),
                    )
                })
                .collect();
            if chain {
                json!({"f": 2, "cov": cov(r, &gs), "bcd": cd(r), "icd": cd(r), "lcd": cd(r), "sets": sets})
            } else {
                json!({"f": 2, "cov": cov(r, &gs), "cd": cd(r), "sets": sets})
            }
        }
        _ => {
            let ninp = r.gen_range(1..=3usize);
            let covs = |r: &mut StdRng, k: usize| -> Vec<Value> {
                (0..k)
                    .map(|_| {
                        let gs = subset(r, alpha, 2);
                        cov(r, &gs)
                    })
                    .collect()
            };
            let rc = recs(r, ninp - 1);
            if chain {
                let nb = r.gen_range(0..=1);
                let nl = r.gen_range(0..=1);
                json!({"f": 3, "bt": covs(r, nb), "inp": covs(r, ninp), "la": covs(r, nl), "recs": rc})
            } else {
                json!({"f": 3, "covs": covs(r, ninp), "recs": rc})
            }
        }
    };
    lk(if chain { 8 } else { 7 }, fl, r.gen_bool(0.2), vec![st])
}

fn kern_table(r: &mut StdRng, alpha: &[i64]) -> Value {
    let nsub = r.gen_range(1..=3);
    let subs: Vec<Value> = (0..nsub)
        .map(|k| {
            let mut pairs: Vec<(i64, i64, i64)> = Vec::new();
            for a in alpha {
                for b in alpha {
                    if r.gen_bool(0.5) {
                        pairs.push((*a, *b, r.gen_range(-150..=150)));
                    }
                }
            }
            pairs.sort();
            // coverage byte: 1 horizontal (0 = vertical), 2 minimum, 4 cross-stream, 8 override.
            // Mostly plain horizontal; sometimes vertical, override or minimum (not first), and
            // cross-stream / vertical variants of all of them (never override and minimum together)
            let cov = if k == 0 {
                *[1i64, 1, 1, 0, 5].choose(r).unwrap()
            } else {
                *[1i64, 1, 0, 9, 3, 5, 5, 13, 7, 4, 8, 12, 2].choose(r).unwrap()
            };
            json!({"f": 0, "cov": cov, "pairs": pairs.iter().map(|p| json!([p.0, p.1, p.2])).collect::<Vec<Value>>()})
        })
        .collect();
    Value::Array(subs)
}

fn program(u: &Uni, tag: &str, script: &str, lookups: Vec<Value>, feat: Vec<usize>, kern: Value, gpos: bool) -> Value {
    json!({"gdef": {"tab": u.tab, "cls": u.cls, "att": u.att, "sets": [u.set0]}, "adv": u.adv, "tag": tag, "script": script,
           "lookups": lookups, "feat": feat, "kern": kern, "gpos": gpos})
}

fn strings(r: &mut StdRng, alpha: &[i64], n: usize, maxlen: usize, u: &Uni, lig_comps: bool) -> Vec<Value> {
    (0..n)
        .map(|_| {
            let len = r.gen_range(1..=maxlen);
            Value::Array(
                (0..len)
                    .map(|_| {
                        let g = *alpha.choose(r).unwrap();
                        let lc = if lig_comps && u.role[g as usize] == 3 { r.gen_range(0..=3) } else { 0 };
                        json!({"g": g, "lc": lc, "lig": false})
                    })
                    .collect(),
            )
        })
        .collect()
}

/// Variation data for a random program (round 4): the program becomes one of a variable font shaped
/// for an instance. The regions / delta sets / instances are those of MC_Gpos (per-axis scalars are
/// multiples of 1/4, so the arithmetic is exact); every value record of the SinglePos / PairPos
/// lookups gets device descriptors (used where the ValueFormat has bits 4-7). Own generator, so that
/// the programs themselves are what they were without variation.
fn add_variation(prog: &mut Value, r: &mut StdRng) {
    let tuples: [(bool, &[i64]); 8] = [
        (false, &[0]),
        (true, &[0]),
        (true, &[4096]),
        (true, &[8192]),
        (true, &[16384]),
        (true, &[-8192]),
        (true, &[8192, 8192]),
        (true, &[-16384, 4096]),
    ];
    let (has, c) = tuples[r.gen_range(0..tuples.len())];
    let regions = if c.len() == 1 {
        json!([[{"s": 0, "p": 16384, "e": 16384}], [{"s": 0, "p": 8192, "e": 16384}], [{"s": -16384, "p": -16384, "e": 0}]])
    } else {
        json!([[{"s": 0, "p": 16384, "e": 16384}, {"s": 0, "p": 0, "e": 0}],
               [{"s": 0, "p": 16384, "e": 16384}, {"s": 0, "p": 16384, "e": 16384}],
               [{"s": -16384, "p": -16384, "e": 0}, {"s": 0, "p": 8192, "e": 16384}]])
    };
    let data = json!([
        {"regs": [0, 1], "wc": 2, "sets": [[40, -12], [-7, 30], [3, 0], [-3, 0], [0, 21]]},
        {"regs": [2, 0], "wc": 0, "sets": [[-20, 10], [5, -6]]},
        {"regs": [0, 1, 2], "wc": 1, "sets": [[300, -5, 9]]}
    ]);
    let store = r.gen_bool(0.85);
    prog["var"] = json!({"tuple": {"has": has, "c": c}, "store": store, "regions": regions, "data": data});
    fn dev(r: &mut StdRng, y_advance: bool) -> Value {
        let rows = [5usize, 2, 1];
        match r.gen_range(0..10) {
            0 => json!({"k": "null"}),
            1 => json!({"k": "hint", "fmt": r.gen_range(1..=3)}),
            2 => json!({"k": "var", "o": r.gen_range(3..6), "i": 0}),
            3 => json!({"k": "var", "o": 0, "i": r.gen_range(5..9)}),
            // (a yAdvance that varies is outside the fragment like a yAdvance itself)
            _ if y_advance => json!({"k": "null"}),
            _ => {
                let o = r.gen_range(0..3usize);
                json!({"k": "var", "o": o, "i": r.gen_range(0..rows[o])})
            }
        }
    }
    fn decorate(v: &mut Value, r: &mut StdRng) {
        v["dev"] = json!([dev(r, false), dev(r, false), dev(r, false), dev(r, true)]);
    }
    if let Some(lookups) = prog["lookups"].as_array_mut() {
        for l in lookups {
            let ty = l["ty"].as_i64().unwrap_or(0);
            if ty != 1 && ty != 2 {
                continue;
            }
            for st in l["subs"].as_array_mut().unwrap() {
                if ty == 1 {
                    if st["f"] == 1 {
                        decorate(&mut st["v"], r);
                    } else {
                        for v in st["vs"].as_array_mut().unwrap() {
                            decorate(v, r);
                        }
                    }
                } else {
                    let key = if st["f"] == 1 { "sets" } else { "recs" };
                    for row in st[key].as_array_mut().unwrap() {
                        for rec in row.as_array_mut().unwrap() {
                            decorate(&mut rec["v1"], r);
                            decorate(&mut rec["v2"], r);
                        }
                    }
                }
            }
        }
    }
}

/// (kind, program, inputs) triples, deterministic in `seed`.
pub fn programs(seed: u64, n_prog: usize, n_str: usize) -> Vec<(String, Value, Vec<Value>)> {
    let mut r = StdRng::seed_from_u64(seed ^ 0xC05C05);
    let kinds = ["single", "pair", "mark", "marklig", "curs", "ctx", "kern", "mixed", "comb"];
    let mut out = Vec::new();
    for pi in 0..n_prog {
        let r = &mut r;
        // GDEF variant: 0-2 glyph classes as the lookups assume, 3 no GDEF, 4 no GlyphClassDef,
        // 5 some marks unclassified / classed as bases; constant over one round of all kinds
        let u = universe(r, (pi / kinds.len()) % 6);
        let kind = kinds[pi % kinds.len()];
        // strings over a small sub-alphabet so that rules fire often
        let mut alpha: Vec<i64> = Vec::new();
        alpha.extend(u.bases.iter().take(2));
        alpha.extend(u.marks.iter().take(2));
        alpha.extend(u.ligs.iter().take(1));
        if r.gen_bool(0.5) {
            alpha.extend(u.others.iter().take(1));
        }
        alpha.sort();
        let none = json!([]);
        if kind == "comb" {
            // cursive chains + marks + kerning + displacements in one program; all the bases of the
            // universe so that some can stay outside the cursive coverage
            let mut a2 = alpha.clone();
            a2.extend(u.bases.iter().skip(2).take(1));
            a2.sort();
            a2.dedup();
            let (prog, ins) = comb_program(r, &u, &a2, n_str);
            out.push((kind.to_string(), prog, ins));
            continue;
        }
        let (prog, lig_comps) = match kind {
            "single" => {
                let n = r.gen_range(1..=3);
                let ls: Vec<Value> = (0..n)
                    .map(|_| {
                        let fl = flag(r);
                        single_lookup(r, &u, &alpha, true, fl)
                    })
                    .collect();
                let mut feat: Vec<usize> = (0..n).collect();
                feat.shuffle(r);
                if r.gen_bool(0.3) {
                    feat.push(0);
                }
                (program(&u, "kern", "latn", ls, feat, none, true), false)
            }
            "pair" => {
                let n = r.gen_range(1..=2);
                let ls: Vec<Value> = (0..n)
                    .map(|_| {
                        let fl = flag(r);
                        pair_lookup(r, &u, &alpha, true, fl)
                    })
                    .collect();
                (program(&u, "kern", "latn", ls, (0..n).collect(), none, true), false)
            }
            "mark" => {
                let mut ls = vec![markbase_lookup(r, &u, &alpha)];
                if r.gen_bool(0.5) {
                    ls.push(markmark_lookup(r, &u));
                }
                if r.gen_bool(0.4) {
                    // placement / advance adjustments of bases and marks, before or after the attachment
                    let fl = flag(r);
                    let s = single_lookup(r, &u, &alpha, true, fl);
                    if r.gen_bool(0.5) {
                        ls.push(s);
                    } else {
                        ls.insert(0, s);
                    }
                }
                let n = ls.len();
                (program(&u, "mark", "latn", ls, (0..n).collect(), none, true), false)
            }
            "marklig" => {
                let ls = vec![marklig_lookup(r, &u, &alpha), markbase_lookup(r, &u, &alpha)];
                (program(&u, "mark", "latn", ls, vec![0, 1], none, true), true)
            }
            "curs" => {
                let mut ls = vec![curs_lookup(r, &u, &alpha)];
                if r.gen_bool(0.4) {
                    ls.push(pair_lookup(r, &u, &alpha, false, (8, -1)));
                }
                let n = ls.len();
                (program(&u, "curs", "arab", ls, (0..n).collect(), none, true), false)
            }
            "ctx" => {
                let fl = *[(0i64, -1i64), (8, -1), (0x100, -1)].choose(r).unwrap();
                let nfl = *[(0i64, -1i64), (8, -1)].choose(r).unwrap();
                let nested = vec![
                    single_lookup(r, &u, &alpha, true, nfl),
                    pair_lookup(r, &u, &alpha, true, nfl),
                    markbase_lookup(r, &u, &alpha),
                ];
                let mut ls = vec![ctx_lookup(r, &u, &alpha, &[1, 2, 3], fl)];
                ls.extend(nested);
                (program(&u, "kern", "latn", ls, vec![0], none, true), false)
            }
            "kern" => {
                let k = kern_table(r, &alpha);
                if r.gen_bool(0.5) {
                    (program(&u, "kern", "latn", vec![], vec![], k, false), false)
                } else {
                    let ls = vec![markbase_lookup(r, &u, &alpha)];
                    (program(&u, "mark", "latn", ls, vec![0], k, true), false)
                }
            }
            _ => {
                let fl1 = flag(r);
                let fl2 = flag(r);
                let ls = vec![
                    pair_lookup(r, &u, &alpha, true, fl1),
                    single_lookup(r, &u, &alpha, true, fl2),
                    markbase_lookup(r, &u, &alpha),
                    markmark_lookup(r, &u),
                ];
                (program(&u, "mark", "latn", ls, vec![3, 1, 0, 2], none, true), false)
            }
        };
        let ins = strings(r, &alpha, n_str, 6, &u, lig_comps);
        let mut prog = prog;
        // three rounds of four: a variable font shaped for an instance (every GDEF variant is reached)
        if ["single", "pair", "ctx", "mixed", "mark"].contains(&kind) && (pi / kinds.len()) % 4 != 0 {
            let mut r2 = StdRng::seed_from_u64(seed ^ 0xDE17A ^ ((pi as u64) << 20));
            add_variation(&mut prog, &mut r2);
        }
        out.push((kind.to_string(), prog, ins));
    }
    out
}
