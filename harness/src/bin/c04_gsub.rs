//! C04 harness: drives allsorts' glyph substitution (GSUB lookups types 1-8, lookup flags, GDEF,
//! feature selection and FeatureVariations).
//!
//!   c04_gsub replay <progs.ndjson> <cases.ndjson> <mismatches.ndjson>
//!       every program printed by MC_Gsub (PROG lines) is encoded into real GDEF + GSUB bytes (own
//!       encoder, enc.rs) and loaded with allsorts' production readers; every CASE is run through
//!         (lookup) `gsub::gsub_apply_lookup`, lookup by lookup in the order TLC printed; the run after
//!                  every lookup is compared,
//!         (custom) `gsub::apply` with `Features::Custom(request)`,
//!         (mask)   `gsub::apply` with `Features::Mask` when every requested tag has a mask bit,
//!         (shape)  `Font::shape` on a whole synthesized font carrying the same tables,
//!       each result is projected to the abstract run and compared by JSON equality with the
//!       conformant outcomes the specification lists (one per reading of the named Dev_ choices).
//!   c04_gsub record <seed> <programs> <strings> <trace.ndjson> [--fonts <max fonts> <words>]
//!       random programs (rnd.rs) on random strings and programs extracted from repository fonts by an
//!       independent GSUB reader (extract.rs) on words of their own glyphs; one "Prog" event per
//!       program and one "Apply" event per call, judged by Trace_Gsub.
//!   c04_gsub one <prog.json> <glyph ids, comma separated>      (manual reproduction)
//!
//! The harness decides nothing: it builds bytes, calls allsorts, records facts.
#[path = "c04_gsub/enc.rs"]
mod enc;
#[path = "c04_gsub/extract.rs"]
mod extract;
#[path = "c04_gsub/rnd.rs"]
mod rnd;

use allsorts::binary::read::ReadScope;
use allsorts::font::Font;
use allsorts::font_data::{DynamicFontTableProvider, FontData};
use allsorts::gsub::{self, FeatureInfo, FeatureMask, Features, GlyphOrigin, RawGlyph, RawGlyphFlags};
use allsorts::layout::{new_layout_cache, GDEFTable, LayoutCache, LayoutTable, GSUB};
use allsorts::tables::variable_fonts::fvar::Tuple;
use allsorts::tables::F2Dot14;
use serde_json::{json, Value};
use std::collections::{BTreeMap, HashMap};
use std::rc::Rc;
use tinyvec::tiny_vec;
use vh::fontgen::{tag_u32, GlyphSpec, TtFont};
use vh::sup::{guarded, Outcome};
use vh::util::{read_ndjson, NdWriter};

type F = Font<DynamicFontTableProvider<'static>>;

/// input position k (1-based) carries the character CHAR_BASE + k
const CHAR_BASE: u32 = 0x4E00;

/// A program turned into bytes and loaded both ways.
pub struct Prepared {
    prog: Value,
    script: u32,
    n_glyphs: u16,
    gdef: Option<Rc<GDEFTable>>,
    cache: LayoutCache<GSUB>,
    font: Option<F>,
    tuple: Option<Vec<F2Dot14>>,
    pub sizes: (usize, usize),
}

fn leak(v: Vec<u8>) -> &'static [u8] {
    Box::leak(v.into_boxed_slice())
}

/// `variant` only varies how the script list is written (latn and DFLT / latn only / DFLT only):
/// shaping always asks for `latn`, so the fallback to DFLT is exercised as well.
pub fn prepare(prog: &Value, n_glyphs: u16, variant: usize, with_font: bool) -> Result<Prepared, String> {
    let scripts: &[&str] = match variant % 3 {
        0 => &["DFLT", "latn"],
        1 => &["latn"],
        _ => &["DFLT"],
    };
    let gdef_bytes = if enc::gdef_absent(&prog["gdef"]) { None } else { Some(leak(enc::gdef(&prog["gdef"]))) };
    let gsub_bytes = leak(enc::gsub(prog, scripts));
    let gdef = match gdef_bytes {
        Some(b) => Some(Rc::new(ReadScope::new(b).read::<GDEFTable>().map_err(|e| format!("GDEF: {:?}", e))?)),
        None => None,
    };
    let table = ReadScope::new(gsub_bytes).read::<LayoutTable<GSUB>>().map_err(|e| format!("GSUB: {:?}", e))?;
    let cache = new_layout_cache(table);
    let font = if with_font {
        let n = n_glyphs as usize;
        let mut f = TtFont::new((0..n).map(|_| GlyphSpec::Empty).collect());
        f.metrics = (0..n).map(|i| (500u16, i as i16)).collect();
        f.num_h_metrics = n as u16;
        f.cmap = (1..n).map(|g| (0x40 + g as u32, g as u16)).collect();
        if let Some(b) = gdef_bytes {
            f.extra_tables.push(("GDEF".into(), b.to_vec()));
        }
        f.extra_tables.push(("GSUB".into(), gsub_bytes.to_vec()));
        let font_bytes = leak(f.build());
        let fd = ReadScope::new(font_bytes).read::<FontData<'static>>().map_err(|e| format!("FontData: {:?}", e))?;
        let prov = fd.table_provider(0).map_err(|e| format!("provider: {:?}", e))?;
        Some(Font::new(prov).map_err(|e| format!("Font::new: {:?}", e))?)
    } else {
        None
    };
    let t = enc::ints(&prog["tuple"]);
    let tuple = if t.is_empty() { None } else { Some(t.iter().map(|v| F2Dot14::from_raw(*v as i16)).collect()) };
    Ok(Prepared {
        prog: prog.clone(),
        script: tag_u32("latn"),
        n_glyphs,
        gdef,
        cache,
        font,
        tuple,
        sizes: (gdef_bytes.map_or(0, |b| b.len()), gsub_bytes.len()),
    })
}

/// A repository font loaded by allsorts itself; `prog` is what the independent reader extracted.
pub fn prepare_from_font(path: &str, prog: &Value, n_glyphs: u16, script: &str) -> Result<Prepared, String> {
    let bytes = leak(std::fs::read(path).map_err(|e| format!("read: {}", e))?);
    let fd = ReadScope::new(bytes).read::<FontData<'static>>().map_err(|e| format!("FontData: {:?}", e))?;
    let prov = fd.table_provider(0).map_err(|e| format!("provider: {:?}", e))?;
    let mut font = Font::new(prov).map_err(|e| format!("Font::new: {:?}", e))?;
    let cache = font.gsub_cache().map_err(|e| format!("GSUB: {:?}", e))?.ok_or("GSUB: none")?;
    let gdef = font.gdef_table().map_err(|e| format!("GDEF: {:?}", e))?;
    Ok(Prepared { prog: prog.clone(), script: tag_u32(script), n_glyphs, gdef, cache, font: Some(font), tuple: None, sizes: (0, 0) })
}

fn raw_glyphs(input: &[i64]) -> Vec<RawGlyph<()>> {
    input
        .iter()
        .enumerate()
        .map(|(k, g)| {
            let ch = char::from_u32(CHAR_BASE + k as u32 + 1).unwrap();
            RawGlyph {
                unicodes: tiny_vec![[char; 1] => ch],
                glyph_index: *g as u16,
                liga_component_pos: 0,
                glyph_origin: GlyphOrigin::Char(ch),
                flags: RawGlyphFlags::empty(),
                variation: None,
                extra_data: (),
            }
        })
        .collect()
}

/// Projection of a run: glyph id, characters carried (as input positions), LIGATURE and
/// MULTI_SUBST_DUP flags, liga_component_pos (reported for glyphs GDEF classifies as marks only).
fn project(gdef_abs: &Value, glyphs: &[RawGlyph<()>]) -> Value {
    Value::Array(
        glyphs
            .iter()
            .map(|g| {
                let c: Vec<i64> = g.unicodes.iter().map(|ch| *ch as i64 - CHAR_BASE as i64).collect();
                let is_mark = enc::class_of(&gdef_abs["cls"], g.glyph_index as i64) == 3;
                json!({"g": g.glyph_index, "c": c,
                       "l": if g.ligature() { 1 } else { 0 },
                       "d": if g.multi_subst_dup() { 1 } else { 0 },
                       "p": if is_mark { g.liga_component_pos } else { 0 }})
            })
            .collect(),
    )
}

fn tuple_of(v: &Option<Vec<F2Dot14>>) -> Option<Tuple<'_>> {
    // SAFETY: the slice outlives the returned Tuple (same borrow)
    v.as_ref().map(|v| unsafe { Tuple::from_raw_parts(v.as_ptr(), v.len()) })
}

fn request_of(prog: &Value) -> Vec<FeatureInfo> {
    enc::arr(&prog["request"])
        .iter()
        .map(|r| FeatureInfo { feature_tag: tag_u32(enc::text(&r["tag"])), alternate: Some(enc::int(&r["alt"]) as usize) })
        .collect()
}

/// Some(mask) when Features::Mask can express the request: every tag has a bit, alternate 0 only
fn mask_of(prog: &Value) -> Option<FeatureMask> {
    let mut m = FeatureMask::empty();
    for r in enc::arr(&prog["request"]) {
        let bit = FeatureMask::from_tag(tag_u32(enc::text(&r["tag"])));
        if bit.is_empty() || enc::int(&r["alt"]) != 0 {
            return None;
        }
        m |= bit;
    }
    Some(m)
}

fn guarded_str<T>(f: impl FnOnce() -> Result<T, String>) -> Result<T, String> {
    match guarded(f) {
        Outcome::Returned(r) => r,
        Outcome::Panicked(m) => Err(format!("Panic:{}", vh::sup::panic_key(&m))),
    }
}

/// (lookup) gsub_apply_lookup, one call per entry of `order` = [[lookup index, alternate]..];
/// result: the run after every lookup. An error ends the list with a string.
fn run_lookups(p: &Prepared, input: &[i64], order: &Value) -> Value {
    let mut glyphs = raw_glyphs(input);
    let mut steps: Vec<Value> = Vec::new();
    for o in enc::arr(order) {
        let o = enc::ints(o);
        let r = {
            let g = &mut glyphs;
            guarded_str(|| {
                let n = g.len();
                gsub::gsub_apply_lookup(
                    &p.cache,
                    &p.cache.layout_table,
                    p.gdef.as_deref(),
                    o[0] as usize,
                    tag_u32("liga"),
                    Some(o[1] as usize),
                    g,
                    0,
                    n,
                    |_| true,
                )
                .map_err(|e| format!("Err({:?})", e))
            })
        };
        match r {
            Ok(_) => steps.push(project(&p.prog["gdef"], &glyphs)),
            Err(e) => {
                steps.push(json!(e));
                break;
            }
        }
    }
    Value::Array(steps)
}

/// (custom) / (mask): gsub::apply over the whole run
fn run_apply(p: &Prepared, input: &[i64], features: &Features) -> Value {
    let mut glyphs = raw_glyphs(input);
    let r = {
        let g = &mut glyphs;
        guarded_str(|| {
            gsub::apply(0, &p.cache, p.gdef.as_deref(), p.script, None, features, tuple_of(&p.tuple), p.n_glyphs, g)
                .map_err(|e| format!("Err({:?})", e))
        })
    };
    match r {
        Ok(()) => project(&p.prog["gdef"], &glyphs),
        Err(e) => json!(e),
    }
}

/// (shape): Font::shape on the whole font
fn run_shape(p: &mut Prepared, input: &[i64], features: &Features) -> Value {
    let glyphs = raw_glyphs(input);
    let tuple = p.tuple.clone();
    let script = p.script;
    let font = match p.font.as_mut() {
        Some(f) => f,
        None => return json!("no font"),
    };
    let r = guarded_str(|| {
        font.shape(glyphs, script, None, features, tuple_of(&tuple), false)
            .map_err(|(e, _)| format!("Err({:?})", e))
    });
    match r {
        Ok(infos) => {
            let gs: Vec<RawGlyph<()>> = infos.into_iter().map(|i| i.glyph).collect();
            project(&p.prog["gdef"], &gs)
        }
        Err(e) => json!(e),
    }
}

fn last_or<'a>(steps: &'a Value, init: &'a Value) -> &'a Value {
    enc::arr(steps).last().unwrap_or(init)
}

// ---- replay -----------------------------------------------------------------------------------
fn replay(prog_path: &str, cases_path: &str, out_path: &str) {
    let mut prepared: HashMap<i64, (String, Result<Prepared, String>)> = HashMap::new();
    let mut table_bytes = 0usize;
    for t in read_ndjson(prog_path) {
        let pi = enc::int(&t["p"]);
        let prog = t["prog"].clone();
        let n = enc::int(&t["n"]) as u16;
        let r = guarded_str(|| prepare(&prog, n, pi as usize, true));
        if let Ok(p) = &r {
            table_bytes += p.sizes.0 + p.sizes.1;
        }
        prepared.insert(pi, (enc::text(&t["name"]).to_string(), r));
    }
    let mut out = NdWriter::create(out_path);
    // termination is part of the lookup semantics (Gsub.tla: decreasing measure): a case allsorts does not return
    // from within two minutes is written to <out>.hang and the process exits 3
    let wd = vh::sup::Watchdog::start(&format!("{}.hang", out_path), 120);
    let mut tags: BTreeMap<String, u64> = BTreeMap::new();
    let mut stats: BTreeMap<&'static str, u64> = BTreeMap::new();
    let mut bump = |k: &'static str| *stats.entry(k).or_insert(0) += 1;
    let (mut n_cases, mut n_mism) = (0u64, 0u64);
    for case in read_ndjson(cases_path) {
        n_cases += 1;
        let pi = enc::int(&case["p"]);
        let input = enc::ints(&case["in"]);
        wd.enter(json!({"p": pi, "in": case["in"], "order": case["order"], "selftest": case["selftest"]}).to_string());
        let (name, prep) = prepared.get_mut(&pi).unwrap_or_else(|| panic!("case refers to unknown program {}", pi));
        let name = name.clone();
        let mut ok = true;
        let report = |stage: &str, want: &Value, got: &Value, bug: Value, out: &mut NdWriter| {
            out.write(&json!({"p": pi, "name": name, "in": case["in"], "order": case["order"], "stage": stage,
                              "want": want, "got": got, "bug": bug, "tags": case["tags"], "selftest": case["selftest"]}));
        };
        let p = match prep {
            Ok(p) => p,
            Err(e) => {
                n_mism += 1;
                report("load", &json!("Ok"), &json!(e), Value::Null, &mut out);
                continue;
            }
        };
        for t in enc::arr(&case["tags"]) {
            *tags.entry(enc::text(t).to_string()).or_insert(0) += 1;
        }
        let init = project(&p.prog["gdef"], &raw_glyphs(&input));
        // the conformant outcomes: the standard reading and the alternative readings
        let mut allowed: Vec<&Value> = vec![&case["steps"]];
        allowed.extend(enc::arr(&case["alts"]).iter());
        let bugs = enc::arr(&case["bugs"]);
        if allowed.len() > 1 {
            bump("cases_with_several_conformant_outcomes");
        }
        if !bugs.is_empty() {
            bump("cases_where_a_known_wrong_reading_differs");
        }
        if last_or(&case["steps"], &init) != &init {
            bump("cases_changing_the_run");
        }
        if enc::arr(&case["order"]).len() > 1 {
            bump("cases_with_several_lookups");
        }
        if !enc::arr(&p.prog["tuple"]).is_empty() {
            bump("cases_with_variation_tuple");
        }
        // (lookup)
        let got = run_lookups(p, &input, &case["order"]);
        bump("route_lookup");
        if !allowed.iter().any(|a| **a == got) {
            ok = false;
            let bug = bugs.iter().find(|b| b["steps"] == got).map(|b| b["name"].clone()).unwrap_or(Value::Null);
            report("lookup", &case["steps"], &got, bug, &mut out);
        }
        // whole-run routes: the final run
        let finals: Vec<&Value> = allowed.iter().map(|a| last_or(a, &init)).collect();
        let custom = Features::Custom(request_of(&p.prog));
        let mut routes: Vec<(&str, Value)> = Vec::new();
        routes.push(("custom", run_apply(p, &input, &custom)));
        bump("route_custom");
        if let Some(m) = mask_of(&p.prog) {
            routes.push(("mask", run_apply(p, &input, &Features::Mask(m))));
            bump("route_mask");
        }
        routes.push(("shape", run_shape(p, &input, &custom)));
        bump("route_shape");
        for (stage, got) in routes {
            if !finals.iter().any(|f| **f == got) {
                ok = false;
                let bug = bugs
                    .iter()
                    .find(|b| last_or(&b["steps"], &init) == &got)
                    .map(|b| b["name"].clone())
                    .unwrap_or(Value::Null);
                report(stage, finals[0], &got, bug, &mut out);
            }
        }
        if !ok {
            n_mism += 1;
        }
    }
    wd.done();
    out.finish();
    println!(
        "{}",
        json!({"cases": n_cases, "cases_with_mismatch": n_mism, "programs": prepared.len(),
               "table_bytes_encoded": table_bytes, "stats": stats, "tags": tags})
    );
}

// ---- record -------------------------------------------------------------------------------------
fn record(seed: u64, n_prog: usize, n_str: usize, out_path: &str, max_fonts: usize, n_words: usize) {
    let mut out = NdWriter::create(out_path);
    let mut i = 0u64;
    let mut kinds: BTreeMap<String, u64> = BTreeMap::new();
    let mut n_apply = 0u64;
    let mut emit = |case: &str, kind: &str, prog: &Value, n: u16, variant: usize, inputs: Vec<Vec<i64>>, with_font: bool,
                    real_font: Option<(&str, &str)>, out: &mut NdWriter| {
        *kinds.entry(kind.to_string()).or_insert(0) += 1;
        let mut prep = guarded_str(|| match real_font {
            Some((path, script)) => prepare_from_font(path, prog, n, script),
            None => prepare(prog, n, variant, with_font),
        });
        i += 1;
        let load = match &prep {
            Ok(_) => "".to_string(),
            Err(e) => e.clone(),
        };
        out.write(&json!({"i": i, "case": case, "ev": "Prog", "a": {"prog": prog, "n": n, "kind": kind}, "o": {"err": load}}));
        if let Ok(p) = &mut prep {
            let custom = Features::Custom(request_of(&p.prog));
            // Features::Mask runs script specific shaping for complex scripts: only latn / DFLT here
            let mask = if p.script == tag_u32("latn") || p.script == tag_u32("DFLT") { mask_of(&p.prog) } else { None };
            for input in inputs {
                let mut routes: Vec<(&str, Value)> = vec![("custom", run_apply(p, &input, &custom))];
                if let Some(m) = mask {
                    routes.push(("mask", run_apply(p, &input, &Features::Mask(m))));
                }
                if with_font {
                    routes.push(("shape", run_shape(p, &input, &custom)));
                }
                for (route, got) in routes {
                    i += 1;
                    n_apply += 1;
                    let o = match &got {
                        Value::String(e) => json!({"err": e, "run": []}),
                        run => json!({"err": "", "run": run}),
                    };
                    out.write(&json!({"i": i, "case": case, "ev": "Apply", "a": {"in": input, "route": route}, "o": o}));
                }
            }
        }
    };
    for (pi, (kind, prog, n, inputs)) in rnd::programs(seed, n_prog, n_str).into_iter().enumerate() {
        emit(&format!("r{}", pi), &kind, &prog, n, pi, inputs, pi % 4 == 0, None, &mut out);
    }
    let mut fonts_used: Vec<Value> = Vec::new();
    let mut fonts_skipped: BTreeMap<String, u64> = BTreeMap::new();
    if max_fonts > 0 {
        for (fi, ex) in extract::repo_programs(seed, max_fonts, n_words).into_iter().enumerate() {
            match ex {
                Ok(x) => {
                    fonts_used.push(json!({"font": x.name, "script": x.script, "lookups": enc::arr(&x.prog["lookups"]).len(),
                                           "features": enc::arr(&x.prog["request"]).len(), "words": x.inputs.len(),
                                           "json_bytes": x.prog.to_string().len()}));
                    emit(&format!("f{}-{}", fi, x.name), "extracted", &x.prog, x.n_glyphs, 0, x.inputs, true, Some((&x.path, &x.script)), &mut out);
                }
                Err(why) => *fonts_skipped.entry(why).or_insert(0) += 1,
            }
        }
    }
    out.finish();
    println!(
        "{}",
        json!({"events": i, "apply_events": n_apply, "programs": n_prog, "kinds": kinds,
               "fonts_extracted": fonts_used, "fonts_skipped": fonts_skipped})
    );
}

// ---- one -----------------------------------------------------------------------------------------
fn one(prog_path: &str, glyphs: &str) {
    let v: Value = serde_json::from_str(&std::fs::read_to_string(prog_path).expect("read prog")).expect("json");
    let (prog, n, variant) = if v.get("prog").is_some() {
        (v["prog"].clone(), v["n"].as_i64().unwrap_or(64) as u16, v["p"].as_i64().unwrap_or(0) as usize)
    } else {
        (v, 64, 0)
    };
    let input: Vec<i64> = glyphs.split(',').filter(|s| !s.is_empty()).map(|s| s.trim().parse().expect("glyph id")).collect();
    let mut p = prepare(&prog, n, variant, true).expect("prepare");
    let custom = Features::Custom(request_of(&p.prog));
    println!("custom {}", run_apply(&p, &input, &custom));
    if let Some(m) = mask_of(&p.prog) {
        println!("mask   {}", run_apply(&p, &input, &Features::Mask(m)));
    }
    println!("shape  {}", run_shape(&mut p, &input, &custom));
}

fn main() {
    vh::sup::install_quiet_panic_hook();
    let args: Vec<String> = std::env::args().collect();
    match args.get(1).map(|s| s.as_str()) {
        Some("replay") => replay(&args[2], &args[3], &args[4]),
        Some("record") => {
            let (mut max_fonts, mut n_words) = (0usize, 0usize);
            if args.get(6).map(|s| s.as_str()) == Some("--fonts") {
                max_fonts = args[7].parse().expect("max fonts");
                n_words = args[8].parse().expect("words");
            }
            record(
                args[2].parse().expect("seed"),
                args[3].parse().expect("programs"),
                args[4].parse().expect("strings"),
                &args[5],
                max_fonts,
                n_words,
            )
        }
        Some("one") => one(&args[2], &args[3]),
        _ => {
            eprintln!("usage: c04_gsub replay <progs> <cases> <mismatches> | record <seed> <programs> <strings> <trace> [--fonts <max> <words>] | one <prog.json> <gids>");
            std::process::exit(2);
        }
    }
}
