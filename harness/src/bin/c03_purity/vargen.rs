//! The variable font of the `var` family of the C03 harness, built from the layout the CASE carries
//! (MC_FontCache VarLayout): fvar (two axes), GSUB / GPOS with one Script table per script (arab cyrl grek
//! hebr latn, default language system only), one Feature table per (script, feature), every sub-table and Coverage
//! at the absolute position the layout names; GDEF 1.3 with an item variation store (four regions, one delta-set
//! row per VariationIndex table of the GPOS value records).  Lookup kinds:
//!   GSUB single  SingleSubst format 1 (glyph + VAR_DELTA)
//!   GPOS single  SinglePos format 1, xAdvance + 100
//!   GPOS vsingle SinglePos format 1, xAdvance 10 and an xAdvance VariationIndex table
//!   GPOS vplace  SinglePos format 1, x/y placement 5/-5 and a VariationIndex table for each
//!   badcov       the sub-table is there, its Coverage has format 7 (does not parse: allsorts skips the sub-table)
//!   badtype      the Lookup table has lookup type 99 (reading the lookup fails)
//!   missing      the feature names the index, the lookup list does not have it
//! Nothing here calls allsorts; `scalar` / `expected_deltas` are the harness's own arithmetic (OpenType
//! "Algorithm for interpolation of instance values"), used for self-checks on the inputs only.
use serde_json::Value;
use std::collections::BTreeMap;
use vh::fontgen::*;

pub const VAR_GLYPHS: usize = 220;
pub const VAR_DELTA: u16 = 70;
pub const SCRIPTS: [(&str, &str); 5] = [("s1", "latn"), ("s2", "cyrl"), ("s3", "grek"), ("s4", "arab"), ("s5", "hebr")];
/// regions over (wght, wdth): (start, peak, end) per axis, in F2Dot14 units / 16384
pub const REGIONS: [[(f32, f32, f32); 2]; 4] = [
    [(0.0, 1.0, 1.0), (0.0, 0.0, 0.0)],
    [(0.0, 0.0, 0.0), (0.0, 1.0, 1.0)],
    [(0.0, 1.0, 1.0), (0.0, 1.0, 1.0)],
    [(-1.0, -1.0, 0.0), (0.0, 0.0, 0.0)],
];
/// the tuples of the model (normalised coordinates)
pub const TUPLES: [(&str, [f32; 2]); 5] = [("t0", [0.0, 0.0]), ("tA", [1.0, 0.0]), ("tB", [0.5, 0.0]), ("tC", [0.25, 1.0]), ("tD", [-1.0, 0.5])];

#[derive(Clone, Debug)]
pub struct VSpec {
    pub tbl: String,
    pub idx: usize,
    pub feat: String,
    pub typ: String,
    pub sub: usize,
    pub cov_pos: usize,
    pub content: String,
    pub scr: Vec<String>,
    pub regs: Vec<usize>,
    /// FeatureVariations: Some("dflt") = only in the default feature table, Some("alt") = only in the substituted one
    pub alt: Option<String>,
}

/// the condition of the one FeatureVariations record: wght in [FV_MIN, 1.0]
pub const FV_MIN: f32 = 0.75;
pub fn fv_holds(t: &[f32; 2]) -> bool {
    t[0] >= FV_MIN && t[0] <= 1.0
}

pub fn vspecs(lookups: &Value) -> Vec<VSpec> {
    lookups.as_array().map(|a| a.iter().map(|l| VSpec {
        tbl: l["tbl"].as_str().unwrap().into(),
        idx: l["idx"].as_u64().unwrap() as usize,
        feat: l["feat"].as_str().unwrap().into(),
        typ: l["typ"].as_str().unwrap().into(),
        sub: l["sub"].as_u64().unwrap() as usize,
        // lookups the model reads no Coverage of keep it 32 bytes into the sub-table
        cov_pos: l["objs"].as_array().and_then(|o| o.first()).and_then(|o| o["pos"].as_u64()).unwrap_or(l["sub"].as_u64().unwrap() + 32) as usize,
        content: l["objs"].as_array().and_then(|o| o.first()).and_then(|o| o["content"].as_str()).unwrap_or("").into(),
        scr: l["scr"].as_array().map(|s| s.iter().map(|x| x.as_str().unwrap().to_string()).collect()).unwrap_or_default(),
        regs: l["regs"].as_array().map(|s| s.iter().map(|x| x.as_u64().unwrap() as usize).collect()).unwrap_or_default(),
        alt: l.get("alt").and_then(|a| a.as_str()).map(|a| a.to_string()),
    }).collect()).unwrap_or_default()
}

pub fn is_broken(s: &VSpec) -> bool {
    s.typ == "missing" || s.typ == "badtype"
}

/// delta-set rows of the item variation store: one (vsingle) or two (vplace: x, y) per GPOS lookup with regions
pub fn rows(specs: &[VSpec]) -> Vec<(usize, usize)> {
    // (lookup idx, component)
    let mut v = Vec::new();
    for s in specs.iter().filter(|s| s.tbl == "GPOS" && !s.regs.is_empty()) {
        v.push((s.idx, 0));
        if s.typ == "vplace" {
            v.push((s.idx, 1));
        }
    }
    v
}

pub fn delta_of(region: usize, row: usize) -> i16 {
    let d = ((37 * (region + 1) + 23 * (row + 1)) % 90) as i16 + 20;
    if (region + row) % 3 == 2 { -d } else { d }
}

pub fn scalar(region: usize, t: &[f32; 2]) -> f32 {
    let mut s = 1.0f32;
    for (ax, (start, peak, end)) in REGIONS[region].iter().enumerate() {
        let v = t[ax];
        if *peak == 0.0 || start > peak || peak > end || (*start < 0.0 && *end > 0.0) {
            continue;
        }
        if v == *peak {
            continue;
        }
        if v <= *start || v >= *end {
            return 0.0;
        }
        s *= if v < *peak { (v - start) / (peak - start) } else { (end - v) / (end - peak) };
    }
    s
}

/// the adjustment of every delta-set row under a tuple, rounded as a value record applies it
pub fn expected_deltas(specs: &[VSpec], t: &[f32; 2]) -> Vec<i32> {
    rows(specs).iter().enumerate().map(|(row, (idx, _))| {
        let regs = &specs.iter().find(|s| s.tbl == "GPOS" && s.idx == *idx).unwrap().regs;
        regs.iter().map(|r| scalar(*r, t) * delta_of(*r, row) as f32).sum::<f32>().round() as i32
    }).collect()
}

fn f2dot14(v: f32) -> i16 {
    (v * 16384.0).round() as i16
}

pub fn fvar() -> Vec<u8> {
    let mut w = W::new();
    w.u16(1).u16(0).u16(16).u16(2).u16(2).u16(20).u16(0).u16(12);
    w.tag("wght").i32(100 << 16).i32(400 << 16).i32(900 << 16).u16(0).u16(256);
    w.tag("wdth").i32(50 << 16).i32(100 << 16).i32(200 << 16).u16(0).u16(257);
    w.done()
}

pub fn gdef(specs: &[VSpec]) -> Vec<u8> {
    let rows = rows(specs);
    let mut w = W::new();
    w.u16(1).u16(3).u16(0).u16(0).u16(0).u16(0).u16(0).u32(18);
    // ItemVariationStore: format, region list offset, one ItemVariationData
    let region_list_len = 4 + REGIONS.len() * 2 * 6;
    w.u16(1).u32(12).u16(1).u32((12 + region_list_len) as u32);
    w.u16(2).u16(REGIONS.len() as u16);
    for r in REGIONS.iter() {
        for (s, p, e) in r.iter() {
            w.i16(f2dot14(*s)).i16(f2dot14(*p)).i16(f2dot14(*e));
        }
    }
    w.u16(rows.len() as u16).u16(REGIONS.len() as u16).u16(REGIONS.len() as u16);
    for r in 0..REGIONS.len() {
        w.u16(r as u16);
    }
    for (row, (idx, _)) in rows.iter().enumerate() {
        let regs = &specs.iter().find(|s| s.tbl == "GPOS" && s.idx == *idx).unwrap().regs;
        for r in 0..REGIONS.len() {
            w.i16(if regs.contains(&r) { delta_of(r, row) } else { 0 });
        }
    }
    w.done()
}

/// glyph of a Coverage content: "^x" = the glyph a single substitution turns x into
pub fn content_glyphs(content: &str, gid: &dyn Fn(char) -> u16) -> Vec<u16> {
    let mut g = Vec::new();
    let mut lvl = 0u16;
    for c in content.chars() {
        if c == '^' {
            lvl += 1;
        } else {
            g.push(gid(c) + VAR_DELTA * lvl);
            lvl = 0;
        }
    }
    g.sort();
    g
}

pub fn coverage(content: &str, gid: &dyn Fn(char) -> u16, bad: bool) -> Vec<u8> {
    let mut w = W::new();
    if bad {
        w.u16(7).u16(0);
        return w.done();
    }
    let g = content_glyphs(content, gid);
    w.u16(1).u16(g.len() as u16);
    for x in g {
        w.u16(x);
    }
    w.done()
}

struct Img {
    buf: Vec<u8>,
    used: Vec<bool>,
}

impl Img {
    fn put(&mut self, at: usize, bytes: &[u8]) {
        if self.buf.len() < at + bytes.len() {
            self.buf.resize(at + bytes.len(), 0);
            self.used.resize(at + bytes.len(), false);
        }
        for (k, b) in bytes.iter().enumerate() {
            assert!(!self.used[at + k], "var layout overlaps at byte {}", at + k);
            self.used[at + k] = true;
            self.buf[at + k] = *b;
        }
    }
}

/// (script tag, feature tag) -> lookup indices, as the layout dictates, in the default feature tables ("dflt") or in
/// the ones the FeatureVariations record substitutes ("alt"); a feature all of whose lookups belong to the other
/// region has an empty list
pub fn feature_map_region(tbl: &str, specs: &[VSpec], region: &str) -> BTreeMap<(String, String), Vec<usize>> {
    let mut m: BTreeMap<(String, String), Vec<usize>> = BTreeMap::new();
    for s in specs.iter().filter(|s| s.tbl == tbl) {
        for (id, tag) in SCRIPTS.iter() {
            if s.scr.iter().any(|x| x == id) {
                let e = m.entry((tag.to_string(), s.feat.clone())).or_default();
                if s.alt.as_deref().map(|a| a == region).unwrap_or(true) {
                    e.push(s.idx);
                }
            }
        }
    }
    m
}
pub fn feature_map(tbl: &str, specs: &[VSpec]) -> BTreeMap<(String, String), Vec<usize>> {
    feature_map_region(tbl, specs, "dflt")
}
pub fn has_fv(tbl: &str, specs: &[VSpec]) -> bool {
    specs.iter().any(|s| s.tbl == tbl && s.alt.is_some())
}
/// where the FeatureVariations table of a layout table lies
pub const FV_POS: usize = 1792;

pub fn build_layout(tbl: &str, specs: &[VSpec], gid: &dyn Fn(char) -> u16) -> Vec<u8> {
    let gsub = tbl == "GSUB";
    let fm = feature_map(tbl, specs);
    // feature records sorted by (feature tag, script tag)
    let mut frecs: Vec<(String, String)> = fm.keys().map(|(s, f)| (f.clone(), s.clone())).collect();
    frecs.sort();
    let mut img = Img { buf: vec![], used: vec![] };
    let mut scripts: Vec<&str> = SCRIPTS.iter().map(|(_, t)| *t).collect();
    scripts.sort();
    // script list
    let fv = has_fv(tbl, specs);
    let script_list = if fv { 14usize } else { 10usize };
    let mut w = W::new();
    w.u16(scripts.len() as u16);
    let mut off = 2 + 6 * scripts.len();
    let mut tables = Vec::new();
    for sc in &scripts {
        let idxs: Vec<usize> = frecs.iter().enumerate().filter(|(_, (_, s))| s == sc).map(|(i, _)| i).collect();
        w.tag(sc).u16(off as u16);
        let mut t = W::new();
        t.u16(4).u16(0);
        t.u16(0).u16(0xFFFF).u16(idxs.len() as u16);
        for i in &idxs {
            t.u16(*i as u16);
        }
        off += t.len();
        tables.push(t.done());
    }
    for t in tables {
        w.bytes(&t);
    }
    let sl = w.done();
    img.put(script_list, &sl);
    // feature list
    let feature_list = script_list + sl.len();
    let mut w = W::new();
    w.u16(frecs.len() as u16);
    let mut off = 2 + 6 * frecs.len();
    let mut tables = Vec::new();
    for (f, s) in &frecs {
        let idxs = &fm[&(s.clone(), f.clone())];
        w.tag(f).u16(off as u16);
        let mut t = W::new();
        t.u16(0).u16(idxs.len() as u16);
        for i in idxs {
            t.u16(*i as u16);
        }
        off += t.len();
        tables.push(t.done());
    }
    for t in tables {
        w.bytes(&t);
    }
    let fl = w.done();
    img.put(feature_list, &fl);
    // lookup list: the lookups that exist
    let real: Vec<&VSpec> = specs.iter().filter(|s| s.tbl == tbl && s.typ != "missing").collect();
    let lookup_list = feature_list + fl.len();
    let count = real.iter().map(|s| s.idx).max().unwrap_or(0) + 1;
    for s in specs.iter().filter(|s| s.tbl == tbl && s.typ == "missing") {
        assert!(s.idx >= count, "missing lookup {} lies inside the lookup list", s.idx);
    }
    let mut lookup_pos = BTreeMap::new();
    let mut at = lookup_list + 2 + 2 * count;
    for s in &real {
        lookup_pos.insert(s.idx, at);
        at += 8;
    }
    let header_end = at;
    let first = *lookup_pos.values().next().unwrap();
    let mut w = W::new();
    w.u16(count as u16);
    for i in 0..count {
        w.u16((*lookup_pos.get(&i).unwrap_or(&first) - lookup_list) as u16);
    }
    img.put(lookup_list, &w.done());
    let mut hdr = W::new();
    hdr.u16(1).u16(if fv { 1 } else { 0 }).u16(script_list as u16).u16(feature_list as u16).u16(lookup_list as u16);
    if fv {
        // FeatureVariations: one record - condition set (wght in [FV_MIN, 1]) and the feature tables it substitutes
        hdr.u32(FV_POS as u32);
        assert!(header_end <= FV_POS, "header runs into the FeatureVariations table");
        let alt = feature_map_region(tbl, specs, "alt");
        let subst: Vec<(usize, &Vec<usize>)> = frecs.iter().enumerate().filter_map(|(i, (f, s))| {
            let k = (s.clone(), f.clone());
            if alt[&k] != fm[&k] { Some((i, &alt[&k])) } else { None }
        }).collect();
        let mut w = W::new();
        w.u16(1).u16(0).u32(1);
        w.u32(16).u32(30);
        w.u16(1).u32(6);
        w.u16(1).u16(0).i16(f2dot14(FV_MIN)).i16(f2dot14(1.0));
        assert_eq!(w.len(), 30);
        w.u16(1).u16(0).u16(subst.len() as u16);
        let mut off = 6 + 6 * subst.len();
        let mut tables = Vec::new();
        for (i, idxs) in &subst {
            w.u16(*i as u16).u32(off as u32);
            let mut t = W::new();
            t.u16(0).u16(idxs.len() as u16);
            for x in idxs.iter() {
                t.u16(*x as u16);
            }
            off += t.len();
            tables.push(t.done());
        }
        for t in tables {
            w.bytes(&t);
        }
        let fvb = w.done();
        let lowest = real.iter().map(|s| s.sub).min().unwrap_or(usize::MAX);
        assert!(FV_POS + fvb.len() <= lowest, "FeatureVariations table runs into the sub-tables");
        img.put(FV_POS, &fvb);
    }
    img.put(0, &hdr.done());
    let var_rows = rows(specs);
    for s in &real {
        assert!(s.sub >= header_end, "sub-table of lookup {} at {} lies inside the header (ends {})", s.idx, s.sub, header_end);
        let lp = lookup_pos[&s.idx];
        let mut w = W::new();
        w.u16(if s.typ == "badtype" { 99 } else { 1 }).u16(0).u16(1).u16((s.sub - lp) as u16);
        img.put(lp, &w.done());
        let cov = (s.cov_pos - s.sub) as u16;
        let mut w = W::new();
        if gsub {
            w.u16(1).u16(cov).u16(VAR_DELTA);
        } else {
            match s.typ.as_str() {
                "vsingle" => {
                    let row = var_rows.iter().position(|(i, c)| *i == s.idx && *c == 0).unwrap();
                    w.u16(1).u16(cov).u16(0x0044).i16(10).u16(12);
                    assert_eq!(w.len(), 10);
                    w.u16(0); // padding up to the VariationIndex table at 12
                    w.u16(0).u16(row as u16).u16(0x8000);
                }
                "vplace" => {
                    let row = var_rows.iter().position(|(i, c)| *i == s.idx && *c == 0).unwrap();
                    w.u16(1).u16(cov).u16(0x0033).i16(5).i16(-5).u16(14).u16(20);
                    assert_eq!(w.len(), 14);
                    w.u16(0).u16(row as u16).u16(0x8000);
                    w.u16(0).u16(row as u16 + 1).u16(0x8000);
                }
                _ => {
                    w.u16(1).u16(cov).u16(4).i16(100);
                }
            }
        }
        assert!(w.len() <= cov as usize, "sub-table of lookup {} runs into its Coverage", s.idx);
        img.put(s.sub, &w.done());
        img.put(s.cov_pos, &coverage(&s.content, gid, s.typ == "badcov"));
    }
    img.buf
}

/// Walk a built layout table with plain offset arithmetic: every lookup of the layout lies where the layout says
/// (sub-table, Coverage position and bytes; a `badcov` Coverage has no known format; a `missing` index lies beyond
/// the lookup list) and every (script, feature) names exactly the lookups the layout gives it.  Returns the number
/// of facts confirmed, None when the bytes disagree.
pub fn walk(tbl: &str, data: &[u8], specs: &[VSpec], gid: &dyn Fn(char) -> u16) -> Option<usize> {
    let mut n = 0;
    let sl = be16(data, 4)? as usize;
    let fl = be16(data, 6)? as usize;
    let ll = be16(data, 8)? as usize;
    let count = be16(data, ll)? as usize;
    for s in specs.iter().filter(|s| s.tbl == tbl) {
        if s.typ == "missing" {
            if s.idx < count {
                return None;
            }
            n += 1;
            continue;
        }
        let lk = ll + be16(data, ll + 2 + 2 * s.idx)? as usize;
        let st = lk + be16(data, lk + 6)? as usize;
        let p = st + be16(data, st + 2)? as usize;
        if st != s.sub || p != s.cov_pos || (be16(data, lk)? == 1) == (s.typ == "badtype") {
            return None;
        }
        if s.typ == "badcov" {
            if matches!(be16(data, p)?, 1 | 2) {
                return None;
            }
        } else {
            let want = coverage(&s.content, gid, false);
            if data.get(p..p + want.len())? != &want[..] {
                return None;
            }
        }
        n += 1;
    }
    // scripts -> features -> lookups
    let fm = feature_map(tbl, specs);
    let mut seen = 0;
    for k in 0..be16(data, sl)? as usize {
        let stag = tag_str(be32(data, sl + 2 + 6 * k)?);
        let sc = sl + be16(data, sl + 2 + 6 * k + 4)? as usize;
        let ls = sc + be16(data, sc)? as usize;
        for j in 0..be16(data, ls + 4)? as usize {
            let fi = be16(data, ls + 6 + 2 * j)? as usize;
            let ftag = tag_str(be32(data, fl + 2 + 6 * fi)?);
            let ft = fl + be16(data, fl + 2 + 6 * fi + 4)? as usize;
            let idxs: Vec<usize> = (0..be16(data, ft + 2)? as usize).map(|i| be16(data, ft + 4 + 2 * i).unwrap_or(0xFFFF) as usize).collect();
            if fm.get(&(stag.clone(), ftag.clone())) != Some(&idxs) {
                return None;
            }
            seen += 1;
        }
    }
    if seen != fm.len() {
        return None;
    }
    if has_fv(tbl, specs) {
        // the FeatureVariations record: its condition and, per substituted feature, the lookups of the "alt" region
        let fv = be32(data, 10)? as usize;
        if be16(data, 2)? != 1 || be32(data, fv + 4)? != 1 {
            return None;
        }
        let cs = fv + be32(data, fv + 8)? as usize;
        let cond = cs + be32(data, cs + 2)? as usize;
        if be16(data, cs)? != 1 || be16(data, cond)? != 1 || be16(data, cond + 2)? != 0 || be16(data, cond + 4)? as i16 != f2dot14(FV_MIN) || be16(data, cond + 6)? as i16 != f2dot14(1.0) {
            return None;
        }
        let fs = fv + be32(data, fv + 12)? as usize;
        let alt = feature_map_region(tbl, specs, "alt");
        let mut substituted = BTreeMap::new();
        for k in 0..be16(data, fs + 4)? as usize {
            let fi = be16(data, fs + 6 + 6 * k)? as usize;
            let ft = fs + be32(data, fs + 6 + 6 * k + 2)? as usize;
            let idxs: Vec<usize> = (0..be16(data, ft + 2)? as usize).map(|i| be16(data, ft + 4 + 2 * i).unwrap_or(0xFFFF) as usize).collect();
            substituted.insert(fi, idxs);
        }
        // feature index -> (script, feature): through the language systems
        for k in 0..be16(data, sl)? as usize {
            let stag = tag_str(be32(data, sl + 2 + 6 * k)?);
            let sc = sl + be16(data, sl + 2 + 6 * k + 4)? as usize;
            let ls = sc + be16(data, sc)? as usize;
            for j in 0..be16(data, ls + 4)? as usize {
                let fi = be16(data, ls + 6 + 2 * j)? as usize;
                let ftag = tag_str(be32(data, fl + 2 + 6 * fi)?);
                let key = (stag.clone(), ftag);
                let want = &alt[&key];
                let got = substituted.get(&fi).unwrap_or(&fm[&key]);
                if got != want {
                    return None;
                }
                n += 1;
            }
        }
    }
    Some(n + seen)
}
