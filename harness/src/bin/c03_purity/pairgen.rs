//! GPOS table of the `pairs` family of the C03 harness: PairPos lookups with several sub-tables whose Coverages
//! overlap, laid out byte for byte from the layout the model dictates (`lookups[].subs`).  Nothing here calls
//! allsorts.
//!
//! sub-table of format 1 at `at`: header, Coverage at +32, one PairSet per covered glyph from +64 (16 bytes each);
//! of format 2: header and the 2 x 2 class records, Coverage at +32, ClassDef 1 at +64 (the covered glyphs are
//! class 1), ClassDef 2 at +96 (the glyphs of `cls2` are class 1).  Value format 1 = xAdvance, value format 2 = none:
//! a handled pair moves the first glyph's advance by -val (format 2: only when the second glyph is of class 1, the
//! other records are zero).
use serde_json::Value;
use vh::fontgen::W;

#[derive(Clone, Debug)]
pub struct PSub {
    pub fmt: u16,
    pub at: usize,
    pub cov: Vec<char>,
    pub pairs: Vec<(char, char)>,
    pub cls2: Vec<char>,
    pub val: i16,
}

#[derive(Clone, Debug)]
pub struct PLookup {
    pub idx: usize,
    pub feat: String,
    pub subs: Vec<PSub>,
}

fn ch(v: &Value) -> char {
    v.as_str().and_then(|s| s.chars().next()).unwrap_or('?')
}

pub fn plookups(lookups: &Value) -> Vec<PLookup> {
    lookups.as_array().map(|a| a.iter().filter(|l| l["tbl"] == "GPOS" && l.get("subs").is_some()).map(|l| PLookup {
        idx: l["idx"].as_u64().unwrap() as usize,
        feat: l["feat"].as_str().unwrap().to_string(),
        subs: l["subs"].as_array().unwrap().iter().map(|s| PSub {
            fmt: s["fmt"].as_u64().unwrap() as u16,
            at: s["at"].as_u64().unwrap() as usize,
            cov: s["cov"].as_array().unwrap().iter().map(ch).collect(),
            pairs: s["pairs"].as_array().unwrap().iter().map(|p| (ch(&p[0]), ch(&p[1]))).collect(),
            cls2: s["cls2"].as_array().unwrap().iter().map(ch).collect(),
            val: s["val"].as_i64().unwrap() as i16,
        }).collect(),
    }).collect()).unwrap_or_default()
}

/// which sub-table of the lookup handles the pair (first in order; by the OpenType text: format 1 handles the pairs
/// it lists, format 2 every pair whose first glyph is covered) - used for input-based vacuity counters only
pub fn handlers(l: &PLookup, a: char, b: char) -> Vec<usize> {
    l.subs.iter().enumerate().filter(|(_, s)| if s.fmt == 1 { s.pairs.contains(&(a, b)) } else { s.cov.contains(&a) }).map(|(j, _)| j).collect()
}

fn put(buf: &mut Vec<u8>, at: usize, bytes: &[u8]) {
    if buf.len() < at + bytes.len() {
        buf.resize(at + bytes.len(), 0);
    }
    for (k, b) in bytes.iter().enumerate() {
        assert!(buf[at + k] == 0 || buf[at + k] == *b, "pairs layout overlaps at byte {}", at + k);
        buf[at + k] = *b;
    }
}

fn sorted_gids(cs: &[char], gid: &dyn Fn(char) -> u16) -> Vec<u16> {
    let mut g: Vec<u16> = cs.iter().map(|c| gid(*c)).collect();
    g.sort();
    g.dedup();
    g
}

pub fn coverage(cs: &[char], gid: &dyn Fn(char) -> u16) -> Vec<u8> {
    let g = sorted_gids(cs, gid);
    let mut w = W::new();
    w.u16(1).u16(g.len() as u16);
    for x in g {
        w.u16(x);
    }
    w.done()
}

pub fn classdef(cs: &[char], gid: &dyn Fn(char) -> u16) -> Vec<u8> {
    let g = sorted_gids(cs, gid);
    let mut w = W::new();
    w.u16(2).u16(g.len() as u16);
    for x in g {
        w.u16(x).u16(x).u16(1);
    }
    w.done()
}

/// GPOS 1.0: scripts DFLT and latn share one Script table with a default language system that has every feature.
pub fn build_gpos(lookups: &[PLookup], gid: &dyn Fn(char) -> u16) -> Vec<u8> {
    let mut feats: Vec<String> = lookups.iter().map(|l| l.feat.clone()).collect();
    feats.sort();
    feats.dedup();
    let mut buf: Vec<u8> = Vec::new();
    let script_list = 10usize;
    let mut w = W::new();
    w.u16(2).tag("DFLT").u16(14).tag("latn").u16(14);
    w.u16(4).u16(0);
    w.u16(0).u16(0xFFFF).u16(feats.len() as u16);
    for i in 0..feats.len() {
        w.u16(i as u16);
    }
    let sl = w.done();
    put(&mut buf, script_list, &sl);
    let feature_list = script_list + sl.len();
    let mut w = W::new();
    w.u16(feats.len() as u16);
    let mut off = 2 + 6 * feats.len();
    let mut tables = Vec::new();
    for f in &feats {
        let idxs: Vec<usize> = lookups.iter().filter(|l| &l.feat == f).map(|l| l.idx).collect();
        w.tag(f).u16(off as u16);
        let mut t = W::new();
        t.u16(0).u16(idxs.len() as u16);
        for i in &idxs {
            t.u16(*i as u16);
        }
        off += t.len();
        tables.push(t.done());
    }
    for t in tables {
        w.bytes(&t);
    }
    let fl = w.done();
    put(&mut buf, feature_list, &fl);
    let lookup_list = feature_list + fl.len();
    let count = lookups.iter().map(|l| l.idx).max().unwrap_or(0) + 1;
    let mut at = lookup_list + 2 + 2 * count;
    let mut lpos = std::collections::BTreeMap::new();
    for l in lookups {
        lpos.insert(l.idx, at);
        at += 6 + 2 * l.subs.len();
    }
    let header_end = at;
    let first = *lpos.values().next().unwrap();
    let mut w = W::new();
    w.u16(count as u16);
    for i in 0..count {
        w.u16((*lpos.get(&i).unwrap_or(&first) - lookup_list) as u16);
    }
    put(&mut buf, lookup_list, &w.done());
    let mut hdr = W::new();
    hdr.u16(1).u16(0).u16(script_list as u16).u16(feature_list as u16).u16(lookup_list as u16);
    put(&mut buf, 0, &hdr.done());
    for l in lookups {
        let lp = lpos[&l.idx];
        let mut w = W::new();
        w.u16(2).u16(0).u16(l.subs.len() as u16);
        for s in &l.subs {
            assert!(s.at >= header_end && s.at - lp < 65536, "sub-table of lookup {} at {} out of reach", l.idx, s.at);
            w.u16((s.at - lp) as u16);
        }
        put(&mut buf, lp, &w.done());
        for s in &l.subs {
            let firsts = sorted_gids(&s.cov, gid);
            let mut w = W::new();
            if s.fmt == 1 {
                w.u16(1).u16(32).u16(4).u16(0).u16(firsts.len() as u16);
                for k in 0..firsts.len() {
                    w.u16((64 + 16 * k) as u16);
                }
                put(&mut buf, s.at, &w.done());
                for (k, g1) in firsts.iter().enumerate() {
                    let mut seconds: Vec<u16> = s.pairs.iter().filter(|(a, _)| gid(*a) == *g1).map(|(_, b)| gid(*b)).collect();
                    seconds.sort();
                    assert!(seconds.len() <= 3, "pair set too long for the layout");
                    let mut ps = W::new();
                    ps.u16(seconds.len() as u16);
                    for g2 in seconds {
                        ps.u16(g2).i16(-s.val);
                    }
                    put(&mut buf, s.at + 64 + 16 * k, &ps.done());
                }
            } else {
                w.u16(2).u16(32).u16(4).u16(0).u16(64).u16(96).u16(2).u16(2);
                w.i16(0).i16(0).i16(0).i16(-s.val);
                put(&mut buf, s.at, &w.done());
                let c1 = classdef(&s.cov, gid);
                let c2 = classdef(&s.cls2, gid);
                assert!(c1.len() <= 32 && c2.len() <= 32, "class definition too long for the layout");
                put(&mut buf, s.at + 64, &c1);
                put(&mut buf, s.at + 96, &c2);
            }
            let cv = coverage(&s.cov, gid);
            assert!(cv.len() <= 32, "coverage too long for the layout");
            put(&mut buf, s.at + 32, &cv);
        }
    }
    let n = buf.len() + 16;
    buf.resize(n, 0);
    buf
}

fn be16(d: &[u8], o: usize) -> Option<usize> {
    d.get(o..o + 2).map(|b| u16::from_be_bytes([b[0], b[1]]) as usize)
}

/// Walk a built GPOS with plain offset arithmetic: every lookup is of type 2 with its sub-tables, in order, at the
/// positions the layout names, each with its format, its Coverage (and ClassDefs) where and as the layout says, and
/// the listed pairs / class record carrying -val.  Returns the number of facts confirmed.
pub fn walk(data: &[u8], lookups: &[PLookup], gid: &dyn Fn(char) -> u16) -> Option<usize> {
    let ll = be16(data, 8)?;
    let mut n = 0;
    for l in lookups {
        let lk = ll + be16(data, ll + 2 + 2 * l.idx)?;
        if be16(data, lk)? != 2 || be16(data, lk + 4)? != l.subs.len() {
            return None;
        }
        for (j, s) in l.subs.iter().enumerate() {
            let st = lk + be16(data, lk + 6 + 2 * j)?;
            if st != s.at || be16(data, st)? != s.fmt as usize {
                return None;
            }
            let cp = st + be16(data, st + 2)?;
            let want = coverage(&s.cov, gid);
            if cp != s.at + 32 || data.get(cp..cp + want.len())? != &want[..] {
                return None;
            }
            n += 1;
            if s.fmt == 1 {
                let firsts = sorted_gids(&s.cov, gid);
                for (a, b) in &s.pairs {
                    let k = firsts.iter().position(|g| *g == gid(*a))?;
                    let ps = st + be16(data, st + 10 + 2 * k)?;
                    let cnt = be16(data, ps)?;
                    let hit = (0..cnt).any(|r| be16(data, ps + 2 + 4 * r) == Some(gid(*b) as usize) && be16(data, ps + 4 + 4 * r) == Some((-s.val) as u16 as usize));
                    if !hit {
                        return None;
                    }
                    n += 1;
                }
            } else {
                let c1 = st + be16(data, st + 8)?;
                let c2 = st + be16(data, st + 10)?;
                let w1 = classdef(&s.cov, gid);
                let w2 = classdef(&s.cls2, gid);
                if c1 != s.at + 64 || c2 != s.at + 96 || data.get(c1..c1 + w1.len())? != &w1[..] || data.get(c2..c2 + w2.len())? != &w2[..]
                    || be16(data, st + 22)? != (-s.val) as u16 as usize {
                    return None;
                }
                n += 2;
            }
        }
    }
    Some(n)
}
