//! Embedded-image tables of the `img` fonts of the C03 harness: `SVG `, `CBLC`/`CBDT`, `sbix`,
//! `EBLC`/`EBDT`, each holding an image for the glyphs 1..=5 with a payload (and a strike size) of its
//! own, laid out as the OpenType documents describe them (the location-table encoder follows the one of
//! the X03 harness).  Nothing here calls allsorts.
use vh::fontgen::W;

pub const FIRST: u16 = 1;
pub const LAST: u16 = 5;

/// bits of the model's `imgs` / filter values
pub const SVG: u8 = 1;
pub const CBDT: u8 = 2;
pub const SBIX: u8 = 4;
pub const EBDT: u8 = 8;

/// strike sizes: what tells the tables apart in a result (SVG has none)
pub const PPEM_CBDT: u8 = 60;
pub const PPEM_SBIX: u16 = 40;
pub const PPEM_EBDT: u8 = 20;

pub fn svg_doc() -> Vec<u8> {
    b"<svg xmlns=\"http://www.w3.org/2000/svg\"><g id=\"glyph1\"><rect width=\"7\" height=\"7\"/></g></svg>".to_vec()
}

/// SVG table: one document for the glyphs FIRST..=LAST.
pub fn svg_table() -> Vec<u8> {
    let doc = svg_doc();
    let mut w = W::new();
    w.u16(0).u32(10).u32(0);
    // document list: offsets are relative to its start
    w.u16(1);
    w.u16(FIRST).u16(LAST).u32(2 + 12).u32(doc.len() as u32);
    w.bytes(&doc);
    w.done()
}

pub fn sbix_payload(g: u16) -> Vec<u8> {
    let mut v = b"\x89PNG\r\n\x1a\nsbix-image-of-glyph-".to_vec();
    v.push(b'0' + g as u8);
    v
}

/// sbix: one strike of PPEM_SBIX with a 'png ' record for the glyphs FIRST..=LAST.
pub fn sbix_table(num_glyphs: u16) -> Vec<u8> {
    let mut w = W::new();
    w.u16(1).u16(1).u32(1).u32(12);
    let mut strike = W::new();
    strike.u16(PPEM_SBIX).u16(72);
    let mut recs = W::new();
    let mut offs = Vec::new();
    let head = 4 + 4 * (num_glyphs as usize + 1);
    for g in 0..num_glyphs {
        offs.push(head + recs.len());
        if g >= FIRST && g <= LAST {
            recs.i16(g as i16).i16(-(g as i16)).tag("png ").bytes(&sbix_payload(g));
        }
    }
    offs.push(head + recs.len());
    for o in offs {
        strike.u32(o as u32);
    }
    strike.bytes(&recs.done());
    w.bytes(&strike.done());
    w.done()
}

fn line_metrics(w: &mut W, asc: i8, desc: i8) {
    w.i8(asc).i8(desc).u8(40).i8(1).i8(0).i8(0).i8(-1).i8(-2).i8(9).i8(-3).i8(0).i8(0);
}

/// A bitmap location table (EBLC / CBLC) with one strike and one index sub-table of format 1 for the
/// glyphs FIRST..=LAST, and the data table (EBDT / CBDT) it points into.
fn loc_tables(ver: u16, ppem: u8, bit_depth: u8, image_format: u16, records: &[Vec<u8>]) -> (Vec<u8>, Vec<u8>) {
    let mut dat = W::new();
    dat.u16(ver).u16(0);
    let mut offs = vec![0usize];
    let mut body = W::new();
    for r in records {
        body.bytes(r);
        offs.push(body.len());
    }
    dat.bytes(&body.done());
    // index sub-table array: one entry, then the sub-table (format 1: u32 offsets)
    let mut arr = W::new();
    arr.u16(FIRST).u16(LAST).u32(8);
    arr.u16(1).u16(image_format).u32(4);
    for o in &offs {
        arr.u32(*o as u32);
    }
    let arr = arr.done();
    let mut loc = W::new();
    loc.u16(ver).u16(0).u32(1);
    loc.u32(8 + 48).u32(arr.len() as u32).u32(1).u32(0);
    line_metrics(&mut loc, 12, -4);
    line_metrics(&mut loc, 10, -3);
    loc.u16(FIRST).u16(LAST).u8(ppem).u8(ppem).u8(bit_depth).i8(1);
    loc.bytes(&arr);
    (loc.done(), dat.done())
}

pub fn cbdt_payload(g: u16) -> Vec<u8> {
    let mut v = b"\x89PNG\r\n\x1a\ncbdt-image-of-glyph-".to_vec();
    v.push(b'0' + g as u8);
    v
}

/// CBLC + CBDT: image format 17 (small metrics, PNG data), bit depth 32.
pub fn cblc_cbdt() -> (Vec<u8>, Vec<u8>) {
    let recs: Vec<Vec<u8>> = (FIRST..=LAST)
        .map(|g| {
            let p = cbdt_payload(g);
            let mut w = W::new();
            w.u8(9).u8(8).i8(1).i8(7).u8(10).u32(p.len() as u32).bytes(&p);
            w.done()
        })
        .collect();
    loc_tables(3, PPEM_CBDT, 32, 17, &recs)
}

/// EBLC + EBDT: image format 1 (small metrics, byte-aligned data), bit depth 1, 8 x 2 pixels.
pub fn eblc_ebdt() -> (Vec<u8>, Vec<u8>) {
    let recs: Vec<Vec<u8>> = (FIRST..=LAST)
        .map(|g| {
            let mut w = W::new();
            w.u8(2).u8(8).i8(0).i8(2).u8(9).u8(0xA0 | g as u8).u8(0x50 | g as u8);
            w.done()
        })
        .collect();
    loc_tables(2, PPEM_EBDT, 1, 1, &recs)
}

/// One strike of a bitmap table of the `strike` family: size, bit depth, range of glyphs that have a bitmap in it.
#[derive(Clone, Debug, PartialEq)]
pub struct Strike {
    pub ppem: u8,
    pub depth: u8,
    pub first: u16,
    pub last: u16,
}

/// the bitmap of glyph `g` in strike number `k` (0-based): 2 x 2 pixels, byte-aligned rows; every byte names strike and glyph
pub fn strike_pixels(k: usize, g: u16, depth: u8) -> Vec<u8> {
    let row = (depth as usize * 2 + 7) / 8;
    (0..2 * row).map(|i| 0x80 | ((k as u8) << 4) | ((g as u8 & 7) << 1) | (i as u8 & 1)).collect()
}

/// A bitmap location table with one BitmapSize record per strike (each with one index sub-table of format 1, image
/// format 1: small metrics, byte-aligned data) and the data table it points into.  `ver` 2 = EBLC/EBDT, 3 = CBLC/CBDT.
pub fn strike_tables(ver: u16, strikes: &[Strike]) -> (Vec<u8>, Vec<u8>) {
    let mut dat = W::new();
    dat.u16(ver).u16(0);
    let n = strikes.len();
    let mut arrays: Vec<Vec<u8>> = Vec::new();
    let mut dat_len = 4usize;
    for (k, s) in strikes.iter().enumerate() {
        let mut offs = vec![0usize];
        let mut body = W::new();
        for g in s.first..=s.last {
            body.u8(2).u8(2).i8(0).i8(2).u8(3).bytes(&strike_pixels(k, g, s.depth));
            offs.push(body.len());
        }
        let body = body.done();
        let mut arr = W::new();
        arr.u16(s.first).u16(s.last).u32(8);
        arr.u16(1).u16(1).u32(dat_len as u32);
        for o in &offs {
            arr.u32(*o as u32);
        }
        dat_len += body.len();
        dat.bytes(&body);
        arrays.push(arr.done());
    }
    let mut loc = W::new();
    loc.u16(ver).u16(0).u32(n as u32);
    let mut at = 8 + 48 * n;
    for (k, s) in strikes.iter().enumerate() {
        loc.u32(at as u32).u32(arrays[k].len() as u32).u32(1).u32(0);
        line_metrics(&mut loc, 12, -4);
        line_metrics(&mut loc, 10, -3);
        loc.u16(s.first).u16(s.last).u8(s.ppem).u8(s.ppem).u8(s.depth).i8(1);
        at += arrays[k].len();
    }
    for a in &arrays {
        loc.bytes(a);
    }
    (loc.done(), dat.done())
}

/// Independent look at a built location table (plain offset arithmetic): the strikes it declares, in order.
pub fn read_strikes(loc: &[u8]) -> Option<Vec<Strike>> {
    let be16 = |o: usize| loc.get(o..o + 2).map(|b| u16::from_be_bytes([b[0], b[1]]));
    let n = u32::from_be_bytes([*loc.get(4)?, *loc.get(5)?, *loc.get(6)?, *loc.get(7)?]) as usize;
    let mut v = Vec::new();
    for k in 0..n {
        let r = 8 + 48 * k;
        v.push(Strike { first: be16(r + 40)?, last: be16(r + 42)?, ppem: *loc.get(r + 44)?, depth: *loc.get(r + 46)? });
    }
    Some(v)
}

/// The tables (tag, bytes) of the image kinds in the bit set `imgs`.
pub fn tables(imgs: u8, num_glyphs: u16) -> Vec<(String, Vec<u8>)> {
    let mut v = Vec::new();
    if imgs & SVG != 0 {
        v.push(("SVG ".to_string(), svg_table()));
    }
    if imgs & CBDT != 0 {
        let (l, d) = cblc_cbdt();
        v.push(("CBLC".to_string(), l));
        v.push(("CBDT".to_string(), d));
    }
    if imgs & SBIX != 0 {
        v.push(("sbix".to_string(), sbix_table(num_glyphs)));
    }
    if imgs & EBDT != 0 {
        let (l, d) = eblc_ebdt();
        v.push(("EBLC".to_string(), l));
        v.push(("EBDT".to_string(), d));
    }
    v
}

fn find(hay: &[u8], needle: &[u8]) -> bool {
    hay.windows(needle.len()).any(|w| w == needle)
}

/// Independent look at built table bytes: does the table of `kind` hold the payload of glyph `g`?
pub fn holds_payload(kind: u8, table: &[u8], g: u16) -> bool {
    match kind {
        SVG => find(table, &svg_doc()),
        CBDT => find(table, &cbdt_payload(g)),
        SBIX => find(table, &sbix_payload(g)),
        _ => find(table, &[2, 8, 0, 2, 9, 0xA0 | g as u8, 0x50 | g as u8]),
    }
}
