//! C02 copy of the X01 random morx program generator (harness/src/bin/x01_morx/rnd.rs), reduced to
//! `program(seed, k)`: one well-formed program over the 27 glyphs of the synthesized C02 fonts (input
//! glyphs 1..6 = space f i x eacute e, output glyphs 7..26).  No input strings are drawn here: the
//! fonts are shaped with the text-class strings TLC enumerates.  By construction
//! lookup tables ascend and do not overlap, class values are 1 or
//! >= 4, state rows have nClasses entries, DONT_ADVANCE entries only lead to higher-numbered states
//! (no DONT_ADVANCE cycle), end-of-text entries carry no current-glyph substitution, ligature tables are
//! compiled from prefix-free rule sets so that no action underflows the stack, STORE only with LAST.
use rand::rngs::StdRng;
use rand::seq::SliceRandom;
use rand::{Rng, SeedableRng};
use serde_json::{json, Value};
use std::collections::BTreeMap;

const ALPHA: [i64; 6] = [1, 2, 3, 4, 5, 6];
const DEL: i64 = 65535;

/// Lookup table from glyph -> value pairs in format `f` (0, 2, 4, 6, 8, 10; 11 / 14 / 18 = format 10
/// with unit size 1 / 4 / 8); the array formats fill holes with class 1 / the glyph itself.
pub fn mk_lookup(f: i64, n: i64, map: &BTreeMap<i64, i64>, ident: bool) -> Value {
    let lo = *map.keys().next().unwrap();
    let hi = *map.keys().last().unwrap();
    let at = |g: i64| -> i64 { *map.get(&g).unwrap_or(&(if ident { g } else { 1 })) };
    let mut segs: Vec<Value> = Vec::new();
    let mut vals: Vec<i64> = Vec::new();
    let mut first = 0;
    match f {
        0 => vals = (0..n).map(at).collect(),
        2 => {
            let mut cur: Option<(i64, i64, i64)> = None;
            for (&g, &v) in map {
                match cur {
                    Some((a, b, cv)) if b + 1 == g && cv == v => cur = Some((a, g, cv)),
                    Some((a, b, cv)) => {
                        segs.push(json!({"lo": a, "hi": b, "v": cv, "vs": []}));
                        cur = Some((g, g, v));
                    }
                    None => cur = Some((g, g, v)),
                }
            }
            if let Some((a, b, cv)) = cur {
                segs.push(json!({"lo": a, "hi": b, "v": cv, "vs": []}));
            }
        }
        4 => {
            let mut cur: Option<(i64, i64, Vec<i64>)> = None;
            for (&g, &v) in map {
                match cur.take() {
                    Some((a, b, mut vs)) if b + 1 == g => {
                        vs.push(v);
                        cur = Some((a, g, vs));
                    }
                    Some((a, b, vs)) => {
                        segs.push(json!({"lo": a, "hi": b, "v": 0, "vs": vs}));
                        cur = Some((g, g, vec![v]));
                    }
                    None => cur = Some((g, g, vec![v])),
                }
            }
            if let Some((a, b, vs)) = cur {
                segs.push(json!({"lo": a, "hi": b, "v": 0, "vs": vs}));
            }
        }
        6 => {
            for (&g, &v) in map {
                segs.push(json!({"lo": g, "hi": g, "v": v, "vs": []}));
            }
        }
        _ => {
            first = lo;
            vals = (lo..=hi).map(at).collect();
        }
    }
    let (fmt, unit) = match f {
        11 => (10, 1),
        14 => (10, 4),
        18 => (10, 8),
        x => (x, 2),
    };
    json!({"f": fmt, "first": first, "unit": unit, "vals": vals, "segs": segs})
}

struct Gen {
    rng: StdRng,
    n: i64,
}

impl Gen {
    fn out_glyph(&mut self) -> i64 {
        self.rng.gen_range(7..self.n)
    }

    /// lookup table from glyph -> value pairs, in a format drawn at random
    fn lookup(&mut self, map: &BTreeMap<i64, i64>, ident: bool) -> Value {
        let lo = *map.keys().next().unwrap();
        let hi = *map.keys().last().unwrap();
        let at = |g: i64| -> i64 { *map.get(&g).unwrap_or(&(if ident { g } else { 1 })) };
        let small = (lo..=hi).all(|g| at(g) < 256);
        let mut fmts = vec![0, 2, 4, 6, 8, 10];
        if small {
            fmts.push(11);
        }
        let f = *fmts.choose(&mut self.rng).unwrap();
        mk_lookup(f, self.n, map, ident)
    }

    fn subst_table(&mut self, allow_del: bool) -> Value {
        let mut map = BTreeMap::new();
        let k = self.rng.gen_range(1..=4);
        for _ in 0..k {
            let g = if self.rng.gen_bool(0.75) { *ALPHA.choose(&mut self.rng).unwrap() } else { self.out_glyph() };
            let v = if allow_del && self.rng.gen_bool(0.06) { DEL } else { self.out_glyph() };
            map.insert(g, v);
        }
        self.lookup(&map, true)
    }

    fn cov(&mut self) -> i64 {
        let r = self.rng.gen_range(0..100);
        match r {
            0..=3 => 4,
            4..=7 => 8,
            8..=11 => 1,
            12..=14 => 2,
            15..=16 => 10,
            _ => 0,
        }
    }

    fn flags(&mut self) -> i64 {
        *[1, 1, 1, 2, 4, 3, 6].choose(&mut self.rng).unwrap()
    }

    fn noncontextual(&mut self) -> Value {
        json!({"type": 4, "cov": self.cov(), "flags": self.flags(), "lk": self.subst_table(false)})
    }

    fn contextual(&mut self) -> Value {
        // classes
        let ngroups = self.rng.gen_range(1..=3);
        let mut cmap = BTreeMap::new();
        let mut pool: Vec<i64> = ALPHA.to_vec();
        for _ in 0..2 {
            pool.push(self.out_glyph());
        }
        pool.sort();
        pool.dedup();
        for &g in &pool {
            if self.rng.gen_bool(0.7) {
                cmap.insert(g, 4 + self.rng.gen_range(0..ngroups));
            }
        }
        if cmap.is_empty() {
            cmap.insert(1, 4);
        }
        let nc = 4 + ngroups;
        let ns = 2 + self.rng.gen_range(1..=3);
        let nsub = self.rng.gen_range(1..=3);
        let subst: Vec<Value> = (0..nsub).map(|_| self.subst_table(true)).collect();
        // entries
        let mut ents = vec![(0i64, 0i64, 0i64, -1i64, -1i64)];
        for _ in 0..self.rng.gen_range(3..=6) {
            let da = if self.rng.gen_bool(0.2) { 1 } else { 0 };
            let nst = if da == 1 { self.rng.gen_range(2..ns) } else { self.rng.gen_range(0..ns) };
            let nst = if nst == 1 { 0 } else { nst };
            let mark = if self.rng.gen_bool(0.35) { 1 } else { 0 };
            let mi = if self.rng.gen_bool(0.45) { self.rng.gen_range(0..nsub) } else { -1 };
            let ci = if self.rng.gen_bool(0.45) { self.rng.gen_range(0..nsub) } else { -1 };
            ents.push((nst, mark, da, mi, ci));
        }
        let mut rows: Vec<Vec<i64>> = Vec::new();
        for s in 0..ns {
            if s == 1 {
                rows.push(rows[0].clone());
                continue;
            }
            let mut row = Vec::new();
            for c in 0..nc {
                let ok: Vec<usize> = (0..ents.len())
                    .filter(|&k| {
                        let e = ents[k];
                        (e.2 == 0 || e.0 > s) && (c != 0 || e.4 == -1)
                    })
                    .collect();
                let quiet = c < 4 && c != 0 && self.rng.gen_bool(0.7);
                row.push(if quiet { 0 } else { *ok.choose(&mut self.rng).unwrap() as i64 });
            }
            rows.push(row);
        }
        let cls = self.lookup(&cmap, false);
        json!({"type": 1, "cov": self.cov(), "flags": self.flags(), "nc": nc, "cls": cls, "rows": rows,
               "ents": ents.iter().map(|e| json!({"ns": e.0, "mark": e.1, "da": e.2, "mi": e.3, "ci": e.4})).collect::<Vec<_>>(),
               "subst": subst})
    }

    /// ligature subtable compiled from a prefix-free rule set; returns the subtable and the rules
    fn ligature(&mut self) -> (Value, Vec<Vec<i64>>) {
        let mut rules: Vec<(Vec<i64>, i64)> = Vec::new();
        for _ in 0..self.rng.gen_range(1..=3) {
            let len = self.rng.gen_range(2..=3);
            let seq: Vec<i64> = (0..len).map(|_| ALPHA[self.rng.gen_range(0..4)]).collect();
            let clash = rules.iter().any(|(r, _)| r.starts_with(&seq) || seq.starts_with(r));
            if !clash {
                let l = self.out_glyph();
                rules.push((seq, l));
            }
        }
        let skip: Option<i64> = if self.rng.gen_bool(0.25) { Some(6) } else { None };
        let da_fail = self.rng.gen_bool(0.5);
        // classes: one per component glyph, one for the skipped glyph
        let mut cmap = BTreeMap::new();
        let mut next_class = 4;
        for (r, _) in &rules {
            for g in r {
                if !cmap.contains_key(g) {
                    cmap.insert(*g, next_class);
                    next_class += 1;
                }
            }
        }
        let skip_class = skip.filter(|g| !cmap.contains_key(g)).map(|g| {
            cmap.insert(g, next_class);
            next_class += 1;
            next_class - 1
        });
        let nc = next_class;
        // trie nodes = proper prefixes; node 0 = root (states 0 and 1), others numbered from 2
        let mut nodes: Vec<Vec<i64>> = vec![vec![]];
        for (r, _) in &rules {
            for k in 1..r.len() {
                let p = r[..k].to_vec();
                if !nodes.contains(&p) {
                    nodes.push(p);
                }
            }
        }
        let state_of = |p: &Vec<i64>, nodes: &Vec<Vec<i64>>| -> i64 {
            let k = nodes.iter().position(|x| x == p).unwrap() as i64;
            if k == 0 {
                0
            } else {
                k + 1
            }
        };
        // actions, components, ligatures
        let mut acts: Vec<Value> = Vec::new();
        let mut comps: Vec<i64> = Vec::new();
        let mut ligs: Vec<i64> = Vec::new();
        let mut act_start: Vec<i64> = Vec::new();
        for (r, l) in &rules {
            let li = ligs.len() as i64;
            ligs.push(*l);
            let base = comps.len() as i64;
            for j in 0..r.len() {
                comps.push(if j == 0 { li } else { 0 });
            }
            act_start.push(acts.len() as i64);
            let store = if self.rng.gen_bool(0.8) { 1 } else { 0 };
            for j in (0..r.len()).rev() {
                let last = if j == 0 { 1 } else { 0 };
                acts.push(json!({"last": last, "store": if j == 0 { store } else { 0 }, "off": base + j as i64 - r[j]}));
            }
        }
        // entries (deduplicated)
        let mut ents: Vec<(i64, i64, i64, i64, i64)> = vec![(0, 0, 0, 0, 0)];
        let ent = |e: (i64, i64, i64, i64, i64), ents: &mut Vec<(i64, i64, i64, i64, i64)>| -> i64 {
            match ents.iter().position(|x| *x == e) {
                Some(k) => k as i64,
                None => {
                    ents.push(e);
                    ents.len() as i64 - 1
                }
            }
        };
        let class_glyph: BTreeMap<i64, i64> = cmap.iter().map(|(g, c)| (*c, *g)).collect();
        let step = |p: &Vec<i64>, g: i64, ents: &mut Vec<(i64, i64, i64, i64, i64)>| -> Option<i64> {
            let mut q = p.clone();
            q.push(g);
            if let Some(k) = rules.iter().position(|(r, _)| *r == q) {
                return Some(ent((0, 1, 1, 0, act_start[k]), ents));
            }
            if nodes.contains(&q) {
                return Some(ent((state_of(&q, &nodes), 1, 0, 0, 0), ents));
            }
            None
        };
        let mut rows: Vec<Vec<i64>> = Vec::new();
        let mut order: Vec<Vec<i64>> = vec![vec![], vec![]];
        order.extend(nodes.iter().skip(1).cloned());
        for p in &order {
            let s = state_of(p, &nodes);
            let mut row = Vec::new();
            for c in 0..nc {
                let e = if c == 0 {
                    0
                } else if c == 2 {
                    ent((s, 0, 0, 0, 0), &mut ents)
                } else if Some(c) == skip_class && s != 0 {
                    ent((s, 0, 0, 0, 0), &mut ents)
                } else if c < 4 || Some(c) == skip_class {
                    if da_fail && s != 0 {
                        ent((0, 0, 0, 1, 0), &mut ents)
                    } else {
                        0
                    }
                } else {
                    let g = class_glyph[&c];
                    match step(p, g, &mut ents) {
                        Some(e) => e,
                        None => {
                            if s == 0 {
                                0
                            } else if da_fail {
                                ent((0, 0, 0, 1, 0), &mut ents)
                            } else {
                                step(&vec![], g, &mut ents).unwrap_or(0)
                            }
                        }
                    }
                };
                row.push(e);
            }
            rows.push(row);
        }
        let cls = self.lookup(&cmap, false);
        let sub = json!({"type": 2, "cov": self.cov(), "flags": self.flags(), "nc": nc, "cls": cls, "rows": rows,
            "ents": ents.iter().map(|e| json!({"ns": e.0, "push": e.1, "act": e.2, "da": e.3, "ai": e.4})).collect::<Vec<_>>(),
            "acts": acts, "comps": comps, "ligs": ligs});
        (sub, rules.into_iter().map(|(r, _)| r).collect())
    }
}

const FEATS: [(i64, i64); 15] =
    [(1, 2), (1, 3), (21, 1), (21, 0), (6, 1), (11, 0), (14, 4), (14, 5), (99, 1), (37, 1), (38, 1), (1, 18), (1, 19), (1, 20), (1, 21)];

/// (kind = subtable types present, program)
pub fn program(seed: u64, k: u64) -> (String, Value) {
    let rng = StdRng::seed_from_u64(seed.wrapping_mul(0x9E37_79B9_7F4A_7C15).wrapping_add(k).wrapping_add(0xC02));
    let mut g = Gen { rng, n: 27 };
    let mut chains = Vec::new();
    let mut types: Vec<i64> = Vec::new();
    for _ in 0..g.rng.gen_range(1..=2) {
        let mut subs = Vec::new();
        for _ in 0..g.rng.gen_range(1..=4) {
            let r = g.rng.gen_range(0..100);
            let sub = if r < 25 {
                g.noncontextual()
            } else if r < 55 {
                g.contextual()
            } else if r < 92 {
                g.ligature().0
            } else {
                json!({"type": if g.rng.gen_bool(0.5) { 0 } else { 5 }, "cov": 0, "flags": g.flags()})
            };
            types.push(sub["type"].as_i64().unwrap());
            subs.push(sub);
        }
        let mut feats = Vec::new();
        for _ in 0..g.rng.gen_range(0..=3) {
            let (t, s) = *FEATS.choose(&mut g.rng).unwrap();
            feats.push(json!({"t": t, "s": s, "en": g.rng.gen_range(0..8), "dis": 65528 + g.rng.gen_range(0..8)}));
        }
        let def = *[1, 1, 3, 5, 7, 0].choose(&mut g.rng).unwrap();
        chains.push(json!({"def": def, "sh": 8 * g.rng.gen_range(0..3), "feats": feats, "subs": subs}));
    }
    let prog = json!({"ver": 2 + g.rng.gen_range(0..2), "n": g.n, "lay": g.rng.gen_range(0..4), "chains": chains});
    types.sort();
    types.dedup();
    (types.iter().map(|t| t.to_string()).collect::<Vec<_>>().join(""), prog)
}
