//! C02 copy of the X01 encoder (harness/src/bin/x01_morx/enc.rs): abstract morx program -> `morx`
//! table bytes.  Differences from the original: lookup format 10 is also written with unit sizes 4
//! and 8, `upto` (prefix tables) is gone, and the count / length fields of the headers can be
//! overridden (program `n_chains`; chain `n_subs`, `n_feats`, `len`; subtable `len`) to write a table
//! whose header lies about what follows.
//!
//! Layout of the TrueType Reference Manual, chapter 'morx': header (version, unused, nChains), chains
//! (defaultFlags, chainLength, nFeatureEntries, nSubtables, feature entries, subtables, for version 3 the
//! subtable glyph coverage array), subtables (length, coverage, subFeatureFlags, body), extended state
//! tables (STXHeader, class lookup table, state array, entry table, per-type tables), lookup tables of
//! formats 0/2/4/6/8/10 with their binary-search headers.  `lay` (program field) only varies the
//! physical layout: bit 0 = write the 0xFFFF terminator units of binary-search tables, bit 1 = contextual
//! substitution tables in reverse physical order and padding between the parts of a state table.
#![allow(dead_code)]
use serde_json::Value;
use vh::fontgen::W;

pub fn arr(v: &Value) -> &Vec<Value> {
    static EMPTY: Vec<Value> = Vec::new();
    v.as_array().unwrap_or(&EMPTY)
}
pub fn int(v: &Value) -> i64 {
    v.as_i64().unwrap_or_else(|| panic!("expected integer, got {}", v))
}
pub fn ints(v: &Value) -> Vec<i64> {
    arr(v).iter().map(int).collect()
}
pub fn text(v: &Value) -> &str {
    v.as_str().unwrap_or("")
}

fn bin_srch_header(w: &mut W, unit: u16, n: u16) {
    let mut sr = 1u16;
    let mut es = 0u16;
    while sr * 2 <= n.max(1) {
        sr *= 2;
        es += 1;
    }
    let search_range = if n == 0 { 0 } else { sr * unit };
    w.u16(unit).u16(n).u16(search_range).u16(if n == 0 { 0 } else { es }).u16(n.wrapping_mul(unit).wrapping_sub(search_range));
}

/// one lookup table; `n` = numGlyphs (format 0 holds one value per glyph)
pub fn lookup(lk: &Value, n: usize, lay: i64) -> Vec<u8> {
    let f = int(&lk["f"]);
    let term = lay & 1 == 1;
    let mut w = W::new();
    match f {
        0 => {
            w.u16(0);
            let vals = ints(&lk["vals"]);
            assert_eq!(vals.len(), n, "format 0 needs one value per glyph");
            for v in vals {
                w.u16(v as u16);
            }
        }
        2 => {
            let segs = arr(&lk["segs"]);
            w.u16(2);
            bin_srch_header(&mut w, 6, segs.len() as u16);
            for s in segs {
                w.u16(int(&s["hi"]) as u16).u16(int(&s["lo"]) as u16).u16(int(&s["v"]) as u16);
            }
            if term {
                w.u16(0xFFFF).u16(0xFFFF).u16(0);
            }
        }
        4 => {
            let segs = arr(&lk["segs"]);
            w.u16(4);
            bin_srch_header(&mut w, 6, segs.len() as u16);
            let n_units = segs.len() + if term { 1 } else { 0 };
            let mut off = 12 + 6 * n_units;
            for s in segs {
                w.u16(int(&s["hi"]) as u16).u16(int(&s["lo"]) as u16).u16(off as u16);
                off += 2 * arr(&s["vs"]).len();
            }
            if term {
                w.u16(0xFFFF).u16(0xFFFF).u16(0);
            }
            for s in segs {
                for v in ints(&s["vs"]) {
                    w.u16(v as u16);
                }
            }
        }
        6 => {
            let segs = arr(&lk["segs"]);
            w.u16(6);
            bin_srch_header(&mut w, 4, segs.len() as u16);
            for s in segs {
                w.u16(int(&s["lo"]) as u16).u16(int(&s["v"]) as u16);
            }
            if term {
                w.u16(0xFFFF).u16(0);
            }
        }
        8 => {
            let vals = ints(&lk["vals"]);
            w.u16(8).u16(int(&lk["first"]) as u16).u16(vals.len() as u16);
            for v in vals {
                w.u16(v as u16);
            }
        }
        10 => {
            let vals = ints(&lk["vals"]);
            let unit = int(&lk["unit"]);
            w.u16(10).u16(unit as u16).u16(int(&lk["first"]) as u16).u16(vals.len() as u16);
            for v in vals {
                match unit {
                    1 => {
                        w.u8(v as u8);
                    }
                    2 => {
                        w.u16(v as u16);
                    }
                    4 => {
                        w.u32(v as u32);
                    }
                    _ => {
                        w.u32(0).u32(v as u32);
                    }
                }
            }
        }
        _ => panic!("lookup format {}", f),
    }
    let mut b = w.done();
    while b.len() % 2 != 0 {
        b.push(0);
    }
    b
}

fn pad4(b: &mut Vec<u8>) {
    while b.len() % 4 != 0 {
        b.push(0);
    }
}

fn state_array(sub: &Value) -> Vec<u8> {
    let mut w = W::new();
    for row in arr(&sub["rows"]) {
        for e in ints(row) {
            w.u16(e as u16);
        }
    }
    w.done()
}

/// Assemble a state table body: `head_extra` = number of extra u32 offsets after the STXHeader;
/// parts = (class table, state array, entry table, extra parts...). Returns the body.
fn assemble(nc: i64, class: Vec<u8>, states: Vec<u8>, entries: Vec<u8>, extras: Vec<Vec<u8>>, lay: i64) -> Vec<u8> {
    let gap = if lay & 2 == 2 { 4 } else { 0 };
    let head = 16 + 4 * extras.len();
    let mut body: Vec<u8> = vec![0; head];
    let place = |part: &Vec<u8>, body: &mut Vec<u8>| -> u32 {
        pad4(body);
        for _ in 0..gap {
            body.push(0xEE);
        }
        let at = body.len() as u32;
        body.extend_from_slice(part);
        at
    };
    let class_at = place(&class, &mut body);
    let states_at = place(&states, &mut body);
    let entries_at = place(&entries, &mut body);
    let mut extra_at = Vec::new();
    for e in &extras {
        extra_at.push(place(e, &mut body));
    }
    pad4(&mut body);
    let mut h = W::new();
    h.u32(nc as u32).u32(class_at).u32(states_at).u32(entries_at);
    for a in extra_at {
        h.u32(a);
    }
    let h = h.done();
    body[..h.len()].copy_from_slice(&h);
    body
}

fn contextual(sub: &Value, n: usize, lay: i64) -> Vec<u8> {
    let class = lookup(&sub["cls"], n, lay);
    let states = state_array(sub);
    let mut ew = W::new();
    for e in arr(&sub["ents"]) {
        let flags = (if int(&e["mark"]) == 1 { 0x8000u16 } else { 0 }) | (if int(&e["da"]) == 1 { 0x4000 } else { 0 });
        let idx = |v: i64| if v < 0 { 0xFFFFu16 } else { v as u16 };
        ew.u16(int(&e["ns"]) as u16).u16(flags).u16(idx(int(&e["mi"]))).u16(idx(int(&e["ci"])));
    }
    // substitution tables: u32 offsets from the start of this part, then the lookup tables
    let tables: Vec<Vec<u8>> = arr(&sub["subst"]).iter().map(|lk| lookup(lk, n, lay)).collect();
    let k = tables.len();
    let mut offs = vec![0u32; k];
    let mut blob: Vec<u8> = Vec::new();
    let order: Vec<usize> = if lay & 2 == 2 { (0..k).rev().collect() } else { (0..k).collect() };
    for &t in &order {
        while blob.len() % 4 != 0 {
            blob.push(0);
        }
        offs[t] = (4 * k + blob.len()) as u32;
        blob.extend_from_slice(&tables[t]);
    }
    let mut sw = W::new();
    for o in offs {
        sw.u32(o);
    }
    sw.bytes(&blob);
    assemble(int(&sub["nc"]), class, states, ew.done(), vec![sw.done()], lay)
}

fn ligature(sub: &Value, n: usize, lay: i64) -> Vec<u8> {
    let class = lookup(&sub["cls"], n, lay);
    let states = state_array(sub);
    let mut ew = W::new();
    for e in arr(&sub["ents"]) {
        let flags = (if int(&e["push"]) == 1 { 0x8000u16 } else { 0 })
            | (if int(&e["da"]) == 1 { 0x4000 } else { 0 })
            | (if int(&e["act"]) == 1 { 0x2000 } else { 0 });
        ew.u16(int(&e["ns"]) as u16).u16(flags).u16(int(&e["ai"]) as u16);
    }
    let mut aw = W::new();
    for a in arr(&sub["acts"]) {
        let off = (int(&a["off"]) as i32 as u32) & 0x3FFF_FFFF;
        let v = (if int(&a["last"]) == 1 { 0x8000_0000u32 } else { 0 }) | (if int(&a["store"]) == 1 { 0x4000_0000 } else { 0 }) | off;
        aw.u32(v);
    }
    let mut cw = W::new();
    for c in ints(&sub["comps"]) {
        cw.u16(c as u16);
    }
    let mut lw = W::new();
    for l in ints(&sub["ligs"]) {
        lw.u16(l as u16);
    }
    assemble(int(&sub["nc"]), class, states, ew.done(), vec![aw.done(), cw.done(), lw.done()], lay)
}

/// rearrangement (0) / insertion (5): a small, plausible state table that allsorts does not interpret
fn opaque(t: i64) -> Vec<u8> {
    let mut class = W::new();
    class.u16(6);
    bin_srch_header(&mut class, 4, 0);
    let mut states = W::new();
    for _ in 0..8 {
        states.u16(0);
    }
    let mut ents = W::new();
    ents.u16(0).u16(0);
    if t == 5 {
        ents.u16(0xFFFF).u16(0xFFFF);
        return assemble(4, class.done(), states.done(), ents.done(), vec![vec![0, 0]], 0);
    }
    assemble(4, class.done(), states.done(), ents.done(), vec![], 0)
}

pub fn subtable(sub: &Value, n: usize, sh: u32, lay: i64) -> Vec<u8> {
    let t = int(&sub["type"]);
    let mut body = match t {
        1 => contextual(sub, n, lay),
        2 => ligature(sub, n, lay),
        4 => lookup(&sub["lk"], n, lay),
        _ => opaque(t),
    };
    pad4(&mut body);
    let mut w = W::new();
    let len = sub.get("len").map_or(12 + body.len() as u32, |v| int(v) as u32);
    w.u32(len).u32(((int(&sub["cov"]) as u32) << 28) | t as u32).u32((int(&sub["flags"]) as u32) << sh);
    w.bytes(&body);
    w.done()
}

/// The whole table.
pub fn morx(prog: &Value) -> Vec<u8> {
    let n = int(&prog["n"]) as usize;
    let lay = int(&prog["lay"]);
    let ver = int(&prog["ver"]) as u16;
    let mut chains: Vec<Vec<u8>> = Vec::new();
    for (ci, ch) in arr(&prog["chains"]).iter().enumerate() {
        let sh = int(&ch["sh"]) as u32;
        let window = 0xFFFFu32 << sh;
        let mut subs: Vec<Vec<u8>> = Vec::new();
        for sub in arr(&ch["subs"]) {
            subs.push(subtable(sub, n, sh, lay));
        }
        let feats = arr(&ch["feats"]);
        let mut w = W::new();
        let n_feats = ch.get("n_feats").map_or(feats.len() as u32, |v| int(v) as u32);
        let n_subs = ch.get("n_subs").map_or(subs.len() as u32, |v| int(v) as u32);
        w.u32((int(&ch["def"]) as u32) << sh).u32(0).u32(n_feats).u32(n_subs);
        for f in feats {
            // bits outside the 16-bit window are kept by every disable mask
            w.u16(int(&f["t"]) as u16).u16(int(&f["s"]) as u16).u32((int(&f["en"]) as u32) << sh).u32(((int(&f["dis"]) as u32) << sh) | !window);
        }
        for s in &subs {
            w.bytes(s);
        }
        if ver == 3 {
            // subtable glyph coverage array: one offset per subtable (0xFFFFFFFF = none), then bitfields
            let with_bits = ci % 2 == 0;
            let bits_len = ((n + 7) / 8 + 3) / 4 * 4;
            for k in 0..subs.len() {
                w.u32(if with_bits { (4 * subs.len() + k * bits_len) as u32 } else { 0xFFFF_FFFF });
            }
            if with_bits {
                for _ in 0..subs.len() * bits_len {
                    w.u8(0xFF);
                }
            }
        }
        let mut b = w.done();
        let len = ch.get("len").map_or(b.len() as u32, |v| int(v) as u32);
        b[4..8].copy_from_slice(&len.to_be_bytes());
        chains.push(b);
    }
    let mut w = W::new();
    w.u16(ver).u16(0).u32(prog.get("n_chains").map_or(chains.len() as u32, |v| int(v) as u32));
    for c in &chains {
        w.bytes(c);
    }
    w.done()
}
