//! C02, second strengthening: synthesized fonts that are built from the font CASES TLC enumerates
//! (specs/MC_ShaperFonts.tla) plus a seeded random family.  The glyphs, the cmap and the text
//! classes are those of synth.rs.
//!
//!   lkp      nested-lookup graphs of GSUB (types 5 / 6, plain or behind Extension lookups) and GPOS
//!            (types 7 / 8): cycles of 1..n contextual lookups with one or two lookup records per
//!            node, and chains of contextual lookups that end in a terminal lookup, one below / at /
//!            above the recursion limit of allsorts.  Every context matches on `x`.
//!   morx     fonts with `morx` and no GSUB (shaped through src/layout/morx.rs): ligature subtables
//!            (2..4 components x action lists with LAST / STORE in every arrangement x DONT_ADVANCE on
//!            the performing entry x failure transitions x a skipped glyph class), contextual
//!            subtables (current / marked / both, DONT_ADVANCE chains, end-of-text), noncontextual
//!            subtables in every lookup format, several chains with feature flags
//!   morxadv  well-formed tables that are adversarial for totality: DONT_ADVANCE cycles, action lists
//!            without LAST, component / ligature / action / entry / state / class indices at and one
//!            past the table end, stack underflow, deleted and missing glyphs, lookup format 10 with
//!            4 and 8 byte units.  Short texts, own script only, never corrupted, small CPU budget.
//!   morxrnd  seeded random well-formed programs (rnd_morx.rs)
//!
//! A font is a function of its NAME (`from_name`): a finding is replayed from the name in the event.
//! The harness decides nothing here: this module produces bytes and `tags` (facts about the bytes).
use super::rnd_morx::{self, mk_lookup};
use super::synth::*;
use serde_json::{json, Value};
use std::collections::BTreeMap;

const A_MX: &[&str] = &["Lf", "Li", "Lx"];
const A_MX_MK: &[&str] = &["Lf", "Li", "Mk"];
const A_MX_NC: &[&str] = &["Lf", "Lx", "Dg"];
const A_MX_MULTI: &[&str] = &["Lf", "Li", "Lx", "Dg"];
const A_RND: &[&str] = &["Sp", "Lf", "Li", "Lx", "Ld"];
const A_LKP: &[&str] = &["Lf", "Lx", "Mk"];
const A_ADV: &[&str] = &["Lf", "Li", "Lx"];
const A_CNT: &[&str] = &["Lf", "Lx"];

/// MaskDefault, MaskAll, MaskEmpty, CustomEmpty, MaskNum: the selectors of several chains
const C_MORX_MULTI: &[u8] = &[0, 1, 8, 3, 5];
/// MaskDefault, CustomEmpty (a Custom list leaves the default flags of a chain)
const C_MORX: &[u8] = &[0, 3];
const C_ADV: &[u8] = &[0];
/// MaskDefault, CustomGpos (dist, calt)
const C_LKP: &[u8] = &[0, 9];

/// CPU budget of the morx families: tables of at most eight states over texts of at most six glyphs
pub const MORX_BUDGET_MS: u64 = 300;

const N: i64 = NUM_GLYPHS as i64;

// ---- names <-> cases -------------------------------------------------------------------------------

fn s<'a>(c: &'a Value, k: &str) -> &'a str {
    c[k].as_str().unwrap_or_else(|| panic!("font case {} has no string {}", c, k))
}
fn n(c: &Value, k: &str) -> i64 {
    c[k].as_i64().unwrap_or_else(|| panic!("font case {} has no integer {}", c, k))
}

/// the font name a TLC font case denotes
pub fn name_of_case(c: &Value) -> String {
    match s(c, "fam") {
        "lkp" => {
            let kinds: Vec<&str> = c["kinds"].as_array().expect("kinds").iter().map(|k| k.as_str().expect("kind")).collect();
            match s(c, "shape") {
                "cycle" => format!("lkp-{}-cycle-{}-f{}", s(c, "tbl"), kinds.join("."), n(c, "fan")),
                "chain" => format!("lkp-{}-chain-{}-{}", s(c, "tbl"), kinds.join("."), s(c, "term")),
                x => panic!("lkp shape {}", x),
            }
        }
        "mx" => match s(c, "kind") {
            "lig" => format!("mx-lig-n{}-{}-da{}-fda{}-sk{}", n(c, "n"), s(c, "pat"), n(c, "da"), n(c, "fda"), n(c, "sk")),
            "ctx" => format!("mx-ctx-{}-da{}-f{}", s(c, "sub"), n(c, "da"), n(c, "fmt")),
            "nc" => format!("mx-nc-f{}", n(c, "fmt")),
            "multi" => format!("mx-multi-{}", n(c, "v")),
            "adv" => format!("mx-adv-{}", s(c, "name")),
            x => panic!("mx kind {}", x),
        },
        "cnt" => format!("cnt-{}-{}-n{}-{}", s(c, "tbl"), s(c, "feat"), n(c, "n"), s(c, "arr")),
        x => panic!("font case family {}", x),
    }
}

/// The synthesized font of a name (None: not a name of this module).  `seed` only matters for morxrnd.
pub fn from_name(name: &str, seed: u64) -> Option<SynthFont> {
    let p: Vec<&str> = name.split('-').collect();
    match p[0] {
        "lkp" if p.len() == 5 => {
            let kinds: Vec<&str> = p[3].split('.').collect();
            Some(lkp_font(name, p[1], p[2], &kinds, p[4]))
        }
        "mx" => Some(match p[1] {
            "lig" if p.len() == 7 => {
                let num = |x: &str, pre: &str| -> i64 { x.strip_prefix(pre).and_then(|v| v.parse().ok()).unwrap_or_else(|| panic!("font name {}", name)) };
                mx_lig_font(name, num(p[2], "n") as usize, p[3], num(p[4], "da"), num(p[5], "fda") == 1, num(p[6], "sk") == 1)
            }
            "ctx" if p.len() == 5 => mx_ctx_font(name, p[2], p[3] == "da1", p[4][1..].parse().expect("fmt")),
            "nc" if p.len() == 3 => mx_nc_font(name, p[2][1..].parse().expect("fmt")),
            "multi" if p.len() == 3 => mx_multi_font(name, p[2].parse().expect("v")),
            "adv" => mx_adv_font(name, &p[2..].join("-")),
            _ => panic!("font name {}", name),
        }),
        "cnt" if p.len() == 5 => Some(cnt_font(name, p[1], p[2], p[3][1..].parse().expect("n"), p[4])),
        "morxrnd" if p.len() == 2 => Some(rnd_font(name, seed, p[1].parse().expect("k"))),
        _ => None,
    }
}

/// number of random morx programs per tier
pub fn n_random(tier: &str) -> u64 {
    if tier == "quick" { 16 } else { 96 }
}

/// the fonts of this module for one run: one per TLC font case, then the random programs
pub fn catalog2(font_cases: &[Value], tier: &str, seed: u64) -> Vec<SynthFont> {
    let mut names: Vec<String> = font_cases.iter().map(name_of_case).collect();
    names.sort();
    names.dedup();
    for k in 0..n_random(tier) {
        names.push(format!("morxrnd-{}", k));
    }
    names.iter().map(|nm| from_name(nm, seed).unwrap_or_else(|| panic!("font case name {} is not understood", nm))).collect()
}

fn tag(f: &mut SynthFont, t: &str) {
    f.tags.push(t.to_string());
}

// ---- lkp: nested lookup graphs -------------------------------------------------------------------

fn class_def_x() -> Vec<i64> {
    let mut cls = vec![0i64; 8];
    cls[G_X as usize] = 1;
    cls[G_F as usize] = 2;
    cls
}

/// one contextual GSUB lookup that matches `x` and names the lookups `recs` at sequence index 0
fn gsub_node(kind: &str, idx: usize, recs: &Value) -> Value {
    let chain = kind.ends_with('H');
    let ext = kind.starts_with('X');
    let x = [G_X];
    let cd = json!({"fmt": 1, "start": 0, "classes": class_def_x()});
    let st = match (idx % 3, chain) {
        (0, false) => json!({"fmt": 3, "input": [cov(&x)], "recs": recs}),
        (0, true) => json!({"fmt": 3, "back": [], "input": [cov(&x)], "look": [], "recs": recs}),
        (1, false) => json!({"fmt": 1, "cov": cov(&x), "sets": [[{"input": [], "recs": recs}]]}),
        (1, true) => json!({"fmt": 1, "cov": cov(&x), "sets": [[{"back": [], "input": [], "look": [], "recs": recs}]]}),
        (_, false) => json!({"fmt": 2, "cov": cov(&x), "icd": cd, "sets": [[], [{"input": [], "recs": recs}], []]}),
        (_, true) => json!({"fmt": 2, "cov": cov(&x), "bcd": cd, "icd": cd, "lcd": cd, "sets": [[], [{"back": [], "input": [], "look": [], "recs": recs}], []]}),
    };
    let ty = if chain { 6 } else { 5 };
    // the second node of a graph ignores marks: parent and nested lookup skip differently
    let flag = if idx % 3 == 1 { 8 } else { 0 };
    if ext {
        json!({"type": 7, "etype": ty, "flag": flag, "mfs": 0, "subs": [st]})
    } else {
        sl(ty, flag, vec![st])
    }
}

fn gpos_node(kind: &str, idx: usize, recs: &Value) -> Value {
    let chain = kind.ends_with('H');
    let ext = kind.starts_with('X');
    let x = [G_X];
    let mut m = vec![0i64; N as usize];
    m[G_X as usize] = 1;
    m[G_F as usize] = 2;
    let cd = json!({"f": 1 + (idx % 2), "m": m});
    let st = match (idx % 3, chain) {
        (0, false) => json!({"f": 3, "covs": [pcov(&x)], "recs": recs}),
        (0, true) => json!({"f": 3, "bt": [], "inp": [pcov(&x)], "la": [], "recs": recs}),
        (1, false) => json!({"f": 1, "cov": pcov(&x), "sets": [[{"inp": [], "recs": recs}]]}),
        (1, true) => json!({"f": 1, "cov": pcov(&x), "sets": [[{"bt": [], "inp": [], "la": [], "recs": recs}]]}),
        (_, false) => json!({"f": 2, "cov": pcov(&x), "cd": cd, "sets": [[], [{"inp": [], "recs": recs}], []]}),
        (_, true) => json!({"f": 2, "cov": pcov(&x), "bcd": cd, "icd": cd, "lcd": cd, "sets": [[], [{"bt": [], "inp": [], "la": [], "recs": recs}], []]}),
    };
    let flag = if idx % 3 == 1 { 8 } else { 0 };
    json!({"ty": if chain { 8 } else { 7 }, "flag": flag, "ext": ext, "mfs": 0, "subs": [st]})
}

/// `last`: "f1" / "f2" (cycle: lookup records per node) or the terminal lookup of a chain
fn lkp_font(name: &str, tbl: &str, shape: &str, kinds: &[&str], last: &str) -> SynthFont {
    let mut f = base(name.to_string(), "lkp", A_LKP, C_LKP);
    let k = kinds.len();
    let cycle = shape == "cycle";
    let fan = if cycle && last == "f2" { 2 } else { 1 };
    let recs_to = |target: usize| -> Value { Value::Array((0..fan).map(|_| json!([0, target])).collect()) };
    tag(&mut f, &format!("lkp_{}_{}", tbl, shape));
    tag(&mut f, if kinds.iter().any(|x| x.starts_with('X')) { "lkp_through_extension" } else { "lkp_plain_only" });
    let only = |c: char| kinds.iter().all(|x| x.ends_with(c));
    tag(&mut f, if only('C') { "lkp_context_only" } else if only('H') { "lkp_chain_only" } else { "lkp_mixed_context_chain" });
    tag(&mut f, &format!("lkp_{}_len{}", shape, k));
    if fan == 2 {
        tag(&mut f, "lkp_two_records_per_node");
    }
    match tbl {
        "gsub" => {
            let mut lookups: Vec<Value> = Vec::new();
            for (i, kind) in kinds.iter().enumerate() {
                let target = if cycle { (i + 1) % k } else { i + 1 };
                lookups.push(gsub_node(kind, i, &recs_to(target)));
            }
            if !cycle {
                lookups.push(match last {
                    "single" => single(0, &[G_X], &[G_XALT]),
                    "grow" => multiple(0, &[G_X], &[&[G_X, G_XALT, G_XALT]]),
                    "delete" => multiple(0, &[G_X], &[&[]]),
                    "lig" => ligature(0, G_X, &[(G_LIG2, &[G_F])]),
                    x => panic!("terminal {}", x),
                });
            }
            // a plain ligature lookup after the graph: the run goes on being shaped after Err
            let liga = lookups.len();
            lookups.push(liga_f(0));
            f.gsub = Some(gsub_prog(vec![feat("calt", &[0]), feat("liga", &[liga])], lookups));
            f.gpos = Some(gpos_prog(vec![feat("dist", &[0])], vec![pos_single(0, &[G_F, G_X, G_XALT], 4, val(0, 0, -30, 0))]));
        }
        "gpos" => {
            let mut lookups: Vec<Value> = Vec::new();
            for (i, kind) in kinds.iter().enumerate() {
                let target = if cycle { (i + 1) % k } else { i + 1 };
                lookups.push(gpos_node(kind, i, &recs_to(target)));
            }
            if !cycle {
                lookups.push(pos_single(0, &[G_X], 5, val(7, 0, 11, 0)));
            }
            let mark = lookups.len();
            lookups.push(pl(4, 0, vec![json!({"mcov": pcov(&[G_ACUTE]), "bcov": pcov(&[G_F, G_X]), "nc": 1, "marks": [{"c": 0, "a": anc(10, 600)}],
                                             "bases": [[anc(250, 700)], [anc(260, 700)]]})]));
            f.gsub = Some(gsub_prog(vec![feat("liga", &[0])], vec![liga_f(0)]));
            f.gpos = Some(gpos_prog(vec![feat("dist", &[0]), feat("mark", &[mark])], lookups));
        }
        x => panic!("lkp table {}", x),
    }
    // every eighth graph is also shaped with corrupted tables
    f.corruptible = name.bytes().map(|b| b as u64).sum::<u64>() % 8 == 0;
    f.max_len = 3;
    f
}

// ---- cnt: a feature whose lookup list has a boundary size ------------------------------------------

/// inline capacity of the scratch vector allsorts collects a feature's lookup indices in
const INLINE_CAP: usize = 128;

/// `ft` of `tbl` lists `n` lookup indices: n lookups ascending / descending, or one lookup n times.
/// GPOS: every lookup adds 1 to the advance of x; GSUB: the lookups turn x into xalt and back in turn.
fn cnt_font(name: &str, tbl: &str, ft: &str, n: usize, arr: &str) -> SynthFont {
    let mut f = base(name.to_string(), "cnt", A_CNT, C_LKP);
    let nl = if arr == "same" { 1 } else { n };
    let list: Vec<usize> = match arr {
        "same" => vec![0; n],
        "desc" => (0..n).rev().collect(),
        "distinct" => (0..n).collect(),
        x => panic!("cnt arrangement {}", x),
    };
    tag(&mut f, &format!("cnt_{}", tbl));
    tag(&mut f, &format!("cnt_arr_{}", arr));
    tag(&mut f, if n < INLINE_CAP { "cnt_list_below_inline_capacity" } else if n == INLINE_CAP { "cnt_list_at_inline_capacity" } else { "cnt_list_above_inline_capacity" });
    if n == INLINE_CAP + 1 {
        tag(&mut f, "cnt_list_one_above_inline_capacity");
    }
    tag(&mut f, &format!("cnt_napply_{}", nl));
    match tbl {
        "gpos" => {
            let lookups: Vec<Value> = (0..nl).map(|_| pos_single(0, &[G_X], 4, val(0, 0, 1, 0))).collect();
            f.gsub = Some(gsub_prog(vec![feat("liga", &[0])], vec![liga_f(0)]));
            f.gpos = Some(gpos_prog(vec![feat(ft, &list)], lookups));
        }
        "gsub" => {
            let mut lookups: Vec<Value> =
                (0..nl).map(|k| if k % 2 == 0 { single(0, &[G_X], &[G_XALT]) } else { single(0, &[G_XALT], &[G_X]) }).collect();
            lookups.push(liga_f(0));
            f.gsub = Some(gsub_prog(vec![feat(ft, &list), feat("calt", &[nl])], lookups));
            f.gpos = Some(gpos_prog(vec![feat("dist", &[0])], vec![pos_single(0, &[G_F, G_X, G_XALT], 4, val(0, 0, -30, 0))]));
        }
        x => panic!("cnt table {}", x),
    }
    f.corruptible = name.bytes().map(|b| b as u64).sum::<u64>() % 8 == 0;
    f.max_len = 2;
    f
}

// ---- morx programs ----------------------------------------------------------------------------------

const CL_F: i64 = 4;
const CL_I: i64 = 5;
const CL_X: i64 = 6;

/// lookup formats the well-formed families cycle through (11 = format 10 with one byte units)
const FORMATS: [i64; 7] = [6, 2, 4, 8, 0, 10, 11];

fn fmt_of(name: &str, salt: u64) -> i64 {
    let hsum = name.bytes().fold(salt, |a, b| a.wrapping_mul(131).wrapping_add(b as u64));
    FORMATS[(hsum % FORMATS.len() as u64) as usize]
}

fn map_of(pairs: &[(u16, i64)]) -> BTreeMap<i64, i64> {
    pairs.iter().map(|&(g, v)| (g as i64, v)).collect()
}

fn one_chain(ver: i64, lay: i64, subs: Vec<Value>) -> Value {
    json!({"ver": ver, "n": N, "lay": lay, "chains": [{"def": 1, "sh": 0, "feats": [], "subs": subs}]})
}

/// deduplicating entry list
struct Ents(Vec<Vec<i64>>);
impl Ents {
    fn id(&mut self, e: Vec<i64>) -> i64 {
        match self.0.iter().position(|x| *x == e) {
            Some(k) => k as i64,
            None => {
                self.0.push(e);
                self.0.len() as i64 - 1
            }
        }
    }
}

/// Action list of the ligature f^(n-1) i under a LAST / STORE pattern, with the component table and
/// the ligature list it indexes: (actions, components, ligatures).  The offsets are computed for the
/// glyph that is on top of the stack when the action runs (a component, or the ligature an earlier
/// STORE pushed back).
fn lig_actions(nc: usize, pat: &str) -> (Vec<Value>, Vec<i64>, Vec<i64>) {
    // (pops a stored ligature again, STORE, LAST)
    let mut steps: Vec<(bool, bool, bool)> = Vec::new();
    match pat {
        "L" | "LS" | "N" | "NS" => {
            for j in 0..nc {
                let fin = j + 1 == nc;
                steps.push((false, fin && (pat == "LS" || pat == "NS"), fin && (pat == "L" || pat == "LS")));
            }
        }
        "SM" => {
            let at = (nc + 1) / 2; // STORE at this component pop, then the stored ligature is popped again
            for j in 0..nc {
                steps.push((false, j + 1 == at, j + 1 == nc));
                if j + 1 == at && j + 1 != nc {
                    steps.push((true, false, false));
                }
            }
        }
        "SA" => {
            for j in 0..nc {
                steps.push((false, true, j + 1 == nc));
                if j + 1 != nc {
                    steps.push((true, false, false));
                }
            }
        }
        x => panic!("ligature action pattern {}", x),
    }
    let ligs: Vec<i64> = vec![G_XALT as i64, G_LIG2 as i64, G_LIG3 as i64, G_LIG4 as i64];
    let mut stack: Vec<i64> = vec![G_F as i64; nc - 1];
    stack.push(G_I as i64);
    let mut acts = Vec::new();
    // The component of action j sits at 2 + 3 j with zeros around it: an engine that pops another
    // component than the one the action was written for (f and i are neighbours) still reads a valid
    // component and goes on - a slip of the cursor or of the stack then shows up where glyphs are
    // removed, not as an early Err.
    let mut comps: Vec<i64> = vec![0; 3 * steps.len() + 3 + (steps.len() + 1) % 2];
    let mut sum = 0i64;
    let mut component_pops = 0;
    for (j, (repop, store, last)) in steps.iter().enumerate() {
        let g = stack.pop().expect("model stack");
        if !repop {
            component_pops += 1;
        }
        let v = if !repop && component_pops == nc { nc as i64 - 1 } else { 0 };
        let slot = 2 + 3 * j as i64;
        comps[slot as usize] = v;
        sum += v;
        acts.push(json!({"last": *last as i64, "store": *store as i64, "off": slot - g}));
        if *store || *last {
            stack.push(ligs[sum as usize]);
        }
    }
    (acts, comps, ligs)
}

/// ligature subtable for f^(n-1) i
/// `da`: 0 = the entry that performs the action advances; 1 = it has DONT_ADVANCE (the new ligature is
/// looked at again from the start state); 2 = the last component is first pushed by an entry with
/// DONT_ADVANCE that leads to an extra state, whose entry for the same glyph pushes again (the same
/// position: one component) and performs the action, with DONT_ADVANCE.
fn lig_subtable(nc: usize, pat: &str, da: i64, fail_da: bool, skip: Option<u16>, fmt: i64, cov: i64, flags: i64) -> Value {
    let mut cmap = map_of(&[(G_F, CL_F), (G_I, CL_I)]);
    let ncls = match skip {
        Some(g) => {
            cmap.insert(g as i64, CL_X);
            7
        }
        None => 6,
    };
    let mut ents = Ents(vec![vec![0, 0, 0, 0, 0]]); // (next state, push, act, da, action index)
    let mut rows: Vec<Vec<i64>> = Vec::new();
    let start_row = |ents: &mut Ents| -> Vec<i64> {
        (0..ncls).map(|c| if c == CL_F { ents.id(vec![2, 1, 0, 0, 0]) } else { 0 }).collect()
    };
    rows.push(start_row(&mut ents));
    rows.push(start_row(&mut ents));
    let last_state = nc as i64; // state s: s - 1 components seen
    for st in 2..=last_state {
        let fail = if fail_da { ents.id(vec![0, 0, 0, 1, 0]) } else { 0 };
        let mut row = Vec::new();
        for c in 0..ncls {
            row.push(match c {
                0 => 0,
                2 => ents.id(vec![st, 0, 0, 0, 0]),
                CL_F => ents.id(vec![(st + 1).min(last_state), 1, 0, 0, 0]),
                CL_I if st == last_state && da == 2 => ents.id(vec![last_state + 1, 1, 0, 1, 0]),
                CL_I if st == last_state => ents.id(vec![0, 1, 1, da, 0]),
                CL_X if skip.is_some() => ents.id(vec![st, 0, 0, 0, 0]),
                _ => fail,
            });
        }
        rows.push(row);
    }
    if da == 2 {
        let perform = ents.id(vec![0, 1, 1, 1, 0]);
        rows.push((0..ncls).map(|c| if c == CL_I { perform } else { 0 }).collect());
    }
    let (acts, comps, ligs) = lig_actions(nc, pat);
    json!({"type": 2, "cov": cov, "flags": flags, "nc": ncls, "cls": mk_lookup(fmt, N, &cmap, false), "rows": rows,
           "ents": ents.0.iter().map(|e| json!({"ns": e[0], "push": e[1], "act": e[2], "da": e[3], "ai": e[4]})).collect::<Vec<_>>(),
           "acts": acts, "comps": comps, "ligs": ligs})
}

fn morx_base(name: &str, family: &'static str, alphabet: &'static [&'static str], configs: &'static [u8]) -> SynthFont {
    let mut f = base(name.to_string(), family, alphabet, configs);
    f.budget_ms = MORX_BUDGET_MS;
    // every fourth morx font is also shaped with corrupted tables
    f.corruptible = name.bytes().map(|b| b as u64).sum::<u64>() % 4 == 0;
    f
}

fn mark_gpos() -> Value {
    gpos_prog(
        vec![feat("kern", &[1]), feat("mark", &[0])],
        vec![
            pl(4, 0, vec![json!({"mcov": pcov(&[G_ACUTE]), "bcov": pcov(&[G_F, G_I, G_LIG2, G_LIG3, G_LIG4, G_XALT]), "nc": 1, "marks": [{"c": 0, "a": anc(10, 600)}],
                                "bases": [[anc(1, 700)], [anc(2, 700)], [anc(3, 700)], [anc(4, 700)], [anc(5, 700)], [anc(6, 700)]]})]),
            pos_single(0, &[G_F, G_I, G_LIG2], 4, val(0, 0, -20, 0)),
        ],
    )
}

fn mx_lig_font(name: &str, nc: usize, pat: &str, da: i64, fail_da: bool, skip: bool) -> SynthFont {
    let mut f = morx_base(name, "morx", if skip { A_MX_MK } else { A_MX }, C_MORX);
    let fmt = fmt_of(name, 1);
    let sub = lig_subtable(nc, pat, da, fail_da, if skip { Some(G_ACUTE) } else { None }, fmt, 0, 1);
    f.morx = Some(one_chain(2 + (nc as i64 % 2), (fmt % 2) as i64, vec![sub]));
    if skip {
        // marks skipped by the ligature are then attached by GPOS; kern fallback otherwise
        f.gpos = Some(mark_gpos());
    } else {
        f.gdef = None;
        f.kern = Some(json!([{"f": 0, "cov": 1, "pairs": [[G_F, G_F, -40], [G_LIG2, G_F, -30], [G_LIG3, G_X, 25]]}]));
    }
    tag(&mut f, "morx_ligature");
    tag(&mut f, &format!("morx_lig_components_{}", nc));
    tag(&mut f, &format!("morx_lig_pattern_{}", pat));
    if da >= 1 {
        tag(&mut f, "morx_lig_action_entry_dont_advance");
    }
    if da == 2 {
        tag(&mut f, "morx_lig_component_pushed_through_dont_advance");
    }
    if fail_da {
        tag(&mut f, "morx_lig_failure_dont_advance");
    }
    if skip {
        tag(&mut f, "morx_lig_skipped_class");
    }
    if pat == "N" || pat == "NS" {
        tag(&mut f, "morx_action_list_without_last");
    }
    f
}

/// contextual subtable: f then x.  `sub`: "cur" x -> xalt, "mark" f -> i, "both"; an f that is the last
/// glyph becomes i at the end of text ("mark" / "both").  `da`: the x entry first re-dispatches in a
/// third state through DONT_ADVANCE.
fn ctx_subtable(sub: &str, da: bool, fmt: i64, cov: i64, flags: i64) -> Value {
    let cmap = map_of(&[(G_F, CL_F), (G_X, CL_I)]);
    let ncls = 6;
    let cur = sub == "cur" || sub == "both";
    let mark = sub == "mark" || sub == "both";
    let subst = vec![mk_lookup(fmt, N, &map_of(&[(G_X, G_XALT as i64)]), true), mk_lookup(fmt, N, &map_of(&[(G_F, G_I as i64)]), true)];
    let mut ents = Ents(vec![vec![0, 0, 0, -1, -1]]); // (next state, mark, da, mark index, current index)
    let on_f = ents.id(vec![2, 1, 0, -1, -1]);
    let act = ents.id(vec![0, 0, 0, if mark { 1 } else { -1 }, if cur { 0 } else { -1 }]);
    let on_x = if da { ents.id(vec![3, 0, 1, -1, -1]) } else { act };
    let eot = if mark { ents.id(vec![0, 0, 0, 1, -1]) } else { 0 };
    let start: Vec<i64> = (0..ncls).map(|c| if c == CL_F { on_f } else { 0 }).collect();
    let st2: Vec<i64> = (0..ncls).map(|c| match c { 0 => eot, CL_F => on_f, CL_I => on_x, _ => 0 }).collect();
    let mut rows = vec![start.clone(), start, st2];
    if da {
        rows.push((0..ncls).map(|c| match c { 0 => eot, CL_I => act, _ => 0 }).collect());
    }
    json!({"type": 1, "cov": cov, "flags": flags, "nc": ncls, "cls": mk_lookup(fmt, N, &cmap, false), "rows": rows,
           "ents": ents.0.iter().map(|e| json!({"ns": e[0], "mark": e[1], "da": e[2], "mi": e[3], "ci": e[4]})).collect::<Vec<_>>(),
           "subst": subst})
}

fn mx_ctx_font(name: &str, sub: &str, da: bool, fmt: i64) -> SynthFont {
    let mut f = morx_base(name, "morx", A_MX, C_MORX);
    f.morx = Some(one_chain(2 + (fmt % 2), fmt % 4, vec![ctx_subtable(sub, da, fmt, 0, 1)]));
    f.gdef = None;
    tag(&mut f, "morx_contextual");
    tag(&mut f, &format!("morx_ctx_{}", sub));
    if da {
        tag(&mut f, "morx_ctx_dont_advance_chain");
    }
    f
}

fn nc_subtable(fmt: i64, cov: i64, flags: i64) -> Value {
    let m = map_of(&[(G_X, G_XALT as i64), (G_ONE, G_NUMR as i64), (G_TWO, G_DNOM as i64)]);
    json!({"type": 4, "cov": cov, "flags": flags, "lk": mk_lookup(fmt, N, &m, true)})
}

fn mx_nc_font(name: &str, fmt: i64) -> SynthFont {
    let mut f = morx_base(name, "morx", A_MX_NC, C_MORX);
    f.morx = Some(one_chain(2, fmt % 2, vec![nc_subtable(fmt, 0, 1)]));
    tag(&mut f, "morx_noncontextual");
    tag(&mut f, &format!("morx_nc_format_{}", fmt));
    f
}

fn opaque(t: i64, flags: i64) -> Value {
    json!({"type": t, "cov": 0, "flags": flags})
}

/// several chains and subtables under feature flags, coverage bits, table versions
fn mx_multi_font(name: &str, v: i64) -> SynthFont {
    let mut f = morx_base(name, "morx", A_MX_MULTI, C_MORX_MULTI);
    let all = 65535;
    let lig = |flags: i64, cov: i64| lig_subtable(3, "L", 0, false, None, 6, cov, flags);
    let prog = match v {
        // ligatures under the common-ligatures selectors, digits under diagonal fractions (off by default)
        1 => json!({"ver": 2, "n": N, "lay": 0, "chains": [
            {"def": 1, "sh": 0, "feats": [{"t": 1, "s": 2, "en": 1, "dis": all}, {"t": 1, "s": 3, "en": 0, "dis": all - 1}], "subs": [lig(1, 0)]},
            {"def": 0, "sh": 0, "feats": [{"t": 11, "s": 2, "en": 1, "dis": all}, {"t": 11, "s": 1, "en": 2, "dis": all}], "subs": [nc_subtable(2, 0, 1), ctx_subtable("both", false, 8, 0, 2)]},
        ]}),
        // one chain, three subtables on three flag bits, selectors that switch single bits off
        2 => json!({"ver": 2, "n": N, "lay": 1, "chains": [
            {"def": 7, "sh": 8, "feats": [{"t": 21, "s": 1, "en": 0, "dis": all - 1}, {"t": 6, "s": 0, "en": 0, "dis": all - 2}, {"t": 14, "s": 4, "en": 8, "dis": all}],
             "subs": [nc_subtable(4, 0, 1), ctx_subtable("cur", true, 2, 0, 2), lig(4, 0), nc_subtable(10, 0, 8)]},
        ]}),
        // version 3 (subtable glyph coverage arrays), coverage bits, subtable types allsorts does not interpret
        3 => json!({"ver": 3, "n": N, "lay": 2, "chains": [
            {"def": 1, "sh": 0, "feats": [], "subs": [opaque(0, 1), lig(1, 8), lig(1, 4), opaque(5, 1), ctx_subtable("mark", false, 6, 4, 1)]},
            {"def": 1, "sh": 16, "feats": [], "subs": [lig(1, 10), nc_subtable(0, 2, 1), ctx_subtable("both", true, 4, 12, 1), lig(1, 1)]},
        ]}),
        // everything off by default, switched on by the selectors of the numeric / case features
        _ => json!({"ver": 2, "n": N, "lay": 3, "chains": [
            {"def": 0, "sh": 16, "feats": [{"t": 37, "s": 1, "en": 1, "dis": all}, {"t": 38, "s": 1, "en": 2, "dis": all}, {"t": 14, "s": 5, "en": 4, "dis": all},
                                          {"t": 10, "s": 3, "en": 1, "dis": all}, {"t": 21, "s": 0, "en": 2, "dis": all}, {"t": 6, "s": 1, "en": 4, "dis": all - 1},
                                          {"t": 1, "s": 18, "en": 1, "dis": all}, {"t": 1, "s": 21, "en": 2, "dis": all}, {"t": 99, "s": 1, "en": 7, "dis": 0}],
             "subs": [nc_subtable(6, 0, 1), lig(2, 0), ctx_subtable("both", false, 0, 0, 4)]},
            {"def": 3, "sh": 0, "feats": [], "subs": []},
        ]}),
    };
    f.morx = Some(prog);
    f.gpos = Some(mark_gpos());
    tag(&mut f, "morx_several_chains");
    tag(&mut f, &format!("morx_multi_{}", v));
    f
}

fn rnd_font(name: &str, seed: u64, k: u64) -> SynthFont {
    let mut f = morx_base(name, "morxrnd", A_RND, C_MORX);
    let (kind, prog) = rnd_morx::program(seed, k);
    f.morx = Some(prog);
    f.gdef = None;
    f.max_len = 4;
    f.aliens = false;
    // a contextual table may substitute the deleted glyph 0xFFFF, which allsorts leaves in the run
    f.wf = false;
    tag(&mut f, "morx_random_program");
    tag(&mut f, &format!("morx_random_types_{}", kind));
    f
}

// ---- morxadv: well-formed but adversarial for totality ------------------------------------------------

fn lig_sub_raw(ncls: i64, cmap: &BTreeMap<i64, i64>, rows: Vec<Vec<i64>>, ents: Vec<Vec<i64>>, acts: Vec<Value>, comps: Vec<i64>, ligs: Vec<i64>) -> Value {
    json!({"type": 2, "cov": 0, "flags": 1, "nc": ncls, "cls": mk_lookup(6, N, cmap, false), "rows": rows,
           "ents": ents.iter().map(|e| json!({"ns": e[0], "push": e[1], "act": e[2], "da": e[3], "ai": e[4]})).collect::<Vec<_>>(),
           "acts": acts, "comps": comps, "ligs": ligs})
}

fn ctx_sub_raw(ncls: i64, cls: Value, rows: Vec<Vec<i64>>, ents: Vec<Vec<i64>>, subst: Vec<Value>) -> Value {
    json!({"type": 1, "cov": 0, "flags": 1, "nc": ncls, "cls": cls, "rows": rows,
           "ents": ents.iter().map(|e| json!({"ns": e[0], "mark": e[1], "da": e[2], "mi": e[3], "ci": e[4]})).collect::<Vec<_>>(),
           "subst": subst})
}

fn act(last: i64, store: i64, off: i64) -> Value {
    json!({"last": last, "store": store, "off": off})
}

fn mx_adv_font(name: &str, adv: &str) -> SynthFont {
    let mut f = morx_base(name, "morxadv", A_ADV, C_ADV);
    f.max_len = 3;
    f.aliens = false;
    f.corruptible = false;
    f.gdef = None;
    let (gf, gi, gx, gxa) = (G_F as i64, G_I as i64, G_X as i64, G_XALT as i64);
    // classes: 4 = f, 5 = i, 6 = x
    let cmap3 = map_of(&[(G_F, CL_F), (G_I, CL_I), (G_X, CL_X)]);
    let cls3 = || mk_lookup(6, N, &cmap3, false);
    let x_to_xalt = || mk_lookup(6, N, &map_of(&[(G_X, gxa)]), true);
    let row = |pairs: &[(i64, i64)]| -> Vec<i64> { (0..7).map(|c| pairs.iter().find(|p| p.0 == c).map_or(0, |p| p.1)).collect() };
    // the plain ligature f i -> lig2 (action list: i, f LAST) whose indices the variants move
    let fi_rows = || vec![row(&[(CL_F, 1)]), row(&[(CL_F, 1)]), row(&[(CL_F, 1), (CL_I, 2)])];
    let fi_ents = |ai: i64| vec![vec![0, 0, 0, 0, 0], vec![2, 1, 0, 0, 0], vec![0, 1, 1, 0, ai]];
    let fi = |acts: Vec<Value>, comps: Vec<i64>, ligs: Vec<i64>, ai: i64| lig_sub_raw(7, &cmap3, fi_rows(), fi_ents(ai), acts, comps, ligs);
    let lig2 = G_LIG2 as i64;
    let mut hang = false;
    let sub: Option<Value> = match adv {
        // --- DONT_ADVANCE: cycles never advance (the engine must bound them), chains terminate
        "ctx-da-self" => {
            hang = true;
            Some(ctx_sub_raw(7, cls3(), vec![row(&[(CL_X, 1)]), row(&[(CL_X, 1)]), row(&[(CL_X, 2)])],
                             vec![vec![0, 0, 0, -1, -1], vec![2, 0, 0, -1, -1], vec![2, 0, 1, -1, -1]], vec![x_to_xalt()]))
        }
        "ctx-da-cycle2" => {
            hang = true;
            Some(ctx_sub_raw(7, cls3(), vec![row(&[(CL_X, 1)]), row(&[(CL_X, 1)]), row(&[(CL_X, 2)]), row(&[(CL_X, 3)])],
                             vec![vec![0, 0, 0, -1, -1], vec![2, 0, 0, -1, -1], vec![3, 0, 1, -1, -1], vec![2, 1, 1, -1, -1]], vec![x_to_xalt()]))
        }
        // x -> xalt and xalt -> x, both without advancing: the glyph changes for ever
        "ctx-da-pingpong" => {
            hang = true;
            let cm = map_of(&[(G_X, CL_X), (G_XALT, CL_I)]);
            Some(ctx_sub_raw(7, mk_lookup(6, N, &cm, false), vec![row(&[(CL_X, 1), (CL_I, 1)]), row(&[(CL_X, 1), (CL_I, 1)])],
                             vec![vec![0, 0, 0, -1, -1], vec![0, 0, 1, -1, 0]], vec![mk_lookup(6, N, &map_of(&[(G_X, gxa), (G_XALT, gx)]), true)]))
        }
        "ctx-da-start-state" => {
            hang = true;
            Some(ctx_sub_raw(7, cls3(), vec![row(&[(CL_X, 1)]), row(&[(CL_X, 1)])], vec![vec![0, 0, 0, -1, -1], vec![0, 0, 1, -1, -1]], vec![x_to_xalt()]))
        }
        // three DONT_ADVANCE entries in a row, then the glyph is consumed
        "ctx-da-chain3" => Some(ctx_sub_raw(7, cls3(),
            vec![row(&[(CL_X, 1)]), row(&[(CL_X, 1)]), row(&[(CL_X, 2)]), row(&[(CL_X, 3)]), row(&[(CL_X, 4)])],
            vec![vec![0, 0, 0, -1, -1], vec![2, 1, 1, -1, -1], vec![3, 0, 1, -1, -1], vec![4, 0, 1, -1, -1], vec![0, 0, 0, 0, 0]], vec![x_to_xalt()])),
        // DONT_ADVANCE in the same state, left because the substitution changes the class of the glyph
        "ctx-da-until-class-changes" => Some(ctx_sub_raw(7, cls3(), vec![row(&[(CL_X, 1)]), row(&[(CL_X, 1)])],
            vec![vec![0, 0, 0, -1, -1], vec![0, 0, 1, -1, 0]], vec![x_to_xalt()])),
        "lig-da-self" => {
            hang = true;
            Some(lig_sub_raw(7, &cmap3, vec![row(&[(CL_F, 1)]), row(&[(CL_F, 1)]), row(&[(CL_F, 1), (CL_X, 2)])],
                             vec![vec![0, 0, 0, 0, 0], vec![2, 1, 0, 0, 0], vec![2, 1, 0, 1, 0]], vec![act(0, 0, -gi), act(1, 0, 1 - gf)], vec![0, 1], vec![gxa, lig2]))
        }
        "lig-da-cycle2" => {
            hang = true;
            Some(lig_sub_raw(7, &cmap3, vec![row(&[(CL_F, 1)]), row(&[(CL_F, 1)]), row(&[(CL_X, 2)]), row(&[(CL_X, 3)])],
                             vec![vec![0, 0, 0, 0, 0], vec![2, 1, 0, 0, 0], vec![3, 0, 0, 1, 0], vec![2, 1, 0, 1, 0]], vec![act(1, 0, -gf)], vec![0, 0], vec![gxa, lig2]))
        }
        "lig-da-start-state" => {
            hang = true;
            Some(lig_sub_raw(7, &cmap3, vec![row(&[(CL_X, 1)]), row(&[(CL_X, 1)])], vec![vec![0, 0, 0, 0, 0], vec![0, 0, 0, 1, 0]],
                             vec![act(1, 0, -gf)], vec![0, 0], vec![gxa, lig2]))
        }
        // f i: the i entry re-dispatches twice without advancing, then performs the action (with DONT_ADVANCE, then state 0)
        "lig-da-chain3" => Some(lig_sub_raw(7, &cmap3,
            vec![row(&[(CL_F, 1)]), row(&[(CL_F, 1)]), row(&[(CL_F, 1), (CL_I, 2)]), row(&[(CL_I, 3)]), row(&[(CL_I, 4)])],
            vec![vec![0, 0, 0, 0, 0], vec![2, 1, 0, 0, 0], vec![3, 1, 0, 1, 0], vec![4, 1, 0, 1, 0], vec![0, 1, 1, 1, 0]],
            vec![act(0, 0, -gi), act(1, 0, 1 - gf)], vec![0, 1], vec![gxa, lig2])),
        // --- indices at and one past the end of the tables.  allsorts reads the component table and the
        // ligature list up to the end of the subtable: comps (2) + ligs (2) = 4 components, 2 ligatures.
        "lig-comp-last" => Some(fi(vec![act(0, 0, 3 - gi), act(1, 0, 1 - gf)], vec![0, 1], vec![gxa, 0], 0)),
        "lig-comp-past" => Some(fi(vec![act(0, 0, 4 - gi), act(1, 0, 1 - gf)], vec![0, 1], vec![gxa, lig2], 0)),
        "lig-comp-negative" => Some(fi(vec![act(0, 0, -1 - gi), act(1, 0, 1 - gf)], vec![0, 1], vec![gxa, lig2], 0)),
        "lig-lig-last" => Some(fi(vec![act(0, 0, -gi), act(1, 0, 1 - gf)], vec![0, 1], vec![gxa, lig2], 0)),
        "lig-lig-past" => Some(fi(vec![act(0, 0, -gi), act(1, 0, 1 - gf)], vec![0, 2], vec![gxa, lig2], 0)),
        "lig-sum-overflow" => Some(fi(vec![act(0, 0, -gi), act(1, 0, 1 - gf)], vec![65535, 2], vec![gxa, lig2], 0)),
        // the entry names the last action of the list, which has no LAST: the loop runs on into the bytes behind it
        "lig-action-last-nolast" => Some(fi(vec![act(1, 0, -gi), act(0, 0, 1 - gi)], vec![0, 0], vec![gxa, lig2], 1)),
        "lig-action-past" => Some(fi(vec![act(0, 0, -gi), act(1, 0, 1 - gf)], vec![0, 1], vec![gxa, lig2], 400)),
        // an action on an empty component stack; more actions than components
        "lig-underflow" => Some(lig_sub_raw(7, &cmap3, vec![row(&[(CL_I, 1), (CL_F, 2)]), row(&[(CL_I, 1), (CL_F, 2)])],
            vec![vec![0, 0, 0, 0, 0], vec![0, 0, 1, 0, 0], vec![0, 1, 1, 0, 0]], vec![act(0, 0, -gf), act(0, 0, 1 - gf), act(1, 0, 1 - gf)], vec![0, 1], vec![gxa, lig2])),
        // every f is pushed and nothing is ever popped
        "lig-push-forever" => Some(lig_sub_raw(7, &cmap3, vec![row(&[(CL_F, 1)]), row(&[(CL_F, 1)]), row(&[(CL_F, 1), (CL_X, 2)])],
            vec![vec![0, 0, 0, 0, 0], vec![2, 1, 0, 0, 0], vec![2, 0, 0, 0, 0]], vec![act(1, 0, -gf)], vec![0, 0], vec![gxa, lig2])),
        // f i with STORE on both actions and offsets that ignore the ligature pushed back by the first STORE
        "lig-store-twice-stale" => Some(fi(vec![act(0, 1, -gi), act(1, 1, 1 - gf)], vec![0, 1], vec![gxa, lig2], 0)),
        "entry-past" => Some(lig_sub_raw(7, &cmap3, vec![row(&[(CL_F, 1), (CL_X, 0xFFFF)]), row(&[(CL_F, 1), (CL_X, 0xFFFF)]), row(&[(CL_F, 1), (CL_I, 500)])],
            vec![vec![0, 0, 0, 0, 0], vec![2, 1, 0, 0, 0]], vec![act(1, 0, -gf)], vec![0, 0], vec![gxa, lig2])),
        "state-past" => Some(ctx_sub_raw(7, cls3(), vec![row(&[(CL_X, 1), (CL_F, 2)]), row(&[(CL_X, 1), (CL_F, 2)])],
            vec![vec![0, 0, 0, -1, -1], vec![0xFFFF, 0, 0, -1, -1], vec![900, 1, 0, -1, -1]], vec![x_to_xalt()])),
        "class-past" => {
            let cm = map_of(&[(G_F, CL_F), (G_I, 7), (G_X, 0xFFFE)]);
            Some(lig_sub_raw(7, &cm, vec![row(&[(CL_F, 1)]), row(&[(CL_F, 1)]), row(&[(CL_F, 1)])], vec![vec![0, 0, 0, 0, 0], vec![2, 1, 0, 0, 0]],
                             vec![act(1, 0, -gf)], vec![0, 0], vec![gxa, lig2]))
        }
        "ctx-mark-past" => Some(ctx_sub_raw(7, cls3(), vec![row(&[(CL_F, 1)]), row(&[(CL_F, 1)]), row(&[(CL_F, 1), (CL_X, 2)])],
            vec![vec![0, 0, 0, -1, -1], vec![2, 1, 0, -1, -1], vec![0, 0, 0, 1, -1]], vec![x_to_xalt()])),
        "ctx-cur-past" => Some(ctx_sub_raw(7, cls3(), vec![row(&[(CL_X, 1)]), row(&[(CL_X, 1)])],
            vec![vec![0, 0, 0, -1, -1], vec![0, 0, 0, -1, 0xFFFE]], vec![x_to_xalt()])),
        // the deleted glyph 0xFFFF: a contextual substitution removes x after f; it is then classified as 'deleted'
        "ctx-deleted" => Some(ctx_sub_raw(7, cls3(), vec![row(&[(CL_F, 1)]), row(&[(CL_F, 1)]), row(&[(CL_F, 1), (CL_X, 2), (2, 3)])],
            vec![vec![0, 0, 0, -1, -1], vec![2, 1, 0, -1, -1], vec![2, 0, 0, -1, 0], vec![2, 0, 0, -1, -1]], vec![mk_lookup(6, N, &map_of(&[(G_X, 0xFFFF)]), true)])),
        "ctx-missing-gid" => {
            f.wf = false;
            Some(ctx_sub_raw(7, cls3(), vec![row(&[(CL_X, 1)]), row(&[(CL_X, 1)])], vec![vec![0, 0, 0, -1, -1], vec![0, 0, 0, -1, 0]],
                             vec![mk_lookup(6, N, &map_of(&[(G_X, N)]), true)]))
        }
        "lig-missing-gid" => {
            f.wf = false;
            Some(fi(vec![act(0, 0, -gi), act(1, 0, 1 - gf)], vec![0, 1], vec![gxa, 0xFFFE], 0))
        }
        "nc-format10-unit4" => Some(json!({"type": 4, "cov": 0, "flags": 1, "lk": mk_lookup(14, N, &map_of(&[(G_X, gxa)]), true)})),
        "nc-format10-unit8" => Some(json!({"type": 4, "cov": 0, "flags": 1, "lk": mk_lookup(18, N, &map_of(&[(G_X, gxa)]), true)})),
        "cls-format10-unit4" => Some(ctx_sub_raw(7, mk_lookup(14, N, &cmap3, false), vec![row(&[(CL_X, 1)]), row(&[(CL_X, 1)])],
            vec![vec![0, 0, 0, -1, -1], vec![0, 0, 0, -1, 0]], vec![x_to_xalt()])),
        "nc-deleted" => Some(json!({"type": 4, "cov": 0, "flags": 1, "lk": mk_lookup(6, N, &map_of(&[(G_X, 0xFFFF)]), true)})),
        // --- headers that lie about what follows (the counts and lengths a reader must not trust)
        "hdr-nchains-huge" | "hdr-nsubtables-huge" | "hdr-nfeatures-huge" | "hdr-chainlength-huge" | "hdr-subtable-length-huge"
        | "hdr-subtable-length-short" => {
            f.wf = false;
            let mut sub = fi(vec![act(0, 0, -gi), act(1, 0, 1 - gf)], vec![0, 1], vec![gxa, lig2], 0);
            match adv {
                "hdr-subtable-length-huge" => sub["len"] = json!(0xFFFF_FFF0u32),
                "hdr-subtable-length-short" => sub["len"] = json!(11),
                _ => {}
            }
            Some(sub)
        }
        "no-chains" | "empty-chain" => None,
        x => panic!("adversarial morx font {}", x),
    };
    f.morx = Some(match (adv, sub) {
        ("no-chains", _) => json!({"ver": 2, "n": N, "lay": 0, "chains": []}),
        ("empty-chain", _) => json!({"ver": 3, "n": N, "lay": 0, "chains": [{"def": 1, "sh": 0, "feats": [], "subs": []}]}),
        (_, Some(sub)) => {
            let mut prog = one_chain(2, 0, vec![sub]);
            match adv {
                "hdr-nchains-huge" => prog["n_chains"] = json!(0xFFFF_FFFFu32),
                "hdr-nsubtables-huge" => prog["chains"][0]["n_subs"] = json!(0xFFFF_FFFFu32),
                "hdr-nfeatures-huge" => prog["chains"][0]["n_feats"] = json!(0xFFFF_FFFFu32),
                "hdr-chainlength-huge" => prog["chains"][0]["len"] = json!(0xFFFF_FFFFu32),
                _ => {}
            }
            prog
        }
        _ => unreachable!(),
    });
    tag(&mut f, "morx_adversarial");
    tag(&mut f, &format!("morxadv_{}", adv.replace('-', "_")));
    if hang {
        tag(&mut f, "morx_dont_advance_cycle");
        f.max_len = 2;
    }
    if adv.contains("-da-") && !hang {
        tag(&mut f, "morx_dont_advance_chain_terminating");
    }
    if adv.contains("past") || adv.contains("last") {
        tag(&mut f, "morx_index_at_table_end");
    }
    if adv.starts_with("hdr-") {
        tag(&mut f, "morx_header_count_or_length_lies");
    }
    if adv.contains("deleted") {
        tag(&mut f, "morx_deleted_glyph");
    }
    f
}

/// How the font is shaped: the label that goes into the key of a Timeout / Abort / run clause finding.
pub fn via(f: &SynthFont) -> String {
    if f.gsub.is_some() {
        return "GSUB".into();
    }
    match &f.morx {
        None => "none".into(),
        Some(m) => {
            let mut types: Vec<i64> = Vec::new();
            for ch in super::enc_morx::arr(&m["chains"]) {
                for sub in super::enc_morx::arr(&ch["subs"]) {
                    types.push(sub["type"].as_i64().unwrap_or(-1));
                }
            }
            types.sort();
            types.dedup();
            let names: Vec<&str> = types.iter().map(|t| match t { 1 => "ctx", 2 => "lig", 4 => "nc", _ => "other" }).collect();
            if names.len() == 1 { format!("morx/{}", names[0]) } else { "morx".into() }
        }
    }
}
