//! C02 copy of the C04 encoder (harness/src/bin/c04_gsub/enc.rs): abstract substitution program ->
//! real GDEF and GSUB table bytes. Independent of allsorts' writers. Differences from the original:
//! `gsub` also writes one non-default language system per script (`langs`), a required feature
//! index (`required`) and, for the fonts that model a damaged LangSys, extra feature indices that
//! point beyond the FeatureList (`extra_feature_indices`).
//!
//! Abstract shapes (exactly the records of specs/Gsub.tla / LayoutCommon.tla):
//!   coverage  {fmt:1, glyphs:[g..]} | {fmt:2, ranges:[[start,end,startCoverageIndex]..]}
//!   classdef  {fmt:0} (absent) | {fmt:1, start, classes:[c..]} | {fmt:2, ranges:[[start,end,class]..]}
//!   gdef      {cls: classdef, att: classdef, sets:[coverage..]}
//!   lookup    {type:1..8, etype, flag, mfs, subs:[subtable..]}      type 7 = extension of etype
//!   program   {gdef, lookups, features:[{tag, lookups}], vars:[{conds:[[axis,min,max]], subst:[{fi, lookups}]}],
//!              request:[{tag, alt}], tuple:[f2dot14 raw..]}
//! The tables are written exactly in the formats the abstract program names (a format-2 coverage is
//! written with the very range records given, also when they are not what a font compiler would emit).
//!
//! Every offset is written relative to the table OpenType says it is relative to; sub-objects are
//! laid out depth first behind their parent.
use serde_json::Value;

pub struct Obj {
    d: Vec<u8>,
    refs: Vec<(usize, usize, bool)>, // position of the offset field, child index, 32-bit
    kids: Vec<Obj>,
}

impl Obj {
    pub fn new() -> Obj {
        Obj { d: Vec::new(), refs: Vec::new(), kids: Vec::new() }
    }
    pub fn u16(&mut self, v: u16) -> &mut Obj {
        self.d.extend_from_slice(&v.to_be_bytes());
        self
    }
    pub fn i16(&mut self, v: i16) -> &mut Obj {
        self.d.extend_from_slice(&v.to_be_bytes());
        self
    }
    pub fn u32(&mut self, v: u32) -> &mut Obj {
        self.d.extend_from_slice(&v.to_be_bytes());
        self
    }
    pub fn tag(&mut self, t: &str) -> &mut Obj {
        assert_eq!(t.len(), 4, "tag {:?}", t);
        self.d.extend_from_slice(t.as_bytes());
        self
    }
    /// 16-bit offset (from the start of this object) to `child`
    pub fn off16(&mut self, child: Obj) -> &mut Obj {
        self.refs.push((self.d.len(), self.kids.len(), false));
        self.kids.push(child);
        self.u16(0)
    }
    pub fn off32(&mut self, child: Obj) -> &mut Obj {
        self.refs.push((self.d.len(), self.kids.len(), true));
        self.kids.push(child);
        self.u32(0)
    }
    pub fn opt32(&mut self, child: Option<Obj>) -> &mut Obj {
        match child {
            Some(c) => self.off32(c),
            None => self.u32(0),
        }
    }
    pub fn flatten(self) -> Vec<u8> {
        let mut out = self.d;
        let mut at = Vec::new();
        for k in self.kids {
            at.push(out.len());
            out.extend(k.flatten());
        }
        for (pos, kid, wide) in self.refs {
            let off = at[kid];
            if wide {
                out[pos..pos + 4].copy_from_slice(&(off as u32).to_be_bytes());
            } else {
                assert!(off <= 0xFFFF, "16-bit offset overflow");
                out[pos..pos + 2].copy_from_slice(&(off as u16).to_be_bytes());
            }
        }
        out
    }
}

// ---- json access ------------------------------------------------------------------------------
pub fn int(v: &Value) -> i64 {
    v.as_i64().unwrap_or_else(|| panic!("expected integer, got {}", v))
}
pub fn arr(v: &Value) -> &Vec<Value> {
    v.as_array().unwrap_or_else(|| panic!("expected array, got {}", v))
}
pub fn ints(v: &Value) -> Vec<i64> {
    arr(v).iter().map(int).collect()
}
pub fn text(v: &Value) -> &str {
    v.as_str().unwrap_or_else(|| panic!("expected string, got {}", v))
}

fn glyphs16(o: &mut Obj, v: &Value) {
    for g in ints(v) {
        o.u16(g as u16);
    }
}

// ---- common tables -------------------------------------------------------------------------------
pub fn coverage(c: &Value) -> Obj {
    let mut o = Obj::new();
    match int(&c["fmt"]) {
        1 => {
            let gs = ints(&c["glyphs"]);
            o.u16(1).u16(gs.len() as u16);
            for g in gs {
                o.u16(g as u16);
            }
        }
        2 => {
            let rs = arr(&c["ranges"]);
            o.u16(2).u16(rs.len() as u16);
            for r in rs {
                let r = ints(r);
                o.u16(r[0] as u16).u16(r[1] as u16).u16(r[2] as u16);
            }
        }
        f => panic!("coverage format {}", f),
    }
    o
}

/// None for fmt 0 (absent table, NULL offset)
pub fn classdef(c: &Value) -> Option<Obj> {
    let mut o = Obj::new();
    match int(&c["fmt"]) {
        0 => return None,
        1 => {
            let cl = ints(&c["classes"]);
            o.u16(1).u16(int(&c["start"]) as u16).u16(cl.len() as u16);
            for x in cl {
                o.u16(x as u16);
            }
        }
        2 => {
            let rs = arr(&c["ranges"]);
            o.u16(2).u16(rs.len() as u16);
            for r in rs {
                let r = ints(r);
                o.u16(r[0] as u16).u16(r[1] as u16).u16(r[2] as u16);
            }
        }
        f => panic!("classdef format {}", f),
    }
    Some(o)
}

fn classdef_required(c: &Value) -> Obj {
    classdef(c).expect("a class definition inside a subtable cannot be absent")
}

fn lookup_records(o: &mut Obj, recs: &Value) {
    for r in arr(recs) {
        let r = ints(r);
        o.u16(r[0] as u16).u16(r[1] as u16);
    }
}

fn coverage_offsets(o: &mut Obj, covs: &Value) {
    for c in arr(covs) {
        o.off16(coverage(c));
    }
}

// ---- GSUB subtables ----------------------------------------------------------------------------
fn context_sets(o: &mut Obj, sets: &Value, chain: bool) {
    let sets = arr(sets);
    o.u16(sets.len() as u16);
    for set in sets {
        let rules = arr(set);
        if rules.is_empty() {
            o.u16(0); // NULL rule set
            continue;
        }
        let mut rs = Obj::new();
        rs.u16(rules.len() as u16);
        for rule in rules {
            let mut r = Obj::new();
            let inp = ints(&rule["input"]);
            let recs = arr(&rule["recs"]);
            if chain {
                let bt = ints(&rule["back"]);
                let la = ints(&rule["look"]);
                r.u16(bt.len() as u16);
                for x in &bt {
                    r.u16(*x as u16);
                }
                r.u16(inp.len() as u16 + 1);
                for x in &inp {
                    r.u16(*x as u16);
                }
                r.u16(la.len() as u16);
                for x in &la {
                    r.u16(*x as u16);
                }
                r.u16(recs.len() as u16);
            } else {
                r.u16(inp.len() as u16 + 1).u16(recs.len() as u16);
                for x in &inp {
                    r.u16(*x as u16);
                }
            }
            lookup_records(&mut r, &rule["recs"]);
            rs.off16(r);
        }
        o.off16(rs);
    }
}

fn subtable(ty: i64, st: &Value) -> Obj {
    let mut o = Obj::new();
    let fmt = int(&st["fmt"]);
    match ty {
        1 => {
            if fmt == 1 {
                o.u16(1).off16(coverage(&st["cov"])).i16(int(&st["delta"]) as i16);
            } else {
                let subst = ints(&st["subst"]);
                o.u16(2).off16(coverage(&st["cov"])).u16(subst.len() as u16);
                glyphs16(&mut o, &st["subst"]);
            }
        }
        2 | 3 => {
            let key = if ty == 2 { "seqs" } else { "alts" };
            let seqs = arr(&st[key]);
            o.u16(1).off16(coverage(&st["cov"])).u16(seqs.len() as u16);
            for s in seqs {
                let mut t = Obj::new();
                t.u16(arr(s).len() as u16);
                glyphs16(&mut t, s);
                o.off16(t);
            }
        }
        4 => {
            let sets = arr(&st["sets"]);
            o.u16(1).off16(coverage(&st["cov"])).u16(sets.len() as u16);
            for set in sets {
                let ligs = arr(set);
                let mut ls = Obj::new();
                ls.u16(ligs.len() as u16);
                for l in ligs {
                    let mut lg = Obj::new();
                    lg.u16(int(&l["lig"]) as u16).u16(arr(&l["comps"]).len() as u16 + 1);
                    glyphs16(&mut lg, &l["comps"]);
                    ls.off16(lg);
                }
                o.off16(ls);
            }
        }
        5 | 6 => {
            let chain = ty == 6;
            match fmt {
                1 => {
                    o.u16(1).off16(coverage(&st["cov"]));
                    context_sets(&mut o, &st["sets"], chain);
                }
                2 => {
                    o.u16(2).off16(coverage(&st["cov"]));
                    if chain {
                        o.off16(classdef_required(&st["bcd"]));
                        o.off16(classdef_required(&st["icd"]));
                        o.off16(classdef_required(&st["lcd"]));
                    } else {
                        o.off16(classdef_required(&st["icd"]));
                    }
                    context_sets(&mut o, &st["sets"], chain);
                }
                3 => {
                    o.u16(3);
                    if chain {
                        for key in ["back", "input", "look"] {
                            o.u16(arr(&st[key]).len() as u16);
                            coverage_offsets(&mut o, &st[key]);
                        }
                        o.u16(arr(&st["recs"]).len() as u16);
                    } else {
                        o.u16(arr(&st["input"]).len() as u16).u16(arr(&st["recs"]).len() as u16);
                        coverage_offsets(&mut o, &st["input"]);
                    }
                    lookup_records(&mut o, &st["recs"]);
                }
                f => panic!("context format {}", f),
            }
        }
        8 => {
            o.u16(1).off16(coverage(&st["cov"]));
            o.u16(arr(&st["back"]).len() as u16);
            coverage_offsets(&mut o, &st["back"]);
            o.u16(arr(&st["look"]).len() as u16);
            coverage_offsets(&mut o, &st["look"]);
            o.u16(arr(&st["subst"]).len() as u16);
            glyphs16(&mut o, &st["subst"]);
        }
        _ => panic!("lookup type {} not encodable", ty),
    }
    o
}

fn lookup(l: &Value) -> Obj {
    let ty = int(&l["type"]);
    let flag = int(&l["flag"]) as u16;
    let subs = arr(&l["subs"]);
    let mut o = Obj::new();
    o.u16(ty as u16).u16(flag).u16(subs.len() as u16);
    for st in subs {
        if ty == 7 {
            let ety = int(&l["etype"]);
            let mut e = Obj::new();
            e.u16(1).u16(ety as u16).off32(subtable(ety, st));
            o.off16(e);
        } else {
            o.off16(subtable(ty, st));
        }
    }
    if flag & 0x10 != 0 {
        o.u16(int(&l["mfs"]) as u16);
    }
    o
}

fn feature_table(lookups: &Value) -> Obj {
    let ls = ints(lookups);
    let mut ft = Obj::new();
    ft.u16(0).u16(ls.len() as u16);
    for i in ls {
        ft.u16(i as u16);
    }
    ft
}

/// GSUB 1.0 (1.1 with a FeatureVariations table when the program has variation records).
/// `scripts`: the script tags to write (sorted by the caller); every script has only a default
/// language system that lists every feature in order.
pub fn gsub(p: &Value, scripts: &[&str]) -> Vec<u8> {
    let feats = arr(&p["features"]);
    let extra: Vec<i64> = p.get("extra_feature_indices").map(ints).unwrap_or_default();
    let required = p.get("required").map(int).unwrap_or(0xFFFF) as u16;
    let langs: Vec<String> = p.get("langs").map(|l| arr(l).iter().map(|x| text(x).to_string()).collect()).unwrap_or_default();
    let mk_langsys = || {
        let mut langsys = Obj::new();
        langsys.u16(0).u16(required).u16((feats.len() + extra.len()) as u16);
        for i in 0..feats.len() {
            langsys.u16(i as u16);
        }
        for i in &extra {
            langsys.u16(*i as u16);
        }
        langsys
    };
    let mut sl = Obj::new();
    sl.u16(scripts.len() as u16);
    for s in scripts {
        let mut st = Obj::new();
        st.off16(mk_langsys()).u16(langs.len() as u16);
        for l in &langs {
            st.tag(l).off16(mk_langsys());
        }
        sl.tag(s).off16(st);
    }
    let mut fl = Obj::new();
    fl.u16(feats.len() as u16);
    for f in feats {
        fl.tag(text(&f["tag"])).off16(feature_table(&f["lookups"]));
    }
    let lookups = arr(&p["lookups"]);
    let mut ll = Obj::new();
    ll.u16(lookups.len() as u16);
    for l in lookups {
        ll.off16(lookup(l));
    }
    let vars = arr(&p["vars"]);
    let mut o = Obj::new();
    if vars.is_empty() {
        o.u16(1).u16(0).off16(sl).off16(fl).off16(ll);
    } else {
        let mut fv = Obj::new();
        fv.u16(1).u16(0).u32(vars.len() as u32);
        for v in vars {
            let conds = arr(&v["conds"]);
            let cs = if conds.is_empty() {
                None // NULL condition set offset: the universal condition
            } else {
                let mut cs = Obj::new();
                cs.u16(conds.len() as u16);
                for c in conds {
                    let c = ints(c);
                    let mut ct = Obj::new();
                    ct.u16(1).u16(c[0] as u16).i16(c[1] as i16).i16(c[2] as i16);
                    cs.off32(ct);
                }
                Some(cs)
            };
            let subst = arr(&v["subst"]);
            let fts = if subst.is_empty() {
                None // NULL FeatureTableSubstitution offset: no substitution
            } else {
                let mut t = Obj::new();
                t.u16(1).u16(0).u16(subst.len() as u16);
                for s in subst {
                    t.u16(int(&s["fi"]) as u16).off32(feature_table(&s["lookups"]));
                }
                Some(t)
            };
            fv.opt32(cs).opt32(fts);
        }
        o.u16(1).u16(1).off16(sl).off16(fl).off16(ll).off32(fv);
    }
    o.flatten()
}
