//! C02: systematically synthesized fonts whose layout tables are valid but unusual, and the second
//! text alphabet ("text shape classes") of the default shaper.
//!
//! Every font has the same 27 glyphs (roles below) and the same cmap; what varies is GDEF / GSUB /
//! GPOS / kern / vhea+vmtx / fvar. The catalogue is a fixed product of parameters (no randomness):
//!
//!   F  frac   : `frac` (single / ligature / multiple substitution) next to a feature that changes
//!               the length of the text before the fraction (liga, ccmp growing, ccmp deleting,
//!               contextual, ligature across the prefix/fraction boundary), numeric features
//!   L  marklig: ligatures of 2..4 components x GPOS LigatureAttach tables with n-1 / n / n+1 / 0
//!               component records x ligature lookup flag {0, IgnoreMarks} x GDEF {full, absent}
//!   B  mark   : MarkBase / MarkMark with mark class counts 0, 1, 2, a mark class = the class count,
//!               NULL anchors, a base array shorter than its coverage
//!   C  curs   : cursive chains (flag 0 / RightToLeft / IgnoreMarks, NULL entry or exit anchors)
//!   X  ctx    : 5 context kinds x 5 nested actions that keep / lengthen / shorten the run
//!   E  edge   : empty coverages, lookups naming the last glyph id / a missing glyph id, GDEF absent or
//!               without class definition, kern-only, no layout table, damaged LangSys, required
//!               feature, extension lookups, reverse chaining, alternates
//!   extreme   : adjustment values and anchors at the limits of i16, one interaction per font
//!   V  vert   : vert / vrt2 with and without vhea+vmtx
//!   T  tuple  : GSUB FeatureVariations + fvar
//!
//! The harness decides nothing here either: this module only produces bytes and names facts about
//! the bytes it produced (which glyph is the ligature, how many component records the attach table
//! has) so that the vacuity counters can be measured from the runs allsorts returns.
use super::enc_gpos as ep;
use super::enc_gsub as es;
use serde_json::{json, Value};
use vh::fontgen::{triangle, GlyphSpec, TtFont, W};

// ---- glyph roles --------------------------------------------------------------------------------
pub const G_SPACE: u16 = 1;
pub const G_F: u16 = 2;
pub const G_I: u16 = 3;
pub const G_X: u16 = 4;
pub const G_EACUTE: u16 = 5;
pub const G_E: u16 = 6;
pub const G_ONE: u16 = 7;
pub const G_TWO: u16 = 8;
pub const G_SLASH: u16 = 9;
pub const G_FRACTION: u16 = 10;
pub const G_ACUTE: u16 = 11; // mark
pub const G_DOTBELOW: u16 = 12; // mark
pub const G_LIG2: u16 = 13;
pub const G_LIG3: u16 = 14;
pub const G_LIG4: u16 = 15;
pub const G_NUMR: u16 = 16;
pub const G_DNOM: u16 = 17;
pub const G_ONEHALF: u16 = 18;
pub const G_XALT: u16 = 19;
pub const G_DOTTED: u16 = 20;
pub const G_ZWJ: u16 = 21;
pub const G_ZWNJ: u16 = 22;
pub const G_XVERT: u16 = 23;
pub const G_A: u16 = 24;
#[allow(dead_code)]
pub const G_AORDN: u16 = 25;
pub const G_LAST: u16 = 26;
pub const NUM_GLYPHS: u16 = 27;

const CMAP: &[(u32, u16)] = &[
    (0x20, G_SPACE), (0x66, G_F), (0x69, G_I), (0x78, G_X), (0xE9, G_EACUTE), (0x65, G_E), (0x31, G_ONE), (0x32, G_TWO),
    (0x2F, G_SLASH), (0x2044, G_FRACTION), (0x301, G_ACUTE), (0x323, G_DOTBELOW), (0xFB00, G_LIG2), (0xBD, G_ONEHALF),
    (0x25CC, G_DOTTED), (0x200D, G_ZWJ), (0x200C, G_ZWNJ), (0x61, G_A),
];

// ---- the second alphabet: text shape classes of the default shaper ---------------------------------
/// class name -> code points by position parity (even position, odd position)
pub const TEXT_CLASSES: &[(&str, [u32; 2])] = &[
    ("Lf", [0x66, 0x66]),     // letter that ligates (f f, f f f, f f f f, f i)
    ("Li", [0x69, 0x69]),     // letter that is only a later ligature component
    ("Lx", [0x78, 0x78]),     // letter with single / multiple / contextual substitutions
    ("Ld", [0xE9, 0xE9]),     // precomposed letter that ccmp decomposes
    ("Dg", [0x31, 0x32]),     // ASCII digit
    ("Sl", [0x2F, 0x2F]),     // ASCII slash (the fraction detector's slash)
    ("Fs", [0x2044, 0x2044]), // U+2044 FRACTION SLASH
    ("Sp", [0x20, 0x20]),     // space
    ("Mk", [0x301, 0x301]),   // combining mark, class 0
    ("Mb", [0x323, 0x323]),   // combining mark, class 1
    ("Zj", [0x200D, 0x200C]), // joiner (ZWJ / ZWNJ)
];

pub fn concretise_text(classes: &[String]) -> Vec<u32> {
    classes
        .iter()
        .enumerate()
        .map(|(pos, c)| {
            let cps = TEXT_CLASSES.iter().find(|(n, _)| *n == c.as_str()).unwrap_or_else(|| panic!("text class {} unknown", c)).1;
            cps[pos % 2]
        })
        .collect()
}

// ---- feature configurations (index = Job.feat) --------------------------------------------------
pub const FEAT_NAMES: [&str; 11] = [
    "MaskDefault", "MaskAll", "CustomFew", "CustomEmpty", "MaskFrac", "MaskNum", "MaskVert", "CustomAlt", "MaskEmpty",
    "CustomGpos", "CustomAlt1",
];

// ---- catalogue ------------------------------------------------------------------------------------
pub struct SynthFont {
    pub name: String,
    pub family: &'static str,
    /// text classes the font has roles for; the font is shaped with every TLC string over them
    pub alphabet: &'static [&'static str],
    /// feature configurations the strings are crossed with (cycled / all, see build_plan)
    pub configs: &'static [u8],
    /// structurally valid and naming existing glyphs only
    pub wf: bool,
    pub gdef: Option<Value>,
    pub gsub: Option<Value>,
    pub gpos: Option<Value>,
    pub kern: Option<Value>,
    pub vmetrics: bool,
    pub fvar: bool,
    // facts about the bytes (for the vacuity counters)
    pub has_frac: bool,
    /// component record counts of the LigatureAttach tables of G_LIG2, G_LIG3, G_LIG4
    pub marklig: Option<[usize; 3]>,
    /// glyph that only the FeatureVariations substitution can produce
    pub fv_marker: Option<u16>,
    // ---- second strengthening (c02_shape/synth2.rs)
    /// abstract morx program (enc_morx.rs); a font with morx and no GSUB is shaped through morx
    pub morx: Option<Value>,
    /// the font is shaped with the text-class strings up to this length only
    pub max_len: usize,
    /// thread-CPU budget of one call sequence on this font, in milliseconds
    pub budget_ms: u64,
    /// seeded byte corruptions of the font are part of the plan
    pub corruptible: bool,
    /// foreign script tags are part of the plan
    pub aliens: bool,
    /// facts about the bytes the plan-level (input side) vacuity counters are computed from
    pub tags: Vec<String>,
}

pub fn cov(gs: &[u16]) -> Value {
    json!({"fmt": 1, "glyphs": gs})
}
pub fn pcov(gs: &[u16]) -> Value {
    json!({"f": 1, "g": gs})
}
pub fn sl(ty: i64, flag: u16, subs: Vec<Value>) -> Value {
    json!({"type": ty, "etype": 0, "flag": flag, "mfs": 0, "subs": subs})
}
pub fn single(flag: u16, from: &[u16], to: &[u16]) -> Value {
    sl(1, flag, vec![json!({"fmt": 2, "cov": cov(from), "subst": to})])
}
pub fn multiple(flag: u16, from: &[u16], seqs: &[&[u16]]) -> Value {
    sl(2, flag, vec![json!({"fmt": 1, "cov": cov(from), "seqs": seqs})])
}
fn alternate(from: &[u16], alts: &[&[u16]]) -> Value {
    sl(3, 0, vec![json!({"fmt": 1, "cov": cov(from), "alts": alts})])
}
/// ligatures that all start with `first`: (ligature glyph, following components)
pub fn ligature(flag: u16, first: u16, ligs: &[(u16, &[u16])]) -> Value {
    let set: Vec<Value> = ligs.iter().map(|(l, c)| json!({"lig": l, "comps": c})).collect();
    sl(4, flag, vec![json!({"fmt": 1, "cov": cov(&[first]), "sets": [set]})])
}
pub fn feat(tag: &str, lookups: &[usize]) -> Value {
    json!({"tag": tag, "lookups": lookups})
}
pub fn gsub_prog(features: Vec<Value>, lookups: Vec<Value>) -> Value {
    json!({"features": features, "lookups": lookups, "vars": [], "langs": ["ENG "]})
}
pub fn pl(ty: i64, flag: u16, subs: Vec<Value>) -> Value {
    json!({"ty": ty, "flag": flag, "ext": false, "mfs": 0, "subs": subs})
}
pub fn anc(x: i64, y: i64) -> Value {
    json!({"f": 1, "x": x, "y": y})
}
fn null_anchor() -> Value {
    json!({"f": 0, "x": 0, "y": 0})
}
pub fn val(xp: i64, yp: i64, xa: i64, ya: i64) -> Value {
    json!({"xp": xp, "yp": yp, "xa": xa, "ya": ya})
}
pub fn pos_single(flag: u16, gs: &[u16], vf: i64, v: Value) -> Value {
    pl(1, flag, vec![json!({"f": 1, "cov": pcov(gs), "vf": vf, "v": v})])
}
pub fn gpos_prog(features: Vec<Value>, lookups: Vec<Value>) -> Value {
    json!({"features": features, "lookups": lookups})
}

fn gdef_classes() -> Vec<i64> {
    let mut c = vec![1i64; NUM_GLYPHS as usize];
    c[0] = 0;
    for g in [G_ACUTE, G_DOTBELOW] {
        c[g as usize] = 3;
    }
    for g in [G_LIG2, G_LIG3, G_LIG4, G_ONEHALF] {
        c[g as usize] = 2;
    }
    c
}
pub fn gdef_full() -> Value {
    let mut att = vec![0i64; NUM_GLYPHS as usize];
    att[G_ACUTE as usize] = 1;
    att[G_DOTBELOW as usize] = 2;
    json!({"tab": "full", "cls": gdef_classes(), "att": att, "sets": [[G_ACUTE], [G_DOTBELOW]]})
}
fn gdef_noclass() -> Value {
    let mut g = gdef_full();
    g["tab"] = json!("noclassdef");
    g
}

const A_FRAC: &[&str] = &["Lf", "Lx", "Ld", "Dg", "Sl", "Sp"];
const A_FRAC_ALL: &[&str] = &["Lf", "Lx", "Ld", "Dg", "Sl", "Fs", "Sp", "Mk"];
const A_MARKLIG: &[&str] = &["Lf", "Lx", "Mk", "Mb"];
const A_MARK: &[&str] = &["Lf", "Lx", "Mk", "Mb", "Sp"];
const A_CURS: &[&str] = &["Lf", "Li", "Lx", "Mk", "Sp"];
const A_CTX: &[&str] = &["Lf", "Lx", "Mk", "Sp"];
const A_EDGE: &[&str] = &["Lf", "Lx", "Dg", "Mk", "Zj"];
const A_VERT: &[&str] = &["Lf", "Lx", "Dg", "Mk", "Sp"];

// feature configuration indices, see FEAT_NAMES
const C_FRAC: &[u8] = &[4, 1, 5, 7];
const C_DEFAULT: &[u8] = &[0, 1];
const C_GPOS: &[u8] = &[0, 9];
const C_CTX: &[u8] = &[0];
const C_EDGE: &[u8] = &[0, 1, 7];
const C_ALT: &[u8] = &[7, 10, 1];
const C_VERT: &[u8] = &[6, 1, 7];
const C_CUSTOM: &[u8] = &[2, 3, 8, 0];

pub fn base(name: String, family: &'static str, alphabet: &'static [&'static str], configs: &'static [u8]) -> SynthFont {
    SynthFont {
        name, family, alphabet, configs, wf: true, gdef: Some(gdef_full()), gsub: None, gpos: None, kern: None, vmetrics: false,
        fvar: false, has_frac: false, marklig: None, fv_marker: None, morx: None, max_len: usize::MAX, budget_ms: 2000, corruptible: true,
        aliens: true, tags: Vec::new(),
    }
}

/// the ordinary ligature lookup f f f f / f f f / f f / f i, longest first
pub fn liga_f(flag: u16) -> Value {
    ligature(flag, G_F, &[(G_LIG4, &[G_F, G_F, G_F]), (G_LIG3, &[G_F, G_F]), (G_LIG2, &[G_F]), (G_LIG3, &[G_I])])
}
fn ccmp_decompose() -> Value {
    multiple(0, &[G_EACUTE], &[&[G_E, G_ACUTE]])
}
fn frac_single() -> Value {
    single(0, &[G_ONE, G_TWO, G_SLASH], &[G_NUMR, G_DNOM, G_FRACTION])
}

fn frac_fonts(out: &mut Vec<SynthFont>) {
    let mut push = |name: &str, alphabet: &'static [&'static str], features: Vec<Value>, lookups: Vec<Value>| {
        let mut f = base(format!("frac-{}", name), "frac", alphabet, C_FRAC);
        f.gsub = Some(gsub_prog(features, lookups));
        f.has_frac = true;
        out.push(f);
    };
    // text before the fraction shrinks (ligature)
    push("liga", A_FRAC, vec![feat("frac", &[1]), feat("liga", &[0])], vec![liga_f(0), frac_single()]);
    // text before the fraction grows (decomposition), an empty multiple substitution deletes x
    // (and `fina`, which Custom lists apply to the last glyph only: the run may be empty by then)
    push("ccmp", A_FRAC, vec![feat("ccmp", &[0, 1]), feat("fina", &[3]), feat("frac", &[2])],
         vec![ccmp_decompose(), multiple(0, &[G_X], &[&[]]), frac_single(), single(0, &[G_F, G_E, G_ACUTE, G_TWO, G_DNOM], &[G_I, G_XALT, G_DOTBELOW, G_ONE, G_NUMR])]);
    // the frac lookup itself shrinks / grows the fraction: 1/2 -> onehalf, 2 -> 2 2
    push("fraclig", A_FRAC, vec![feat("frac", &[1, 2]), feat("liga", &[0])],
         vec![liga_f(0), ligature(0, G_ONE, &[(G_ONEHALF, &[G_SLASH, G_TWO])]), multiple(0, &[G_TWO], &[&[G_DNOM, G_DNOM]])]);
    // a ligature that starts in the text before the fraction and ends inside it (x 1 -> , x 1 / ->)
    push("cross", A_FRAC, vec![feat("frac", &[1]), feat("liga", &[0])],
         vec![ligature(0, G_X, &[(G_LIG3, &[G_ONE, G_SLASH]), (G_LIG2, &[G_TWO])]), frac_single()]);
    // a contextual lookup before the fraction: x followed by a digit doubles, f followed by a digit disappears
    push("ctx", A_FRAC, vec![feat("calt", &[0]), feat("frac", &[3])],
         vec![
             sl(6, 0, vec![json!({"fmt": 3, "back": [], "input": [cov(&[G_X, G_F])], "look": [cov(&[G_ONE, G_TWO])], "recs": [[0, 1], [0, 2]]})]),
             multiple(0, &[G_X], &[&[G_X, G_XALT]]),
             multiple(0, &[G_F], &[&[]]),
             frac_single(),
         ]);
    // only frac
    push("only", A_FRAC, vec![feat("frac", &[0])], vec![frac_single()]);
    // everything, plus the numeric / ordinal / case features of the mask, full alphabet
    push("all", A_FRAC_ALL,
         vec![feat("afrc", &[4]), feat("c2sc", &[6]), feat("ccmp", &[1]), feat("dnom", &[5]), feat("frac", &[3, 4]), feat("liga", &[0]),
              feat("lnum", &[5]), feat("numr", &[5]), feat("onum", &[5]), feat("ordn", &[7]), feat("pnum", &[5]), feat("smcp", &[6]),
              feat("tnum", &[5]), feat("zero", &[5])],
         vec![
             liga_f(8),
             ccmp_decompose(),
             multiple(0, &[G_X], &[&[]]),
             frac_single(),
             ligature(0, G_NUMR, &[(G_ONEHALF, &[G_FRACTION, G_DNOM])]),
             single(0, &[G_ONE, G_TWO], &[G_NUMR, G_DNOM]),
             single(0, &[G_X], &[G_XALT]),
             sl(6, 0, vec![json!({"fmt": 3, "back": [cov(&[G_ONE, G_TWO, G_NUMR, G_DNOM])], "input": [cov(&[G_X])], "look": [], "recs": [[0, 6]]})]),
         ]);
}

fn mark_array() -> Value {
    json!([{"c": 0, "a": anc(10, 600)}, {"c": 0, "a": anc(12, -50)}])
}

fn marklig_fonts(out: &mut Vec<SynthFont>) {
    // delta: component records = ligature components + delta; None: no component record at all
    for (dname, delta) in [("m1", Some(-1i64)), ("eq", Some(0)), ("p1", Some(1)), ("zero", None)] {
        for (fname, flag) in [("f0", 0u16), ("f8", 8u16)] {
            for gdef_present in [true, false] {
                if !gdef_present && !(flag == 0 || dname == "m1") {
                    continue;
                }
                let counts: [usize; 3] = match delta {
                    Some(d) => [(2 + d) as usize, (3 + d) as usize, (4 + d) as usize],
                    None => [0, 0, 0],
                };
                let ligs: Vec<Value> = counts.iter().map(|&n| Value::Array((0..n).map(|k| json!([anc(100 + 200 * k as i64, 700)])).collect())).collect();
                let mut f = base(format!("marklig-{}-{}-{}", dname, fname, if gdef_present { "gdef" } else { "nogdef" }), "marklig", A_MARKLIG, C_DEFAULT);
                if !gdef_present {
                    f.gdef = None;
                }
                f.gsub = Some(gsub_prog(vec![feat("liga", &[0])], vec![liga_f(flag)]));
                f.gpos = Some(gpos_prog(
                    vec![feat("mark", &[0, 1]), feat("mkmk", &[2])],
                    vec![
                        pl(5, 0, vec![json!({"mcov": pcov(&[G_ACUTE, G_DOTBELOW]), "lcov": pcov(&[G_LIG2, G_LIG3, G_LIG4]), "nc": 1, "marks": mark_array(), "ligs": ligs})]),
                        pl(4, 0, vec![json!({"mcov": pcov(&[G_ACUTE, G_DOTBELOW]), "bcov": pcov(&[G_F, G_X]), "nc": 1, "marks": mark_array(),
                                            "bases": [[anc(250, 700)], [anc(260, 700)]]})]),
                        pl(6, 0, vec![json!({"mcov": pcov(&[G_ACUTE, G_DOTBELOW]), "bcov": pcov(&[G_ACUTE, G_DOTBELOW]), "nc": 1, "marks": mark_array(),
                                            "bases": [[anc(10, 900)], [anc(12, -300)]]})]),
                    ],
                ));
                f.marklig = Some(counts);
                out.push(f);
            }
        }
    }
}

/// LigatureArray with fewer LigatureAttach tables than the ligature coverage has glyphs
fn marklig_short_array(out: &mut Vec<SynthFont>) {
    let mut f = base("marklig-shortarray".into(), "marklig", A_MARKLIG, C_DEFAULT);
    f.wf = false;
    f.gsub = Some(gsub_prog(vec![feat("liga", &[0])], vec![liga_f(8)]));
    f.gpos = Some(gpos_prog(
        vec![feat("mark", &[0])],
        vec![pl(5, 0, vec![json!({"mcov": pcov(&[G_ACUTE, G_DOTBELOW]), "lcov": pcov(&[G_LIG2, G_LIG3, G_LIG4]), "nc": 1, "marks": mark_array(),
                                 "ligs": [[[anc(100, 700)], [anc(300, 700)]]]})])],
    ));
    out.push(f);
}

fn mark_fonts(out: &mut Vec<SynthFont>) {
    // (name, class count, class of the dot-below mark, NULL anchors, base records)
    let variants: [(&str, i64, i64, bool, usize, bool); 7] = [
        ("nc1", 1, 0, false, 4, true),
        ("nc2", 2, 1, false, 4, true),
        ("nc2-null", 2, 1, true, 4, true),
        ("nc2-classeq", 2, 2, false, 4, false),  // mark class = mark class count
        ("nc0", 0, 0, false, 4, false),          // no class at all: every mark class is out of range
        ("nc2-shortbases", 2, 1, false, 2, false), // base array shorter than the base coverage
        ("nc3-big", 3, 2, false, 4, true),
    ];
    for (name, nc, cls_b, nulls, nbases, wf) in variants {
        let marks = json!([{"c": 0, "a": anc(10, 600)}, {"c": cls_b, "a": anc(12, -50)}]);
        let row = |k: i64| -> Value {
            Value::Array((0..nc).map(|c| if nulls && (c + k) % 2 == 0 { null_anchor() } else { anc(200 + 10 * k, if c == 0 { 700 } else { -100 }) }).collect())
        };
        let bases: Vec<Value> = (0..nbases as i64).map(row).collect();
        let mbases: Vec<Value> = (0..2).map(row).collect();
        let mut f = base(format!("mark-{}", name), "mark", A_MARK, C_DEFAULT);
        f.wf = wf;
        f.gsub = Some(gsub_prog(vec![feat("liga", &[0])], vec![liga_f(8)]));
        f.gpos = Some(gpos_prog(
            vec![feat("mark", &[0]), feat("mkmk", &[1])],
            vec![
                pl(4, 0, vec![json!({"mcov": pcov(&[G_ACUTE, G_DOTBELOW]), "bcov": pcov(&[G_SPACE, G_F, G_X, G_LIG2]), "nc": nc, "marks": marks, "bases": bases})]),
                pl(6, 0, vec![json!({"mcov": pcov(&[G_ACUTE, G_DOTBELOW]), "bcov": pcov(&[G_ACUTE, G_DOTBELOW]), "nc": nc, "marks": marks, "bases": mbases})]),
            ],
        ));
        out.push(f);
    }
}

fn curs_fonts(out: &mut Vec<SynthFont>) {
    for (name, flag, nulls) in [("f0", 0u16, false), ("rtl", 1u16, false), ("null", 0u16, true), ("ignmarks-rtl", 9u16, false)] {
        let recs: Vec<Value> = (0..3i64)
            .map(|k| {
                let en = if nulls && k == 1 { null_anchor() } else { anc(20 + k, 100 * k) };
                let ex = if nulls && k == 2 { null_anchor() } else { anc(480 + k, 50 - 100 * k) };
                json!({"en": en, "ex": ex})
            })
            .collect();
        let mut f = base(format!("curs-{}", name), "curs", A_CURS, C_GPOS);
        f.gpos = Some(gpos_prog(
            vec![feat("curs", &[0]), feat("mark", &[1]), feat("kern", &[2])],
            vec![
                pl(3, flag, vec![json!({"cov": pcov(&[G_F, G_I, G_X]), "recs": recs})]),
                pl(4, 0, vec![json!({"mcov": pcov(&[G_ACUTE]), "bcov": pcov(&[G_F, G_I, G_X]), "nc": 1, "marks": [{"c": 0, "a": anc(10, 600)}],
                                    "bases": [[anc(250, 700)], [anc(100, 700)], [anc(260, 700)]]})]),
                pos_single(0, &[G_F, G_X], 5, val(-15, 0, 40, 0)),
            ],
        ));
        out.push(f);
    }
}

fn ctx_fonts(out: &mut Vec<SynthFont>) {
    // nested lookups: index in the lookup list is 1 + action
    let actions: Vec<(&str, Value)> = vec![
        ("single", single(0, &[G_X], &[G_XALT])),
        ("grow", multiple(0, &[G_X], &[&[G_X, G_XALT, G_XALT]])),
        ("delete", multiple(0, &[G_X], &[&[]])),
        ("lig2", ligature(0, G_X, &[(G_LIG2, &[G_F])])),
        ("lig3", ligature(0, G_X, &[(G_LIG3, &[G_F, G_F])])),
    ];
    let x = [G_X];
    let ff = [G_F];
    let mut cls = vec![0i64; 8];
    cls[G_X as usize] = 1;
    cls[G_F as usize] = 2;
    let cd = json!({"fmt": 1, "start": 0, "classes": cls});
    for (aname, action) in &actions {
        let kinds: Vec<(&str, Value)> = vec![
            ("ctx1", sl(5, 0, vec![json!({"fmt": 1, "cov": cov(&x), "sets": [[{"input": [], "recs": [[0, 1], [0, 2]]}]]})])),
            // two glyph input x f: the nested lookup at 0, then a single substitution at 1 (stale after a deletion)
            ("ctx3-2", sl(5, 0, vec![json!({"fmt": 3, "input": [cov(&x), cov(&ff)], "recs": [[0, 1], [1, 2]]})])),
            ("chain3-back", sl(6, 0, vec![json!({"fmt": 3, "back": [cov(&ff)], "input": [cov(&x)], "look": [], "recs": [[0, 1]]})])),
            ("chain3-look", sl(6, 0, vec![json!({"fmt": 3, "back": [], "input": [cov(&x)], "look": [cov(&ff)], "recs": [[0, 1]]})])),
            ("chain2", sl(6, 8, vec![json!({"fmt": 2, "cov": cov(&x), "bcd": cd, "icd": cd, "lcd": cd,
                                            "sets": [[], [{"back": [], "input": [], "look": [2], "recs": [[0, 1]]}, {"back": [2], "input": [], "look": [], "recs": [[0, 1]]}], []]})])),
        ];
        for (kname, ctx) in kinds {
            let mut f = base(format!("ctx-{}-{}", kname, aname), "ctx", A_CTX, C_CTX);
            f.gsub = Some(gsub_prog(vec![feat("calt", &[0])], vec![ctx, action.clone(), single(0, &[G_F, G_X], &[G_I, G_XALT])]));
            f.gpos = Some(gpos_prog(
                vec![feat("kern", &[0]), feat("mark", &[1])],
                vec![
                    // contextual positioning at the start / end of the run: x followed by f, f preceded by x
                    pl(8, 0, vec![json!({"f": 3, "bt": [], "inp": [pcov(&[G_X, G_XALT])], "la": [pcov(&[G_F, G_I])], "recs": [[0, 2], [1, 2]]}),
                                  json!({"f": 3, "bt": [pcov(&[G_X, G_XALT])], "inp": [pcov(&[G_F])], "la": [], "recs": [[0, 2]]})]),
                    pl(4, 0, vec![json!({"mcov": pcov(&[G_ACUTE]), "bcov": pcov(&[G_F, G_X, G_LIG2, G_LIG3, G_XALT]), "nc": 1, "marks": [{"c": 0, "a": anc(10, 600)}],
                                        "bases": [[anc(1, 700)], [anc(2, 700)], [anc(3, 700)], [anc(4, 700)], [anc(5, 700)]]})]),
                    pos_single(0, &[G_F, G_I, G_X, G_XALT], 4, val(0, 0, -30, 0)),
                ],
            ));
            out.push(f);
        }
    }
}

fn edge_fonts(out: &mut Vec<SynthFont>) {
    let empty1 = json!({"fmt": 1, "glyphs": []});
    let empty2 = json!({"fmt": 2, "ranges": []});
    for (name, e) in [("emptycov1", &empty1), ("emptycov2", &empty2)] {
        let pe = if name == "emptycov1" { json!({"f": 1, "g": []}) } else { json!({"f": 2, "g": []}) };
        let mut f = base(format!("edge-{}", name), "edge", A_EDGE, C_EDGE);
        f.gsub = Some(gsub_prog(
            vec![feat("aalt", &[2]), feat("calt", &[4, 5]), feat("ccmp", &[1]), feat("liga", &[0, 3])],
            vec![
                sl(1, 0, vec![json!({"fmt": 2, "cov": e, "subst": []}), json!({"fmt": 1, "cov": e, "delta": 3})]),
                sl(2, 0, vec![json!({"fmt": 1, "cov": e, "seqs": []})]),
                sl(3, 0, vec![json!({"fmt": 1, "cov": e, "alts": []})]),
                sl(4, 0, vec![json!({"fmt": 1, "cov": e, "sets": []}), json!({"fmt": 1, "cov": cov(&[G_F]), "sets": [[]]})]),
                sl(6, 0, vec![json!({"fmt": 3, "back": [e], "input": [cov(&[G_X])], "look": [], "recs": [[0, 0]]}),
                              json!({"fmt": 3, "back": [], "input": [e], "look": [], "recs": [[0, 0]]}),
                              json!({"fmt": 1, "cov": e, "sets": []})]),
                sl(8, 0, vec![json!({"fmt": 1, "cov": e, "back": [], "look": [], "subst": []})]),
            ],
        ));
        f.gpos = Some(gpos_prog(
            vec![feat("kern", &[0, 1]), feat("mark", &[2, 3, 4])],
            vec![
                pl(1, 0, vec![json!({"f": 1, "cov": pe, "vf": 4, "v": val(0, 0, 10, 0)}), json!({"f": 2, "cov": pe, "vf": 4, "vs": []})]),
                pl(2, 0, vec![json!({"f": 1, "cov": pe, "vf1": 4, "vf2": 0, "sets": []})]),
                pl(4, 0, vec![json!({"mcov": pe, "bcov": pe, "nc": 1, "marks": [], "bases": []})]),
                pl(5, 0, vec![json!({"mcov": pe, "lcov": pe, "nc": 1, "marks": [], "ligs": []})]),
                pl(3, 0, vec![json!({"cov": pe, "recs": []})]),
            ],
        ));
        out.push(f);
    }
    // lookups that name the last glyph id
    {
        let mut f = base("edge-lastgid".into(), "edge", A_EDGE, C_EDGE);
        f.gsub = Some(gsub_prog(
            vec![feat("calt", &[3]), feat("ccmp", &[0, 1]), feat("liga", &[2])],
            vec![
                single(0, &[G_X, G_LAST], &[G_LAST, G_X]),
                multiple(0, &[G_ONE], &[&[G_LAST, G_LAST]]),
                ligature(0, G_F, &[(G_LAST, &[G_F])]),
                sl(1, 0, vec![json!({"fmt": 1, "cov": {"fmt": 2, "ranges": [[G_TWO, G_TWO, 0], [G_LAST, G_LAST, 1]]}, "delta": (G_LAST as i64 - G_TWO as i64)})]),
            ],
        ));
        f.gpos = Some(gpos_prog(
            vec![feat("kern", &[0, 1]), feat("mark", &[2])],
            vec![
                pos_single(0, &[G_LAST], 5, val(5, 0, 7, 0)),
                pl(2, 0, vec![json!({"f": 1, "cov": pcov(&[G_LAST]), "vf1": 4, "vf2": 1, "sets": [[{"g2": G_LAST, "v1": val(0, 0, -9, 0), "v2": val(3, 0, 0, 0)}]]})]),
                pl(4, 0, vec![json!({"mcov": pcov(&[G_ACUTE]), "bcov": pcov(&[G_LAST]), "nc": 1, "marks": [{"c": 0, "a": anc(1, 2)}], "bases": [[anc(3, 4)]]})]),
            ],
        ));
        let mut g = gdef_full();
        g["cls"][G_LAST as usize] = json!(1);
        f.gdef = Some(g);
        out.push(f);
    }
    // lookups that name glyph ids the font does not have (numGlyphs, 0xFFFF, a wrapping delta)
    {
        let mut f = base("edge-missinggid".into(), "edge", A_EDGE, C_EDGE);
        f.wf = false;
        f.gsub = Some(gsub_prog(
            vec![feat("calt", &[3]), feat("ccmp", &[0, 1]), feat("liga", &[2])],
            vec![
                single(0, &[G_X], &[NUM_GLYPHS]),
                multiple(0, &[G_ONE], &[&[0xFFFF, G_ONE, NUM_GLYPHS]]),
                ligature(0, G_F, &[(0xFFFF, &[G_F])]),
                sl(1, 0, vec![json!({"fmt": 1, "cov": cov(&[G_TWO]), "delta": -(G_TWO as i64) - 1})]),
            ],
        ));
        f.gpos = Some(gpos_prog(
            vec![feat("kern", &[0]), feat("mark", &[1])],
            vec![
                pos_single(0, &[0, G_LAST, NUM_GLYPHS, 0xFFFF], 4, val(0, 0, 7, 0)),
                pl(4, 0, vec![json!({"mcov": pcov(&[G_ACUTE, 0xFFFF]), "bcov": pcov(&[0, NUM_GLYPHS]), "nc": 1,
                                    "marks": [{"c": 0, "a": anc(1, 2)}, {"c": 0, "a": anc(1, 2)}], "bases": [[anc(3, 4)], [anc(5, 6)]]})]),
            ],
        ));
        out.push(f);
    }
    // lookup flags that need GDEF, with GDEF absent / without glyph class definition
    for (name, gdef) in [("gdef-absent", None), ("gdef-noclassdef", Some(gdef_noclass()))] {
        let mut f = base(format!("edge-{}", name), "edge", A_EDGE, C_EDGE);
        f.gdef = gdef;
        f.gsub = Some(gsub_prog(
            vec![feat("ccmp", &[1, 2]), feat("liga", &[0])],
            vec![
                liga_f(8),
                json!({"type": 1, "etype": 0, "flag": 0x10, "mfs": 0, "subs": [{"fmt": 2, "cov": cov(&[G_X, G_ACUTE]), "subst": [G_XALT, G_DOTBELOW]}]}),
                json!({"type": 4, "etype": 0, "flag": 0x0106, "mfs": 0, "subs": [{"fmt": 1, "cov": cov(&[G_ACUTE]), "sets": [[{"lig": G_DOTBELOW, "comps": [G_ACUTE]}]]}]}),
            ],
        ));
        f.gpos = Some(gpos_prog(
            vec![feat("kern", &[0]), feat("mark", &[1, 2]), feat("mkmk", &[3])],
            vec![
                pl(2, 8, vec![json!({"f": 1, "cov": pcov(&[G_F, G_X]), "vf1": 4, "vf2": 0, "sets": [[{"g2": G_X, "v1": val(0, 0, -20, 0), "v2": val(0, 0, 0, 0)}], [{"g2": G_F, "v1": val(0, 0, -25, 0), "v2": val(0, 0, 0, 0)}]]})]),
                pl(4, 0, vec![json!({"mcov": pcov(&[G_ACUTE, G_DOTBELOW]), "bcov": pcov(&[G_F, G_X]), "nc": 1, "marks": mark_array(), "bases": [[anc(250, 700)], [anc(260, 700)]]})]),
                pl(5, 0, vec![json!({"mcov": pcov(&[G_ACUTE, G_DOTBELOW]), "lcov": pcov(&[G_LIG2]), "nc": 1, "marks": mark_array(), "ligs": [[[anc(100, 700)], [anc(300, 700)]]]})]),
                json!({"ty": 6, "flag": 0x10, "ext": false, "mfs": 1, "subs": [{"mcov": pcov(&[G_ACUTE, G_DOTBELOW]), "bcov": pcov(&[G_ACUTE, G_DOTBELOW]), "nc": 1,
                       "marks": mark_array(), "bases": [[anc(10, 900)], [anc(12, -300)]]}]}),
            ],
        ));
        out.push(f);
    }
    // no GPOS: kern table + fallback mark handling; GPOS without kern feature + kern table; nothing at all
    {
        let kern = json!([{"f": 0, "cov": 1, "pairs": [[G_F, G_F, -40], [G_F, G_X, -30], [G_X, G_F, 25], [G_X, G_ACUTE, 15]]},
                          {"f": 0, "cov": 9, "pairs": [[G_F, G_X, -11]]}, {"f": 0, "cov": 3, "pairs": [[G_X, G_F, -5]]}, {"f": 0, "cov": 0, "pairs": [[G_F, G_F, 9]]}]);
        let mut f = base("edge-kernonly".into(), "edge", A_EDGE, C_EDGE);
        f.gdef = None;
        f.kern = Some(kern.clone());
        out.push(f);
        let mut f = base("edge-kern+gsub".into(), "edge", A_EDGE, C_EDGE);
        f.gsub = Some(gsub_prog(vec![feat("liga", &[0])], vec![liga_f(0)]));
        f.kern = Some(kern.clone());
        out.push(f);
        let mut f = base("edge-kern+gpos".into(), "edge", A_EDGE, C_EDGE);
        f.gpos = Some(gpos_prog(vec![feat("dist", &[0])], vec![pos_single(0, &[G_F], 4, val(0, 0, 12, 0))]));
        f.kern = Some(kern);
        out.push(f);
        let mut f = base("edge-plain".into(), "edge", A_EDGE, C_EDGE);
        f.gdef = None;
        out.push(f);
    }
    // LangSys that lists a feature index beyond the FeatureList (GSUB), required feature index
    {
        let mut f = base("edge-badlangsys".into(), "edge", A_EDGE, C_CUSTOM);
        f.wf = false;
        let mut p = gsub_prog(vec![feat("liga", &[0])], vec![liga_f(0)]);
        p["extra_feature_indices"] = json!([7]);
        f.gsub = Some(p);
        f.gpos = Some(gpos_prog(vec![feat("kern", &[0])], vec![pos_single(0, &[G_F], 4, val(0, 0, 12, 0))]));
        out.push(f);
        let mut f = base("edge-required".into(), "edge", A_EDGE, C_CUSTOM);
        let mut p = gsub_prog(vec![feat("ccmp", &[1]), feat("liga", &[0])], vec![liga_f(0), single(0, &[G_X], &[G_XALT])]);
        p["required"] = json!(0);
        f.gsub = Some(p);
        out.push(f);
        let mut f = base("edge-required-bad".into(), "edge", A_EDGE, C_CUSTOM);
        f.wf = false;
        let mut p = gsub_prog(vec![feat("ccmp", &[1]), feat("liga", &[0])], vec![liga_f(0), single(0, &[G_X], &[G_XALT])]);
        p["required"] = json!(5);
        f.gsub = Some(p);
        out.push(f);
    }
    // extension lookups around a ligature and a MarkLig table, reverse chaining at both ends of the run
    {
        let mut f = base("edge-ext-reverse".into(), "edge", A_EDGE, C_EDGE);
        let mut lig = liga_f(8);
        lig["type"] = json!(7);
        lig["etype"] = json!(4);
        f.gsub = Some(gsub_prog(
            vec![feat("calt", &[1, 2]), feat("liga", &[0])],
            vec![
                lig,
                sl(8, 0, vec![json!({"fmt": 1, "cov": cov(&[G_X]), "back": [cov(&[G_F, G_LIG2])], "look": [], "subst": [G_XALT]})]),
                sl(8, 0, vec![json!({"fmt": 1, "cov": cov(&[G_ONE, G_TWO]), "back": [], "look": [cov(&[G_ONE, G_TWO, G_NUMR]), cov(&[G_X, G_XALT])], "subst": [G_NUMR, G_DNOM]})]),
            ],
        ));
        let mut ml = pl(5, 0, vec![json!({"mcov": pcov(&[G_ACUTE]), "lcov": pcov(&[G_LIG2, G_LIG3, G_LIG4]), "nc": 1, "marks": [{"c": 0, "a": anc(10, 600)}],
                                         "ligs": [[[anc(100, 700)], [anc(300, 700)]], [[anc(100, 700)], [anc(300, 700)], [anc(500, 700)]], [[anc(100, 700)]]]})]);
        ml["ext"] = json!(true);
        f.gpos = Some(gpos_prog(vec![feat("mark", &[0])], vec![ml]));
        f.marklig = Some([2, 3, 1]);
        out.push(f);
    }
    // alternates: aalt / salt with 0..2 alternates per glyph
    {
        let mut f = base("edge-alternates".into(), "edge", A_EDGE, C_ALT);
        f.gsub = Some(gsub_prog(
            vec![feat("aalt", &[0]), feat("salt", &[1])],
            vec![alternate(&[G_F, G_X, G_ONE], &[&[G_I], &[G_XALT, G_XVERT], &[G_TWO]]), alternate(&[G_X], &[&[G_XVERT]])],
        ));
        out.push(f);
    }
}

/// Adjustment values and anchors at the limits of their 16-bit types, one interaction per font.
fn extreme_fonts(out: &mut Vec<SynthFont>) {
    const A_EXT: &[&str] = &["Lf", "Lx", "Mk"];
    let big_kern = json!([{"f": 0, "cov": 1, "pairs": [[G_F, G_F, 32767], [G_X, G_X, -32768]]}, {"f": 0, "cov": 1, "pairs": [[G_F, G_F, 32767], [G_X, G_X, -32768]]}]);
    let one_kern = json!([{"f": 0, "cov": 1, "pairs": [[G_F, G_F, 32767], [G_X, G_X, -32768]]}]);
    let mut push = |name: &str, gpos: Option<Value>, kern: Option<Value>| {
        let mut f = base(format!("extreme-{}", name), "extreme", A_EXT, C_GPOS);
        f.gpos = gpos;
        f.kern = kern;
        out.push(f);
    };
    // every extreme value applied once: placements, advances, pair adjustments, anchors
    push("once", Some(gpos_prog(
        vec![feat("kern", &[0, 1]), feat("mark", &[2]), feat("mkmk", &[3])],
        vec![
            pos_single(0, &[G_F, G_ACUTE], 15, val(32767, -32768, 32767, 0)),
            pl(2, 0, vec![json!({"f": 1, "cov": pcov(&[G_X]), "vf1": 5, "vf2": 5, "sets": [[{"g2": G_X, "v1": val(-32768, 0, -32768, 0), "v2": val(32767, 0, 0, 0)}]]})]),
            pl(4, 0, vec![json!({"mcov": pcov(&[G_ACUTE]), "bcov": pcov(&[G_F, G_X]), "nc": 1, "marks": [{"c": 0, "a": anc(-32768, 32767)}], "bases": [[anc(32767, -32768)], [anc(32767, 32767)]]})]),
            pl(6, 0, vec![json!({"mcov": pcov(&[G_ACUTE]), "bcov": pcov(&[G_ACUTE]), "nc": 1, "marks": [{"c": 0, "a": anc(32767, 32767)}], "bases": [[anc(-32768, -32768)]]})]),
        ],
    )), Some(one_kern.clone()));
    // two features advance the same glyph by the maximum
    push("advance-twice", Some(gpos_prog(
        vec![feat("dist", &[0]), feat("kern", &[1])],
        vec![pos_single(0, &[G_F], 4, val(0, 0, 32767, 0)), pos_single(0, &[G_F, G_X], 4, val(0, 0, 32767, 0))],
    )), None);
    // a placement adjustment on a mark that is already attached to an anchor at the limit
    push("shift-attached-mark", Some(gpos_prog(
        vec![feat("mark", &[0]), feat("mkmk", &[1])],
        vec![
            pl(4, 0, vec![json!({"mcov": pcov(&[G_ACUTE]), "bcov": pcov(&[G_F, G_X]), "nc": 1, "marks": [{"c": 0, "a": anc(0, 0)}], "bases": [[anc(32767, 32767)], [anc(-32768, -32768)]]})]),
            pos_single(0, &[G_ACUTE], 3, val(1, 1, 0, 0)),
        ],
    )), None);
    // kern table: two sub-tables add up; with and without GPOS
    push("kern-subtables", None, Some(big_kern.clone()));
    push("kern-after-gpos", Some(gpos_prog(vec![feat("dist", &[0])], vec![pos_single(0, &[G_F, G_X], 4, val(0, 0, 32767, 0))])), Some(one_kern));
}

fn vert_fonts(out: &mut Vec<SynthFont>) {
    for (name, feats, vmetrics) in [
        ("vert", vec![feat("vert", &[0])], false),
        ("vrt2+vert", vec![feat("vert", &[0]), feat("vrt2", &[1])], true),
        ("vert-multi", vec![feat("vert", &[2, 0])], true),
    ] {
        let mut f = base(format!("vert-{}", name), "vert", A_VERT, C_VERT);
        f.vmetrics = vmetrics;
        f.gsub = Some(gsub_prog(
            feats,
            vec![
                single(0, &[G_X, G_ONE], &[G_XVERT, G_NUMR]),
                single(0, &[G_X, G_F], &[G_XALT, G_I]),
                multiple(0, &[G_F], &[&[G_F, G_XVERT]]),
            ],
        ));
        f.gpos = Some(gpos_prog(
            vec![feat("mark", &[0]), feat("vkrn", &[1])],
            vec![
                pl(4, 0, vec![json!({"mcov": pcov(&[G_ACUTE]), "bcov": pcov(&[G_F, G_X, G_XVERT]), "nc": 1, "marks": [{"c": 0, "a": anc(10, 600)}],
                                    "bases": [[anc(250, 700)], [anc(260, 700)], [anc(270, 700)]]})]),
                pos_single(0, &[G_XVERT], 10, val(0, 30, 0, -20)),
            ],
        ));
        out.push(f);
    }
}

fn tuple_fonts(out: &mut Vec<SynthFont>) {
    // liga is f f -> lig2 by default and f f -> lig3 when the axis is in [0.5, 1]; rvrn swaps x
    for (name, null_cond) in [("fv", false), ("fv-nullcond", true)] {
        let mut f = base(format!("tuple-{}", name), "tuple", A_VERT, C_DEFAULT);
        f.fvar = true;
        let mut p = gsub_prog(
            vec![feat("liga", &[0]), feat("rvrn", &[2])],
            vec![ligature(0, G_F, &[(G_LIG2, &[G_F])]), ligature(0, G_F, &[(G_LIG3, &[G_F])]), single(0, &[G_X], &[G_X]), single(0, &[G_X], &[G_XALT])],
        );
        let conds = if null_cond { json!([]) } else { json!([[0, 0x2000, 0x4000]]) };
        p["vars"] = json!([{"conds": conds, "subst": [{"fi": 0, "lookups": [1]}, {"fi": 1, "lookups": [3]}]}, {"conds": [[0, -0x4000, -0x2000]], "subst": []}]);
        f.gsub = Some(p);
        f.fv_marker = Some(G_LIG3);
        out.push(f);
    }
}

pub fn catalog() -> Vec<SynthFont> {
    let mut out = Vec::new();
    frac_fonts(&mut out);
    marklig_fonts(&mut out);
    marklig_short_array(&mut out);
    mark_fonts(&mut out);
    curs_fonts(&mut out);
    ctx_fonts(&mut out);
    edge_fonts(&mut out);
    extreme_fonts(&mut out);
    vert_fonts(&mut out);
    tuple_fonts(&mut out);
    out
}

// ---- bytes ------------------------------------------------------------------------------------
fn fvar_one_axis() -> Vec<u8> {
    let mut w = W::new();
    w.u16(1).u16(0).u16(16).u16(2).u16(1).u16(20).u16(0).u16(8);
    w.tag("wght").i32(100 << 16).i32(100 << 16).i32(900 << 16).u16(0).u16(256);
    w.done()
}

fn vhea(num_long: u16) -> Vec<u8> {
    let mut w = W::new();
    w.u32(0x0001_0000).i16(500).i16(-500).i16(0).u16(1200).i16(0).i16(0).i16(1000).i16(0).i16(1).i16(0);
    w.i16(0).i16(0).i16(0).i16(0).i16(0).u16(num_long);
    w.done()
}

fn vmtx(num_long: u16, n: u16) -> Vec<u8> {
    let mut w = W::new();
    for i in 0..num_long {
        w.u16(1000 + 10 * i).i16(i as i16);
    }
    for i in num_long..n {
        w.i16(i as i16);
    }
    w.done()
}

pub fn build(f: &SynthFont) -> Vec<u8> {
    let glyphs: Vec<GlyphSpec> = (0..NUM_GLYPHS).map(|g| if g == 0 || g == G_SPACE { GlyphSpec::Empty } else { triangle(g as i16) }).collect();
    let mut t = TtFont::new(glyphs);
    t.cmap = CMAP.to_vec();
    if let Some(g) = &f.gdef {
        if let Some(bytes) = ep::gdef(g) {
            t.extra_tables.push(("GDEF".into(), bytes));
        }
    }
    if let Some(p) = &f.gsub {
        t.extra_tables.push(("GSUB".into(), es::gsub(p, &["DFLT", "latn"])));
    }
    if let Some(p) = &f.gpos {
        t.extra_tables.push(("GPOS".into(), ep::gpos(p, &["DFLT", "latn"])));
    }
    if let Some(k) = &f.kern {
        t.extra_tables.push(("kern".into(), ep::kern(k)));
    }
    if let Some(m) = &f.morx {
        t.extra_tables.push(("morx".into(), super::enc_morx::morx(m)));
    }
    if f.vmetrics {
        t.extra_tables.push(("vhea".into(), vhea(5)));
        t.extra_tables.push(("vmtx".into(), vmtx(5, NUM_GLYPHS)));
    }
    if f.fvar {
        t.extra_tables.push(("fvar".into(), fvar_one_axis()));
    }
    t.build()
}
