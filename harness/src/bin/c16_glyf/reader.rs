//! Independent reader for TrueType fonts (shared by the C16 and C07 binaries through #[path]).
//! Nothing here uses allsorts: sfnt directory via vh::fontgen, then head / maxp / hhea / hmtx /
//! loca / glyf by hand. It only slices: the glyph records are handed to the TLA+ judge as bytes,
//! the one thing parsed here is the list of component glyph ids (to collect what a glyph reaches).
#![allow(dead_code)]
use vh::fontgen::{be16, be32, read_sfnt_dir, table_bytes, SfntDir};

/// Offsets of the sfnt directories in a file: one for a plain font, several for a TTC.
/// None for containers this reader does not open (WOFF, WOFF2).
pub fn font_offsets(d: &[u8]) -> Option<Vec<usize>> {
    let magic = d.get(0..4)?;
    if magic == b"ttcf" {
        let n = be32(d, 8)? as usize;
        let mut v = Vec::new();
        for i in 0..n {
            v.push(be32(d, 12 + 4 * i)? as usize);
        }
        Some(v)
    } else if magic == b"wOFF" || magic == b"wOF2" {
        None
    } else {
        Some(vec![0])
    }
}

pub struct RawFont<'a> {
    pub data: &'a [u8],
    pub dir: SfntDir,
}

impl<'a> RawFont<'a> {
    pub fn open(data: &'a [u8], at: usize) -> Option<RawFont<'a>> {
        let dir = read_sfnt_dir(data, at)?;
        Some(RawFont { data, dir })
    }
    pub fn table(&self, tag: &str) -> Option<&'a [u8]> {
        table_bytes(self.data, &self.dir, tag)
    }
    pub fn has(&self, tag: &str) -> bool {
        self.table(tag).is_some()
    }
    pub fn num_glyphs(&self) -> Option<u16> {
        be16(self.table("maxp")?, 4)
    }
    pub fn num_h_metrics(&self) -> Option<u16> {
        be16(self.table("hhea")?, 34)
    }
    pub fn loca_long(&self) -> Option<bool> {
        Some(be16(self.table("head")?, 50)? != 0)
    }
    /// (advance width, left side bearing) of glyph g as the hmtx rules say: glyphs past
    /// numberOfHMetrics take the last advance and their lsb from the trailing array.
    pub fn h_metric(&self, g: u16) -> Option<(u16, i16)> {
        let hmtx = self.table("hmtx")?;
        let nh = self.num_h_metrics()? as usize;
        let g = g as usize;
        if nh == 0 {
            return None;
        }
        if g < nh {
            Some((be16(hmtx, 4 * g)?, be16(hmtx, 4 * g + 2)? as i16))
        } else {
            let adv = be16(hmtx, 4 * (nh - 1))?;
            let lsb = be16(hmtx, 4 * nh + 2 * (g - nh))? as i16;
            Some((adv, lsb))
        }
    }
}

pub struct GlyfReader<'a> {
    pub glyf: &'a [u8],
    pub offsets: Vec<u32>,
}

impl<'a> GlyfReader<'a> {
    pub fn open(f: &RawFont<'a>) -> Option<GlyfReader<'a>> {
        let glyf = f.table("glyf")?;
        let loca = f.table("loca")?;
        let n = f.num_glyphs()? as usize;
        let long = f.loca_long()?;
        let mut offsets = Vec::with_capacity(n + 1);
        for i in 0..=n {
            offsets.push(if long { be32(loca, 4 * i)? } else { 2 * be16(loca, 2 * i)? as u32 });
        }
        Some(GlyfReader { glyf, offsets })
    }
    pub fn from_parts(glyf: &'a [u8], loca: &[u8], n: usize, long: bool) -> Option<GlyfReader<'a>> {
        let mut offsets = Vec::with_capacity(n + 1);
        for i in 0..=n {
            offsets.push(if long { be32(loca, 4 * i)? } else { 2 * be16(loca, 2 * i)? as u32 });
        }
        Some(GlyfReader { glyf, offsets })
    }
    pub fn num_glyphs(&self) -> usize {
        self.offsets.len() - 1
    }
    /// The record of glyph g: empty slice for an empty glyph, None if loca points outside glyf.
    pub fn record(&self, g: u16) -> Option<&'a [u8]> {
        let g = g as usize;
        let a = *self.offsets.get(g)? as usize;
        let b = *self.offsets.get(g + 1)? as usize;
        if b < a {
            return None;
        }
        self.glyf.get(a..b)
    }
    /// Glyph ids of the components of a composite record (empty for anything else / truncated).
    pub fn component_gids(rec: &[u8]) -> Vec<u16> {
        let mut out = Vec::new();
        if rec.len() < 10 || (be16(rec, 0).unwrap() as i16) >= 0 {
            return out;
        }
        let mut p = 10;
        loop {
            let (fl, gid) = match (be16(rec, p), be16(rec, p + 2)) {
                (Some(f), Some(g)) => (f, g),
                _ => return out,
            };
            out.push(gid);
            p += 4 + if fl & 1 != 0 { 4 } else { 2 };
            p += if fl & 0x08 != 0 {
                2
            } else if fl & 0x40 != 0 {
                4
            } else if fl & 0x80 != 0 {
                8
            } else {
                0
            };
            if fl & 0x20 == 0 {
                return out;
            }
        }
    }
    /// Everything glyph g reaches through components (g first), at most `limit` glyphs.
    pub fn closure(&self, g: u16, limit: usize) -> Vec<u16> {
        let mut seen = vec![g];
        let mut i = 0;
        while i < seen.len() && seen.len() < limit {
            if let Some(rec) = self.record(seen[i]) {
                for c in Self::component_gids(rec) {
                    if !seen.contains(&c) && seen.len() < limit {
                        seen.push(c);
                    }
                }
            }
            i += 1;
        }
        seen
    }
    /// Nesting depth below g (0 for a simple glyph), cut at 10.
    pub fn depth(&self, g: u16, guard: usize) -> usize {
        if guard > 10 {
            return guard;
        }
        match self.record(g) {
            Some(rec) => Self::component_gids(rec).iter().map(|&c| 1 + self.depth(c, guard + 1)).max().unwrap_or(0),
            None => 0,
        }
    }
}
