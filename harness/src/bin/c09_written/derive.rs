//! Derived-maximum fields of hhea / vhea / head / maxp and what they are derived from, measured by
//! independent readers (nothing here calls allsorts).  One record per field:
//!   name      "hhea.advanceWidthMax", "head.xMin", "maxp.maxPoints", ...
//!   rel       "max" | "min"   (the OpenType definition of the field: a maximum or a minimum)
//!   field     the value stored in the table
//!   measured  the value the definition gives on the OTHER tables of the same table set
//!   has       both could be read and the definition has something to range over
//! SfntWrite!DerivedOK decides which relation is demanded for which operation (equality where the
//! writer recomputes the field, the bound where it copies the field from a source that kept it).

use super::glyphs::{self, Layout};
use serde_json::{json, Value};
use vh::fontgen::be16;

#[derive(Clone, Debug)]
pub struct Measured {
    pub name: &'static str,
    pub rel: &'static str,
    pub field: i64,
    pub measured: i64,
    pub has: bool,
}

fn i16at(d: &[u8], at: usize) -> Option<i64> {
    be16(d, at).map(|v| v as i16 as i64)
}
fn u16at(d: &[u8], at: usize) -> Option<i64> {
    be16(d, at).map(|v| v as i64)
}

fn outlined(l: &Layout) -> bool {
    l.ok && l.kind != "empty" && l.len >= 10 && !(l.kind == "simple" && l.n_points == 0)
}

/// (points, contours, depth) of a glyph with its components flattened; None on a cycle / bad id.
fn flat(layouts: &[Layout], g: usize, memo: &mut Vec<Option<Option<(i64, i64, i64)>>>, stack: &mut Vec<usize>) -> Option<(i64, i64, i64)> {
    if let Some(m) = memo.get(g)? {
        return *m;
    }
    if stack.contains(&g) || stack.len() > 64 {
        return None;
    }
    let l = &layouts[g];
    let r = if l.kind == "composite" && l.ok {
        stack.push(g);
        let mut acc = Some((0i64, 0i64, 0i64));
        for c in &l.comps {
            match (acc, flat(layouts, c.1 as usize, memo, stack)) {
                (Some(a), Some(x)) => acc = Some((a.0 + x.0, a.1 + x.1, a.2.max(x.2 + 1))),
                _ => acc = None,
            }
        }
        stack.pop();
        acc
    } else if l.kind == "simple" && l.ok {
        Some((l.n_points as i64, l.n_contours as i64, 0))
    } else if l.kind == "empty" {
        Some((0, 0, 0))
    } else {
        None
    };
    memo[g] = Some(r);
    r
}

/// `layouts`: the glyph records of the table set walked by glyphs.rs (None for CFF fonts).
pub fn measure(get: &dyn Fn(&str) -> Option<Vec<u8>>, layouts: Option<&[Layout]>) -> Vec<Measured> {
    let mut out = Vec::new();
    let mut push = |name: &'static str, rel: &'static str, field: Option<i64>, measured: Option<i64>| {
        out.push(Measured { name, rel, field: field.unwrap_or(0), measured: measured.unwrap_or(0), has: field.is_some() && measured.is_some() });
    };
    let n = get("maxp").and_then(|m| be16(&m, 4)).map(|v| v as usize);
    // ---- horizontal and vertical metrics
    for (hea, mtx, pre) in [("hhea", "hmtx", "h"), ("vhea", "vmtx", "v")] {
        let (Some(h), Some(m), Some(n)) = (get(hea), get(mtx), n) else { continue };
        let nlong = be16(&h, 34).unwrap_or(0) as usize;
        let metrics = glyphs::read_hmtx(&m, n, nlong);
        let adv_max = metrics.as_ref().and_then(|ms| ms.iter().map(|x| x.0 as i64).max());
        if pre == "h" {
            push("hhea.advanceWidthMax", "max", u16at(&h, 10), adv_max);
            if let (Some(ms), Some(ls)) = (&metrics, layouts) {
                let rows: Vec<(i64, i64, i64)> = ls
                    .iter()
                    .zip(ms.iter())
                    .filter(|(l, _)| outlined(l))
                    .map(|(l, m)| (m.0 as i64, m.1 as i64, l.bbox[2] as i64 - l.bbox[0] as i64))
                    .collect();
                push("hhea.minLeftSideBearing", "min", i16at(&h, 12), rows.iter().map(|r| r.1).min());
                push("hhea.minRightSideBearing", "min", i16at(&h, 14), rows.iter().map(|r| r.0 - r.1 - r.2).min());
                push("hhea.xMaxExtent", "max", i16at(&h, 16), rows.iter().map(|r| r.1 + r.2).max());
            }
        } else {
            push("vhea.advanceHeightMax", "max", u16at(&h, 10), adv_max);
        }
    }
    // ---- head bounding box against the glyph headers
    if let (Some(head), Some(ls)) = (get("head"), layouts) {
        let boxes: Vec<[i16; 4]> = ls.iter().filter(|l| outlined(l)).map(|l| l.bbox).collect();
        push("head.xMin", "min", i16at(&head, 36), boxes.iter().map(|b| b[0] as i64).min());
        push("head.yMin", "min", i16at(&head, 38), boxes.iter().map(|b| b[1] as i64).min());
        push("head.xMax", "max", i16at(&head, 40), boxes.iter().map(|b| b[2] as i64).max());
        push("head.yMax", "max", i16at(&head, 42), boxes.iter().map(|b| b[3] as i64).max());
    }
    // ---- maxp 1.0 against the glyph records
    if let (Some(maxp), Some(ls)) = (get("maxp"), layouts) {
        if maxp.len() >= 32 && be16(&maxp, 0) == Some(1) {
            let simple: Vec<&Layout> = ls.iter().filter(|l| l.ok && l.kind == "simple").collect();
            push("maxp.maxPoints", "max", u16at(&maxp, 6), simple.iter().map(|l| l.n_points as i64).max());
            push("maxp.maxContours", "max", u16at(&maxp, 8), simple.iter().map(|l| l.n_contours as i64).max());
            let mut memo = vec![None; ls.len()];
            let mut flats = Vec::new();
            let mut all = true;
            for (g, l) in ls.iter().enumerate() {
                if l.kind == "composite" && l.ok {
                    match flat(ls, g, &mut memo, &mut Vec::new()) {
                        Some(f) => flats.push((f, l.comps.len() as i64)),
                        None => all = false,
                    }
                }
            }
            let some = |v: Option<i64>| if all { v } else { None };
            push("maxp.maxCompositePoints", "max", u16at(&maxp, 10), some(flats.iter().map(|f| f.0 .0).max()));
            push("maxp.maxCompositeContours", "max", u16at(&maxp, 12), some(flats.iter().map(|f| f.0 .1).max()));
            push("maxp.maxComponentElements", "max", u16at(&maxp, 28), some(flats.iter().map(|f| f.1).max()));
            push("maxp.maxComponentDepth", "max", u16at(&maxp, 30), some(flats.iter().map(|f| f.0 .2).max()));
        }
    }
    out
}

/// The list SfntWrite!DerivedOK reads: output facts paired with the same facts of the source.
pub fn to_json(out: &[Measured], src: Option<&[Measured]>) -> Value {
    Value::Array(
        out.iter()
            .map(|d| {
                let s = src.and_then(|s| s.iter().find(|x| x.name == d.name && x.has));
                json!({"name": d.name, "rel": d.rel, "field": d.field, "measured": d.measured, "has": d.has,
                       "srcHas": s.is_some(), "srcField": s.map(|s| s.field).unwrap_or(0), "srcMeasured": s.map(|s| s.measured).unwrap_or(0)})
            })
            .collect(),
    )
}

/// vmtx length facts (the vertical twin of HmtxOK) and the glyph count of a version 2.0 post table.
pub fn counts(get: &dyn Fn(&str) -> Option<Vec<u8>>) -> Value {
    let vhea = get("vhea");
    let vmtx = get("vmtx");
    let post = get("post");
    let post_n = post.as_ref().and_then(|p| if p.len() >= 34 && be16(p, 0) == Some(2) && be16(p, 2) == Some(0) { be16(p, 32).map(|v| v as i64) } else { None });
    json!({"hasVhea": vhea.is_some(), "hasVmtx": vmtx.is_some(),
           "nVM": vhea.as_ref().and_then(|v| be16(v, 34)).map(|v| v as i64).unwrap_or(-1),
           "vmtxLen": vmtx.as_ref().map(|v| v.len() as i64).unwrap_or(-1),
           "postNumGlyphs": post_n.unwrap_or(-1)})
}
