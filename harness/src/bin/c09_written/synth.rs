//! Fonts synthesized for C09 so that the size- and shape-dependent paths of every writer are
//! reached in every run (nothing here calls allsorts):
//!   * `shapes_font`   TrueType font whose composites use every argument width (byte/word, xy /
//!                     point matching), every transform kind, instructions and nesting; fewer long
//!                     metrics than glyphs; short or long loca; lsb = xMin (head.flags bit 1 set)
//!   * `var_font`      variable TrueType font (fvar + gvar written here) whose composite component
//!                     offsets vary: byte sized offsets leave the byte range in x only, y only, both,
//!                     word sized offsets come back into it, untouched and point-matching components
//!   * `big_font`      many-point simple glyphs, short loca, sized so that the glyf table allsorts
//!                     rebuilds from a WOFF2 transform lands below / exactly at / above 131070 bytes

use super::glyph::{write_glyph, Comp, GlyphRec, Kind};
use vh::fontgen::{self, W};

pub type Tables = Vec<(String, Vec<u8>)>;

pub fn simple(contours: &[Vec<(i16, i16, bool)>], instr: &[u8]) -> GlyphRec {
    let mut ends = Vec::new();
    let mut pts = Vec::new();
    for c in contours {
        pts.extend(c.iter().cloned());
        ends.push(pts.len() as u16 - 1);
    }
    let mut g = GlyphRec { kind: Kind::Simple, ends, pts, instr: instr.to_vec(), bbox: [0; 4], comps: vec![] };
    g.bbox = g.computed_bbox();
    g
}

/// flags: argument/transform/instruction bits as given; MORE_COMPONENTS is filled in here, and
/// WE_HAVE_INSTRUCTIONS on the last component when there are instructions and no component has it.
pub fn composite(comps: &[(u16, u16, i32, i32, &[i16])], instr: &[u8], glyphs: &[GlyphRec]) -> GlyphRec {
    let n = comps.len();
    let flagged = comps.iter().any(|c| c.0 & 0x0100 != 0);
    let cs: Vec<Comp> = comps
        .iter()
        .enumerate()
        .map(|(k, c)| Comp {
            flags: (c.0 & !0x0020) | if k + 1 < n { 0x0020 } else { 0 } | if !instr.is_empty() && !flagged && k + 1 == n { 0x0100 } else { 0 },
            gid: c.1,
            a1: c.2,
            a2: c.3,
            tr: c.4.to_vec(),
        })
        .collect();
    // bounding box: union of the children's boxes, transformed and moved (point matching: not moved)
    let mut bb: Option<[f32; 4]> = None;
    for c in &cs {
        let child = glyphs[c.gid as usize].bbox;
        let m: [f32; 4] = match c.tr.len() {
            1 => [c.tr[0] as f32 / 16384.0, 0.0, 0.0, c.tr[0] as f32 / 16384.0],
            2 => [c.tr[0] as f32 / 16384.0, 0.0, 0.0, c.tr[1] as f32 / 16384.0],
            4 => [c.tr[0] as f32 / 16384.0, c.tr[1] as f32 / 16384.0, c.tr[2] as f32 / 16384.0, c.tr[3] as f32 / 16384.0],
            _ => [1.0, 0.0, 0.0, 1.0],
        };
        let (ox, oy) = if c.flags & 2 != 0 { (c.a1 as f32, c.a2 as f32) } else { (0.0, 0.0) };
        for (x, y) in [(child[0], child[1]), (child[0], child[3]), (child[2], child[1]), (child[2], child[3])] {
            let px = m[0] * x as f32 + m[2] * y as f32 + ox;
            let py = m[1] * x as f32 + m[3] * y as f32 + oy;
            bb = Some(match bb {
                None => [px, py, px, py],
                Some(b) => [b[0].min(px), b[1].min(py), b[2].max(px), b[3].max(py)],
            });
        }
    }
    let b = bb.unwrap_or([0.0; 4]);
    GlyphRec {
        kind: Kind::Composite,
        ends: vec![],
        pts: vec![],
        instr: instr.to_vec(),
        bbox: [b[0].floor() as i16, b[1].floor() as i16, b[2].ceil() as i16, b[3].ceil() as i16],
        comps: cs,
    }
}

/// (points, contours, depth) of a glyph with its components flattened.
fn flat(glyphs: &[GlyphRec], g: usize) -> (u16, u16, u16) {
    let r = &glyphs[g];
    match r.kind {
        Kind::Composite => {
            let mut acc = (0u16, 0u16, 0u16);
            for c in &r.comps {
                let x = flat(glyphs, c.gid as usize);
                acc = (acc.0 + x.0, acc.1 + x.1, acc.2.max(x.2 + 1));
            }
            acc
        }
        Kind::Simple => (r.pts.len() as u16, r.ends.len() as u16, 0),
        _ => (0, 0, 0),
    }
}

/// A complete TrueType font from glyph records. lsb = xMin of the header for every glyph, advance
/// 500 + 7 * gid for the long metrics. head (bounding box), hhea (advanceWidthMax, min side bearings,
/// xMaxExtent) and maxp (maxima) are CONSISTENT with the glyphs and metrics: the derived fields of the
/// source hold, so what a writer copies or recomputes can be judged against the new tables.
pub fn build_tt(glyphs: &[GlyphRec], long: bool, nhm: usize, style: u8, extra: &[(&str, Vec<u8>)]) -> Tables {
    let n = glyphs.len();
    let recs: Vec<Vec<u8>> = glyphs.iter().map(|g| write_glyph(g, style)).collect();
    let (glyf, loca) = fontgen::glyf_loca(&recs, long);
    let nhm = nhm.clamp(1, n);
    let longm: Vec<(u16, i16)> = (0..nhm).map(|g| (500 + 7 * g as u16, glyphs[g].x_min())).collect();
    let lsbs: Vec<i16> = (nhm..n).map(|g| glyphs[g].x_min()).collect();
    let cmap: Vec<(u32, u16)> = (1..n.min(90)).map(|g| (0x20 + g as u32, g as u16)).collect();
    // derived fields
    let adv = |g: usize| longm[g.min(nhm - 1)].0 as i32;
    let outl: Vec<usize> = (0..n).filter(|g| glyphs[*g].kind != Kind::Empty && !(glyphs[*g].kind == Kind::Simple && glyphs[*g].pts.is_empty())).collect();
    let bb = |k: usize, f: fn(i16, i16) -> i16| outl.iter().map(|g| glyphs[*g].bbox[k]).reduce(f).unwrap_or(0);
    let bbox = (bb(0, i16::min), bb(1, i16::min), bb(2, i16::max), bb(3, i16::max));
    let min_lsb = outl.iter().map(|g| glyphs[*g].bbox[0] as i32).min().unwrap_or(0);
    let min_rsb = outl.iter().map(|g| adv(*g) - glyphs[*g].bbox[2] as i32).min().unwrap_or(0);
    let x_ext = outl.iter().map(|g| glyphs[*g].bbox[2] as i32).max().unwrap_or(0);
    let mut hhea = W::new();
    hhea.u16(1).u16(0).i16(800).i16(-200).i16(0).u16(longm.iter().map(|m| m.0).max().unwrap_or(0));
    hhea.i16(min_lsb as i16).i16(min_rsb as i16).i16(x_ext as i16);
    hhea.i16(1).i16(0).i16(0).i16(0).i16(0).i16(0).i16(0).i16(0).u16(nhm as u16);
    let simple = |f: fn(&GlyphRec) -> usize| glyphs.iter().filter(|g| g.kind == Kind::Simple).map(f).max().unwrap_or(0) as u16;
    let comp: Vec<(u16, u16, u16, u16)> = (0..n)
        .filter(|g| glyphs[*g].kind == Kind::Composite)
        .map(|g| {
            let f = flat(glyphs, g);
            (f.0, f.1, glyphs[g].comps.len() as u16, f.2)
        })
        .collect();
    let mut maxp = W::new();
    maxp.u32(0x00010000).u16(n as u16);
    maxp.u16(simple(|g| g.pts.len())).u16(simple(|g| g.ends.len()));
    maxp.u16(comp.iter().map(|c| c.0).max().unwrap_or(0)).u16(comp.iter().map(|c| c.1).max().unwrap_or(0));
    for v in [1u16, 0, 0, 0, 0, 0] {
        maxp.u16(v);
    }
    maxp.u16(glyphs.iter().map(|g| g.instr.len()).max().unwrap_or(0) as u16);
    maxp.u16(comp.iter().map(|c| c.2).max().unwrap_or(0)).u16(comp.iter().map(|c| c.3).max().unwrap_or(0));
    let mut t: Tables = vec![
        ("head".into(), fontgen::head(1000, long, bbox)),
        ("hhea".into(), hhea.done()),
        ("maxp".into(), maxp.done()),
        ("OS/2".into(), fontgen::os2_v4(0x20, 0x7E)),
        ("hmtx".into(), fontgen::hmtx(&longm, &lsbs)),
        ("cmap".into(), fontgen::cmap_format12(&cmap)),
        ("loca".into(), loca),
        ("glyf".into(), glyf),
        ("name".into(), fontgen::name(&[(1, "VerifC09"), (2, "Regular"), (4, "VerifC09 Regular"), (6, "VerifC09-Regular")])),
        ("post".into(), fontgen::post_v3()),
    ];
    for (tag, data) in extra {
        t.retain(|x| x.0 != *tag);
        t.push((tag.to_string(), data.clone()));
    }
    t
}

fn base_glyphs() -> Vec<GlyphRec> {
    vec![
        simple(&[vec![(50, 0, true), (450, 0, true), (450, 700, true), (50, 700, true)]], &[]),
        simple(&[vec![(10, 20, true), (300, 40, true), (150, 400, true)]], &[0xB0, 0x01]),
        simple(&[vec![(-20, -30, true), (200, -30, false), (260, 300, true), (40, 350, false)], vec![(60, 60, true), (100, 60, true), (80, 120, true)]], &[]),
    ]
}

const XY: u16 = 0x0002;
const WORDS: u16 = 0x0001;
const SCALE: u16 = 0x0008;
const XYSCALE: u16 = 0x0040;
const TWOBYTWO: u16 = 0x0080;
const ROUND: u16 = 0x0004;
const USE_MY_METRICS: u16 = 0x0200;
const OVERLAP: u16 = 0x0400;
const SCALED_OFFSET: u16 = 0x0800;
const UNSCALED_OFFSET: u16 = 0x1000;
const INSTR: u16 = 0x0100;

/// Every argument width x transform kind, instructions, nesting, flags that must be carried over.
pub fn shapes_font(long: bool, style: u8) -> Tables {
    build_tt(&shapes_glyphs(), long, 9, style, &[])
}

/// The glyph records of `shapes_font`. A composite only refers to earlier glyphs, so every prefix of at least three
/// glyphs is a closed glyph set (the members of the synthesized collections are such prefixes).
pub fn shapes_glyphs() -> Vec<GlyphRec> {
    let mut g = base_glyphs();
    let add = |g: &mut Vec<GlyphRec>, comps: &[(u16, u16, i32, i32, &[i16])], instr: &[u8]| {
        let c = composite(comps, instr, g);
        g.push(c);
    };
    add(&mut g, &[(XY, 1, 100, -100, &[])], &[]); // 3 byte xy
    add(&mut g, &[(XY | WORDS, 1, 300, -200, &[])], &[]); // 4 word xy
    add(&mut g, &[(0, 1, 1, 2, &[])], &[]); // 5 byte point matching
    add(&mut g, &[(XY, 1, 0, 0, &[]), (WORDS, 2, 2, 1, &[])], &[]); // 6 word point matching (parent point 2, child point 1)
    add(&mut g, &[(XY | SCALE, 1, 10, 20, &[8192])], &[]); // 7 scale
    add(&mut g, &[(XY | XYSCALE | ROUND, 2, -128, 127, &[8192, 12288])], &[]); // 8 x/y scale, extreme byte offsets
    add(&mut g, &[(XY | WORDS | TWOBYTWO, 2, -129, 128, &[11585, 11585, -11585, 11585])], &[]); // 9 2x2, smallest word offsets
    add(&mut g, &[(XY | USE_MY_METRICS, 1, 5, 5, &[]), (XY | WORDS | SCALE | SCALED_OFFSET, 2, 400, 0, &[4096]), (XY | XYSCALE | UNSCALED_OFFSET | OVERLAP, 1, -5, 60, &[16384, -16384])], &[0x01, 0x02, 0x03]); // 10 three components + instructions
    add(&mut g, &[(XY, 3, 7, 7, &[]), (XY | WORDS, 10, -300, 300, &[])], &[]); // 11 nested composites
    add(&mut g, &[(XY | WORDS, 11, 32767, -32768, &[])], &[0xFF]); // 12 extreme word offsets, odd instruction length, depth 3
    g.push(GlyphRec::empty()); // 13 empty
    g.push(simple(&[vec![(0, 0, true), (1000, 0, true), (500, 1000, false)]], &[0x00])); // 14 odd-length simple
    add(&mut g, &[(XY, 14, 1, 1, &[])], &[]); // 15
    add(&mut g, &[(XY | INSTR, 1, 3, 3, &[])], &[]); // 16 WE_HAVE_INSTRUCTIONS with an empty instruction block
    add(&mut g, &[(XY | INSTR, 1, 3, 3, &[]), (XY, 2, 4, 4, &[])], &[0x42, 0x43]); // 17 the flag on a component that is not the last
    g
}

// ---- variable font --------------------------------------------------------------------------------

pub struct Tuple {
    /// F2Dot14 peak per axis
    pub peak: Vec<i16>,
    /// Some((start, end)): intermediate region
    pub inter: Option<(Vec<i16>, Vec<i16>)>,
    /// None: deltas for all points (incl. the four phantom points)
    pub points: Option<Vec<u16>>,
    pub dx: Vec<i16>,
    pub dy: Vec<i16>,
}

fn packed_points(p: &Option<Vec<u16>>) -> Vec<u8> {
    let Some(p) = p else { return vec![0] };
    let mut out = Vec::new();
    if p.len() < 128 {
        out.push(p.len() as u8);
    } else {
        out.push(0x80 | (p.len() >> 8) as u8);
        out.push((p.len() & 0xFF) as u8);
    }
    // one run per up to 128 points, words when a delta needs it
    let mut prev = 0u16;
    let mut k = 0;
    while k < p.len() {
        let run = &p[k..(k + 128).min(p.len())];
        let mut ds = Vec::new();
        let mut q = prev;
        for &v in run {
            ds.push(v - q);
            q = v;
        }
        let words = ds.iter().any(|&d| d > 255);
        out.push(if words { 0x80 } else { 0 } | (run.len() as u8 - 1));
        for d in ds {
            if words {
                out.extend(d.to_be_bytes());
            } else {
                out.push(d as u8);
            }
        }
        prev = q;
        k += run.len();
    }
    out
}

fn packed_deltas(d: &[i16]) -> Vec<u8> {
    let mut out = Vec::new();
    let class = |v: i16| if v == 0 { 0 } else if (-128..=127).contains(&v) { 1 } else { 2 };
    let mut k = 0;
    while k < d.len() {
        let c = class(d[k]);
        let mut run = 1;
        while k + run < d.len() && run < 64 && class(d[k + run]) == c {
            run += 1;
        }
        match c {
            0 => out.push(0x80 | (run as u8 - 1)),
            1 => {
                out.push(run as u8 - 1);
                for v in &d[k..k + run] {
                    out.push(*v as i8 as u8);
                }
            }
            _ => {
                out.push(0x40 | (run as u8 - 1));
                for v in &d[k..k + run] {
                    out.extend(v.to_be_bytes());
                }
            }
        }
        k += run;
    }
    out
}

pub fn gvar_bytes(naxes: usize, per_glyph: &[Vec<Tuple>], long_offsets: bool) -> Vec<u8> {
    let mut blobs: Vec<Vec<u8>> = Vec::new();
    for tuples in per_glyph {
        if tuples.is_empty() {
            blobs.push(vec![]);
            continue;
        }
        let mut headers = W::new();
        let mut ser = W::new();
        for t in tuples {
            let mut data = packed_points(&t.points);
            data.extend(packed_deltas(&t.dx));
            data.extend(packed_deltas(&t.dy));
            let mut ti: u16 = 0x8000 | 0x2000; // embedded peak, private point numbers
            if t.inter.is_some() {
                ti |= 0x4000;
            }
            headers.u16(data.len() as u16).u16(ti);
            for p in &t.peak {
                headers.i16(*p);
            }
            if let Some((s, e)) = &t.inter {
                for p in s {
                    headers.i16(*p);
                }
                for p in e {
                    headers.i16(*p);
                }
            }
            ser.bytes(&data);
        }
        let mut b = W::new();
        b.u16(tuples.len() as u16).u16(4 + headers.len() as u16);
        b.bytes(&headers.0).bytes(&ser.0);
        if b.len() % 2 == 1 {
            b.u8(0);
        }
        blobs.push(b.done());
    }
    let n = per_glyph.len();
    let offsets_len = (n + 1) * if long_offsets { 4 } else { 2 };
    let array_off = 20 + offsets_len;
    let mut w = W::new();
    w.u16(1).u16(0).u16(naxes as u16).u16(0).u32(array_off as u32).u16(n as u16);
    w.u16(long_offsets as u16).u32(array_off as u32);
    let mut o = 0usize;
    for b in &blobs {
        if long_offsets {
            w.u32(o as u32);
        } else {
            w.u16((o / 2) as u16);
        }
        o += b.len();
    }
    if long_offsets {
        w.u32(o as u32);
    } else {
        w.u16((o / 2) as u16);
    }
    for b in &blobs {
        w.bytes(b);
    }
    w.done()
}

/// Two axes AAAA, BBBB, each -1 .. 0 .. +1 in user units (so user = normalised coordinates).
pub fn fvar_bytes(naxes: usize) -> Vec<u8> {
    let mut w = W::new();
    w.u16(1).u16(0).u16(16).u16(2).u16(naxes as u16).u16(20).u16(0).u16(4 + 4 * naxes as u16);
    let tags = ["AAAA", "BBBB", "CCCC"];
    for i in 0..naxes {
        w.tag(tags[i]).i32(-65536).i32(0).i32(65536).u16(0).u16(256 + i as u16);
    }
    w.done()
}

const ONE: i16 = 16384;

/// deltas for a composite: one per component, then the four phantom points
fn comp_tuple(peak: [i16; 2], d: &[(i16, i16)], adv: i16) -> Tuple {
    let mut dx: Vec<i16> = d.iter().map(|p| p.0).collect();
    let mut dy: Vec<i16> = d.iter().map(|p| p.1).collect();
    dx.extend([0, adv, 0, 0]);
    dy.extend([0, 0, 0, 0]);
    Tuple { peak: peak.to_vec(), inter: None, points: None, dx, dy }
}

/// `variant` 0: short loca, all long metrics; 1: long loca (records are not padded, so a record that
/// is one byte short cannot hide behind padding), fewer long metrics than glyphs, word point runs.
pub fn var_font(variant: u8) -> Tables {
    let long = variant == 1;
    let mut g = base_glyphs();
    let mut tv: Vec<Vec<Tuple>> = vec![vec![], vec![], vec![]];
    // glyph 1 varies as a simple glyph (all points) and glyph 2 on a point subset
    tv[1] = vec![Tuple { peak: vec![ONE, 0], inter: None, points: None, dx: vec![5, -200, 30, 0, 40, 0, 0], dy: vec![0, 10, 300, 0, 0, 0, 0] }];
    tv[2] = vec![Tuple { peak: vec![0, ONE], inter: Some((vec![0, 0], vec![0, ONE])), points: Some(vec![1, 3, 8]), dx: vec![20, -20, 30], dy: vec![0, 0, 0] }];
    let mut add = |g: &mut Vec<GlyphRec>, comps: &[(u16, u16, i32, i32, &[i16])], instr: &[u8], t: Vec<Tuple>| {
        let c = composite(comps, instr, g);
        g.push(c);
        tv.push(t);
    };
    // 3: x leaves the byte range (100 -> 160), y stays
    add(&mut g, &[(XY, 1, 100, 0, &[])], &[], vec![comp_tuple([ONE, 0], &[(60, 0)], 10)]);
    // 4: y leaves it, x stays
    add(&mut g, &[(XY, 1, 0, 100, &[])], &[], vec![comp_tuple([ONE, 0], &[(0, 60)], 0)]);
    // 5: both leave it
    add(&mut g, &[(XY, 1, 100, 100, &[])], &[], vec![comp_tuple([ONE, 0], &[(60, 60)], 0)]);
    // 6: x leaves it on the negative side (-100 -> -160)
    add(&mut g, &[(XY, 2, -100, -20, &[])], &[], vec![comp_tuple([ONE, 0], &[(-60, 0)], -10)]);
    // 7: word sized offsets come back into the byte range (300 -> 50)
    add(&mut g, &[(XY | WORDS, 1, 300, 20, &[])], &[], vec![comp_tuple([ONE, 0], &[(-250, 0)], 0)]);
    // 8: two components, the first crosses in x, the second (scaled) stays
    add(&mut g, &[(XY, 1, 100, 0, &[]), (XY | SCALE, 2, 10, 10, &[8192])], &[], vec![comp_tuple([ONE, 0], &[(60, 0), (0, 0)], 0)]);
    // 9: x/y scale and 2x2 components with instructions; first crosses in y, second in x
    add(
        &mut g,
        &[(XY | XYSCALE, 1, 10, 20, &[8192, 12288]), (XY | TWOBYTWO, 2, 50, 100, &[11585, 11585, -11585, 11585])],
        &[0x01, 0x02, 0x03],
        vec![comp_tuple([ONE, 0], &[(0, 120), (100, 0)], 0)],
    );
    // 10: point matching component: deltas have no effect on it
    add(&mut g, &[(XY, 1, 0, 0, &[]), (0, 2, 1, 2, &[])], &[], vec![comp_tuple([ONE, 0], &[(3, 3), (0, 0)], 0)]);
    // 11: nested composite whose own offset crosses in both directions of both coordinates
    add(&mut g, &[(XY, 3, 5, -5, &[])], &[], vec![comp_tuple([ONE, 0], &[(130, -140)], 0), comp_tuple([-ONE, 0], &[(-140, 130)], 0)]);
    // 12: second axis: crosses at small coordinates; first axis pulls back
    add(&mut g, &[(XY, 1, 120, -120, &[])], &[], vec![comp_tuple([0, ONE], &[(10, -10)], 0), comp_tuple([ONE, 0], &[(-20, 20)], 0), comp_tuple([ONE, ONE], &[(40, 0)], 0)]);
    // 13: composite without variation data
    add(&mut g, &[(XY, 2, 127, -128, &[])], &[], vec![]);
    // 14: exactly at the boundary: 127 + 1 = 128 (x), -128 - 1 (y) at the peak, inside below it
    add(&mut g, &[(XY, 1, 127, -128, &[])], &[], vec![comp_tuple([ONE, 0], &[(1, 0)], 0), comp_tuple([0, ONE], &[(0, -1)], 0)]);
    // 15: deltas on an explicit point subset (component 1 only, via point numbers) of a three component glyph
    add(
        &mut g,
        &[(XY, 1, 100, 100, &[]), (XY, 2, 90, -90, &[]), (XY | WORDS, 1, 500, 0, &[])],
        &[],
        vec![Tuple { peak: vec![ONE, 0], inter: None, points: Some(vec![1]), dx: vec![70], dy: vec![0] }],
    );
    // 16: WE_HAVE_INSTRUCTIONS with an empty block; 17: the flag on the first of two components
    add(&mut g, &[(XY | INSTR, 1, 100, 0, &[])], &[], vec![comp_tuple([ONE, 0], &[(60, 0)], 0)]);
    // 17 is the widest glyph of variant 0 (advance 500 + 7 * 17): its advance SHRINKS towards A = +1 (so the
    // widest advance of the instance is smaller than the default master's) and GROWS towards A = -1
    add(
        &mut g,
        &[(XY | INSTR, 2, 0, 100, &[]), (XY, 1, 1, 1, &[])],
        &[0x42, 0x43, 0x44],
        vec![comp_tuple([ONE, 0], &[(0, 60), (0, 0)], -40), comp_tuple([-ONE, 0], &[(0, 0), (0, 0)], 25)],
    );
    let n = g.len();
    let gvar = gvar_bytes(2, &tv, long);
    build_tt(&g, long, if long { 6 } else { n }, variant, &[("fvar", fvar_bytes(2)), ("gvar", gvar)])
}

// ---- big font ------------------------------------------------------------------------------------

/// `k` glyphs of `p` points each whose deltas fit a byte (so the source glyf is compact and short
/// loca suffices) + one composite; the last simple glyph carries `instr` instruction bytes, which
/// every writer copies verbatim: the knob that moves a rebuilt glyf table to an exact size.
pub fn big_font(k: usize, p: usize, instr: usize, long: bool) -> Tables {
    let mut g = vec![simple(&[vec![(50, 0, true), (450, 0, true), (450, 700, true), (50, 700, true)]], &[])];
    for i in 0..k {
        let mut pts = Vec::with_capacity(p);
        let (mut x, mut y) = (0i16, 0i16);
        for j in 0..p {
            // a zig-zag with deltas in 1 ..= 100
            x += 1 + ((i * 7 + j * 13) % 100) as i16 * if j % 4 < 2 { 1 } else { -1 };
            y += 1 + ((i * 3 + j * 5) % 90) as i16 * if j % 6 < 3 { 1 } else { -1 };
            pts.push((x, y, j % 3 != 1));
        }
        let ins: Vec<u8> = if i + 1 == k { (0..instr).map(|b| (b % 251) as u8).collect() } else { vec![] };
        g.push(simple(&[pts], &ins));
    }
    let c = composite(&[(XY, 1, 10, 10, &[]), (XY | WORDS, 2, 600, 0, &[])], &[], &g);
    g.push(c);
    let n = g.len();
    build_tt(&g, long, n - 3, 0, &[])
}
