//! Round 3: font COLLECTIONS built by the harness (nothing here calls allsorts).
//!
//!   * plans of WOFF2 collections (`ttcf` flavour, CollectionDirectory) and plain OpenType collections (TTC)
//!     whose members DIFFER in every per-member quantity a reader has to look up for the requested member:
//!     numGlyphs (maxp), numberOfHMetrics (hhea), indexToLocFormat / unitsPerEm (head), transformed or plain
//!     glyf / loca, transformed or plain hmtx, shared or private tables, order of the member's table indices;
//!   * `build_ttc`: a TTC writer (shared tables stored once, three physical layouts);
//!   * `Want`: what the harness PRESCRIBED for a member (its own inputs) and `member_json`: the prescribed values
//!     next to what an independent reader finds in a table set - SfntWrite!MemberOK compares them.

use super::cffb;
use super::synth::{self, Tables};
use rand::rngs::StdRng;
use rand::Rng;
use serde_json::{json, Value};
use std::collections::BTreeMap;
use vh::fontgen::{be16, checksum, tag_u32, W};

// ---- prescribed member facts --------------------------------------------------------------------------------

/// FNV-1a over the table bytes (head: checkSumAdjustment zeroed) as [hi16, lo16, length].
pub fn table_id(tag: &str, data: &[u8]) -> [i64; 3] {
    let mut h: u32 = 0x811C9DC5;
    for (k, b) in data.iter().enumerate() {
        let b = if tag == "head" && (8..12).contains(&k) { 0 } else { *b };
        h = (h ^ b as u32).wrapping_mul(0x01000193);
    }
    [(h >> 16) as i64, (h & 0xFFFF) as i64, data.len() as i64]
}

const ABSENT: [i64; 3] = [-1, -1, -1];

#[derive(Clone, Debug)]
pub struct Want {
    /// "woff2-collection" | "ttc" | "woff2" | "tables" (whole_font on a table set the harness holds)
    pub container: String,
    pub index: i64,
    pub members: i64,
    pub num_glyphs: i64,
    pub nhm: i64,
    pub loc_format: i64,
    pub upem: i64,
    /// the member's own tables (tag, identity)
    pub tables: Vec<(String, [i64; 3])>,
    /// tables the operation re-serialises: their bytes are not compared (the other clauses judge them)
    pub rebuilt: Vec<String>,
}

fn field16(t: &dyn Fn(&str) -> Option<Vec<u8>>, tag: &str, at: usize) -> i64 {
    t(tag).and_then(|d| be16(&d, at)).map(|v| v as i64).unwrap_or(-1)
}

impl Want {
    pub fn of(container: &str, index: i64, members: i64, tables: &[(String, Vec<u8>)], rebuilt: &[&str]) -> Want {
        let get = |t: &str| tables.iter().find(|x| x.0 == t).map(|x| x.1.clone());
        Want {
            container: container.into(),
            index,
            members,
            num_glyphs: field16(&get, "maxp", 4),
            nhm: field16(&get, "hhea", 34),
            loc_format: field16(&get, "head", 50),
            upem: field16(&get, "head", 18),
            tables: tables.iter().map(|(t, d)| (t.clone(), table_id(t, d))).collect(),
            rebuilt: rebuilt.iter().map(|s| s.to_string()).collect(),
        }
    }
    pub fn with_rebuilt(&self, rebuilt: &[&str]) -> Want {
        let mut w = self.clone();
        w.rebuilt = rebuilt.iter().map(|s| s.to_string()).collect();
        w
    }
}

pub fn no_member() -> Value {
    json!({"is": false, "container": "none", "index": -1, "members": -1, "fields": [], "tables": []})
}

/// Prescribed values next to what the independent reader finds in the table set `get` (tags `got_tags`).
/// `with_tables`: also the identity of every table (operations that hand tables on unchanged).
pub fn member_json(w: &Want, get: &dyn Fn(&str) -> Option<Vec<u8>>, got_tags: &[String], with_tables: bool) -> Value {
    let fields = vec![
        json!({"name": "numGlyphs", "want": w.num_glyphs, "got": field16(get, "maxp", 4)}),
        json!({"name": "nHM", "want": w.nhm, "got": field16(get, "hhea", 34)}),
        json!({"name": "locFormat", "want": w.loc_format, "got": field16(get, "head", 50)}),
        json!({"name": "upem", "want": w.upem, "got": field16(get, "head", 18)}),
    ];
    let mut tables = vec![];
    if with_tables {
        let mut tags: Vec<String> = w.tables.iter().map(|t| t.0.clone()).collect();
        for t in got_tags {
            if !tags.contains(t) {
                tags.push(t.clone());
            }
        }
        tags.sort();
        for t in tags {
            let want = w.tables.iter().find(|x| x.0 == t).map(|x| x.1).unwrap_or(ABSENT);
            let got = if got_tags.contains(&t) { get(&t).map(|d| table_id(&t, &d)).unwrap_or(ABSENT) } else { ABSENT };
            tables.push(json!({"tag": t, "want": want, "got": got, "rebuilt": w.rebuilt.contains(&t)}));
        }
    }
    json!({"is": true, "container": w.container, "index": w.index, "members": w.members, "fields": fields, "tables": tables})
}

// ---- members ------------------------------------------------------------------------------------------------

#[derive(Clone, Debug)]
pub struct MemberPlan {
    pub label: String,
    pub tables: Tables,
    pub flavor: u32,
    /// WOFF2 only: ask for the glyf / loca transform, for the hmtx transform (flag bit 0: lsb[] elided)
    pub glyf_tr: bool,
    pub hmtx_tr: bool,
    pub share: bool,
    pub idx_order: u8,
    /// fvar present: instanced
    pub var: bool,
}

fn set_upem(t: &mut Tables, upem: u16) {
    if let Some(h) = t.iter_mut().find(|x| x.0 == "head") {
        h.1[18..20].copy_from_slice(&upem.to_be_bytes());
    }
}

/// The first `k` glyphs of the shapes font, `nhm` long metrics, lsb = xMin (so the hmtx transform applies).
pub fn tt_member(k: usize, nhm: usize, long: bool, upem: u16, glyf_tr: bool, hmtx_tr: bool, share: bool, idx_order: u8) -> MemberPlan {
    let g = synth::shapes_glyphs();
    let k = k.clamp(3, g.len());
    let mut t = synth::build_tt(&g[..k], long, nhm, if long { 1 } else { 0 }, &[]);
    set_upem(&mut t, upem);
    MemberPlan {
        label: format!("tt{}-nhm{}-{}-upem{}", k, nhm.clamp(1, k), if long { "long" } else { "short" }, upem),
        tables: t,
        flavor: 0x00010000,
        glyf_tr,
        hmtx_tr: hmtx_tr && glyf_tr,
        share,
        idx_order,
        var: false,
    }
}

pub fn var_member(variant: u8, upem: u16) -> MemberPlan {
    let mut t = synth::var_font(variant);
    set_upem(&mut t, upem);
    MemberPlan { label: format!("var{}-upem{}", variant, upem), tables: t, flavor: 0x00010000, glyf_tr: true, hmtx_tr: false, share: true, idx_order: 0, var: true }
}

pub fn big_member(k: usize, upem: u16, hmtx_tr: bool) -> MemberPlan {
    let mut t = synth::big_font(k, 200, 0, false);
    set_upem(&mut t, upem);
    MemberPlan { label: format!("big{}-upem{}", k, upem), tables: t, flavor: 0x00010000, glyf_tr: true, hmtx_tr, share: true, idx_order: 0, var: false }
}

pub fn cff_member(n: usize, upem: u16) -> MemberPlan {
    let glyphs: Vec<Vec<u8>> = (0..n).map(|g| cffb::glyph_cs(if g == 0 { 4 } else { 9 + 2 * (g % 7) }, None, None)).collect();
    let spec = cffb::CffSpec { glyphs, gsubrs: vec![], lsubrs: vec![], sids: (1..n as u16).map(|g| 33 + g).collect(), strings: vec![], top_pad: 0 };
    let mut t = cffb::build_otf(&spec);
    set_upem(&mut t, upem);
    MemberPlan { label: format!("cff{}-upem{}", n, upem), tables: t, flavor: 0x4F54544F, glyf_tr: false, hmtx_tr: false, share: true, idx_order: 0, var: false }
}

pub struct CollPlan {
    pub name: String,
    pub members: Vec<MemberPlan>,
    /// WOFF2: second set of file-level encoder choices (directory by tag, explicit tags, 4 KiB brotli blocks, other
    /// triplet / 255UInt16 forms); TTC: physical layout 0 / 1 / 2
    pub alt: u8,
}

/// The WOFF2 collections of every run.
pub fn woff2_plans(rng: &mut StdRng, random: usize) -> Vec<CollPlan> {
    let mut v = vec![
        // glyf / loca / head / maxp SHARED, hhea / hmtx private: numberOfHMetrics 1, 12, 5, 9, 3; member 0 has the smallest
        CollPlan {
            name: "w2c-nhm-up".into(),
            members: vec![
                tt_member(12, 1, false, 1000, true, false, true, 0),
                tt_member(12, 12, false, 1000, true, true, true, 0),
                tt_member(12, 5, false, 1000, true, true, true, 1),
                tt_member(12, 9, false, 1000, true, false, true, 2),
                tt_member(12, 3, false, 1000, true, true, true, 3),
            ],
            alt: 0,
        },
        // the same the other way round: member 0 has the largest numberOfHMetrics, all hmtx transformed
        CollPlan {
            name: "w2c-nhm-down".into(),
            members: vec![
                tt_member(12, 12, true, 1000, true, true, true, 0),
                tt_member(12, 2, true, 1000, true, true, true, 0),
                tt_member(12, 7, true, 1000, true, true, true, 2),
            ],
            alt: 0,
        },
        // private glyf: numGlyphs, loca format, unitsPerEm, transforms all differ; member 4 is member 1 again (fully shared)
        CollPlan {
            name: "w2c-glyphs".into(),
            members: vec![
                tt_member(7, 7, true, 1000, true, true, true, 0),
                tt_member(18, 9, false, 2048, true, true, true, 3),
                tt_member(14, 3, false, 512, false, false, true, 0),
                tt_member(10, 10, true, 250, true, false, true, 1),
                tt_member(18, 9, false, 2048, true, true, true, 2),
                tt_member(18, 18, true, 2048, true, true, true, 0),
                // numberOfHMetrics below member 0's numGlyphs, numGlyphs above it: decoded with member 0's maxp the
                // hmtx would come out short rather than fail
                tt_member(16, 3, false, 300, true, true, true, 1),
            ],
            alt: 0,
        },
        // the largest member first, the second set of file level encoder choices
        CollPlan {
            name: "w2c-glyphs-alt".into(),
            members: vec![
                tt_member(18, 4, false, 1000, true, true, true, 0),
                tt_member(5, 5, true, 64, true, true, true, 1),
                tt_member(9, 9, false, 16384, true, false, true, 2),
                tt_member(16, 2, true, 1000, false, false, true, 3),
            ],
            alt: 1,
        },
        // nothing shared: private copies even of identical tables
        CollPlan {
            name: "w2c-private".into(),
            members: vec![
                tt_member(9, 4, false, 1000, true, true, false, 0),
                tt_member(9, 4, false, 1000, true, true, false, 0),
                tt_member(5, 5, true, 1000, true, true, false, 1),
            ],
            alt: 0,
        },
        // a collection of one
        CollPlan { name: "w2c-single".into(), members: vec![tt_member(11, 6, false, 1000, true, true, true, 0)], alt: 0 },
        // the loca upgrade is a per-member decision: only the middle member's rebuilt glyf exceeds the short format
        CollPlan {
            name: "w2c-upgrade".into(),
            members: vec![tt_member(6, 2, false, 1000, true, true, true, 0), big_member(141, 2000, true), tt_member(6, 6, false, 1000, true, true, true, 1)],
            alt: 0,
        },
    ];
    for r in 0..random {
        let n = rng.gen_range(2..=5);
        let members = (0..n)
            .map(|_| {
                let k = rng.gen_range(3..=18);
                let tr = rng.gen_bool(0.75);
                tt_member(k, rng.gen_range(1..=k), rng.gen_bool(0.5), [1000u16, 2048, 256][rng.gen_range(0..3)], tr, rng.gen_bool(0.7), rng.gen_bool(0.8), rng.gen_range(0..4))
            })
            .collect();
        v.push(CollPlan { name: format!("w2c-random{}", r), members, alt: rng.gen_range(0..2) });
    }
    v
}

/// The OpenType collections of every run.
pub fn ttc_plans(rng: &mut StdRng, random: usize) -> Vec<CollPlan> {
    let mut v = vec![
        // shared where identical (member 5 shares glyf / loca / head / maxp with member 0, its hhea / hmtx are private)
        CollPlan {
            name: "ttc-mixed".into(),
            members: vec![
                tt_member(18, 9, false, 1000, true, false, true, 0),
                var_member(0, 2048),
                tt_member(7, 7, true, 512, true, false, true, 0),
                var_member(1, 1000),
                cff_member(6, 750),
                tt_member(18, 3, false, 1000, true, false, true, 0),
            ],
            alt: 0,
        },
        // nothing shared, table data in reverse order, the smallest member first
        CollPlan {
            name: "ttc-private-reversed".into(),
            members: vec![
                tt_member(4, 1, true, 250, true, false, false, 0),
                cff_member(9, 1000),
                var_member(1, 512),
                tt_member(15, 15, false, 2048, true, false, false, 0),
                var_member(0, 1000),
            ],
            alt: 1,
        },
        // offset tables after the table data
        CollPlan {
            name: "ttc-dirs-last".into(),
            members: vec![cff_member(4, 1000), var_member(1, 2048), tt_member(12, 1, true, 1000, true, false, true, 0), tt_member(12, 12, true, 1000, true, false, true, 0)],
            alt: 2,
        },
    ];
    for r in 0..random {
        let n = rng.gen_range(2..=5);
        let members = (0..n)
            .map(|_| match rng.gen_range(0..6) {
                0 => var_member(rng.gen_range(0..2), [1000u16, 2048][rng.gen_range(0..2)]),
                1 => cff_member(rng.gen_range(3..12), 1000),
                _ => {
                    let k = rng.gen_range(3..=18);
                    tt_member(k, rng.gen_range(1..=k), rng.gen_bool(0.5), [1000u16, 2048, 256][rng.gen_range(0..3)], true, false, rng.gen_bool(0.7), 0)
                }
            })
            .collect();
        v.push(CollPlan { name: format!("ttc-random{}", r), members, alt: rng.gen_range(0..3) });
    }
    v
}

// ---- TTC writer ---------------------------------------------------------------------------------------------

pub struct Ttc {
    pub bytes: Vec<u8>,
    /// per member: tag -> offset of the table data (to count what is shared)
    pub offsets: Vec<BTreeMap<String, usize>>,
}

/// TTC header (version 1.0), one offset table per member (records sorted by tag), table data 4-byte aligned.
/// Members with `share` store a table whose bytes equal a table of an earlier sharing member once.
/// layout 0: offset tables, then data in member order; 1: offset tables, then data in reverse order;
/// 2: data first, offset tables at the end of the file.
pub fn build_ttc(members: &[MemberPlan], layout: u8) -> Ttc {
    let n = members.len();
    let dirs_len: usize = members.iter().map(|m| 12 + 16 * m.tables.len()).sum();
    let header_len = 12 + 4 * n;
    let data_start = if layout == 2 { header_len } else { header_len + dirs_len };
    // lay out the data
    let mut data = W::new();
    let mut stored: Vec<(bool, String, Vec<u8>, usize)> = Vec::new();
    let mut offsets: Vec<BTreeMap<String, usize>> = vec![BTreeMap::new(); n];
    let order: Vec<usize> = if layout == 1 { (0..n).rev().collect() } else { (0..n).collect() };
    for &mi in &order {
        let m = &members[mi];
        let tabs: Vec<&(String, Vec<u8>)> = if layout == 1 { m.tables.iter().rev().collect() } else { m.tables.iter().collect() };
        for (tag, bytes) in tabs {
            let hit = if m.share { stored.iter().find(|s| s.0 && &s.1 == tag && &s.2 == bytes).map(|s| s.3) } else { None };
            let off = match hit {
                Some(o) => o,
                None => {
                    let o = data_start + data.len();
                    data.bytes(bytes);
                    data.pad4();
                    stored.push((m.share, tag.clone(), bytes.clone(), o));
                    o
                }
            };
            offsets[mi].insert(tag.clone(), off);
        }
    }
    let dirs_start = if layout == 2 { data_start + data.len() } else { header_len };
    let mut w = W::new();
    w.tag("ttcf").u16(1).u16(0).u32(n as u32);
    let mut at = dirs_start;
    for m in members {
        w.u32(at as u32);
        at += 12 + 16 * m.tables.len();
    }
    let mut dirs = W::new();
    for (mi, m) in members.iter().enumerate() {
        let nt = m.tables.len() as u16;
        let mut es = 0u16;
        while (1u32 << (es + 1)) <= nt as u32 {
            es += 1;
        }
        let sr = (1u16 << es) * 16;
        dirs.u32(m.flavor).u16(nt).u16(sr).u16(es).u16(nt * 16 - sr);
        let mut recs: Vec<(u32, u32, u32, u32)> = m
            .tables
            .iter()
            .map(|(tag, bytes)| {
                let mut d = bytes.clone();
                if tag == "head" && d.len() >= 12 {
                    d[8..12].copy_from_slice(&[0; 4]);
                }
                (tag_u32(tag), checksum(&d), offsets[mi][tag] as u32, bytes.len() as u32)
            })
            .collect();
        recs.sort_by_key(|r| r.0);
        for r in recs {
            dirs.u32(r.0).u32(r.1).u32(r.2).u32(r.3);
        }
    }
    if layout == 2 {
        w.bytes(&data.0).bytes(&dirs.0);
    } else {
        w.bytes(&dirs.0).bytes(&data.0);
    }
    Ttc { bytes: w.done(), offsets }
}
