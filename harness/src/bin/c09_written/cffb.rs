//! CFF for C09 (nothing here calls allsorts):
//!   * `build_otf`   a name-keyed CFF OpenType font whose charstrings, global and local subroutines
//!                   have prescribed byte lengths (glyph g calls global subr g-1 and local subr g-1),
//!                   with an optional XUID padding of the Top DICT and a String INDEX
//!   * `walk_cff`    an independent structural reader of a CFF table: every INDEX (count, offSize,
//!                   first / last offset, monotone, inside the table, bytes of object data), charset
//!                   and FDSelect coverage, Private DICT extents -> the facts SfntWrite!CffStructOK reads
//!   * `subset_sum`  which glyphs to keep so that the lengths of their objects add up to a target
use serde_json::{json, Value};
use vh::fontgen::{self, W};

// ---- charstrings of a prescribed length ----------------------------------------------------------

/// `k` bytes of path segments, k >= 3 (rlineto with one-byte operands, one segment widened by two-byte
/// operands to absorb k mod 3); the pen stays near the origin.
fn segments(k: usize, out: &mut Vec<u8>) {
    assert!(k >= 3);
    let r = k % 3;
    let n = k / 3;
    for i in 0..n {
        let up = i % 2 == 0;
        if i == 0 && r > 0 {
            // 108 / -108 are the smallest numbers of the two-byte form
            out.extend_from_slice(&[247, 0]);
            if r == 2 {
                out.extend_from_slice(&[251, 0]);
            } else {
                out.push(139);
            }
            out.push(5);
        } else if up {
            out.extend_from_slice(&[140, 140, 5]);
        } else {
            out.extend_from_slice(&[138, 138, 5]);
        }
    }
}

/// A glyph charstring of exactly `len` bytes: 0 0 rmoveto, the calls, segments, endchar.
pub fn glyph_cs(len: usize, gsubr: Option<usize>, lsubr: Option<usize>) -> Vec<u8> {
    let mut v = vec![139, 139, 21];
    if let Some(s) = gsubr {
        v.extend_from_slice(&[(s as i32 - 107 + 139) as u8, 29]);
    }
    if let Some(s) = lsubr {
        v.extend_from_slice(&[(s as i32 - 107 + 139) as u8, 10]);
    }
    let fixed = v.len() + 1;
    assert!(len == fixed || len >= fixed + 3, "glyph length {} not constructible", len);
    if len > fixed {
        segments(len - fixed, &mut v);
    }
    v.push(14);
    v
}

/// A subroutine of exactly `len` bytes (len = 1 or len >= 4): segments, return.
pub fn subr_cs(len: usize) -> Vec<u8> {
    let mut v = Vec::new();
    assert!(len == 1 || len >= 4);
    if len > 1 {
        segments(len - 1, &mut v);
    }
    v.push(11);
    v
}

// ---- the table -----------------------------------------------------------------------------------------

pub fn index(objs: &[Vec<u8>]) -> Vec<u8> {
    let mut w = W::new();
    w.u16(objs.len() as u16);
    if objs.is_empty() {
        return w.done();
    }
    let total: usize = objs.iter().map(|o| o.len()).sum::<usize>() + 1;
    let sz = if total <= 0xFF { 1 } else if total <= 0xFFFF { 2 } else if total <= 0xFF_FFFF { 3 } else { 4 };
    w.u8(sz);
    let mut off = 1u32;
    let put = |w: &mut W, o: u32| {
        w.bytes(&o.to_be_bytes()[4 - sz as usize..]);
    };
    put(&mut w, off);
    for o in objs {
        off += o.len() as u32;
        put(&mut w, off);
    }
    for o in objs {
        w.bytes(o);
    }
    w.done()
}

fn int5(v: usize) -> Vec<u8> {
    let mut o = vec![29];
    o.extend_from_slice(&(v as i32).to_be_bytes());
    o
}

pub struct CffSpec {
    pub glyphs: Vec<Vec<u8>>,
    pub gsubrs: Vec<Vec<u8>>,
    pub lsubrs: Vec<Vec<u8>>,
    /// SID of glyph 1, 2, ... (standard strings unless `strings` supplies more)
    pub sids: Vec<u16>,
    pub strings: Vec<Vec<u8>>,
    /// extra Top DICT bytes: XUID with that many one-byte operands per entry
    pub top_pad: usize,
}

pub fn xuid_pad(n: usize) -> Vec<u8> {
    // entries of up to 48 one-byte operands + the XUID operator (14); n >= 2 or 0
    let mut v = Vec::new();
    let mut left = n;
    while left > 0 {
        let mut k = left.min(49);
        if left - k == 1 {
            k -= 1; // never leave a lone operator byte
        }
        v.extend(std::iter::repeat(140u8).take(k - 1));
        v.push(14);
        left -= k;
    }
    v
}

pub fn build_cff(s: &CffSpec) -> Vec<u8> {
    let name = index(&[b"VerifC09CFF".to_vec()]);
    let strings = index(&s.strings);
    let gsubr = index(&s.gsubrs);
    let cs = index(&s.glyphs);
    let mut charset = vec![0u8];
    for sid in &s.sids {
        charset.extend_from_slice(&sid.to_be_bytes());
    }
    // Private DICT: defaultWidthX 500, and Subrs when there are local subroutines
    let mut private = vec![28, 0x01, 0xF4, 20];
    let subrs = if s.lsubrs.is_empty() {
        vec![]
    } else {
        let plen = private.len() + 6;
        private.extend(int5(plen));
        private.push(19);
        index(&s.lsubrs)
    };
    let pad = if s.top_pad >= 2 { xuid_pad(s.top_pad) } else { vec![] };
    let top = |charset_off: usize, cs_off: usize, priv_off: usize| -> Vec<u8> {
        let mut t = pad.clone();
        t.extend(int5(charset_off));
        t.push(15);
        t.extend(int5(cs_off));
        t.push(17);
        t.extend(int5(private.len()));
        t.extend(int5(priv_off));
        t.push(18);
        t
    };
    let top_len = index(&[top(0, 0, 0)]).len();
    let cs_off = 4 + name.len() + top_len + strings.len() + gsubr.len();
    let charset_off = cs_off + cs.len();
    let priv_off = charset_off + charset.len();
    let topi = index(&[top(charset_off, cs_off, priv_off)]);
    assert_eq!(topi.len(), top_len);
    let mut d = vec![1, 0, 4, 1];
    d.extend(name);
    d.extend(topi);
    d.extend(strings);
    d.extend(gsubr);
    d.extend(cs);
    d.extend(charset);
    d.extend(private);
    d.extend(subrs);
    d
}

pub type Tables = Vec<(String, Vec<u8>)>;

/// A complete OpenType/CFF font around `build_cff`; advance 400 + g, consistent hhea.
pub fn build_otf(s: &CffSpec) -> Tables {
    let n = s.glyphs.len();
    let metrics: Vec<(u16, i16)> = (0..n).map(|g| (400 + (g % 500) as u16, 0)).collect();
    let aw_max = metrics.iter().map(|m| m.0).max().unwrap_or(0);
    let cmap: Vec<(u32, u16)> = (1..n.min(600)).map(|g| (0x100 + g as u32, g as u16)).collect();
    vec![
        ("head".into(), fontgen::head(1000, false, (-120, -120, 120, 120))),
        ("hhea".into(), fontgen::hhea(n as u16, 800, -200, aw_max)),
        ("maxp".into(), fontgen::maxp_cff(n as u16)),
        ("OS/2".into(), fontgen::os2_v4(0x100, 0x100 + n.min(600) as u16)),
        ("hmtx".into(), fontgen::hmtx(&metrics, &[])),
        ("cmap".into(), fontgen::cmap_format12(&cmap)),
        ("name".into(), fontgen::name(&[(1, "VerifC09CFF"), (2, "Regular"), (4, "VerifC09CFF Regular"), (6, "VerifC09CFF-Regular")])),
        ("post".into(), fontgen::post_v3()),
        ("CFF ".into(), build_cff(s)),
    ]
}

// ---- independent structural reader -------------------------------------------------------------------

fn rd(d: &[u8], at: usize, n: usize) -> Option<usize> {
    let mut v = 0usize;
    for k in 0..n {
        v = (v << 8) | *d.get(at + k)? as usize;
    }
    Some(v)
}

pub struct Idx {
    pub name: String,
    pub at: usize,
    pub count: usize,
    pub off_size: usize,
    pub first: usize,
    pub last: usize,
    pub mono: bool,
    pub inside: bool,
    pub data_at: usize,
    pub end: usize,
    pub offs: Vec<usize>,
}

impl Idx {
    pub fn data_len(&self) -> usize {
        if self.count == 0 || self.last < 1 {
            0
        } else {
            self.last - 1
        }
    }
    pub fn obj<'a>(&self, d: &'a [u8], i: usize) -> Option<&'a [u8]> {
        let (a, b) = (*self.offs.get(i)?, *self.offs.get(i + 1)?);
        if a < 1 || b < a {
            return None;
        }
        d.get(self.data_at + a - 1..self.data_at + b - 1)
    }
    fn json(&self) -> Value {
        json!({"name": self.name, "count": self.count, "offSize": self.off_size, "first": self.first, "last": self.last,
               "mono": self.mono, "inside": self.inside, "dataLen": self.data_len()})
    }
}

/// An INDEX with a 16-bit count at `at`; None when not even its header can be read.
pub fn read_index(d: &[u8], at: usize, name: &str) -> Option<Idx> {
    let count = rd(d, at, 2)?;
    if count == 0 {
        return Some(Idx { name: name.into(), at, count, off_size: 0, first: 0, last: 0, mono: true, inside: true, data_at: at + 2, end: at + 2, offs: vec![] });
    }
    let off_size = rd(d, at + 2, 1)?;
    if !(1..=4).contains(&off_size) {
        return Some(Idx { name: name.into(), at, count, off_size, first: 0, last: 0, mono: false, inside: false, data_at: at + 3, end: at + 3, offs: vec![] });
    }
    let mut offs = Vec::with_capacity(count + 1);
    for i in 0..=count {
        offs.push(rd(d, at + 3 + i * off_size, off_size)?);
    }
    let data_at = at + 3 + (count + 1) * off_size;
    let first = offs[0];
    let last = offs[count];
    let mono = offs.windows(2).all(|w| w[0] <= w[1]);
    let end = data_at + last.saturating_sub(1);
    let inside = last >= 1 && end <= d.len();
    Some(Idx { name: name.into(), at, count, off_size, first, last, mono, inside, data_at, end, offs })
}

/// Operators with their integer operands (reals read as 0); None on a malformed DICT.
pub fn read_dict(dict: &[u8]) -> Option<Vec<(u16, Vec<i64>)>> {
    let mut i = 0;
    let mut stack: Vec<i64> = Vec::new();
    let mut out = Vec::new();
    while i < dict.len() {
        let b0 = dict[i];
        match b0 {
            0..=21 | 22..=27 => {
                let op = if b0 == 12 {
                    i += 1;
                    0x0C00 | *dict.get(i)? as u16
                } else {
                    b0 as u16
                };
                i += 1;
                out.push((op, std::mem::take(&mut stack)));
            }
            28 => {
                stack.push(i16::from_be_bytes([*dict.get(i + 1)?, *dict.get(i + 2)?]) as i64);
                i += 3;
            }
            29 => {
                stack.push(i32::from_be_bytes([*dict.get(i + 1)?, *dict.get(i + 2)?, *dict.get(i + 3)?, *dict.get(i + 4)?]) as i64);
                i += 5;
            }
            30 => {
                i += 1;
                loop {
                    let b = *dict.get(i)?;
                    i += 1;
                    if b & 0x0F == 0x0F || b >> 4 == 0x0F {
                        break;
                    }
                }
                stack.push(0);
            }
            32..=246 => {
                stack.push(b0 as i64 - 139);
                i += 1;
            }
            247..=250 => {
                stack.push((b0 as i64 - 247) * 256 + *dict.get(i + 1)? as i64 + 108);
                i += 2;
            }
            251..=254 => {
                stack.push(-(b0 as i64 - 251) * 256 - *dict.get(i + 1)? as i64 - 108);
                i += 2;
            }
            _ => return None,
        }
    }
    if stack.is_empty() {
        Some(out)
    } else {
        None
    }
}

fn dict_get(d: &[(u16, Vec<i64>)], op: u16) -> Option<&Vec<i64>> {
    d.iter().find(|e| e.0 == op).map(|e| &e.1)
}

pub struct CffWalk {
    pub facts: Value,
    pub indexes: Vec<Idx>,
}

/// Follow the whole structure of a single-font CFF table.
pub fn walk_cff(d: &[u8]) -> CffWalk {
    let mut idx: Vec<Idx> = Vec::new();
    let mut why = String::new();
    let mut charset_ok = true;
    let mut fdsel_glyphs: i64 = -1;
    let (mut fd_max, mut fd_count): (i64, i64) = (-1, -1);
    let mut priv_inside = true;
    let mut n_glyphs: i64 = -1;
    let mut charset_kind = "none".to_string();
    let mut go = || -> Option<()> {
        let hdr = rd(d, 2, 1)?;
        let mut at = hdr;
        for name in ["name", "top", "string", "gsubr"] {
            let i = read_index(d, at, name)?;
            let ok = i.count == 0 || (i.mono && i.inside && i.first == 1);
            at = i.end;
            idx.push(i);
            if !ok {
                why = format!("index:{}", name);
                return None;
            }
        }
        let topd = idx[1].obj(d, 0).and_then(read_dict).or_else(|| {
            why = "topdict".into();
            None
        })?;
        let cs_off = *dict_get(&topd, 17).and_then(|a| a.first()).or_else(|| {
            why = "no-charstrings".into();
            None
        })? as usize;
        let cs = read_index(d, cs_off, "charstrings").or_else(|| {
            why = "charstrings-eof".into();
            None
        })?;
        let n = cs.count;
        n_glyphs = n as i64;
        let cs_ok = cs.count == 0 || (cs.mono && cs.inside && cs.first == 1);
        idx.push(cs);
        if !cs_ok {
            why = "index:charstrings".into();
            return None;
        }
        // charset
        let cso = dict_get(&topd, 15).and_then(|a| a.first()).copied().unwrap_or(0);
        let is_cid = dict_get(&topd, 0x0C1E).is_some();
        match cso {
            0 | 1 | 2 if !is_cid => {
                let limit = [229usize, 166, 87][cso as usize];
                charset_kind = ["ISOAdobe", "Expert", "ExpertSubset"][cso as usize].to_string();
                charset_ok = n <= limit;
            }
            o => {
                let o = o as usize;
                let fmt = rd(d, o, 1);
                charset_kind = format!("format{}", fmt.map(|f| f as i64).unwrap_or(-1));
                charset_ok = match fmt {
                    Some(0) => o + 1 + 2 * n.saturating_sub(1) <= d.len(),
                    Some(f @ 1) | Some(f @ 2) => {
                        let mut covered = 0usize;
                        let mut p = o + 1;
                        let mut ok = true;
                        while covered + 1 < n {
                            match (rd(d, p, 2), rd(d, p + 2, if f == 1 { 1 } else { 2 })) {
                                (Some(_), Some(nl)) => covered += nl + 1,
                                _ => {
                                    ok = false;
                                    break;
                                }
                            }
                            p += if f == 1 { 3 } else { 4 };
                        }
                        ok && covered + 1 == n.max(1)
                    }
                    _ => false,
                };
            }
        }
        // Private DICTs: of the Top DICT (name-keyed) or of every Font DICT (CID-keyed)
        let mut privs: Vec<(usize, usize)> = Vec::new();
        if let Some(p) = dict_get(&topd, 18) {
            if p.len() == 2 {
                privs.push((p[0] as usize, p[1] as usize));
            }
        }
        if let Some(fa) = dict_get(&topd, 0x0C24).and_then(|a| a.first()) {
            let fda = read_index(d, *fa as usize, "fdarray")?;
            fd_count = fda.count as i64;
            let ok = fda.count == 0 || (fda.mono && fda.inside && fda.first == 1);
            if ok {
                for k in 0..fda.count {
                    let fd = fda.obj(d, k).and_then(read_dict);
                    match fd.as_ref().and_then(|fd| dict_get(fd, 18)) {
                        Some(p) if p.len() == 2 => privs.push((p[0] as usize, p[1] as usize)),
                        _ => priv_inside = false,
                    }
                }
            }
            idx.push(fda);
            if !ok {
                why = "index:fdarray".into();
                return None;
            }
        }
        if let Some(fs) = dict_get(&topd, 0x0C25).and_then(|a| a.first()) {
            let o = *fs as usize;
            match rd(d, o, 1) {
                Some(0) => {
                    let fds = d.get(o + 1..o + 1 + n);
                    fdsel_glyphs = if fds.is_some() { n as i64 } else { -2 };
                    fd_max = fds.map(|f| f.iter().map(|x| *x as i64).max().unwrap_or(-1)).unwrap_or(-1);
                }
                Some(3) => {
                    let nr = rd(d, o + 1, 2)?;
                    let mut prev: i64 = -1;
                    let mut ok = nr >= 1;
                    for r in 0..nr {
                        let first = rd(d, o + 3 + 3 * r, 2)? as i64;
                        let fd = rd(d, o + 5 + 3 * r, 1)? as i64;
                        ok &= (r == 0 && first == 0) || (r > 0 && first > prev);
                        prev = first;
                        fd_max = fd_max.max(fd);
                    }
                    let sentinel = rd(d, o + 3 + 3 * nr, 2)? as i64;
                    fdsel_glyphs = if ok && sentinel > prev { sentinel } else { -2 };
                }
                _ => fdsel_glyphs = -2,
            }
        }
        for (k, (len, off)) in privs.iter().enumerate() {
            match d.get(*off..off + len).and_then(read_dict) {
                None => priv_inside = false,
                Some(pd) => {
                    if let Some(so) = dict_get(&pd, 19).and_then(|a| a.first()) {
                        let li = read_index(d, off + *so as usize, &format!("lsubr{}", k));
                        match li {
                            Some(li) => {
                                let ok = li.count == 0 || (li.mono && li.inside && li.first == 1);
                                idx.push(li);
                                if !ok {
                                    why = "index:lsubr".into();
                                    return None;
                                }
                            }
                            None => priv_inside = false,
                        }
                    }
                }
            }
        }
        Some(())
    };
    let walked = go().is_some();
    let facts = json!({"walked": walked, "why": why, "indexes": idx.iter().map(|i| i.json()).collect::<Vec<_>>(),
                       "numGlyphs": n_glyphs, "charsetOk": charset_ok, "charset": charset_kind,
                       "fdSelectGlyphs": fdsel_glyphs, "fdMax": fd_max, "fdCount": fd_count, "privateOk": priv_inside});
    CffWalk { facts, indexes: idx }
}

pub fn no_cff() -> Value {
    json!({"walked": false, "why": "absent", "indexes": [], "numGlyphs": -1, "charsetOk": true, "charset": "none",
           "fdSelectGlyphs": -1, "fdMax": -1, "fdCount": -1, "privateOk": true})
}

// ---- subset sum ------------------------------------------------------------------------------------------

/// Indices (each at most once) among `items` whose lengths add up to each target, `base` bytes being
/// there anyway. One table serves all targets.
pub fn subset_sum(items: &[(usize, usize)], base: usize, targets: &[usize]) -> Vec<(usize, Option<Vec<usize>>)> {
    let max = targets.iter().copied().max().unwrap_or(0);
    if max < base {
        return targets.iter().map(|t| (*t, None)).collect();
    }
    let cap = max - base;
    // from[s] = position in `items` of the item that first reached sum s (processed in order, so the
    // chain from[s] -> from[s - len] ... uses strictly decreasing positions: no item twice)
    let mut from: Vec<u32> = vec![u32::MAX; cap + 1];
    let mut reach = vec![false; cap + 1];
    reach[0] = true;
    for (pos, (_, len)) in items.iter().enumerate() {
        if *len == 0 || *len > cap {
            continue;
        }
        for s in (*len..=cap).rev() {
            if !reach[s] && reach[s - len] && (s - len == 0 || (from[s - len] as usize) < pos) {
                reach[s] = true;
                from[s] = pos as u32;
            }
        }
    }
    targets
        .iter()
        .map(|t| {
            if *t < base || !reach[*t - base] {
                return (*t, None);
            }
            let mut s = *t - base;
            let mut picked = Vec::new();
            while s > 0 {
                let pos = from[s] as usize;
                picked.push(items[pos].0);
                s -= items[pos].1;
            }
            picked.reverse();
            (*t, Some(picked))
        })
        .collect()
}
