//! Independent reader of the STRUCTURE of a cmap table (nothing here calls allsorts, nothing here decides):
//! header, encoding records, and for every distinct subtable its raw fields - format 4: the five header words,
//! endCode / startCode / idDelta / idRangeOffset arrays and the glyphIdArray as the declared length delimits it;
//! format 12 / 13: the groups; format 6 / 10: first code and entries; format 0: the 256 bytes.
//! SfntWrite!CmapStructOK recomputes the search fields, the segment order, the idRangeOffset addressing, the glyph
//! ids reached and the tiling of the table from these raw numbers.
//!
//! Also: cmap builders for the synthesized sources of the `cmapb` family (format 4 with glyphIdArray segments,
//! symbol 3/0, two subtables), which vh::fontgen does not have.
use serde_json::{json, Value};
use vh::fontgen::{be16, be32, W};

/// Subtables with more entries than this are not handed to the judge entry by entry (`big`): only cmaps the
/// library builds for a subset are judged, and those are small.
const MAX_ENTRIES: usize = 6000;

pub fn no_cmap() -> Value {
    json!({"walked": false, "why": "absent", "version": -1, "numTables": -1, "tableLen": -1, "records": [], "subtables": []})
}

fn blank_sub(off: usize, format: i64) -> Value {
    json!({"off": off, "format": format, "ok": false, "why": "", "declLen": -1, "big": false,
           "hdr": [], "ends": [], "starts": [], "deltas": [], "ros": [], "gia": [], "groups": [], "nGroups": -1,
           "first": -1, "count": -1})
}

fn walk_sub(d: &[u8], off: usize) -> Value {
    let st = match d.get(off..) {
        Some(s) if s.len() >= 2 => s,
        _ => {
            let mut v = blank_sub(off, -1);
            v["why"] = json!("offset-outside");
            return v;
        }
    };
    let format = be16(st, 0).unwrap() as i64;
    let mut v = blank_sub(off, format);
    let fail = |mut v: Value, why: &str| -> Value {
        v["why"] = json!(why);
        v
    };
    match format {
        0 => {
            let Some(len) = be16(st, 2) else { return fail(v, "f0:eof") };
            v["declLen"] = json!(len);
            let Some(g) = st.get(6..262) else { return fail(v, "f0:eof") };
            v["gia"] = json!(g.iter().map(|b| *b as u32).collect::<Vec<_>>());
            v["ok"] = json!(true);
        }
        4 => {
            let Some(len) = be16(st, 2) else { return fail(v, "f4:eof") };
            v["declLen"] = json!(len);
            let hdr: Option<Vec<u16>> = (0..4).map(|k| be16(st, 6 + 2 * k)).collect();
            let Some(mut hdr) = hdr else { return fail(v, "f4:eof") };
            let segx2 = hdr[0] as usize;
            if segx2 % 2 != 0 {
                return fail(v, "f4:segCountX2-odd");
            }
            let seg = segx2 / 2;
            let arr = |base: usize| -> Option<Vec<u16>> { (0..seg).map(|k| be16(st, base + 2 * k)).collect() };
            let (ends, pad) = (arr(14), be16(st, 14 + segx2));
            let (starts, deltas, ros) = (arr(16 + segx2), arr(16 + 2 * segx2), arr(16 + 3 * segx2));
            let (Some(ends), Some(pad), Some(starts), Some(deltas), Some(ros)) = (ends, pad, starts, deltas, ros) else {
                return fail(v, "f4:arrays-eof");
            };
            hdr.push(pad);
            v["hdr"] = json!(hdr);
            // the glyphIdArray is whatever the declared length leaves after the four arrays
            let fixed = 16 + 4 * segx2;
            let len = len as usize;
            if len < fixed || (len - fixed) % 2 != 0 {
                v["ends"] = json!(ends);
                return fail(v, "f4:length<arrays-or-odd");
            }
            let gia: Option<Vec<u16>> = (0..(len - fixed) / 2).map(|k| be16(st, fixed + 2 * k)).collect();
            let Some(gia) = gia else { return fail(v, "f4:glyphIdArray-eof") };
            if seg + gia.len() > MAX_ENTRIES {
                v["big"] = json!(true);
                v["ok"] = json!(true);
                return v;
            }
            v["ends"] = json!(ends);
            v["starts"] = json!(starts);
            v["deltas"] = json!(deltas);
            v["ros"] = json!(ros);
            v["gia"] = json!(gia);
            v["ok"] = json!(true);
        }
        6 => {
            let (Some(len), Some(first), Some(count)) = (be16(st, 2), be16(st, 6), be16(st, 8)) else { return fail(v, "f6:eof") };
            v["declLen"] = json!(len);
            v["first"] = json!(first);
            v["count"] = json!(count);
            if count as usize > MAX_ENTRIES {
                v["big"] = json!(true);
                v["ok"] = json!(true);
                return v;
            }
            let g: Option<Vec<u16>> = (0..count as usize).map(|k| be16(st, 10 + 2 * k)).collect();
            let Some(g) = g else { return fail(v, "f6:entries-eof") };
            v["gia"] = json!(g);
            v["ok"] = json!(true);
        }
        12 | 13 => {
            let (Some(len), Some(ng)) = (be32(st, 4), be32(st, 12)) else { return fail(v, "f12:eof") };
            v["declLen"] = json!(len.min(0x7FFF_FFFF));
            v["nGroups"] = json!(ng.min(0x7FFF_FFFF));
            if ng as usize > MAX_ENTRIES {
                v["big"] = json!(true);
                v["ok"] = json!(st.len() as u64 >= 16 + 12 * ng as u64);
                return v;
            }
            let mut groups = vec![];
            for k in 0..ng as usize {
                let (Some(s), Some(e), Some(g)) = (be32(st, 16 + 12 * k), be32(st, 20 + 12 * k), be32(st, 24 + 12 * k)) else {
                    return fail(v, "f12:groups-eof");
                };
                if s > 0x7FFF_0000 || e > 0x7FFF_0000 || g > 0x7FFF_0000 {
                    return fail(v, "f12:value-out-of-range");
                }
                groups.push(json!([s, e, g]));
            }
            v["groups"] = json!(groups);
            v["ok"] = json!(true);
        }
        _ => {
            // formats the library never emits: length only (formats 2 and 14 have their own reader elsewhere)
            let len = if format == 2 { be16(st, 2).map(|l| l as u32) } else if format >= 8 { be32(st, 4) } else { be16(st, 2).map(|l| l as u32) };
            v["declLen"] = json!(len.map(|l| l.min(0x7FFF_FFFF) as i64).unwrap_or(-1));
            v["ok"] = json!(len.is_some());
        }
    }
    v
}

/// The structure of a cmap table.
pub fn walk_cmap(d: &[u8]) -> Value {
    let mut w = no_cmap();
    w["tableLen"] = json!(d.len());
    let (Some(version), Some(n)) = (be16(d, 0), be16(d, 2)) else {
        w["why"] = json!("header-eof");
        return w;
    };
    w["version"] = json!(version);
    w["numTables"] = json!(n);
    let mut records = vec![];
    let mut offs: Vec<usize> = vec![];
    for k in 0..n as usize {
        let (Some(p), Some(e), Some(o)) = (be16(d, 4 + 8 * k), be16(d, 6 + 8 * k), be32(d, 8 + 8 * k)) else {
            w["why"] = json!("records-eof");
            return w;
        };
        if o > 0x7FFF_0000 {
            w["why"] = json!("record-offset-out-of-range");
            return w;
        }
        records.push(json!([p, e, o]));
        if !offs.contains(&(o as usize)) {
            offs.push(o as usize);
        }
    }
    offs.sort();
    w["records"] = json!(records);
    w["subtables"] = json!(offs.iter().map(|o| walk_sub(d, *o)).collect::<Vec<_>>());
    w["walked"] = json!(true);
    w["why"] = json!("");
    w
}

/// Measured classes of a walked cmap (for the vacuity counters; from the written table, reported only).
pub fn classes(w: &Value) -> Vec<String> {
    let mut f = vec![];
    let subs = w["subtables"].as_array().cloned().unwrap_or_default();
    f.push(format!("subtables={}", subs.len().min(3)));
    for (r, st) in w["records"].as_array().cloned().unwrap_or_default().iter().zip(subs.iter().cycle()) {
        let _ = st;
        f.push(format!("record:{}/{}", r[0], r[1]));
    }
    for st in &subs {
        let fmt = st["format"].as_i64().unwrap_or(-1);
        f.push(format!("f{}", fmt));
        if fmt == 4 {
            let seg = st["ends"].as_array().map(|a| a.len()).unwrap_or(0);
            if seg > 0 {
                let cls = if seg.is_power_of_two() {
                    "2^k"
                } else if (seg + 1).is_power_of_two() {
                    "2^k-1"
                } else if (seg - 1).is_power_of_two() {
                    "2^k+1"
                } else {
                    "other"
                };
                f.push(format!("f4.segCount:{}", cls));
                if seg <= 3 {
                    f.push(format!("f4.segCount={}", seg));
                }
                if seg >= 256 {
                    f.push("f4.segCount>=256".into());
                }
            }
            let ros: Vec<u64> = st["ros"].as_array().map(|a| a.iter().filter_map(|v| v.as_u64()).collect()).unwrap_or_default();
            let n_gia = ros.iter().filter(|r| **r != 0).count();
            f.push(format!("f4.glyphIdArray-segments:{}", n_gia.min(2)));
            if n_gia > 0 && ros.iter().any(|r| *r == 0) && ros.len() > 2 {
                f.push("f4.delta+glyphIdArray-segments".into());
            }
            // a glyphIdArray segment that is not the first one to use the array
            let later = ros.iter().enumerate().filter(|(_, r)| **r != 0).skip(1).next().is_some();
            if later {
                f.push("f4.second-glyphIdArray-segment".into());
            }
            if st["gia"].as_array().map(|a| a.iter().any(|g| g.as_u64() == Some(0))).unwrap_or(false) {
                f.push("f4.glyphIdArray-hole".into());
            }
            let (ends, starts) = (st["ends"].as_array().cloned().unwrap_or_default(), st["starts"].as_array().cloned().unwrap_or_default());
            if ends.len() >= 2 && ends[ends.len() - 2].as_u64().map(|e| e >= 0xFFFE).unwrap_or(false) {
                f.push("f4.real-segment-touches-0xFFFE".into());
            }
            if starts.last().and_then(|s| s.as_u64()).map(|s| s < 0xFFFF).unwrap_or(false) {
                f.push("f4.last-segment-is-real".into());
            }
        }
        if fmt == 12 {
            let ng = st["groups"].as_array().map(|a| a.len()).unwrap_or(0);
            f.push(format!("f12.groups:{}", if ng == 1 { "1" } else if ng < 16 { "2..15" } else { ">=16" }));
        }
    }
    f
}

// ---- builders for synthesized SOURCES ---------------------------------------------------------

/// One format 4 subtable from explicit segments (start, end, Some(first gid) = delta segment | None = glyphIdArray
/// segment whose glyph ids are the next entries of `gids`), final 0xFFFF segment appended.
pub fn format4_subtable(segs: &[(u16, u16, Option<u16>)], gids: &[u16]) -> Vec<u8> {
    let mut all: Vec<(u16, u16, Option<u16>)> = segs.to_vec();
    all.push((0xFFFF, 0xFFFF, Some(0)));
    let n = all.len();
    let mut es = 0u16;
    while (1usize << (es + 1)) <= n {
        es += 1;
    }
    let sr = 2 * (1u16 << es);
    let mut w = W::new();
    w.u16(4).u16((16 + 8 * n + 2 * gids.len()) as u16).u16(0).u16(2 * n as u16).u16(sr).u16(es).u16(2 * n as u16 - sr);
    for s in &all {
        w.u16(s.1);
    }
    w.u16(0);
    for s in &all {
        w.u16(s.0);
    }
    for s in &all {
        w.u16(match s.2 {
            Some(_) if s.0 == 0xFFFF => 1,
            Some(g) => g.wrapping_sub(s.0),
            None => 0,
        });
    }
    let mut used = 0usize;
    for (k, s) in all.iter().enumerate() {
        match s.2 {
            Some(_) => {
                w.u16(0);
            }
            None => {
                w.u16((2 * (n - k + used)) as u16);
                used += (s.1 - s.0) as usize + 1;
            }
        }
    }
    for g in gids {
        w.u16(*g);
    }
    w.done()
}

/// A cmap table from (platform, encoding, subtable bytes), records in the given order.
pub fn cmap_table(subs: &[(u16, u16, Vec<u8>)]) -> Vec<u8> {
    let mut w = W::new();
    w.u16(0).u16(subs.len() as u16);
    let mut off = 4 + 8 * subs.len();
    for (p, e, st) in subs {
        w.u16(*p).u16(*e).u32(off as u32);
        off += st.len();
    }
    for (_, _, st) in subs {
        w.bytes(st);
    }
    w.done()
}

/// Format 12 subtable bytes (no cmap header) from ascending (char, gid) pairs.
pub fn format12_subtable(pairs: &[(u32, u16)]) -> Vec<u8> {
    let t = vh::fontgen::cmap_format12(pairs);
    t[12..].to_vec()
}
