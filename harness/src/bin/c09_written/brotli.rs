// COPY of harness/src/bin/c11_woff2/brotli.rs (git HEAD d4157b3) for C09: that module belongs to the C11 check, so C09 keeps
// its own copy. Only this header was added.
//! A brotli *encoder* that only emits stored (uncompressed) meta-blocks (RFC 7932 section 9.2).
//! No compressor crate is available offline; a stored stream is a valid brotli stream.
//!
//!   stream      = WBITS, meta-block*, last-meta-block
//!   WBITS       = "0"                      (1 bit: window of 2^16 - 16 bytes)
//!   meta-block  = ISLAST=0, MNIBBLES (2 bits: 0 -> 4, 1 -> 5, 2 -> 6 nibbles), MLEN-1 in that many
//!                 nibbles, ISUNCOMPRESSED=1, zero bits up to the byte boundary, MLEN raw bytes
//!   last        = ISLAST=1, ISLASTEMPTY=1, zero bits up to the byte boundary
//! Bits are packed least-significant first. A length that fits fewer nibbles MUST use fewer
//! (a most significant nibble of zero with MNIBBLES > 4 is invalid).

pub struct BitW {
    pub out: Vec<u8>,
    acc: u64,
    n: u32,
}

impl BitW {
    pub fn new() -> BitW {
        BitW { out: Vec::new(), acc: 0, n: 0 }
    }
    pub fn bits(&mut self, v: u32, n: u32) {
        self.acc |= (v as u64) << self.n;
        self.n += n;
        while self.n >= 8 {
            self.out.push((self.acc & 0xFF) as u8);
            self.acc >>= 8;
            self.n -= 8;
        }
    }
    pub fn align(&mut self) {
        if self.n > 0 {
            self.out.push((self.acc & 0xFF) as u8);
            self.acc = 0;
            self.n = 0;
        }
    }
}

/// Encode `data` as stored meta-blocks of at most `chunk` bytes (clamped to 1 ..= 2^24).
pub fn stored(data: &[u8], chunk: usize) -> Vec<u8> {
    let chunk = chunk.clamp(1, 1 << 24);
    let mut w = BitW::new();
    w.bits(0, 1); // WBITS = 16
    for c in data.chunks(chunk) {
        let len = c.len();
        let nib: u32 = if len <= 1 << 16 {
            4
        } else if len <= 1 << 20 {
            5
        } else {
            6
        };
        w.bits(0, 1); // ISLAST
        w.bits(nib - 4, 2); // MNIBBLES
        w.bits((len - 1) as u32, 4 * nib); // MLEN - 1
        w.bits(1, 1); // ISUNCOMPRESSED
        w.align();
        w.out.extend_from_slice(c);
    }
    w.bits(1, 1); // ISLAST
    w.bits(1, 1); // ISLASTEMPTY
    w.align();
    w.out
}

/// Self-test against the reference decoder crate (the same crate allsorts uses, called directly):
/// a stored stream must decode to its input for all block sizes used by the check.
pub fn self_test() -> Result<(), String> {
    use std::io::Read;
    let mut data = Vec::new();
    let mut x: u32 = 12345;
    for _ in 0..200_000 {
        x = x.wrapping_mul(1664525).wrapping_add(1013904223);
        data.push((x >> 24) as u8);
    }
    for (len, chunk) in [(0usize, 10usize), (1, 1), (5, 7), (65536, 65536), (65537, 65536), (70000, 1 << 24), (200_000, 1 << 20), (200_000, 4096), (1000, 7)] {
        let enc = stored(&data[..len], chunk);
        let mut dec = Vec::new();
        brotli_decompressor::Decompressor::new(std::io::Cursor::new(&enc[..]), 4096)
            .read_to_end(&mut dec)
            .map_err(|e| format!("brotli self-test: len {} chunk {}: {}", len, chunk, e))?;
        if dec != data[..len] {
            return Err(format!("brotli self-test: len {} chunk {}: output differs", len, chunk));
        }
    }
    Ok(())
}
