//! Independent reader of glyf / loca / hmtx records for C09 (shares no code with allsorts; the
//! simple-glyph walk follows the OpenType text the same way c11_woff2/glyph.rs does - copied, not
//! imported, because that module belongs to another check).
//!
//! Every glyph record of a written font is walked and projected to a LAYOUT record of
//! SfntWrite.tla:
//!   kind   "empty" | "simple" | "composite"
//!   ok     the walk reached the end of the structure inside the record
//!   flags  composite: the flag word of each component in order (as far as they could be read)
//!   instr  length of the instruction block, -1 when the record has none (composite only)
//!   used   bytes the walk consumed
//!   len    length of the record according to loca
//!   why    "" or the reason the walk stopped
//! The judge (SfntWrite!GlyphsOK) recomputes the size of a composite from its flag words and
//! compares it with `used` and `len`; identical layouts of one font are folded into one class with
//! a count so that the trace stays small.

use serde_json::{json, Value};
use std::collections::BTreeMap;

fn be16(d: &[u8], at: usize) -> Option<u16> {
    d.get(at..at + 2).map(|b| u16::from_be_bytes([b[0], b[1]]))
}

#[derive(Clone, Debug)]
pub struct Layout {
    pub kind: &'static str,
    pub ok: bool,
    pub flags: Vec<u16>,
    pub instr: i64,
    pub used: usize,
    pub len: usize,
    pub why: &'static str,
    /// composite: (flags, gid, arg1, arg2) per component; simple: empty
    pub comps: Vec<(u16, u16, i32, i32)>,
    pub x_min: i16,
    pub n_points: usize,
    /// the bounding box of the glyph header (xMin, yMin, xMax, yMax) and numberOfContours
    pub bbox: [i16; 4],
    pub n_contours: i16,
}

impl Layout {
    fn new(kind: &'static str, len: usize) -> Layout {
        Layout { kind, ok: false, flags: vec![], instr: -1, used: 0, len, why: "", comps: vec![], x_min: 0, n_points: 0, bbox: [0; 4], n_contours: 0 }
    }
    fn fail(mut self, used: usize, why: &'static str) -> Layout {
        self.ok = false;
        self.used = used;
        self.why = why;
        self
    }
}

/// Walk one glyph record (the bytes between two loca offsets).
pub fn walk(g: &[u8]) -> Layout {
    if g.is_empty() {
        let mut l = Layout::new("empty", 0);
        l.ok = true;
        return l;
    }
    let nc = match be16(g, 0) {
        Some(v) => v as i16,
        None => return Layout::new("simple", g.len()).fail(0, "eof:header"),
    };
    if g.len() < 10 {
        return Layout::new(if nc < 0 { "composite" } else { "simple" }, g.len()).fail(2, "eof:header");
    }
    let x_min = be16(g, 2).unwrap() as i16;
    let bbox = [x_min, be16(g, 4).unwrap() as i16, be16(g, 6).unwrap() as i16, be16(g, 8).unwrap() as i16];
    if nc >= 0 {
        let mut l = Layout::new("simple", g.len());
        l.x_min = x_min;
        l.bbox = bbox;
        l.n_contours = nc;
        let n = nc as usize;
        let mut at = 10usize;
        let mut last_end: i64 = -1;
        for _ in 0..n {
            let e = match be16(g, at) {
                Some(e) => e as i64,
                None => return l.fail(at, "eof:endPts"),
            };
            if e < last_end {
                return l.fail(at, "endPts-decrease");
            }
            last_end = e;
            at += 2;
        }
        let npts = (last_end + 1) as usize;
        l.n_points = npts;
        if n == 0 {
            // numberOfContours = 0 with a header: nothing else is required
            l.ok = true;
            l.used = at;
            return l;
        }
        let il = match be16(g, at) {
            Some(v) => v as usize,
            None => return l.fail(at, "eof:instructionLength"),
        };
        at += 2;
        if g.len() < at + il {
            return l.fail(at, "eof:instructions");
        }
        at += il;
        l.instr = il as i64;
        let mut flags: Vec<u8> = Vec::with_capacity(npts);
        while flags.len() < npts {
            let f = match g.get(at) {
                Some(f) => *f,
                None => return l.fail(at, "eof:flags"),
            };
            at += 1;
            flags.push(f);
            if f & 0x08 != 0 {
                let rep = match g.get(at) {
                    Some(r) => *r as usize,
                    None => return l.fail(at, "eof:flags"),
                };
                at += 1;
                for _ in 0..rep {
                    flags.push(f);
                }
            }
        }
        if flags.len() != npts {
            return l.fail(at, "flag-repeat-overrun");
        }
        let mut need = 0usize;
        for &f in &flags {
            need += if f & 0x02 != 0 { 1 } else if f & 0x10 == 0 { 2 } else { 0 };
            need += if f & 0x04 != 0 { 1 } else if f & 0x20 == 0 { 2 } else { 0 };
        }
        if g.len() < at + need {
            return l.fail(at, "eof:coordinates");
        }
        at += need;
        l.ok = true;
        l.used = at;
        return l;
    }
    let mut l = Layout::new("composite", g.len());
    l.x_min = x_min;
    l.bbox = bbox;
    l.n_contours = nc;
    let mut at = 10usize;
    let mut have_instr = false;
    loop {
        let flags = match be16(g, at) {
            Some(f) => f,
            None => return l.fail(at, "eof:componentFlags"),
        };
        l.flags.push(flags);
        let gid = match be16(g, at + 2) {
            Some(v) => v,
            None => return l.fail(at, "eof:componentGlyph"),
        };
        at += 4;
        let words = flags & 0x0001 != 0;
        let xy = flags & 0x0002 != 0;
        let (a1, a2, sz) = if words {
            match (be16(g, at), be16(g, at + 2)) {
                (Some(a), Some(b)) => {
                    if xy {
                        (a as i16 as i32, b as i16 as i32, 4)
                    } else {
                        (a as i32, b as i32, 4)
                    }
                }
                _ => return l.fail(at, "eof:componentArguments"),
            }
        } else {
            match (g.get(at), g.get(at + 1)) {
                (Some(a), Some(b)) => {
                    if xy {
                        (*a as i8 as i32, *b as i8 as i32, 2)
                    } else {
                        (*a as i32, *b as i32, 2)
                    }
                }
                _ => return l.fail(at, "eof:componentArguments"),
            }
        };
        at += sz;
        let tr = if flags & 0x0008 != 0 {
            2
        } else if flags & 0x0040 != 0 {
            4
        } else if flags & 0x0080 != 0 {
            8
        } else {
            0
        };
        if g.len() < at + tr {
            return l.fail(at, "eof:componentTransform");
        }
        at += tr;
        l.comps.push((flags, gid, a1, a2));
        have_instr |= flags & 0x0100 != 0;
        if flags & 0x0020 == 0 {
            break;
        }
        if l.flags.len() > 4096 {
            return l.fail(at, "component-chain-too-long");
        }
    }
    if have_instr {
        let il = match be16(g, at) {
            Some(v) => v as usize,
            None => return l.fail(at, "eof:instructionLength"),
        };
        at += 2;
        if g.len() < at + il {
            return l.fail(at, "eof:instructions");
        }
        at += il;
        l.instr = il as i64;
    }
    l.ok = true;
    l.used = at;
    l
}

pub struct GlyfWalk {
    pub layouts: Vec<Layout>,
}

/// loca offsets (the first numGlyphs + 1 entries) and one layout per glyph.
pub fn walk_glyf(glyf: &[u8], loca: &[u8], long: bool, num_glyphs: usize) -> Option<GlyfWalk> {
    let sz = if long { 4 } else { 2 };
    if loca.len() < (num_glyphs + 1) * sz {
        return None;
    }
    let mut offs = Vec::with_capacity(num_glyphs + 1);
    for k in 0..=num_glyphs {
        let at = k * sz;
        offs.push(if long {
            u32::from_be_bytes([loca[at], loca[at + 1], loca[at + 2], loca[at + 3]]) as usize
        } else {
            2 * u16::from_be_bytes([loca[at], loca[at + 1]]) as usize
        });
    }
    let mut layouts = Vec::with_capacity(num_glyphs);
    for k in 0..num_glyphs {
        let (a, b) = (offs[k], offs[k + 1]);
        if a > b || b > glyf.len() {
            let mut l = Layout::new("simple", 0);
            l.why = "loca-range";
            layouts.push(l);
        } else {
            layouts.push(walk(&glyf[a..b]));
        }
    }
    Some(GlyfWalk { layouts })
}

/// Fold identical layouts into classes [{kind, ok, flags, instr, used, len, why, count, first}].
pub fn classes(layouts: &[Layout]) -> Vec<Value> {
    let mut m: BTreeMap<(String, bool, Vec<u16>, i64, usize, usize, String), (usize, usize)> = BTreeMap::new();
    for (gid, l) in layouts.iter().enumerate() {
        // simple glyphs: the judge needs only used vs len; fold on the slack
        let key = if l.kind == "composite" || !l.ok {
            (l.kind.to_string(), l.ok, l.flags.clone(), l.instr, l.used, l.len, l.why.to_string())
        } else {
            (l.kind.to_string(), l.ok, vec![], -1, 0, l.len - l.used, String::new())
        };
        let e = m.entry(key).or_insert((0, gid));
        e.0 += 1;
    }
    m.into_iter()
        .map(|((kind, ok, flags, instr, used, len, why), (count, first))| {
            json!({"kind": kind, "ok": ok, "flags": flags, "instr": instr, "used": used, "len": len, "why": why,
                   "count": count, "first": first})
        })
        .collect()
}

/// (advance, lsb) per glyph, or None when hmtx is too short / numberOfHMetrics is unusable.
pub fn read_hmtx(hmtx: &[u8], n: usize, nhm: usize) -> Option<Vec<(u16, i16)>> {
    if nhm == 0 || nhm > n || hmtx.len() < 4 * nhm + 2 * (n - nhm) {
        return None;
    }
    let mut out = Vec::with_capacity(n);
    for g in 0..n {
        if g < nhm {
            out.push((u16::from_be_bytes([hmtx[4 * g], hmtx[4 * g + 1]]), i16::from_be_bytes([hmtx[4 * g + 2], hmtx[4 * g + 3]])));
        } else {
            let at = 4 * nhm + 2 * (g - nhm);
            out.push((out[nhm - 1].0, i16::from_be_bytes([hmtx[at], hmtx[at + 1]])));
        }
    }
    Some(out)
}

/// Number of glyphs with an outline (numberOfContours != 0 and a header) whose hmtx left side
/// bearing differs from the xMin of the glyph header; None when the tables cannot be followed.
pub fn lsb_mismatches(w: &GlyfWalk, metrics: &[(u16, i16)]) -> usize {
    w.layouts
        .iter()
        .zip(metrics.iter())
        .filter(|(l, m)| l.kind != "empty" && l.len >= 10 && !(l.kind == "simple" && l.n_points == 0) && l.x_min != m.1)
        .count()
}
