//! Concretiser: abstract font of a CASE line (glyph records + metrics) -> sfnt tables.

use super::enc::SrcFont;
use super::glyph::{write_glyph, GlyphRec};
use serde_json::Value;
use vh::fontgen::{self, tag_u32};

pub struct AbstractFont {
    pub glyphs: Vec<GlyphRec>,
    pub nhm: usize,
    pub adv: Vec<u16>,
    pub lsb: Vec<i16>,
}

impl AbstractFont {
    pub fn from_json(v: &Value) -> AbstractFont {
        AbstractFont {
            glyphs: v["glyphs"].as_array().unwrap().iter().map(GlyphRec::from_json).collect(),
            nhm: v["nhm"].as_u64().unwrap() as usize,
            adv: v["adv"].as_array().unwrap().iter().map(|x| x.as_u64().unwrap() as u16).collect(),
            lsb: v["lsb"].as_array().unwrap().iter().map(|x| x.as_i64().unwrap() as i16).collect(),
        }
    }
}

/// Tables in the order head, hhea, maxp, OS/2, hmtx, cmap, loca, glyf, name, post, cvt, ZZZZ.
/// `style` selects how simple glyphs are written (0 short vectors, 1 words + repeat flags);
/// `salt` makes the name table differ between fonts that should not share it; `zlen` is the length
/// of the arbitrary-tag table ZZZZ (bytes 1, 2, 3, ... so that 13 gives the historical content).
pub fn build(f: &AbstractFont, loca_long: bool, style: u8, salt: u8, zlen: usize) -> SrcFont {
    build_ov(f, loca_long, style, salt, zlen, false)
}

/// `overlap`: the simple glyphs with an odd glyph number carry OVERLAP_SIMPLE on their first flag (OverlapRule of
/// MC_Woff2.tla). Two more tables than `build` documents: AAT `feat` and Graphite `Feat` (confusable known tags).
pub fn build_ov(f: &AbstractFont, loca_long: bool, style: u8, salt: u8, zlen: usize, overlap: bool) -> SrcFont {
    let n = f.glyphs.len();
    let mut recs: Vec<Vec<u8>> = f.glyphs.iter().map(|g| write_glyph(g, style)).collect();
    if overlap {
        for (g, r) in recs.iter_mut().enumerate() {
            if g % 2 == 1 {
                if let Some(at) = super::glyph::first_flag_offset(r) {
                    r[at] |= 0x40;
                }
            }
        }
    }
    let (glyf, loca) = fontgen::glyf_loca(&recs, loca_long);
    let long: Vec<(u16, i16)> = (0..f.nhm).map(|g| (f.adv[g], f.lsb[g])).collect();
    let lsbs: Vec<i16> = (f.nhm..n).map(|g| f.lsb[g]).collect();
    let fam = format!("Verif{}", salt);
    let tables: Vec<(&str, Vec<u8>)> = vec![
        ("head", fontgen::head(1000, loca_long, (-100, -200, 1000, 900))),
        ("hhea", fontgen::hhea(f.nhm as u16, 800, -200, 1200)),
        ("maxp", fontgen::maxp_tt(n as u16)),
        ("OS/2", fontgen::os2_v4(0x20, 0x7E)),
        ("hmtx", fontgen::hmtx(&long, &lsbs)),
        ("cmap", fontgen::cmap_format12(&[(0x41, (n as u16).saturating_sub(1))])),
        ("loca", loca),
        ("glyf", glyf),
        ("name", fontgen::name(&[(1, fam.as_str()), (2, "Regular"), (4, "Verif Regular"), (6, "Verif-Regular")])),
        ("post", fontgen::post_v3()),
        ("cvt ", vec![0, 10, 0, 20, 255, 246]),
        ("ZZZZ", (1..=zlen).map(|k| (k % 256) as u8).collect()),
        ("feat", vec![0, 1, 0, 0, 0, 0, 0, 0, 0, 0, 0, 0, b'a', b'a', b't', salt]),
        ("Feat", vec![0, 2, 0, 0, 0, 0, 0, 0, 0, 0, 0, 0, b'G', b'r', salt]),
    ];
    SrcFont { flavor: 0x00010000, tables: tables.into_iter().map(|(t, d)| (tag_u32(t), d)).collect() }
}
