//! The harness's own WOFF2 encoder, written from the text of the W3C recommendation
//! (it shares no code or table with allsorts). Encoder freedom is explicit in `Choices`.

use super::brotli;
use super::glyph::{self, comp_bytes, GlyphRec, Kind};
use rand::rngs::StdRng;
use rand::Rng;
use vh::fontgen::{be16, tag_u32, W};

// ---- variable length integers ------------------------------------------------------------------

pub fn enc_b128(v: u32) -> Vec<u8> {
    let mut septets = vec![(v & 0x7F) as u8];
    let mut x = v >> 7;
    while x != 0 {
        septets.push((x & 0x7F) as u8);
        x >>= 7;
    }
    septets.reverse();
    let n = septets.len();
    septets.iter().enumerate().map(|(k, s)| if k + 1 < n { s | 0x80 } else { *s }).collect()
}

/// All forms a value has: "one", "c255" (byte + 253), "c254" (byte + 506), "c253" (word).
pub fn forms_255(v: u16) -> Vec<&'static str> {
    let mut f = Vec::new();
    if v < 253 {
        f.push("one");
    }
    if (253..509).contains(&v) {
        f.push("c255");
    }
    if (506..762).contains(&v) {
        f.push("c254");
    }
    f.push("c253");
    f
}

pub fn enc_255_form(v: u16, form: &str) -> Vec<u8> {
    match form {
        "one" => vec![v as u8],
        "c255" => vec![255, (v - 253) as u8],
        "c254" => vec![254, (v - 506) as u8],
        _ => vec![253, (v >> 8) as u8, (v & 0xFF) as u8],
    }
}

pub fn enc_255(v: u16, policy: &str, rng: &mut StdRng) -> Vec<u8> {
    let forms = forms_255(v);
    let pref: &[&str] = match policy {
        "short" => &["one", "c255", "c254", "c253"],
        "word" => &["c253"],
        "alt" => &["c254", "c255", "c253"],
        _ => {
            let f = forms[rng.gen_range(0..forms.len())];
            return enc_255_form(v, f);
        }
    };
    let f = pref.iter().find(|p| forms.contains(p)).unwrap();
    enc_255_form(v, f)
}

// ---- triplet table, derived from the five families of section 5.2 ---------------------------------

#[derive(Clone, Copy, Debug)]
pub struct Trip {
    pub nb: u32,
    pub xb: u32,
    pub yb: u32,
    pub dx: i32,
    pub dy: i32,
    pub xs: i32,
    pub ys: i32,
}

fn sgn(bit: u32) -> i32 {
    if bit == 1 {
        1
    } else {
        -1
    }
}

pub fn trip(i: u32) -> Trip {
    if i < 10 {
        Trip { nb: 1, xb: 0, yb: 8, dx: 0, dy: 256 * (i / 2) as i32, xs: 1, ys: sgn(i & 1) }
    } else if i < 20 {
        Trip { nb: 1, xb: 8, yb: 0, dx: 256 * ((i - 10) / 2) as i32, dy: 0, xs: sgn(i & 1), ys: 1 }
    } else if i < 84 {
        let k = i - 20;
        Trip { nb: 1, xb: 4, yb: 4, dx: 1 + 16 * (k / 16) as i32, dy: 1 + 16 * ((k / 4) % 4) as i32, xs: sgn(k & 1), ys: sgn((k >> 1) & 1) }
    } else if i < 120 {
        let k = i - 84;
        Trip { nb: 2, xb: 8, yb: 8, dx: 1 + 256 * (k / 12) as i32, dy: 1 + 256 * ((k / 4) % 3) as i32, xs: sgn(k & 1), ys: sgn((k >> 1) & 1) }
    } else {
        let k = (i - 120) % 4;
        let w = if i < 124 { 12 } else { 16 };
        Trip { nb: if i < 124 { 3 } else { 4 }, xb: w, yb: w, dx: 0, dy: 0, xs: sgn(k & 1), ys: sgn((k >> 1) & 1) }
    }
}

pub fn fits(i: u32, dx: i32, dy: i32) -> bool {
    let t = trip(i);
    let x = dx.abs() - t.dx;
    let y = dy.abs() - t.dy;
    x >= 0
        && x < (1 << t.xb)
        && y >= 0
        && y < (1 << t.yb)
        && (dx <= 0 || t.xs == 1)
        && (dx >= 0 || t.xs == -1)
        && (dy <= 0 || t.ys == 1)
        && (dy >= 0 || t.ys == -1)
}

pub fn trip_bytes(i: u32, dx: i32, dy: i32) -> Vec<u8> {
    let t = trip(i);
    let x = (dx.abs() - t.dx) as u64;
    let y = (dy.abs() - t.dy) as u64;
    let n = (x << t.yb) | y;
    (0..t.nb).rev().map(|k| ((n >> (8 * k)) & 0xFF) as u8).collect()
}

/// Index arithmetic of the reference encoder (policy "ref").
pub fn reference_index(dx: i32, dy: i32) -> u32 {
    let (ax, ay) = (dx.unsigned_abs(), dy.unsigned_abs());
    let xsb = if dx < 0 { 0 } else { 1 };
    let ysb = if dy < 0 { 0 } else { 1 };
    let xy = xsb + 2 * ysb;
    if dx == 0 && ay < 1280 {
        2 * (ay / 256) + ysb
    } else if dy == 0 && ax < 1280 {
        10 + 2 * (ax / 256) + xsb
    } else if ax < 65 && ay < 65 {
        20 + 16 * ((ax - 1) / 16) + 4 * ((ay - 1) / 16) + xy
    } else if ax < 769 && ay < 769 {
        84 + 12 * ((ax - 1) / 256) + 4 * ((ay - 1) / 256) + xy
    } else if ax < 4096 && ay < 4096 {
        120 + xy
    } else {
        124 + xy
    }
}

pub fn pick_trip(dx: i32, dy: i32, policy: &str, rng: &mut StdRng) -> u32 {
    if policy == "ref" {
        return reference_index(dx, dy);
    }
    let mut c: Vec<u32> = (0..128).filter(|&i| fits(i, dx, dy)).collect();
    assert!(!c.is_empty(), "no triplet entry for ({}, {})", dx, dy);
    match policy {
        "max" => *c.last().unwrap(),
        "min" | "alt" => {
            c.sort_by_key(|&i| trip(i).nb * 128 + i);
            if policy == "alt" && c.len() > 1 {
                c[1]
            } else {
                c[0]
            }
        }
        _ => c[rng.gen_range(0..c.len())],
    }
}

// ---- transformed glyf ---------------------------------------------------------------------------

#[derive(Clone, Debug)]
pub struct Choices {
    /// 0: glyf/loca transformed, 3: null transform
    pub glyf: u8,
    /// 0: hmtx untransformed, else the flag bits the encoder would like to set (1, 2, 3)
    pub hmtx: u8,
    pub trip: String,
    pub u16p: String,
    /// "needed" | "all" | "rand"
    pub bbox: String,
    /// "asis" | "bytag" | "reverse"
    pub order: String,
    /// "known" | "explicit"
    pub tags: String,
    pub overlap: bool,
    pub chunk: usize,
    /// 0: nothing after the compressed table data, 1: extended metadata block, 2: metadata + private data
    pub meta: u8,
    /// per member of a collection: glyf/loca transform version and wanted hmtx flags (empty: `glyf` / `hmtx` for all)
    pub fgt: Vec<u8>,
    pub fhf: Vec<u8>,
}

impl Choices {
    pub fn to_json(&self) -> serde_json::Value {
        serde_json::json!({"glyf": self.glyf, "hmtx": self.hmtx, "trip": self.trip, "u16": self.u16p, "bbox": self.bbox,
            "order": self.order, "tags": self.tags, "overlap": self.overlap as u8, "chunk": self.chunk, "meta": self.meta,
            "fgt": self.fgt, "fhf": self.fhf})
    }
}

#[derive(Clone, Debug, Default)]
pub struct GlyphStreams {
    pub nc: Vec<u8>,
    pub np: Vec<u8>,
    pub fl: Vec<u8>,
    pub gl: Vec<u8>,
    pub co: Vec<u8>,
    pub bb: Vec<u8>,
    pub ins: Vec<u8>,
    pub bit: bool,
}

pub fn encode_glyph_streams(g: &GlyphRec, ch: &Choices, rng: &mut StdRng) -> GlyphStreams {
    let mut s = GlyphStreams::default();
    match g.kind {
        Kind::Empty => {
            s.nc = vec![0, 0];
        }
        Kind::Simple => {
            s.nc = (g.ends.len() as i16).to_be_bytes().to_vec();
            let mut prev: i32 = -1;
            for &e in &g.ends {
                s.np.extend(enc_255((e as i32 - prev) as u16, &ch.u16p, rng));
                prev = e as i32;
            }
            let (mut x, mut y) = (0i32, 0i32);
            for p in &g.pts {
                let (dx, dy) = (p.0 as i32 - x, p.1 as i32 - y);
                let i = pick_trip(dx, dy, &ch.trip, rng);
                s.fl.push(i as u8 | if p.2 { 0 } else { 0x80 });
                s.gl.extend(trip_bytes(i, dx, dy));
                x = p.0 as i32;
                y = p.1 as i32;
            }
            s.gl.extend(enc_255(g.instr.len() as u16, &ch.u16p, rng));
            s.ins = g.instr.clone();
            let needed = g.bbox != g.computed_bbox();
            s.bit = needed
                || match ch.bbox.as_str() {
                    "all" => true,
                    "rand" => rng.gen_bool(0.5),
                    _ => false,
                };
            if s.bit {
                for v in g.bbox {
                    s.bb.extend(v.to_be_bytes());
                }
            }
        }
        Kind::Composite => {
            s.nc = (-1i16).to_be_bytes().to_vec();
            for c in &g.comps {
                s.co.extend(comp_bytes(c));
            }
            if g.has_instr_flag() {
                s.gl.extend(enc_255(g.instr.len() as u16, &ch.u16p, rng));
                s.ins = g.instr.clone();
            }
            s.bit = true;
            for v in g.bbox {
                s.bb.extend(v.to_be_bytes());
            }
        }
    }
    s
}

pub fn bitmap_bytes(bits: &[bool]) -> Vec<u8> {
    let mut bm = vec![0u8; 4 * ((bits.len() + 31) / 32)];
    for (g, &b) in bits.iter().enumerate() {
        if b {
            bm[g / 8] |= 0x80 >> (g % 8);
        }
    }
    bm
}

/// overlapSimpleBitmap: one bit per glyph (glyph 0 = most significant bit of the first byte), padded to whole bytes.
pub fn overlap_bytes(bits: &[bool]) -> Vec<u8> {
    let mut bm = vec![0u8; (bits.len() + 7) / 8];
    for (g, &b) in bits.iter().enumerate() {
        if b {
            bm[g / 8] |= 0x80 >> (g % 8);
        }
    }
    bm
}

/// reserved, optionFlags, numGlyphs, indexFormat, seven stream sizes, streams, optional
/// overlapSimpleBitmap (`overlap`: which glyphs carry OVERLAP_SIMPLE on their first flag in the source).
pub fn glyf_table_bytes(per: &[GlyphStreams], index_format: u16, overlap: Option<&[bool]>) -> Vec<u8> {
    let cat = |f: fn(&GlyphStreams) -> &Vec<u8>| -> Vec<u8> { per.iter().flat_map(|s| f(s).iter().copied()).collect() };
    let (nc, np, fl, gl, co, bb, ins) = (cat(|s| &s.nc), cat(|s| &s.np), cat(|s| &s.fl), cat(|s| &s.gl), cat(|s| &s.co), cat(|s| &s.bb), cat(|s| &s.ins));
    let bm = bitmap_bytes(&per.iter().map(|s| s.bit).collect::<Vec<_>>());
    let mut w = W::new();
    w.u16(0).u16(overlap.is_some() as u16).u16(per.len() as u16).u16(index_format);
    w.u32(nc.len() as u32).u32(np.len() as u32).u32(fl.len() as u32).u32(gl.len() as u32).u32(co.len() as u32);
    w.u32((bm.len() + bb.len()) as u32).u32(ins.len() as u32);
    w.bytes(&nc).bytes(&np).bytes(&fl).bytes(&gl).bytes(&co).bytes(&bm).bytes(&bb).bytes(&ins);
    if let Some(bits) = overlap {
        w.bytes(&overlap_bytes(bits));
    }
    w.done()
}

pub fn enc_hmtx(flags: u8, n: usize, nhm: usize, adv: &[u16], lsb: &[i16]) -> Vec<u8> {
    let mut w = W::new();
    w.u8(flags);
    for g in 0..nhm {
        w.u16(adv[g]);
    }
    if flags & 1 == 0 {
        for g in 0..nhm {
            w.i16(lsb[g]);
        }
    }
    if flags & 2 == 0 {
        for g in nhm..n {
            w.i16(lsb[g]);
        }
    }
    w.done()
}

// ---- table directory, collection directory, file -------------------------------------------------

pub const KNOWN_TAGS: [&str; 63] = [
    "cmap", "head", "hhea", "hmtx", "maxp", "name", "OS/2", "post", "cvt ", "fpgm", "glyf", "loca", "prep", "CFF ", "VORG", "EBDT",
    "EBLC", "gasp", "hdmx", "kern", "LTSH", "PCLT", "VDMX", "vhea", "vmtx", "BASE", "GDEF", "GPOS", "GSUB", "EBSC", "JSTF", "MATH",
    "CBDT", "CBLC", "COLR", "CPAL", "SVG ", "sbix", "acnt", "avar", "bdat", "bloc", "bsln", "cvar", "fdsc", "feat", "fmtx", "fvar",
    "gvar", "hsty", "just", "lcar", "mort", "morx", "opbd", "prop", "trak", "Zapf", "Silf", "Glat", "Gloc", "Feat", "Sill",
];

pub fn known_index(tag: u32) -> Option<u8> {
    KNOWN_TAGS.iter().position(|t| tag_u32(t) == tag).map(|k| k as u8)
}

#[derive(Clone, Debug)]
pub struct DirTable {
    pub tag: u32,
    pub explicit: bool,
    pub ver: u8,
    pub orig_len: u32,
    pub tlen: Option<u32>,
    /// the bytes stored in the compressed block for this table
    pub data: Vec<u8>,
}

pub fn dir_entry_bytes(t: &DirTable) -> Vec<u8> {
    let idx = if t.explicit { 63 } else { known_index(t.tag).unwrap_or(63) };
    let mut out = vec![idx | (t.ver << 6)];
    if idx == 63 {
        out.extend(t.tag.to_be_bytes());
    }
    out.extend(enc_b128(t.orig_len));
    if let Some(l) = t.tlen {
        out.extend(enc_b128(l));
    }
    out
}

pub struct CollFont {
    pub flavor: u32,
    pub idx: Vec<u16>,
}

pub fn collection_bytes(version: u32, fonts: &[CollFont], policy: &str, rng: &mut StdRng) -> Vec<u8> {
    let mut out = version.to_be_bytes().to_vec();
    out.extend(enc_255(fonts.len() as u16, policy, rng));
    for f in fonts {
        out.extend(enc_255(f.idx.len() as u16, policy, rng));
        out.extend(f.flavor.to_be_bytes());
        for &i in &f.idx {
            out.extend(enc_255(i, policy, rng));
        }
    }
    out
}

/// header (48 bytes) + directory + collection directory + compressed block, padded to 4 bytes
pub fn file_bytes(flavor: u32, num_tables: u16, dir: &[u8], coll: &[u8], compressed: &[u8], total_sfnt_size: u32) -> Vec<u8> {
    file_bytes_meta(flavor, num_tables, dir, coll, compressed, total_sfnt_size, 0)
}

pub const META_XML: &str = "<?xml version=\"1.0\" encoding=\"UTF-8\"?><metadata version=\"1.0\"><uniqueid id=\"verif.c11\"/></metadata>";
pub const PRIVATE_DATA: [u8; 7] = [0xC1, 0x10, 0xFF, 0x00, 0x80, 0x7F, 0x01];

/// The same with an extended metadata block (`meta` >= 1: brotli-compressed XML at a 4-byte boundary after the
/// compressed table data) and a private data block (`meta` = 2: at the next 4-byte boundary, last in the file).
pub fn file_bytes_meta(flavor: u32, num_tables: u16, dir: &[u8], coll: &[u8], compressed: &[u8], total_sfnt_size: u32, meta: u8) -> Vec<u8> {
    if meta > 0 {
        let pad4 = |x: usize| (x + 3) & !3;
        let meta_off = pad4(48 + dir.len() + coll.len() + compressed.len());
        let mblock = brotli::stored(META_XML.as_bytes(), 50);
        let priv_off = if meta == 2 { pad4(meta_off + mblock.len()) } else { 0 };
        let total = if meta == 2 { priv_off + PRIVATE_DATA.len() } else { meta_off + mblock.len() };
        let mut w = W::new();
        w.tag("wOF2").u32(flavor).u32(total as u32).u16(num_tables).u16(0).u32(total_sfnt_size).u32(compressed.len() as u32);
        w.u16(1).u16(0);
        w.u32(meta_off as u32).u32(mblock.len() as u32).u32(META_XML.len() as u32);
        w.u32(priv_off as u32).u32(if meta == 2 { PRIVATE_DATA.len() as u32 } else { 0 });
        w.bytes(dir).bytes(coll).bytes(compressed);
        w.pad4();
        w.bytes(&mblock);
        if meta == 2 {
            w.pad4();
            w.bytes(&PRIVATE_DATA);
        }
        return w.done();
    }
    let mut w = W::new();
    let len = 48 + dir.len() + coll.len() + compressed.len();
    let padded = (len + 3) & !3;
    w.tag("wOF2").u32(flavor).u32(padded as u32).u16(num_tables).u16(0).u32(total_sfnt_size).u32(compressed.len() as u32);
    w.u16(1).u16(0); // major, minor
    w.u32(0).u32(0).u32(0); // meta
    w.u32(0).u32(0); // private
    w.bytes(dir).bytes(coll).bytes(compressed);
    w.pad4();
    w.done()
}

// ---- whole fonts --------------------------------------------------------------------------------

#[derive(Clone, Debug)]
pub struct SrcFont {
    pub flavor: u32,
    pub tables: Vec<(u32, Vec<u8>)>,
}

impl SrcFont {
    pub fn get(&self, tag: &str) -> Option<&Vec<u8>> {
        let t = tag_u32(tag);
        self.tables.iter().find(|x| x.0 == t).map(|x| &x.1)
    }
}

/// What the encoder did with one font, and what a faithful decoder must hand back.
#[derive(Clone, Debug, Default)]
pub struct FontInfo {
    pub glyf_transformed: bool,
    /// flag byte of the transformed hmtx, 0 when hmtx is stored as is
    pub hmtx_flags: u8,
    pub n: usize,
    pub nhm: usize,
    /// head.indexToLocFormat of the source font
    pub src_loca_long: bool,
    /// glyph records of the source (only when the glyf table could be read)
    pub recs: Vec<GlyphRec>,
    pub per: Vec<GlyphStreams>,
    pub xglyf: Vec<u8>,
    pub xhmtx: Vec<u8>,
    /// glyphs whose first flag carries OVERLAP_SIMPLE in the source glyf
    pub overlap_bits: Vec<bool>,
    pub adv: Vec<u16>,
    pub lsb: Vec<i16>,
    /// tables as a decoder must reproduce them (head with bit 11 set when glyf is transformed)
    pub expect: Vec<(u32, Vec<u8>)>,
    /// why a requested transform was not applied
    pub note: String,
}

pub struct Encoded {
    pub bytes: Vec<u8>,
    pub num_tables: usize,
    pub dir: Vec<u8>,
    pub coll: Vec<u8>,
    pub is_collection: bool,
    pub fonts: Vec<FontInfo>,
    /// expected directory: (tag, offset, origLength, transformLength or -1)
    pub entries: Vec<(u32, u32, u32, i64)>,
    pub font_idx: Vec<Vec<u16>>,
}

struct Prepared {
    info: FontInfo,
    /// (tag, version, origLength, transformLength, stored bytes, original bytes)
    tabs: Vec<(u32, u8, u32, Option<u32>, Vec<u8>, Vec<u8>)>,
}

fn prepare(src: &SrcFont, ch: &Choices, member: usize, rng: &mut StdRng) -> Prepared {
    let eff_glyf = ch.fgt.get(member).copied().unwrap_or(ch.glyf);
    let eff_hmtx = ch.fhf.get(member).copied().unwrap_or(ch.hmtx);
    let mut info = FontInfo::default();
    let mut xglyf: Option<Vec<u8>> = None;
    let mut xhmtx: Option<Vec<u8>> = None;
    let has_tt = src.get("glyf").is_some() && src.get("loca").is_some();
    if has_tt {
        let r = (|| -> Result<(), String> {
            let head = src.get("head").ok_or("no head")?;
            let maxp = src.get("maxp").ok_or("no maxp")?;
            let long = be16(head, 50).ok_or("short head")? != 0;
            let n = be16(maxp, 4).ok_or("short maxp")? as usize;
            info.n = n;
            info.src_loca_long = long;
            let glyf = src.get("glyf").unwrap();
            let loca = src.get("loca").unwrap();
            let rd = glyph::read_glyf(glyf, loca, long, n)?;
            if !rd.monotone || !rd.within {
                return Err("loca not monotone / outside glyf".into());
            }
            info.overlap_bits = glyph::overlap_bits(glyf, loca, long, n)?;
            let mut recs = Vec::with_capacity(n);
            for (g, r) in rd.glyphs.into_iter().enumerate() {
                recs.push(r.map_err(|e| format!("glyph {}: {}", g, e))?);
            }
            info.recs = recs;
            if let (Some(hhea), Some(hmtx)) = (src.get("hhea"), src.get("hmtx")) {
                let nhm = be16(hhea, 34).ok_or("short hhea")? as usize;
                if let Ok((adv, lsb)) = glyph::read_hmtx(hmtx, n, nhm) {
                    info.nhm = nhm;
                    info.adv = adv;
                    info.lsb = lsb;
                }
            }
            Ok(())
        })();
        match r {
            Err(e) => info.note = format!("glyf not transformable: {}", e),
            Ok(()) => {
                if eff_glyf == 0 {
                    let head = src.get("head").unwrap();
                    let fmt = be16(head, 50).unwrap();
                    info.per = info.recs.iter().map(|g| encode_glyph_streams(g, ch, rng)).collect();
                    let t = glyf_table_bytes(&info.per, fmt, if ch.overlap { Some(&info.overlap_bits[..]) } else { None });
                    info.xglyf = t.clone();
                    xglyf = Some(t);
                    info.glyf_transformed = true;
                    // hmtx transform: only the bits whose arrays really are redundant
                    let hmtx_len_exact = src.get("hmtx").map(|h| info.nhm > 0 && h.len() == 4 * info.nhm + 2 * (info.n - info.nhm)).unwrap_or(false);
                    if eff_hmtx != 0 && hmtx_len_exact {
                        let xm: Vec<i16> = info.recs.iter().map(|g| g.x_min()).collect();
                        let mut allowed = 0u8;
                        if (0..info.nhm).all(|g| info.lsb[g] == xm[g]) {
                            allowed |= 1;
                        }
                        if (info.nhm..info.n).all(|g| info.lsb[g] == xm[g]) {
                            allowed |= 2;
                        }
                        let flags = eff_hmtx & allowed;
                        if flags != 0 {
                            let t = enc_hmtx(flags, info.n, info.nhm, &info.adv, &info.lsb);
                            info.hmtx_flags = flags;
                            info.xhmtx = t.clone();
                            xhmtx = Some(t);
                        } else {
                            info.note = "hmtx transform not applicable: side bearings differ from xMin".into();
                        }
                    }
                }
            }
        }
    }
    let mut tabs = Vec::new();
    for (tag, data) in &src.tables {
        let tg = vh::fontgen::tag_str(*tag);
        let mut orig = data.clone();
        if tg == "head" && info.glyf_transformed && orig.len() >= 18 {
            orig[16] |= 0x08; // flags bit 11: the font went through a lossless modifying transform
        }
        let t = match tg.as_str() {
            "glyf" if has_tt => match &xglyf {
                Some(x) => (*tag, 0u8, data.len() as u32, Some(x.len() as u32), x.clone(), orig.clone()),
                None => (*tag, 3u8, data.len() as u32, None, data.clone(), orig.clone()),
            },
            "loca" if has_tt => match &xglyf {
                Some(_) => (*tag, 0u8, data.len() as u32, Some(0u32), vec![], orig.clone()),
                None => (*tag, 3u8, data.len() as u32, None, data.clone(), orig.clone()),
            },
            "hmtx" => match &xhmtx {
                Some(x) => (*tag, 1u8, data.len() as u32, Some(x.len() as u32), x.clone(), orig.clone()),
                None => (*tag, 0u8, data.len() as u32, None, data.clone(), orig.clone()),
            },
            _ => (*tag, 0u8, orig.len() as u32, None, orig.clone(), orig.clone()),
        };
        info.expect.push((*tag, orig));
        tabs.push(t);
    }
    Prepared { info, tabs }
}

/// Encode one font, or several as a collection (tables with identical content are shared; a
/// glyf table and its loca are one unit and always adjacent, glyf first).
pub fn encode_woff2(fonts: &[SrcFont], ch: &Choices, rng: &mut StdRng) -> Encoded {
    let prepared: Vec<Prepared> = fonts.iter().enumerate().map(|(k, f)| prepare(f, ch, k, rng)).collect();
    let glyf_t = tag_u32("glyf");
    let loca_t = tag_u32("loca");
    // units: Vec of member tables (stored form + original bytes as identity)
    type Tab = (u32, u8, u32, Option<u32>, Vec<u8>, Vec<u8>);
    let mut units: Vec<Vec<Tab>> = Vec::new();
    let mut font_units: Vec<Vec<usize>> = Vec::new();
    for p in &prepared {
        let mut mine = Vec::new();
        let mut done_pair = false;
        for t in &p.tabs {
            let unit: Vec<Tab> = if t.0 == glyf_t || t.0 == loca_t {
                let g = p.tabs.iter().find(|x| x.0 == glyf_t);
                let l = p.tabs.iter().find(|x| x.0 == loca_t);
                match (g, l) {
                    (Some(g), Some(l)) => {
                        if done_pair {
                            continue;
                        }
                        done_pair = true;
                        vec![g.clone(), l.clone()]
                    }
                    _ => vec![t.clone()],
                }
            } else {
                vec![t.clone()]
            };
            let pos = units.iter().position(|u| {
                u.len() == unit.len() && u.iter().zip(unit.iter()).all(|(a, b)| a.0 == b.0 && a.1 == b.1 && a.5 == b.5 && a.4 == b.4)
            });
            let k = match pos {
                Some(k) => k,
                None => {
                    units.push(unit);
                    units.len() - 1
                }
            };
            mine.push(k);
        }
        font_units.push(mine);
    }
    let mut order: Vec<usize> = (0..units.len()).collect();
    match ch.order.as_str() {
        "bytag" => order.sort_by_key(|&k| (units[k][0].0, k)),
        "reverse" => order.reverse(),
        _ => {}
    }
    // directory
    let mut tables: Vec<DirTable> = Vec::new();
    let mut unit_first_index = vec![0usize; units.len()];
    for &k in &order {
        unit_first_index[k] = tables.len();
        for t in &units[k] {
            let tg = vh::fontgen::tag_str(t.0);
            let special = matches!(tg.as_str(), "glyf" | "loca" | "hmtx");
            tables.push(DirTable {
                tag: t.0,
                explicit: (ch.tags == "explicit" && !special) || ch.tags == "explicitall",
                ver: t.1,
                orig_len: t.2,
                tlen: t.3,
                data: t.4.clone(),
            });
        }
    }
    let mut dir = Vec::new();
    let mut block = Vec::new();
    let mut entries = Vec::new();
    for t in &tables {
        dir.extend(dir_entry_bytes(t));
        entries.push((t.tag, block.len() as u32, t.orig_len, t.tlen.map(|x| x as i64).unwrap_or(-1)));
        block.extend_from_slice(&t.data);
    }
    let is_collection = fonts.len() > 1;
    let mut font_idx: Vec<Vec<u16>> = Vec::new();
    for fu in &font_units {
        let mut idx = Vec::new();
        for &k in fu {
            for m in 0..units[k].len() {
                idx.push((unit_first_index[k] + m) as u16);
            }
        }
        idx.sort();
        font_idx.push(idx);
    }
    let coll = if is_collection {
        let cf: Vec<CollFont> = fonts.iter().zip(font_idx.iter()).map(|(f, idx)| CollFont { flavor: f.flavor, idx: idx.clone() }).collect();
        collection_bytes(0x00010000, &cf, &ch.u16p, rng)
    } else {
        vec![]
    };
    let compressed = brotli::stored(&block, ch.chunk);
    let pad4 = |x: usize| (x + 3) & !3;
    let mut total = if is_collection { 12 + 4 * fonts.len() } else { 0 };
    for idx in &font_idx {
        total += 12 + 16 * idx.len();
    }
    for t in &tables {
        total += pad4(t.orig_len as usize);
    }
    let flavor = if is_collection { tag_u32("ttcf") } else { fonts[0].flavor };
    let bytes = file_bytes_meta(flavor, tables.len() as u16, &dir, &coll, &compressed, total as u32, ch.meta);
    Encoded {
        bytes,
        num_tables: tables.len(),
        dir,
        coll,
        is_collection,
        fonts: prepared.into_iter().map(|p| p.info).collect(),
        entries,
        font_idx,
    }
}

/// Low-level assembly of a single-font file from ready-made directory tables (used for the
/// triplet vectors and the directory cases, where the stored bytes come from the specification).
pub fn assemble_single(tables: &[DirTable], flavor: u32, chunk: usize) -> Vec<u8> {
    let mut dir = Vec::new();
    let mut block = Vec::new();
    let mut total = 12 + 16 * tables.len();
    for t in tables {
        dir.extend(dir_entry_bytes(t));
        block.extend_from_slice(&t.data);
        total += (t.orig_len as usize + 3) & !3;
    }
    let compressed = brotli::stored(&block, chunk);
    file_bytes(flavor, tables.len() as u16, &dir, &[], &compressed, total as u32)
}
